//! C12 — Pinocchio port ≡ Anchor implementation (differentials on identical symbolic bytes).
//!
//! Layout of this file
//!   §0 helpers (views over raw bytes, Anchor decode/encode, local uninterpreted-function stubs)
//!   §1 memory-mapped views vs Anchor account types (read with one, write with the other)
//!   §2 ported manager functions vs their Anchor originals
//!   §3 twin
use crate::common::*;
use anchor_lang::{AccountDeserialize, AccountSerialize, AnchorDeserialize, AnchorSerialize, Discriminator};
use ::whirlpool::errors::ErrorCode;
use ::whirlpool::manager::liquidity_manager::*;
use ::whirlpool::manager::position_manager::next_position_modify_liquidity_update;
use ::whirlpool::manager::tick_array_manager::{
    calculate_modify_tick_array, TickArrayRentTransfer, TickArraySizeUpdate, TickArrayUpdate,
};
use ::whirlpool::manager::tick_manager::*;
use ::whirlpool::manager::whirlpool_manager::{next_whirlpool_liquidity, next_whirlpool_reward_infos};
use ::whirlpool::pinocchio::ported::manager_liquidity_manager::*;
use ::whirlpool::pinocchio::state::whirlpool::tick_array::TickUpdate as PTickUpdate;
use ::whirlpool::pinocchio::state::whirlpool::{
    MemoryMappedPosition, MemoryMappedTick, MemoryMappedWhirlpool,
};
use ::whirlpool::pinocchio::state::WhirlpoolProgramAccount;
use ::whirlpool::state::*;

// ---------------------------------------------------------------------------------------------
// §0 helpers

pub fn tick_from_bytes(b: &[u8; 113]) -> Tick {
    // Anchor zero-copy view of a tick (packed, 113 bytes)
    assert!(b[0] <= 1);
    unsafe { core::ptr::read_unaligned(b.as_ptr() as *const Tick) }
}
pub fn mtick(b: &[u8; 113]) -> &MemoryMappedTick {
    unsafe { &*(b.as_ptr() as *const MemoryMappedTick) }
}
pub fn mtick_mut(b: &mut [u8; 113]) -> &mut MemoryMappedTick {
    unsafe { &mut *(b.as_mut_ptr() as *mut MemoryMappedTick) }
}
pub fn any_tick_bytes() -> [u8; 113] {
    let b: [u8; 113] = kani::any();
    kani::assume(b[0] <= 1); // `initialized` is a bool in every account the program writes
    b
}
pub fn any_rewards() -> [WhirlpoolRewardInfo; 3] {
    let mut r = [WhirlpoolRewardInfo::default(); 3];
    for i in 0..3 {
        r[i].growth_global_x64 = kani::any();
        r[i].emissions_per_second_x64 = kani::any();
        let m: [u8; 32] = kani::any();
        r[i].mint = anchor_lang::prelude::Pubkey::new_from_array(m);
    }
    r
}
fn same_update(a: &TickUpdate, p: &PTickUpdate) -> bool {
    a.initialized == p.initialized
        && a.liquidity_net == p.liquidity_net
        && a.liquidity_gross == p.liquidity_gross
        && a.fee_growth_outside_a == p.fee_growth_outside_a
        && a.fee_growth_outside_b == p.fee_growth_outside_b
        && a.reward_growths_outside[0] == p.reward_growths_outside[0]
        && a.reward_growths_outside[1] == p.reward_growths_outside[1]
        && a.reward_growths_outside[2] == p.reward_growths_outside[2]
}
fn any_tick_updates() -> (TickUpdate, PTickUpdate) {
    let a = TickUpdate {
        initialized: kani::any(),
        liquidity_net: kani::any(),
        liquidity_gross: kani::any(),
        fee_growth_outside_a: kani::any(),
        fee_growth_outside_b: kani::any(),
        reward_growths_outside: [kani::any(), kani::any(), kani::any()],
    };
    let p = PTickUpdate {
        initialized: a.initialized,
        liquidity_net: a.liquidity_net,
        liquidity_gross: a.liquidity_gross,
        fee_growth_outside_a: a.fee_growth_outside_a,
        fee_growth_outside_b: a.fee_growth_outside_b,
        reward_growths_outside: a.reward_growths_outside,
    };
    (a, p)
}
fn any_position_update() -> PositionUpdate {
    let mut u = PositionUpdate::default();
    u.liquidity = kani::any();
    u.fee_growth_checkpoint_a = kani::any();
    u.fee_owed_a = kani::any();
    u.fee_growth_checkpoint_b = kani::any();
    u.fee_owed_b = kani::any();
    for i in 0..3 {
        u.reward_infos[i].growth_inside_checkpoint = kani::any();
        u.reward_infos[i].amount_owed = kani::any();
    }
    u
}

/// 32-byte equality without a loop (keeps the unwinding bound independent of key compares in the harness)
fn eq32(a: &[u8; 32], b: &[u8; 32]) -> bool {
    let a0 = u128::from_le_bytes(*arrayref(a, 0));
    let a1 = u128::from_le_bytes(*arrayref(a, 16));
    let b0 = u128::from_le_bytes(*arrayref(b, 0));
    let b1 = u128::from_le_bytes(*arrayref(b, 16));
    a0 == b0 && a1 == b1
}
fn arrayref(a: &[u8; 32], off: usize) -> &[u8; 16] {
    unsafe { &*(a.as_ptr().add(off) as *const [u8; 16]) }
}

pub const WP_LEN: usize = 653;
pub const POS_LEN: usize = 216;

/// 653 symbolic bytes carrying the Anchor `Whirlpool` discriminator
pub fn any_wp_bytes() -> [u8; WP_LEN] {
    let mut b: [u8; WP_LEN] = kani::any();
    let d = Whirlpool::DISCRIMINATOR;
    let mut i = 0;
    while i < 8 {
        b[i] = d[i];
        i += 1;
    }
    b
}
/// 216 symbolic bytes carrying the Anchor `Position` discriminator
pub fn any_pos_bytes() -> [u8; POS_LEN] {
    let mut b: [u8; POS_LEN] = kani::any();
    let d = Position::DISCRIMINATOR;
    let mut i = 0;
    while i < 8 {
        b[i] = d[i];
        i += 1;
    }
    b
}
pub fn wp_view(b: &[u8; WP_LEN]) -> &MemoryMappedWhirlpool {
    assert!(core::mem::size_of::<MemoryMappedWhirlpool>() == WP_LEN);
    unsafe { &*(b.as_ptr() as *const MemoryMappedWhirlpool) }
}
pub fn wp_view_mut(b: &mut [u8; WP_LEN]) -> &mut MemoryMappedWhirlpool {
    unsafe { &mut *(b.as_mut_ptr() as *mut MemoryMappedWhirlpool) }
}
pub fn pos_view(b: &[u8; POS_LEN]) -> &MemoryMappedPosition {
    assert!(core::mem::size_of::<MemoryMappedPosition>() == POS_LEN);
    unsafe { &*(b.as_ptr() as *const MemoryMappedPosition) }
}
pub fn pos_view_mut(b: &mut [u8; POS_LEN]) -> &mut MemoryMappedPosition {
    unsafe { &mut *(b.as_mut_ptr() as *mut MemoryMappedPosition) }
}
/// Anchor decode (discriminator check + Borsh), as `Account<Whirlpool>` does on load
pub fn wp_decode(b: &[u8; WP_LEN]) -> Whirlpool {
    let r = Whirlpool::try_deserialize(&mut &b[..]);
    match r {
        Ok(w) => w,
        Err(e) => {
            core::mem::forget(e);
            panic!("whirlpool bytes must decode")
        }
    }
}
pub fn pos_decode(b: &[u8; POS_LEN]) -> Position {
    let r = Position::try_deserialize(&mut &b[..]);
    match r {
        Ok(w) => w,
        Err(e) => {
            core::mem::forget(e);
            panic!("position bytes must decode")
        }
    }
}
/// Anchor encode (discriminator + Borsh), as `Account<Whirlpool>::exit` does
pub fn wp_encode(w: &Whirlpool) -> [u8; WP_LEN] {
    let mut out = [0u8; WP_LEN];
    let mut cur: &mut [u8] = &mut out[..];
    let r = w.try_serialize(&mut cur);
    let ok = r.is_ok();
    let rest = cur.len();
    core::mem::forget(r);
    assert!(ok && rest == 0, "whirlpool must serialize to exactly 653 bytes");
    out
}
pub fn pos_encode(p: &Position) -> [u8; POS_LEN] {
    let mut out = [0u8; POS_LEN];
    let mut cur: &mut [u8] = &mut out[..];
    let r = p.try_serialize(&mut cur);
    let ok = r.is_ok();
    let rest = cur.len();
    core::mem::forget(r);
    assert!(ok && rest == 0, "position must serialize to exactly 216 bytes");
    out
}

/// exact-at-zero wrapper around the uninterpreted `checked_mul_div` (n0*n1/d with a zero factor is 0):
/// the Pinocchio port skips the call when emissions are 0, the Anchor code performs it.
fn stub_mul_div_z(n0: u128, n1: u128, d: u128) -> Result<u128, ErrorCode> {
    if d == 0 {
        return Err(ErrorCode::DivideByZero);
    }
    if n0 == 0 || n1 == 0 {
        return Ok(0);
    }
    memo::stub_checked_mul_div(n0, n1, d)
}

// ---------------------------------------------------------------------------------------------
// §1 memory-mapped views vs Anchor account types

/// MemoryMappedWhirlpool: every getter (and `seeds`, reward-info getters, `initialized`) returns what
/// `Whirlpool::try_deserialize` decodes from the same 653 bytes; discriminator constants agree
// @verif prop=C12 tier=quick timeout=300
#[kani::proof]
#[kani::unwind(34)]
#[kani::stub(alloc::fmt::format, stub_format)]
#[kani::stub(<anchor_lang::error::Error as core::convert::From<anchor_lang::error::ErrorCode>>::from, stub_err_from_anchor_code)]
#[kani::stub(<anchor_lang::error::Error as core::convert::From<::whirlpool::errors::ErrorCode>>::from, stub_err_from_code)]
fn c12_view_whirlpool_read() {
    let bytes = any_wp_bytes();
    let w = wp_decode(&bytes);
    let v = wp_view(&bytes);
    assert!(<MemoryMappedWhirlpool as WhirlpoolProgramAccount>::DISCRIMINATOR[..] == *Whirlpool::DISCRIMINATOR);
    assert!(v.tick_spacing() == w.tick_spacing);
    assert!(v.liquidity() == w.liquidity);
    assert!(v.sqrt_price() == w.sqrt_price);
    assert!(v.tick_current_index() == w.tick_current_index);
    assert!(eq32(v.token_mint_a(), &w.token_mint_a.to_bytes()));
    assert!(eq32(v.token_mint_b(), &w.token_mint_b.to_bytes()));
    assert!(eq32(v.token_vault_a(), &w.token_vault_a.to_bytes()));
    assert!(eq32(v.token_vault_b(), &w.token_vault_b.to_bytes()));
    assert!(v.fee_growth_global_a() == w.fee_growth_global_a);
    assert!(v.fee_growth_global_b() == w.fee_growth_global_b);
    assert!(v.reward_last_updated_timestamp() == w.reward_last_updated_timestamp);
    let ri = v.reward_infos();
    let mut i = 0;
    while i < 3 {
        assert!(eq32(ri[i].mint(), &w.reward_infos[i].mint.to_bytes()));
        assert!(eq32(ri[i].vault(), &w.reward_infos[i].vault.to_bytes()));
        assert!(eq32(ri[i].extension(), &w.reward_infos[i].extension));
        assert!(ri[i].emissions_per_second_x64() == w.reward_infos[i].emissions_per_second_x64);
        assert!(ri[i].growth_global_x64() == w.reward_infos[i].growth_global_x64);
        assert!(ri[i].initialized() == w.reward_infos[i].initialized());
        i += 1;
    }
    // PDA signer seeds: same six byte strings
    let ps = v.seeds();
    let as_ = w.seeds();
    let k: usize = kani::any();
    kani::assume(k < 6);
    assert!(ps[k].len() == as_[k].len());
    let j: usize = kani::any();
    kani::assume(j < as_[k].len());
    assert!(ps[k][j] == as_[k][j]);
    kani::cover!(ri[1].initialized() && !ri[2].initialized(), "mixed reward initialisation");
}

/// MemoryMappedWhirlpool::update_liquidity_and_reward_growth_global writes exactly the bytes that
/// Anchor decode → Whirlpool::update_rewards_and_liquidity → Anchor encode produces (all 653 bytes)
// @verif prop=C12 tier=quick timeout=300
#[kani::proof]
#[kani::unwind(34)]
#[kani::stub(alloc::fmt::format, stub_format)]
#[kani::stub(<anchor_lang::error::Error as core::convert::From<anchor_lang::error::ErrorCode>>::from, stub_err_from_anchor_code)]
#[kani::stub(<anchor_lang::error::Error as core::convert::From<::whirlpool::errors::ErrorCode>>::from, stub_err_from_code)]
fn c12_view_whirlpool_write() {
    let bytes = any_wp_bytes();
    let liq: u128 = kani::any();
    let g: [u128; 3] = [kani::any(), kani::any(), kani::any()];
    let ts: u64 = kani::any();
    let k: usize = kani::any();
    kani::assume(k < WP_LEN);
    // Pinocchio write
    let mut pb = bytes;
    wp_view_mut(&mut pb).update_liquidity_and_reward_growth_global(liq, &g, ts);
    // Anchor write
    let mut w = wp_decode(&bytes);
    let mut infos = w.reward_infos;
    infos[0].growth_global_x64 = g[0];
    infos[1].growth_global_x64 = g[1];
    infos[2].growth_global_x64 = g[2];
    w.update_rewards_and_liquidity(infos, liq, ts);
    let ab = wp_encode(&w);
    assert!(pb[k] == ab[k]);
    // and read back across: Anchor decodes what Pinocchio wrote
    let w2 = wp_decode(&pb);
    assert!(w2.liquidity == liq && w2.reward_last_updated_timestamp == ts);
    assert!(w2.reward_infos[0].growth_global_x64 == g[0]);
    assert!(w2.reward_infos[1].growth_global_x64 == g[1]);
    assert!(w2.reward_infos[2].growth_global_x64 == g[2]);
    // Pinocchio reads what Anchor wrote
    let v2 = wp_view(&ab);
    assert!(v2.liquidity() == liq && v2.reward_last_updated_timestamp() == ts);
    assert!(v2.reward_infos()[2].growth_global_x64() == g[2]);
    kani::cover!(pb[k] != bytes[k], "a byte changed");
}

/// MemoryMappedPosition: every getter returns what `Position::try_deserialize` decodes from the same 216 bytes
// @verif prop=C12 tier=quick timeout=300
#[kani::proof]
#[kani::unwind(34)]
#[kani::stub(alloc::fmt::format, stub_format)]
#[kani::stub(<anchor_lang::error::Error as core::convert::From<anchor_lang::error::ErrorCode>>::from, stub_err_from_anchor_code)]
#[kani::stub(<anchor_lang::error::Error as core::convert::From<::whirlpool::errors::ErrorCode>>::from, stub_err_from_code)]
fn c12_view_position_read() {
    let bytes = any_pos_bytes();
    let p = pos_decode(&bytes);
    let v = pos_view(&bytes);
    assert!(<MemoryMappedPosition as WhirlpoolProgramAccount>::DISCRIMINATOR[..] == *Position::DISCRIMINATOR);
    assert!(eq32(v.whirlpool(), &p.whirlpool.to_bytes()));
    assert!(eq32(v.position_mint(), &p.position_mint.to_bytes()));
    assert!(v.liquidity() == p.liquidity);
    assert!(v.tick_lower_index() == p.tick_lower_index);
    assert!(v.tick_upper_index() == p.tick_upper_index);
    assert!(v.fee_growth_checkpoint_a() == p.fee_growth_checkpoint_a);
    assert!(v.fee_owed_a() == p.fee_owed_a);
    assert!(v.fee_growth_checkpoint_b() == p.fee_growth_checkpoint_b);
    assert!(v.fee_owed_b() == p.fee_owed_b);
    let ri = v.reward_infos();
    let mut i = 0;
    while i < 3 {
        assert!(ri[i].growth_inside_checkpoint() == p.reward_infos[i].growth_inside_checkpoint);
        assert!(ri[i].amount_owed() == p.reward_infos[i].amount_owed);
        i += 1;
    }
    kani::cover!(v.liquidity() != 0 && v.tick_lower_index() < v.tick_upper_index(), "plausible position");
}

/// MemoryMappedPosition::update writes exactly the bytes of Anchor decode → Position::update → Anchor encode
// @verif prop=C12 tier=quick timeout=300
#[kani::proof]
#[kani::unwind(34)]
#[kani::stub(alloc::fmt::format, stub_format)]
#[kani::stub(<anchor_lang::error::Error as core::convert::From<anchor_lang::error::ErrorCode>>::from, stub_err_from_anchor_code)]
#[kani::stub(<anchor_lang::error::Error as core::convert::From<::whirlpool::errors::ErrorCode>>::from, stub_err_from_code)]
fn c12_view_position_update() {
    let bytes = any_pos_bytes();
    let u = any_position_update();
    let k: usize = kani::any();
    kani::assume(k < POS_LEN);
    let mut pb = bytes;
    pos_view_mut(&mut pb).update(&u);
    let mut p = pos_decode(&bytes);
    p.update(&u);
    let ab = pos_encode(&p);
    assert!(pb[k] == ab[k]);
    // read back across
    let p2 = pos_decode(&pb);
    assert!(p2.liquidity == u.liquidity && p2.fee_owed_a == u.fee_owed_a && p2.fee_owed_b == u.fee_owed_b);
    assert!(p2.reward_infos[0] == u.reward_infos[0]);
    assert!(p2.reward_infos[1] == u.reward_infos[1]);
    assert!(p2.reward_infos[2] == u.reward_infos[2]);
    let v2 = pos_view(&ab);
    assert!(v2.liquidity() == u.liquidity);
    assert!(v2.fee_growth_checkpoint_a() == u.fee_growth_checkpoint_a);
    assert!(v2.fee_growth_checkpoint_b() == u.fee_growth_checkpoint_b);
    assert!(v2.reward_infos()[2].amount_owed() == u.reward_infos[2].amount_owed);
    assert!(v2.reward_infos()[1].growth_inside_checkpoint() == u.reward_infos[1].growth_inside_checkpoint);
    kani::cover!(pb[k] != bytes[k], "a byte changed");
}

/// MemoryMappedTick getters ≡ zero-copy `Tick` fields on the same 113 bytes; MemoryMappedTick::update writes
/// exactly the bytes `Tick::update` writes
// @verif prop=C12 tier=quick timeout=300
#[kani::proof]
#[kani::unwind(5)]
#[kani::stub(alloc::fmt::format, stub_format)]
fn c12_view_tick_read_write() {
    let bytes = any_tick_bytes();
    let (au, pu) = any_tick_updates();
    let k: usize = kani::any();
    kani::assume(k < 113);
    assert!(core::mem::size_of::<MemoryMappedTick>() == 113 && core::mem::size_of::<Tick>() == 113);
    let t = tick_from_bytes(&bytes);
    let v = mtick(&bytes);
    assert!(v.initialized() == t.initialized);
    assert!(v.liquidity_net() == { t.liquidity_net });
    assert!(v.liquidity_gross() == { t.liquidity_gross });
    assert!(v.fee_growth_outside_a() == { t.fee_growth_outside_a });
    assert!(v.fee_growth_outside_b() == { t.fee_growth_outside_b });
    let r = v.reward_growths_outside();
    let tr = { t.reward_growths_outside };
    assert!(r[0] == tr[0] && r[1] == tr[1] && r[2] == tr[2]);
    // write
    let mut pb = bytes;
    mtick_mut(&mut pb).update(&pu);
    let mut t2 = t;
    t2.update(&au);
    let ab: [u8; 113] = unsafe { core::mem::transmute(t2) };
    assert!(pb[k] == ab[k]);
    kani::cover!(pb[k] != bytes[k], "a byte changed");
}

// ---------------------------------------------------------------------------------------------
// §2 ported functions vs Anchor originals

/// pino_next_tick_modify_liquidity_update ≡ next_tick_modify_liquidity_update on all 113-byte ticks and arguments
// @verif prop=C12 tier=quick timeout=300
#[kani::proof]
#[kani::unwind(5)]
#[kani::stub(alloc::fmt::format, stub_format)]
#[kani::stub(<anchor_lang::error::Error as core::convert::From<::whirlpool::errors::ErrorCode>>::from, stub_err_from_code)]
#[kani::stub(<::whirlpool::pinocchio::errors::UnifiedError as core::convert::From<::whirlpool::errors::ErrorCode>>::from, stub_unified_from_code)]
fn c12_tick_modify_equiv() {
    let bytes: [u8; 113] = kani::any();
    kani::assume(bytes[0] <= 1); // `initialized` is a bool in every account the program writes
    let tick_index: i32 = kani::any();
    let cur: i32 = kani::any();
    let ga: u128 = kani::any();
    let gb: u128 = kani::any();
    let rewards = any_rewards();
    let growths = [
        rewards[0].growth_global_x64,
        rewards[1].growth_global_x64,
        rewards[2].growth_global_x64,
    ];
    let delta: i128 = kani::any();
    let upper: bool = kani::any();
    let t = tick_from_bytes(&bytes);
    let a = next_tick_modify_liquidity_update(&t, tick_index, cur, ga, gb, &rewards, delta, upper);
    let p = pino_next_tick_modify_liquidity_update(mtick(&bytes), tick_index, cur, ga, gb, &growths, delta, upper);
    kani::cover!(a.is_ok() && delta != 0, "ok with change");
    kani::cover!(a.is_err(), "err");
    match (&a, &p) {
        (Ok(x), Ok(y)) => assert!(same_update(x, y)),
        (Err(x), Err(y)) => assert!(ecode(*x) == ucode(y)),
        _ => assert!(false, "outcome kind differs"),
    }
    core::mem::forget(p);
}

/// pino_next_fee_growths_inside ≡ next_fee_growths_inside on all pairs of 113-byte ticks, indexes and globals
// @verif prop=C12 tier=quick timeout=300
#[kani::proof]
#[kani::unwind(5)]
#[kani::stub(alloc::fmt::format, stub_format)]
fn c12_fee_growths_inside_equiv() {
    let lb = any_tick_bytes();
    let ub = any_tick_bytes();
    let cur: i32 = kani::any();
    let li: i32 = kani::any();
    let ui: i32 = kani::any();
    let ga: u128 = kani::any();
    let gb: u128 = kani::any();
    let a = next_fee_growths_inside(cur, &tick_from_bytes(&lb), li, &tick_from_bytes(&ub), ui, ga, gb);
    let p = pino_next_fee_growths_inside(cur, mtick(&lb), li, mtick(&ub), ui, ga, gb);
    assert!(a.0 == p.0 && a.1 == p.1);
    kani::cover!(lb[0] == 1 && ub[0] == 1 && cur >= li && cur < ui && a.0 != 0, "inside range, both initialised");
    kani::cover!(lb[0] == 1 && cur < li, "below range");
    kani::cover!(ub[0] == 1 && cur >= ui, "above range");
}

/// pino_next_reward_growths_inside ≡ next_reward_growths_inside: reward infos taken from the same 653 whirlpool
/// bytes (Pinocchio: view + separate next-growth array; Anchor: decoded infos with the growths replaced)
// @verif prop=C12 tier=quick timeout=300
#[kani::proof]
#[kani::unwind(34)]
#[kani::stub(alloc::fmt::format, stub_format)]
#[kani::stub(<anchor_lang::error::Error as core::convert::From<anchor_lang::error::ErrorCode>>::from, stub_err_from_anchor_code)]
#[kani::stub(<anchor_lang::error::Error as core::convert::From<::whirlpool::errors::ErrorCode>>::from, stub_err_from_code)]
fn c12_reward_growths_inside_equiv() {
    let wb = any_wp_bytes();
    let lb = any_tick_bytes();
    let ub = any_tick_bytes();
    let cur: i32 = kani::any();
    let li: i32 = kani::any();
    let ui: i32 = kani::any();
    let next: [u128; 3] = [kani::any(), kani::any(), kani::any()];
    let w = wp_decode(&wb);
    let mut infos = w.reward_infos;
    infos[0].growth_global_x64 = next[0];
    infos[1].growth_global_x64 = next[1];
    infos[2].growth_global_x64 = next[2];
    let a = next_reward_growths_inside(cur, &tick_from_bytes(&lb), li, &tick_from_bytes(&ub), ui, &infos);
    let p = pino_next_reward_growths_inside(cur, mtick(&lb), li, mtick(&ub), ui, wp_view(&wb).reward_infos(), &next);
    assert!(a[0] == p[0] && a[1] == p[1] && a[2] == p[2]);
    kani::cover!(a[0] != 0 && a[1] == 0 && a[2] != 0, "initialised / uninitialised rewards mixed");
}

/// verif_pino_next_position_modify_liquidity_update ≡ next_position_modify_liquidity_update on all 216-byte
/// positions; checked_mul_shift_right is the same uninterpreted function on both sides
// @verif prop=C12 tier=quick timeout=300
#[kani::proof]
#[kani::unwind(34)]
#[kani::stub(alloc::fmt::format, stub_format)]
#[kani::stub(<anchor_lang::error::Error as core::convert::From<anchor_lang::error::ErrorCode>>::from, stub_err_from_anchor_code)]
#[kani::stub(<anchor_lang::error::Error as core::convert::From<::whirlpool::errors::ErrorCode>>::from, stub_err_from_code)]
#[kani::stub(<::whirlpool::pinocchio::errors::UnifiedError as core::convert::From<::whirlpool::errors::ErrorCode>>::from, stub_unified_from_code)]
#[kani::stub(::whirlpool::math::bit_math::checked_mul_shift_right, memo::stub_checked_mul_shift_right)]
fn c12_position_modify_equiv() {
    let pb = any_pos_bytes();
    let delta: i128 = kani::any();
    let fa: u128 = kani::any();
    let fb: u128 = kani::any();
    let rg: [u128; 3] = [kani::any(), kani::any(), kani::any()];
    let pos = pos_decode(&pb);
    let a = next_position_modify_liquidity_update(&pos, delta, fa, fb, &rg);
    let p = verif_pino_next_position_modify_liquidity_update(pos_view(&pb), delta, fa, fb, &rg);
    kani::cover!(a.is_ok() && delta != 0, "ok with change");
    kani::cover!(a.is_err(), "err");
    match (&a, &p) {
        (Ok(x), Ok(y)) => {
            assert!(x == y);
            kani::cover!(x.fee_owed_a != pos.fee_owed_a && x.reward_infos[2].amount_owed != pos.reward_infos[2].amount_owed, "fees and rewards accrue");
        }
        (Err(x), Err(y)) => assert!(ecode(*x) == ucode(y)),
        _ => assert!(false, "outcome kind differs"),
    }
    core::mem::forget(p);
}

/// verif_pino_next_whirlpool_liquidity ≡ next_whirlpool_liquidity on all 653-byte pools, ranges and deltas
// @verif prop=C12 tier=quick timeout=300
#[kani::proof]
#[kani::unwind(34)]
#[kani::stub(alloc::fmt::format, stub_format)]
#[kani::stub(<anchor_lang::error::Error as core::convert::From<anchor_lang::error::ErrorCode>>::from, stub_err_from_anchor_code)]
#[kani::stub(<anchor_lang::error::Error as core::convert::From<::whirlpool::errors::ErrorCode>>::from, stub_err_from_code)]
#[kani::stub(<::whirlpool::pinocchio::errors::UnifiedError as core::convert::From<::whirlpool::errors::ErrorCode>>::from, stub_unified_from_code)]
fn c12_whirlpool_liquidity_equiv() {
    let wb = any_wp_bytes();
    let up: i32 = kani::any();
    let lo: i32 = kani::any();
    let delta: i128 = kani::any();
    let w = wp_decode(&wb);
    let a = next_whirlpool_liquidity(&w, up, lo, delta);
    let p = verif_pino_next_whirlpool_liquidity(wp_view(&wb), up, lo, delta);
    kani::cover!(a.is_ok() && a != Ok(w.liquidity), "in range, changed");
    kani::cover!(a.is_err(), "err");
    match (&a, &p) {
        (Ok(x), Ok(y)) => assert!(x == y),
        (Err(x), Err(y)) => assert!(ecode(*x) == ucode(y)),
        _ => assert!(false, "outcome kind differs"),
    }
    core::mem::forget(p);
}

/// verif_pino_next_whirlpool_reward_growth_global ≡ growth_global_x64 of next_whirlpool_reward_infos on all
/// 653-byte pools and timestamps. checked_mul_div is one uninterpreted function (exact for a zero factor).
/// Invariant assumed: an uninitialised reward (mint == default) has emissions_per_second_x64 == 0 — emissions are
/// only written by set_reward_emissions(_v2), whose `reward_vault` constraint (a token account at
/// `reward_infos[i].vault`) cannot hold for the all-zero vault key of an uninitialised reward. The Pinocchio
/// port relies on it ("It is same to !reward_info.initialized()").
// @verif prop=C12 tier=quick timeout=300
#[kani::proof]
#[kani::unwind(34)]
#[kani::stub(alloc::fmt::format, stub_format)]
#[kani::stub(<anchor_lang::error::Error as core::convert::From<anchor_lang::error::ErrorCode>>::from, stub_err_from_anchor_code)]
#[kani::stub(<anchor_lang::error::Error as core::convert::From<::whirlpool::errors::ErrorCode>>::from, stub_err_from_code)]
#[kani::stub(<::whirlpool::pinocchio::errors::UnifiedError as core::convert::From<::whirlpool::errors::ErrorCode>>::from, stub_unified_from_code)]
#[kani::stub(::whirlpool::math::bit_math::checked_mul_div, stub_mul_div_z)]
fn c12_reward_growth_global_equiv() {
    let wb = any_wp_bytes();
    let ts: u64 = kani::any();
    let w = wp_decode(&wb);
    let mut i = 0;
    while i < 3 {
        if !w.reward_infos[i].initialized() {
            kani::assume(w.reward_infos[i].emissions_per_second_x64 == 0);
        }
        i += 1;
    }
    let a = next_whirlpool_reward_infos(&w, ts);
    let p = verif_pino_next_whirlpool_reward_growth_global(wp_view(&wb), ts);
    kani::cover!(a.is_ok() && ts > w.reward_last_updated_timestamp && w.liquidity != 0
        && w.reward_infos[0].emissions_per_second_x64 != 0 && w.reward_infos[2].initialized()
        && w.reward_infos[2].emissions_per_second_x64 == 0, "growth accrues; initialised reward with zero emissions");
    kani::cover!(a.is_err(), "err");
    match (&a, &p) {
        (Ok(x), Ok(y)) => {
            assert!(x[0].growth_global_x64 == y[0]);
            assert!(x[1].growth_global_x64 == y[1]);
            assert!(x[2].growth_global_x64 == y[2]);
        }
        (Err(x), Err(y)) => assert!(ecode(*x) == ucode(y)),
        _ => assert!(false, "outcome kind differs"),
    }
    core::mem::forget(p);
}

/// verif_pino_calculate_modify_tick_array ≡ calculate_modify_tick_array (rent-transfer and realloc decision)
/// on all 216-byte positions, 113-byte ticks, position/tick updates and both array kinds
// @verif prop=C12 tier=quick timeout=300
#[kani::proof]
#[kani::unwind(34)]
#[kani::stub(alloc::fmt::format, stub_format)]
#[kani::stub(<anchor_lang::error::Error as core::convert::From<anchor_lang::error::ErrorCode>>::from, stub_err_from_anchor_code)]
#[kani::stub(<anchor_lang::error::Error as core::convert::From<::whirlpool::errors::ErrorCode>>::from, stub_err_from_code)]
#[kani::stub(<::whirlpool::pinocchio::errors::UnifiedError as core::convert::From<::whirlpool::errors::ErrorCode>>::from, stub_unified_from_code)]
fn c12_modify_tick_array_equiv() {
    let pb = any_pos_bytes();
    let tb = any_tick_bytes();
    let pu = any_position_update();
    let (au, ptu) = any_tick_updates();
    let variable: bool = kani::any();
    let pos = pos_decode(&pb);
    let a = calculate_modify_tick_array(&pos, &pu, variable, &tick_from_bytes(&tb), &au);
    let p = verif_pino_calculate_modify_tick_array(pos_view(&pb), &pu, variable, mtick(&tb), &ptu);
    match (&a, &p) {
        (Ok(x), Ok(y)) => {
            assert!(x.transfer_rent == y.transfer_rent && x.size_update == y.size_update);
            kani::cover!(x.size_update == TickArraySizeUpdate::Increase && x.transfer_rent == TickArrayRentTransfer::TransferToTickArray, "grow");
            kani::cover!(x.size_update == TickArraySizeUpdate::Decrease && x.transfer_rent == TickArrayRentTransfer::TransferToPosition, "shrink");
        }
        _ => assert!(false, "both are infallible"),
    }
    core::mem::forget(a);
    core::mem::forget(p);
}

// ---------------------------------------------------------------------------------------------
// §3 twin

/// vacuity twin: must FAIL
// @verif prop=C12 tier=quick timeout=300 twin
#[kani::proof]
#[kani::unwind(5)]
#[kani::stub(alloc::fmt::format, stub_format)]
#[kani::stub(<anchor_lang::error::Error as core::convert::From<::whirlpool::errors::ErrorCode>>::from, stub_err_from_code)]
#[kani::stub(<::whirlpool::pinocchio::errors::UnifiedError as core::convert::From<::whirlpool::errors::ErrorCode>>::from, stub_unified_from_code)]
fn c12_twin_must_fail() {
    let bytes: [u8; 113] = kani::any();
    kani::assume(bytes[0] <= 1);
    let rewards = any_rewards();
    let growths = [rewards[0].growth_global_x64, rewards[1].growth_global_x64, rewards[2].growth_global_x64];
    let delta: i128 = kani::any();
    let p = pino_next_tick_modify_liquidity_update(mtick(&bytes), kani::any(), kani::any(), kani::any(), kani::any(), &growths, delta, kani::any());
    let ok = p.is_ok();
    core::mem::forget(p);
    assert!(!ok, "twin: reachable Ok must be reported");
}
