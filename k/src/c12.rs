//! C12 — Pinocchio port ≡ Anchor implementation (differentials on identical symbolic bytes).
use crate::common::*;
use anchor_lang::AccountDeserialize;
use ::whirlpool::manager::tick_manager::*;
use ::whirlpool::pinocchio::ported::manager_liquidity_manager::*;
use ::whirlpool::pinocchio::state::whirlpool::tick_array::TickUpdate as PTickUpdate;
use ::whirlpool::pinocchio::state::whirlpool::{
    MemoryMappedPosition, MemoryMappedTick, MemoryMappedWhirlpool,
};
use ::whirlpool::state::*;

pub fn tick_from_bytes(b: &[u8; 113]) -> Tick {
    // Anchor zero-copy view of a tick (packed, 113 bytes)
    assert!(b[0] <= 1);
    unsafe { core::ptr::read_unaligned(b.as_ptr() as *const Tick) }
}
pub fn mtick(b: &[u8; 113]) -> &MemoryMappedTick {
    unsafe { &*(b.as_ptr() as *const MemoryMappedTick) }
}
pub fn any_rewards() -> [WhirlpoolRewardInfo; 3] {
    let mut r = [WhirlpoolRewardInfo::default(); 3];
    for i in 0..3 {
        r[i].growth_global_x64 = kani::any();
        r[i].emissions_per_second_x64 = kani::any();
        let m: [u8; 32] = kani::any();
        r[i].mint = anchor_lang::prelude::Pubkey::new_from_array(m);
    }
    r
}
fn same_update(a: &TickUpdate, p: &PTickUpdate) -> bool {
    a.initialized == p.initialized
        && a.liquidity_net == p.liquidity_net
        && a.liquidity_gross == p.liquidity_gross
        && a.fee_growth_outside_a == p.fee_growth_outside_a
        && a.fee_growth_outside_b == p.fee_growth_outside_b
        && a.reward_growths_outside[0] == p.reward_growths_outside[0]
        && a.reward_growths_outside[1] == p.reward_growths_outside[1]
        && a.reward_growths_outside[2] == p.reward_growths_outside[2]
}

/// pino_next_tick_modify_liquidity_update ≡ next_tick_modify_liquidity_update on all 113-byte ticks and arguments
// @verif prop=C12 tier=quick timeout=300
#[kani::proof]
#[kani::unwind(5)]
#[kani::stub(alloc::fmt::format, stub_format)]
#[kani::stub(<anchor_lang::error::Error as core::convert::From<::whirlpool::errors::ErrorCode>>::from, stub_err_from_code)]
#[kani::stub(<::whirlpool::pinocchio::errors::UnifiedError as core::convert::From<::whirlpool::errors::ErrorCode>>::from, stub_unified_from_code)]
fn c12_tick_modify_equiv() {
    let bytes: [u8; 113] = kani::any();
    kani::assume(bytes[0] <= 1); // `initialized` is a bool in every account the program writes
    let tick_index: i32 = kani::any();
    let cur: i32 = kani::any();
    let ga: u128 = kani::any();
    let gb: u128 = kani::any();
    let rewards = any_rewards();
    let growths = [
        rewards[0].growth_global_x64,
        rewards[1].growth_global_x64,
        rewards[2].growth_global_x64,
    ];
    let delta: i128 = kani::any();
    let upper: bool = kani::any();
    let t = tick_from_bytes(&bytes);
    let a = next_tick_modify_liquidity_update(&t, tick_index, cur, ga, gb, &rewards, delta, upper);
    let p = pino_next_tick_modify_liquidity_update(mtick(&bytes), tick_index, cur, ga, gb, &growths, delta, upper);
    kani::cover!(a.is_ok() && delta != 0, "ok with change");
    kani::cover!(a.is_err(), "err");
    match (&a, &p) {
        (Ok(x), Ok(y)) => assert!(same_update(x, y)),
        (Err(x), Err(y)) => assert!(ecode(*x) == ucode(y)),
        _ => assert!(false, "outcome kind differs"),
    }
    core::mem::forget(p);
}

/// vacuity twin: must FAIL
// @verif prop=C12 tier=quick timeout=300 twin
#[kani::proof]
#[kani::unwind(5)]
#[kani::stub(alloc::fmt::format, stub_format)]
#[kani::stub(<anchor_lang::error::Error as core::convert::From<::whirlpool::errors::ErrorCode>>::from, stub_err_from_code)]
#[kani::stub(<::whirlpool::pinocchio::errors::UnifiedError as core::convert::From<::whirlpool::errors::ErrorCode>>::from, stub_unified_from_code)]
fn c12_twin_must_fail() {
    let bytes: [u8; 113] = kani::any();
    kani::assume(bytes[0] <= 1);
    let rewards = any_rewards();
    let growths = [rewards[0].growth_global_x64, rewards[1].growth_global_x64, rewards[2].growth_global_x64];
    let delta: i128 = kani::any();
    let p = pino_next_tick_modify_liquidity_update(mtick(&bytes), kani::any(), kani::any(), kani::any(), kani::any(), &growths, delta, kani::any());
    let ok = p.is_ok();
    core::mem::forget(p);
    assert!(!ok, "twin: reachable Ok must be reported");
}
