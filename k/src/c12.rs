//! C12 — Pinocchio port ≡ Anchor implementation (differentials on identical symbolic bytes).
//!
//! Layout of this file
//!   §0 helpers (views over raw bytes, Anchor decode/encode, local uninterpreted-function stubs)
//!   §1 memory-mapped views vs Anchor account types (read with one, write with the other)
//!   §2 ported manager functions vs their Anchor originals
//!   §3 twin
use crate::common::*;
use anchor_lang::{AccountDeserialize, AccountSerialize, AnchorDeserialize, AnchorSerialize, Discriminator};
use ::whirlpool::errors::ErrorCode;
use ::whirlpool::manager::liquidity_manager::*;
use ::whirlpool::manager::position_manager::next_position_modify_liquidity_update;
use ::whirlpool::manager::tick_array_manager::{
    calculate_modify_tick_array, TickArrayRentTransfer, TickArraySizeUpdate, TickArrayUpdate,
};
use ::whirlpool::manager::tick_manager::*;
use ::whirlpool::manager::whirlpool_manager::{next_whirlpool_liquidity, next_whirlpool_reward_infos};
use ::whirlpool::pinocchio::ported::manager_liquidity_manager::*;
use ::whirlpool::pinocchio::state::whirlpool::tick_array::TickUpdate as PTickUpdate;
use ::whirlpool::pinocchio::state::whirlpool::{
    MemoryMappedPosition, MemoryMappedTick, MemoryMappedWhirlpool, MemoryMappedWhirlpoolRewardInfo,
};
use ::whirlpool::pinocchio::state::whirlpool::tick_array::dynamic_tick_array::MemoryMappedDynamicTickArray;
use ::whirlpool::pinocchio::state::whirlpool::tick_array::fixed_tick_array::MemoryMappedFixedTickArray;
use ::whirlpool::pinocchio::state::whirlpool::tick_array::TickArray as PTickArray;
use ::whirlpool::pinocchio::state::token::MemoryMappedTokenAccount;
use ::whirlpool::pinocchio::state::WhirlpoolProgramAccount;
use ::whirlpool::state::*;

// ---------------------------------------------------------------------------------------------
// §0 helpers

pub fn tick_from_bytes(b: &[u8; 113]) -> Tick {
    // Anchor zero-copy view of a tick (packed, 113 bytes)
    assert!(b[0] <= 1);
    unsafe { core::ptr::read_unaligned(b.as_ptr() as *const Tick) }
}
pub fn mtick(b: &[u8; 113]) -> &MemoryMappedTick {
    unsafe { &*(b.as_ptr() as *const MemoryMappedTick) }
}
pub fn mtick_mut(b: &mut [u8; 113]) -> &mut MemoryMappedTick {
    unsafe { &mut *(b.as_mut_ptr() as *mut MemoryMappedTick) }
}
pub fn any_tick_bytes() -> [u8; 113] {
    let b: [u8; 113] = kani::any();
    kani::assume(b[0] <= 1); // `initialized` is a bool in every account the program writes
    b
}
pub fn any_rewards() -> [WhirlpoolRewardInfo; 3] {
    let mut r = [WhirlpoolRewardInfo::default(); 3];
    for i in 0..3 {
        r[i].growth_global_x64 = kani::any();
        r[i].emissions_per_second_x64 = kani::any();
        let m: [u8; 32] = kani::any();
        r[i].mint = anchor_lang::prelude::Pubkey::new_from_array(m);
    }
    r
}
fn same_update(a: &TickUpdate, p: &PTickUpdate) -> bool {
    a.initialized == p.initialized
        && a.liquidity_net == p.liquidity_net
        && a.liquidity_gross == p.liquidity_gross
        && a.fee_growth_outside_a == p.fee_growth_outside_a
        && a.fee_growth_outside_b == p.fee_growth_outside_b
        && a.reward_growths_outside[0] == p.reward_growths_outside[0]
        && a.reward_growths_outside[1] == p.reward_growths_outside[1]
        && a.reward_growths_outside[2] == p.reward_growths_outside[2]
}
fn any_tick_updates() -> (TickUpdate, PTickUpdate) {
    let a = TickUpdate {
        initialized: kani::any(),
        liquidity_net: kani::any(),
        liquidity_gross: kani::any(),
        fee_growth_outside_a: kani::any(),
        fee_growth_outside_b: kani::any(),
        reward_growths_outside: [kani::any(), kani::any(), kani::any()],
    };
    let p = PTickUpdate {
        initialized: a.initialized,
        liquidity_net: a.liquidity_net,
        liquidity_gross: a.liquidity_gross,
        fee_growth_outside_a: a.fee_growth_outside_a,
        fee_growth_outside_b: a.fee_growth_outside_b,
        reward_growths_outside: a.reward_growths_outside,
    };
    (a, p)
}
fn any_position_update() -> PositionUpdate {
    let mut u = PositionUpdate::default();
    u.liquidity = kani::any();
    u.fee_growth_checkpoint_a = kani::any();
    u.fee_owed_a = kani::any();
    u.fee_growth_checkpoint_b = kani::any();
    u.fee_owed_b = kani::any();
    for i in 0..3 {
        u.reward_infos[i].growth_inside_checkpoint = kani::any();
        u.reward_infos[i].amount_owed = kani::any();
    }
    u
}

/// 32-byte equality (plain loop; harnesses using it unwind >= 33)
fn eq32(a: &[u8; 32], b: &[u8; 32]) -> bool {
    let mut ok = true;
    let mut i = 0;
    while i < 32 {
        ok &= a[i] == b[i];
        i += 1;
    }
    ok
}

pub const WP_LEN: usize = 653;
pub const POS_LEN: usize = 216;

/// 653 symbolic bytes carrying the Anchor `Whirlpool` discriminator
/// (assumed, not written: every write to a large array is replayed in each of CBMC's JSON traces — measured 3.6 GB)
pub fn any_wp_bytes() -> [u8; WP_LEN] {
    let b: [u8; WP_LEN] = kani::any();
    let d = Whirlpool::DISCRIMINATOR;
    kani::assume(b[0] == d[0] && b[1] == d[1] && b[2] == d[2] && b[3] == d[3] && b[4] == d[4] && b[5] == d[5] && b[6] == d[6] && b[7] == d[7]);
    b
}
/// 216 symbolic bytes carrying the Anchor `Position` discriminator
pub fn any_pos_bytes() -> [u8; POS_LEN] {
    let b: [u8; POS_LEN] = kani::any();
    let d = Position::DISCRIMINATOR;
    kani::assume(b[0] == d[0] && b[1] == d[1] && b[2] == d[2] && b[3] == d[3] && b[4] == d[4] && b[5] == d[5] && b[6] == d[6] && b[7] == d[7]);
    b
}
pub fn wp_view(b: &[u8; WP_LEN]) -> &MemoryMappedWhirlpool {
    unsafe { &*(b.as_ptr() as *const MemoryMappedWhirlpool) }
}
pub fn wp_view_mut(b: &mut [u8; WP_LEN]) -> &mut MemoryMappedWhirlpool {
    unsafe { &mut *(b.as_mut_ptr() as *mut MemoryMappedWhirlpool) }
}
pub fn pos_view(b: &[u8; POS_LEN]) -> &MemoryMappedPosition {
    unsafe { &*(b.as_ptr() as *const MemoryMappedPosition) }
}
pub fn pos_view_mut(b: &mut [u8; POS_LEN]) -> &mut MemoryMappedPosition {
    unsafe { &mut *(b.as_mut_ptr() as *mut MemoryMappedPosition) }
}
/// Anchor decode (discriminator check + Borsh), as `Account<Whirlpool>` does on load
pub fn wp_decode(b: &[u8; WP_LEN]) -> Whirlpool {
    let r = Whirlpool::try_deserialize(&mut &b[..]);
    match r {
        Ok(w) => w,
        Err(e) => {
            core::mem::forget(e);
            panic!("whirlpool bytes must decode")
        }
    }
}
pub fn pos_decode(b: &[u8; POS_LEN]) -> Position {
    let r = Position::try_deserialize(&mut &b[..]);
    match r {
        Ok(w) => w,
        Err(e) => {
            core::mem::forget(e);
            panic!("position bytes must decode")
        }
    }
}
/// Anchor encode (discriminator + Borsh), as `Account<Whirlpool>::exit` does
pub fn wp_encode(w: &Whirlpool) -> [u8; WP_LEN] {
    let mut out = [0u8; WP_LEN];
    let mut cur: &mut [u8] = &mut out[..];
    let r = w.try_serialize(&mut cur);
    let ok = r.is_ok();
    let rest = cur.len();
    core::mem::forget(r);
    assert!(ok && rest == 0, "whirlpool must serialize to exactly 653 bytes");
    out
}
pub fn pos_encode(p: &Position) -> [u8; POS_LEN] {
    let mut out = [0u8; POS_LEN];
    let mut cur: &mut [u8] = &mut out[..];
    let r = p.try_serialize(&mut cur);
    let ok = r.is_ok();
    let rest = cur.len();
    core::mem::forget(r);
    assert!(ok && rest == 0, "position must serialize to exactly 216 bytes");
    out
}

// Hand-written field decoders at the documented Borsh offsets. The function-level harnesses (§2) build the Anchor
// structs with these instead of running `try_deserialize` (which drags the whole Anchor error machinery into every
// harness: measured 3-5x); c12_decode_whirlpool_manual / c12_decode_position_manual decide, for all bytes, that they
// produce exactly what `Whirlpool::try_deserialize` / `Position::try_deserialize` produce.
fn rd16(b: &[u8], o: usize) -> u16 {
    u16::from_le_bytes([b[o], b[o + 1]])
}
fn rd32(b: &[u8], o: usize) -> i32 {
    i32::from_le_bytes([b[o], b[o + 1], b[o + 2], b[o + 3]])
}
fn rd64(b: &[u8], o: usize) -> u64 {
    u64::from_le_bytes([b[o], b[o + 1], b[o + 2], b[o + 3], b[o + 4], b[o + 5], b[o + 6], b[o + 7]])
}
fn rd128(b: &[u8], o: usize) -> u128 {
    (rd64(b, o) as u128) | ((rd64(b, o + 8) as u128) << 64)
}
fn rdkey(b: &[u8], o: usize) -> [u8; 32] {
    let mut k = [0u8; 32];
    k.copy_from_slice(&b[o..o + 32]);
    k
}
fn rdreward(b: &[u8], o: usize) -> WhirlpoolRewardInfo {
    WhirlpoolRewardInfo {
        mint: anchor_lang::prelude::Pubkey::new_from_array(rdkey(b, o)),
        vault: anchor_lang::prelude::Pubkey::new_from_array(rdkey(b, o + 32)),
        extension: rdkey(b, o + 64),
        emissions_per_second_x64: rd128(b, o + 96),
        growth_global_x64: rd128(b, o + 112),
    }
}
pub fn wp_from_bytes(b: &[u8; WP_LEN]) -> Whirlpool {
    use anchor_lang::prelude::Pubkey;
    Whirlpool {
        whirlpools_config: Pubkey::new_from_array(rdkey(b, 8)),
        whirlpool_bump: [b[40]],
        tick_spacing: rd16(b, 41),
        fee_tier_index_seed: [b[43], b[44]],
        fee_rate: rd16(b, 45),
        protocol_fee_rate: rd16(b, 47),
        liquidity: rd128(b, 49),
        sqrt_price: rd128(b, 65),
        tick_current_index: rd32(b, 81),
        protocol_fee_owed_a: rd64(b, 85),
        protocol_fee_owed_b: rd64(b, 93),
        token_mint_a: Pubkey::new_from_array(rdkey(b, 101)),
        token_vault_a: Pubkey::new_from_array(rdkey(b, 133)),
        fee_growth_global_a: rd128(b, 165),
        token_mint_b: Pubkey::new_from_array(rdkey(b, 181)),
        token_vault_b: Pubkey::new_from_array(rdkey(b, 213)),
        fee_growth_global_b: rd128(b, 245),
        reward_last_updated_timestamp: rd64(b, 261),
        reward_infos: [rdreward(b, 269), rdreward(b, 397), rdreward(b, 525)],
    }
}
pub fn pos_from_bytes(b: &[u8; POS_LEN]) -> Position {
    use anchor_lang::prelude::Pubkey;
    Position {
        whirlpool: Pubkey::new_from_array(rdkey(b, 8)),
        position_mint: Pubkey::new_from_array(rdkey(b, 40)),
        liquidity: rd128(b, 72),
        tick_lower_index: rd32(b, 88),
        tick_upper_index: rd32(b, 92),
        fee_growth_checkpoint_a: rd128(b, 96),
        fee_owed_a: rd64(b, 112),
        fee_growth_checkpoint_b: rd128(b, 120),
        fee_owed_b: rd64(b, 136),
        reward_infos: [
            PositionRewardInfo { growth_inside_checkpoint: rd128(b, 144), amount_owed: rd64(b, 160) },
            PositionRewardInfo { growth_inside_checkpoint: rd128(b, 168), amount_owed: rd64(b, 184) },
            PositionRewardInfo { growth_inside_checkpoint: rd128(b, 192), amount_owed: rd64(b, 208) },
        ],
    }
}
fn same_wp_core(a: &Whirlpool, b: &Whirlpool, j: usize) -> bool {
    a.whirlpools_config == b.whirlpools_config
        && a.whirlpool_bump == b.whirlpool_bump
        && a.tick_spacing == b.tick_spacing
        && a.fee_tier_index_seed == b.fee_tier_index_seed
        && a.fee_rate == b.fee_rate
        && a.protocol_fee_rate == b.protocol_fee_rate
        && a.liquidity == b.liquidity
        && a.sqrt_price == b.sqrt_price
        && a.tick_current_index == b.tick_current_index
        && a.protocol_fee_owed_a == b.protocol_fee_owed_a
        && a.protocol_fee_owed_b == b.protocol_fee_owed_b
        && a.token_mint_a == b.token_mint_a
        && a.token_vault_a == b.token_vault_a
        && a.fee_growth_global_a == b.fee_growth_global_a
        && a.token_mint_b == b.token_mint_b
        && a.token_vault_b == b.token_vault_b
        && a.fee_growth_global_b == b.fee_growth_global_b
        && a.reward_last_updated_timestamp == b.reward_last_updated_timestamp
}
fn same_wp_reward(a: &WhirlpoolRewardInfo, b: &WhirlpoolRewardInfo, j: usize) -> bool {
    a.mint == b.mint
        && a.vault == b.vault
        && a.extension == b.extension
        && a.emissions_per_second_x64 == b.emissions_per_second_x64
        && a.growth_global_x64 == b.growth_global_x64
}
fn same_pos(a: &Position, b: &Position, j: usize) -> bool {
    a.whirlpool == b.whirlpool
        && a.position_mint == b.position_mint
        && a.liquidity == b.liquidity
        && a.tick_lower_index == b.tick_lower_index
        && a.tick_upper_index == b.tick_upper_index
        && a.fee_growth_checkpoint_a == b.fee_growth_checkpoint_a
        && a.fee_owed_a == b.fee_owed_a
        && a.fee_growth_checkpoint_b == b.fee_growth_checkpoint_b
        && a.fee_owed_b == b.fee_owed_b
        && a.reward_infos[0] == b.reward_infos[0]
        && a.reward_infos[1] == b.reward_infos[1]
        && a.reward_infos[2] == b.reward_infos[2]
}

pub const FTA_LEN: usize = 9988; // 8 + 4 + 88 * 113 + 32
pub const DTA_LEN: usize = 10004; // 8 + 4 + 32 + 16 + 88 * 113

/// Anchor's view of a fixed tick array account image, exactly as `load_tick_array` maps it
pub fn fta_anchor(b: &[u8; FTA_LEN]) -> &FixedTickArray {
    bytemuck::from_bytes(&b[8..])
}
pub fn fta_anchor_mut(b: &mut [u8; FTA_LEN]) -> &mut FixedTickArray {
    bytemuck::from_bytes_mut(&mut b[8..])
}
/// Pinocchio's view of the same image, exactly as `load_account_unchecked` maps it
pub fn fta_pino(b: &[u8; FTA_LEN]) -> &MemoryMappedFixedTickArray {
    assert!(core::mem::size_of::<MemoryMappedFixedTickArray>() == FTA_LEN);
    unsafe { &*(b.as_ptr() as *const MemoryMappedFixedTickArray) }
}
pub fn fta_pino_mut(b: &mut [u8; FTA_LEN]) -> &mut MemoryMappedFixedTickArray {
    unsafe { &mut *(b.as_mut_ptr() as *mut MemoryMappedFixedTickArray) }
}
/// The fixed-array DATA-path harness uses concrete addressing (slot addressing for symbolic tick/start is decided
/// by the c12_tick_offset_* harnesses; a symbolic index into the 9988-byte image makes CBMC run out of memory:
/// measured 4 M variables / 90 M clauses): tick spacing 96, start index -3*88*96, slot 87.
pub const TS_D: u16 = 96;
pub const START_D: i32 = -3 * 88 * 96;
/// account image of a fixed tick array = 8-byte discriminator + Anchor's zero-copy struct (packed, 9980 bytes)
#[repr(C, packed)]
pub struct FtaImage {
    pub disc: [u8; 8],
    pub arr: FixedTickArray,
}
pub fn any_tick() -> Tick {
    Tick {
        initialized: kani::any(),
        liquidity_net: kani::any(),
        liquidity_gross: kani::any(),
        fee_growth_outside_a: kani::any(),
        fee_growth_outside_b: kani::any(),
        reward_growths_outside: [kani::any(), kani::any(), kani::any()],
    }
}
/// image with concrete start index, symbolic whirlpool key, symbolic ticks at slots 86 and 87, zero elsewhere
pub fn fta_image(start: i32) -> Box<FtaImage> {
    assert!(core::mem::size_of::<FtaImage>() == FTA_LEN);
    let mut b: Box<FtaImage> = unsafe { Box::new(core::mem::zeroed()) };
    b.arr.start_tick_index = start;
    b.arr.ticks[86] = any_tick();
    b.arr.ticks[87] = any_tick();
    let key: [u8; 32] = kani::any();
    b.arr.whirlpool = anchor_lang::prelude::Pubkey::new_from_array(key);
    b
}
pub fn img_pino(b: &FtaImage) -> &MemoryMappedFixedTickArray {
    unsafe { &*(b as *const FtaImage as *const MemoryMappedFixedTickArray) }
}
pub fn img_pino_mut(b: &mut FtaImage) -> &mut MemoryMappedFixedTickArray {
    unsafe { &mut *(b as *mut FtaImage as *mut MemoryMappedFixedTickArray) }
}
pub fn img_bytes(b: &FtaImage) -> &[u8; FTA_LEN] {
    unsafe { &*(b as *const FtaImage as *const [u8; FTA_LEN]) }
}

/// Tick-array stand-ins for the COMPOSED differentials (`calculate_modify_liquidity`, `sync_modify_liquidity_values`
/// take `&dyn TickArray(Type)`): one 113-byte tick, a symbolic "found" flag and variable-size flag; `update_tick`
/// records its arguments. Both traits are served from the same bytes, so the composed harnesses decide "same array
/// answers ⇒ same results / same array requests"; the real fixed-array views are compared in c12_tick_offset_* and
/// c12_view_fixed_array_*.
pub struct MockArr {
    pub tick: [u8; 113],
    pub found: bool,
    pub variable: bool,
    pub upd_ok: [bool; 2],
    pub n: usize,
    pub log_idx: [i32; 2],
    pub log_ts: [u16; 2],
    pub log_a: [Option<TickUpdate>; 2],
}
impl MockArr {
    pub fn any() -> (MockArr, MockArr) {
        let tick = any_tick_bytes();
        let found: bool = kani::any();
        let variable: bool = kani::any();
        let upd_ok: [bool; 2] = [kani::any(), kani::any()];
        let mk = || MockArr { tick, found, variable, upd_ok, n: 0, log_idx: [0; 2], log_ts: [0; 2], log_a: [None, None] };
        (mk(), mk())
    }
    fn record(&mut self, tick_index: i32, tick_spacing: u16, u: TickUpdate) -> bool {
        assert!(self.n < 2, "at most two updates per array");
        self.log_idx[self.n] = tick_index;
        self.log_ts[self.n] = tick_spacing;
        self.log_a[self.n] = Some(u);
        let ok = self.upd_ok[self.n];
        self.n += 1;
        ok
    }
    pub fn same_log(&self, o: &MockArr) -> bool {
        let mut ok = self.n == o.n;
        let mut i = 0;
        while i < 2 {
            if i < self.n && i < o.n {
                ok &= self.log_idx[i] == o.log_idx[i] && self.log_ts[i] == o.log_ts[i];
                ok &= match (&self.log_a[i], &o.log_a[i]) {
                    (Some(x), Some(y)) => {
                        x.initialized == y.initialized
                            && x.liquidity_net == y.liquidity_net
                            && x.liquidity_gross == y.liquidity_gross
                            && x.fee_growth_outside_a == y.fee_growth_outside_a
                            && x.fee_growth_outside_b == y.fee_growth_outside_b
                            && x.reward_growths_outside[0] == y.reward_growths_outside[0]
                            && x.reward_growths_outside[1] == y.reward_growths_outside[1]
                            && x.reward_growths_outside[2] == y.reward_growths_outside[2]
                    }
                    _ => false,
                };
            }
            i += 1;
        }
        ok
    }
}
impl TickArrayType for MockArr {
    fn is_variable_size(&self) -> bool {
        self.variable
    }
    fn start_tick_index(&self) -> i32 {
        0
    }
    fn whirlpool(&self) -> anchor_lang::prelude::Pubkey {
        anchor_lang::prelude::Pubkey::default()
    }
    fn get_next_init_tick_index(&self, _t: i32, _s: u16, _a: bool) -> anchor_lang::Result<Option<i32>> {
        unreachable!()
    }
    fn get_tick(&self, _tick_index: i32, _tick_spacing: u16) -> anchor_lang::Result<Tick> {
        if self.found {
            Ok(tick_from_bytes(&self.tick))
        } else {
            Err(ErrorCode::TickNotFound.into())
        }
    }
    fn update_tick(&mut self, tick_index: i32, tick_spacing: u16, update: &TickUpdate) -> anchor_lang::Result<()> {
        if self.record(tick_index, tick_spacing, update.clone()) {
            Ok(())
        } else {
            Err(ErrorCode::TickNotFound.into())
        }
    }
}
static ZERO_KEY: [u8; 32] = [0u8; 32];
impl PTickArray for MockArr {
    fn is_variable_size(&self) -> bool {
        self.variable
    }
    fn whirlpool(&self) -> &pinocchio::pubkey::Pubkey {
        &ZERO_KEY
    }
    fn start_tick_index(&self) -> i32 {
        0
    }
    fn get_tick(&self, _tick_index: i32, _tick_spacing: u16) -> ::whirlpool::pinocchio::Result<&MemoryMappedTick> {
        if self.found {
            Ok(mtick(&self.tick))
        } else {
            Err(ErrorCode::TickNotFound.into())
        }
    }
    fn update_tick(&mut self, tick_index: i32, tick_spacing: u16, u: &PTickUpdate) -> ::whirlpool::pinocchio::Result<()> {
        let a = TickUpdate {
            initialized: u.initialized,
            liquidity_net: u.liquidity_net,
            liquidity_gross: u.liquidity_gross,
            fee_growth_outside_a: u.fee_growth_outside_a,
            fee_growth_outside_b: u.fee_growth_outside_b,
            reward_growths_outside: u.reward_growths_outside,
        };
        if self.record(tick_index, tick_spacing, a) {
            Ok(())
        } else {
            Err(ErrorCode::TickNotFound.into())
        }
    }
}
/// zero-filled fixed array image with a given start index (for header-only questions)
pub fn fta_with_start(start: i32) -> Box<[u8; FTA_LEN]> {
    let mut b: Box<[u8; FTA_LEN]> = Box::new([0u8; FTA_LEN]);
    let s = start.to_le_bytes();
    b[8] = s[0];
    b[9] = s[1];
    b[10] = s[2];
    b[11] = s[3];
    b
}
fn same_tick(a: &Tick, p: &MemoryMappedTick) -> bool {
    let r = p.reward_growths_outside();
    let ar = { a.reward_growths_outside };
    a.initialized == p.initialized()
        && { a.liquidity_net } == p.liquidity_net()
        && { a.liquidity_gross } == p.liquidity_gross()
        && { a.fee_growth_outside_a } == p.fee_growth_outside_a()
        && { a.fee_growth_outside_b } == p.fee_growth_outside_b()
        && ar[0] == r[0]
        && ar[1] == r[1]
        && ar[2] == r[2]
}

/// raw account memory in the layout `pinocchio::account_info::AccountInfo` points at
#[repr(C)]
pub struct RawAcc<const N: usize> {
    pub borrow_state: u8,
    pub is_signer: u8,
    pub is_writable: u8,
    pub executable: u8,
    pub resize_delta: i32,
    pub key: [u8; 32],
    pub owner: [u8; 32],
    pub lamports: u64,
    pub data_len: u64,
    pub data: [u8; N],
}
pub unsafe fn pino_ai<const N: usize>(r: *mut RawAcc<N>) -> pinocchio::account_info::AccountInfo {
    let mut slot = core::mem::MaybeUninit::<pinocchio::account_info::AccountInfo>::uninit();
    (slot.as_mut_ptr() as *mut *mut RawAcc<N>).write(r);
    slot.assume_init()
}

/// Local uninterpreted functions (same arguments -> same arbitrary result on both sides), written WITHOUT loops so
/// that the harness unwinding bound (33 for the 32-byte key compares in the code under test) does not multiply the
/// table scans (measured: 401 s -> see report). Table bounds are asserted. Same contracts as `common::memo`.
mod uf {
    use ::whirlpool::errors::ErrorCode;
    const N: usize = 6;
    macro_rules! find {
        ($n:expr, $k:expr, $v:expr, $key:expr) => {{
            if 0 < $n && $k[0] == $key {
                Some($v[0])
            } else if 1 < $n && $k[1] == $key {
                Some($v[1])
            } else if 2 < $n && $k[2] == $key {
                Some($v[2])
            } else if 3 < $n && $k[3] == $key {
                Some($v[3])
            } else if 4 < $n && $k[4] == $key {
                Some($v[4])
            } else if 5 < $n && $k[5] == $key {
                Some($v[5])
            } else {
                None
            }
        }};
    }
    // get_amount_delta_a / _b
    static mut DK: [(u8, u128, u128, u128, bool); N] = [(0, 0, 0, 0, false); N];
    static mut DV: [(u8, u64); N] = [(0, 0); N];
    static mut DN: usize = 0;
    fn delta(which: u8, p0: u128, p1: u128, l: u128, r: bool) -> Result<u64, ErrorCode> {
        unsafe {
            let key = (which, p0, p1, l, r);
            if let Some(v) = find!(DN, DK, DV, key) {
                return out(v.0, v.1);
            }
            assert!(DN < N, "memo table bound (get_amount_delta)");
            let kind: u8 = kani::any();
            kani::assume(kind <= 3);
            let v: u64 = kani::any();
            DK[DN] = key;
            DV[DN] = (kind, v);
            DN += 1;
            out(kind, v)
        }
    }
    fn out(kind: u8, v: u64) -> Result<u64, ErrorCode> {
        match kind {
            0 => Ok(v),
            1 => Err(ErrorCode::TokenMaxExceeded),
            2 => Err(ErrorCode::MultiplicationOverflow),
            _ => Err(ErrorCode::NumberDownCastError),
        }
    }
    pub fn stub_get_amount_delta_a(p0: u128, p1: u128, l: u128, r: bool) -> Result<u64, ErrorCode> {
        delta(0, p0, p1, l, r)
    }
    pub fn stub_get_amount_delta_b(p0: u128, p1: u128, l: u128, r: bool) -> Result<u64, ErrorCode> {
        delta(1, p0, p1, l, r)
    }
    // sqrt_price_from_tick_index: uninterpreted (no monotonicity assumed: not needed for a differential)
    static mut PK: [i32; N] = [0; N];
    static mut PV: [u128; N] = [0; N];
    static mut PN: usize = 0;
    pub fn stub_sqrt_price_from_tick_index(t: i32) -> u128 {
        unsafe {
            if let Some(v) = find!(PN, PK, PV, t) {
                return v;
            }
            assert!(PN < N, "memo table bound (sqrt_price_from_tick_index)");
            let v: u128 = kani::any();
            PK[PN] = t;
            PV[PN] = v;
            PN += 1;
            v
        }
    }
    // checked_mul_shift_right: exact for a zero factor (0), otherwise arbitrary Ok / overflow per argument pair
    static mut SK: [(u128, u128); N] = [(0, 0); N];
    static mut SV: [(bool, u64); N] = [(false, 0); N];
    static mut SN: usize = 0;
    pub fn stub_checked_mul_shift_right(n0: u128, n1: u128) -> Result<u64, ErrorCode> {
        if n0 == 0 || n1 == 0 {
            return Ok(0);
        }
        unsafe {
            let key = (n0, n1);
            let (ok, v) = match find!(SN, SK, SV, key) {
                Some(x) => x,
                None => {
                    assert!(SN < N, "memo table bound (checked_mul_shift_right)");
                    let x: (bool, u64) = (kani::any(), kani::any());
                    SK[SN] = key;
                    SV[SN] = x;
                    SN += 1;
                    x
                }
            };
            if ok { Ok(v) } else { Err(ErrorCode::MultiplicationShiftRightOverflow) }
        }
    }
    // ---- call-sequence oracles for the COMPOSED harnesses (record while the Anchor implementation runs, replay while
    // the Pinocchio port runs): the i-th call with non-zero factors must carry the i-th recorded arguments and gets the
    // i-th recorded (arbitrary) result; any other call sets DIVERGED (asserted false by the harness) and returns a fresh
    // value. Recording gives repeated arguments independent results: a superset of the behaviours of a function, hence
    // sound for proving equality; it avoids the pairwise key comparisons of the memo tables (composition: > 1500 s).
    pub static mut PHASE: u8 = 0;
    pub static mut DIVERGED: bool = false;
    static mut QS_K: [(u128, u128); N] = [(0, 0); N];
    static mut QS_V: [(bool, u64); N] = [(false, 0); N];
    static mut QS_N: usize = 0;
    static mut QS_I: usize = 0;
    pub fn seq_checked_mul_shift_right(n0: u128, n1: u128) -> Result<u64, ErrorCode> {
        if n0 == 0 || n1 == 0 {
            return Ok(0);
        }
        unsafe {
            let (ok, v): (bool, u64) = if PHASE == 0 {
                assert!(QS_N < N, "oracle bound (checked_mul_shift_right)");
                let x: (bool, u64) = (kani::any(), kani::any());
                QS_K[QS_N] = (n0, n1);
                QS_V[QS_N] = x;
                QS_N += 1;
                x
            } else if QS_I < QS_N && QS_K[QS_I] == (n0, n1) {
                let x = QS_V[QS_I];
                QS_I += 1;
                x
            } else {
                DIVERGED = true;
                (kani::any(), kani::any())
            };
            if ok { Ok(v) } else { Err(ErrorCode::MultiplicationShiftRightOverflow) }
        }
    }
    static mut QM_K: [(u128, u128, u128); N] = [(0, 0, 0); N];
    static mut QM_V: [(bool, u128); N] = [(false, 0); N];
    static mut QM_N: usize = 0;
    static mut QM_I: usize = 0;
    pub fn seq_checked_mul_div(n0: u128, n1: u128, d: u128) -> Result<u128, ErrorCode> {
        if d == 0 {
            return Err(ErrorCode::DivideByZero);
        }
        if n0 == 0 || n1 == 0 {
            return Ok(0);
        }
        unsafe {
            let (ok, v): (bool, u128) = if PHASE == 0 {
                assert!(QM_N < N, "oracle bound (checked_mul_div)");
                let x: (bool, u128) = (kani::any(), kani::any());
                QM_K[QM_N] = (n0, n1, d);
                QM_V[QM_N] = x;
                QM_N += 1;
                x
            } else if QM_I < QM_N && QM_K[QM_I] == (n0, n1, d) {
                let x = QM_V[QM_I];
                QM_I += 1;
                x
            } else {
                DIVERGED = true;
                (kani::any(), kani::any())
            };
            if ok { Ok(v) } else { Err(ErrorCode::MulDivOverflow) }
        }
    }
    // checked_mul_div: Err(DivideByZero) iff d == 0, exact for a zero factor (0), otherwise arbitrary Ok / overflow
    static mut MK: [(u128, u128, u128); N] = [(0, 0, 0); N];
    static mut MV: [(bool, u128); N] = [(false, 0); N];
    static mut MN: usize = 0;
    pub fn stub_checked_mul_div(n0: u128, n1: u128, d: u128) -> Result<u128, ErrorCode> {
        if d == 0 {
            return Err(ErrorCode::DivideByZero);
        }
        if n0 == 0 || n1 == 0 {
            return Ok(0);
        }
        unsafe {
            let key = (n0, n1, d);
            let (ok, v) = match find!(MN, MK, MV, key) {
                Some(x) => x,
                None => {
                    assert!(MN < N, "memo table bound (checked_mul_div)");
                    let x: (bool, u128) = (kani::any(), kani::any());
                    MK[MN] = key;
                    MV[MN] = x;
                    MN += 1;
                    x
                }
            };
            if ok { Ok(v) } else { Err(ErrorCode::MulDivOverflow) }
        }
    }
}

/// Record/replay summaries of two leaf pairs for the COMPOSED harness (assume-guarantee: the pairs themselves are
/// decided equivalent by c12_reward_growth_global_equiv and c12_position_modify_equiv). While the Anchor
/// implementation runs the summary returns an ARBITRARY outcome and records arguments and outcome; while the Pinocchio
/// port runs, its counterpart must be called with the same logical arguments (else DIVERGED, asserted false) and gets
/// the recorded outcome. The objects passed by reference are identified by address (one pool / position per side).
mod leaf {
    use super::*;
    pub static mut DIVERGED: bool = false;
    pub static mut A_WP: usize = 0;
    pub static mut P_WP: usize = 0;
    pub static mut A_POS: usize = 0;
    pub static mut P_POS: usize = 0;
    // reward growth global
    static mut RG_SET: bool = false;
    static mut RG_TS: u64 = 0;
    static mut RG_OK: bool = false;
    static mut RG_V: [u128; 3] = [0; 3];
    pub fn a_next_whirlpool_reward_infos(w: &Whirlpool, ts: u64) -> Result<[WhirlpoolRewardInfo; 3], ErrorCode> {
        unsafe {
            assert!(!RG_SET && w as *const Whirlpool as usize == A_WP);
            RG_SET = true;
            RG_TS = ts;
            RG_OK = kani::any();
            RG_V = [kani::any(), kani::any(), kani::any()];
            if RG_OK {
                let mut r = w.reward_infos;
                r[0].growth_global_x64 = RG_V[0];
                r[1].growth_global_x64 = RG_V[1];
                r[2].growth_global_x64 = RG_V[2];
                Ok(r)
            } else {
                Err(ErrorCode::InvalidTimestamp)
            }
        }
    }
    pub fn p_next_whirlpool_reward_growth_global(w: &MemoryMappedWhirlpool, ts: u64) -> ::whirlpool::pinocchio::Result<[u128; 3]> {
        unsafe {
            if !(RG_SET && ts == RG_TS && w as *const MemoryMappedWhirlpool as usize == P_WP) {
                DIVERGED = true;
                return Ok([kani::any(), kani::any(), kani::any()]);
            }
            if RG_OK { Ok(RG_V) } else { Err(ErrorCode::InvalidTimestamp.into()) }
        }
    }
    // position update
    static mut PM_SET: bool = false;
    static mut PM_ARGS: (i128, u128, u128, [u128; 3]) = (0, 0, 0, [0; 3]);
    static mut PM_KIND: u8 = 0;
    static mut PM_V: Option<PositionUpdate> = None;
    fn clone_pu(u: &PositionUpdate) -> PositionUpdate {
        PositionUpdate { liquidity: u.liquidity, fee_growth_checkpoint_a: u.fee_growth_checkpoint_a, fee_owed_a: u.fee_owed_a,
            fee_growth_checkpoint_b: u.fee_growth_checkpoint_b, fee_owed_b: u.fee_owed_b, reward_infos: u.reward_infos }
    }
    fn pm_err() -> ErrorCode {
        unsafe { if PM_KIND == 1 { ErrorCode::LiquidityOverflow } else { ErrorCode::LiquidityUnderflow } }
    }
    pub fn a_next_position_modify_liquidity_update(p: &Position, delta: i128, fa: u128, fb: u128, rg: &[u128; 3]) -> Result<PositionUpdate, ErrorCode> {
        unsafe {
            assert!(!PM_SET && p as *const Position as usize == A_POS);
            PM_SET = true;
            PM_ARGS = (delta, fa, fb, *rg);
            PM_KIND = kani::any();
            kani::assume(PM_KIND <= 2);
            let u = any_position_update();
            PM_V = Some(clone_pu(&u));
            if PM_KIND == 0 { Ok(u) } else { Err(pm_err()) }
        }
    }
    pub fn p_next_position_modify_liquidity_update(p: &MemoryMappedPosition, delta: i128, fa: u128, fb: u128, rg: &[u128; 3]) -> ::whirlpool::pinocchio::Result<PositionUpdate> {
        unsafe {
            let same = PM_SET && p as *const MemoryMappedPosition as usize == P_POS && PM_ARGS.0 == delta && PM_ARGS.1 == fa && PM_ARGS.2 == fb
                && PM_ARGS.3[0] == rg[0] && PM_ARGS.3[1] == rg[1] && PM_ARGS.3[2] == rg[2];
            if !same {
                DIVERGED = true;
                return Ok(any_position_update());
            }
            if PM_KIND == 0 {
                match &PM_V {
                    Some(u) => Ok(clone_pu(u)),
                    None => unreachable!(),
                }
            } else {
                Err(pm_err().into())
            }
        }
    }
}

// ---------------------------------------------------------------------------------------------
// §1 memory-mapped views vs Anchor account types

/// MemoryMappedWhirlpool: every scalar/key getter returns what `Whirlpool::try_deserialize` decodes from the
/// same 653 bytes; discriminator constants agree; the hand-written `wp_from_bytes` (used by §2) equals the Anchor
/// decode on every non-reward field
// @verif prop=C12 tier=quick timeout=300
#[kani::proof]
#[kani::unwind(34)]
#[kani::stub(alloc::fmt::format, stub_format)]
#[kani::stub(<anchor_lang::error::Error as core::convert::From<anchor_lang::error::ErrorCode>>::from, stub_err_from_anchor_code)]
#[kani::stub(<anchor_lang::error::Error as core::convert::From<::whirlpool::errors::ErrorCode>>::from, stub_err_from_code)]
fn c12_view_whirlpool_read() {
    let bytes = any_wp_bytes();
    let j: usize = kani::any();
    kani::assume(j < 32);
    let w = wp_decode(&bytes);
    let v = wp_view(&bytes);
    assert!(core::mem::size_of::<MemoryMappedWhirlpool>() == WP_LEN);
    assert!(<MemoryMappedWhirlpool as WhirlpoolProgramAccount>::DISCRIMINATOR[..] == *Whirlpool::DISCRIMINATOR);
    assert!(v.tick_spacing() == w.tick_spacing);
    assert!(v.liquidity() == w.liquidity);
    assert!(v.sqrt_price() == w.sqrt_price);
    assert!(v.tick_current_index() == w.tick_current_index);
    assert!(eq32(v.token_mint_a(), &w.token_mint_a.to_bytes()));
    assert!(eq32(v.token_mint_b(), &w.token_mint_b.to_bytes()));
    assert!(eq32(v.token_vault_a(), &w.token_vault_a.to_bytes()));
    assert!(eq32(v.token_vault_b(), &w.token_vault_b.to_bytes()));
    assert!(v.fee_growth_global_a() == w.fee_growth_global_a);
    assert!(v.fee_growth_global_b() == w.fee_growth_global_b);
    assert!(v.reward_last_updated_timestamp() == w.reward_last_updated_timestamp);
    // the hand-written decoder used by the §2 harnesses agrees with Anchor's on every non-reward field
    // (incl. the fields without a Pinocchio getter; key-like fields: byte j for every j)
    let m = wp_from_bytes(&bytes);
    assert!(same_wp_core(&w, &m, j));
    kani::cover!(v.liquidity() != 0 && v.tick_spacing() == 64, "plausible pool");
}

/// MemoryMappedWhirlpoolRewardInfo (inside the 653-byte view): mint, vault, extension, emissions, growth and
/// `initialized()` agree with the decoded `Whirlpool.reward_infos[i]` for every reward index i
// @verif prop=C12 tier=quick timeout=300
#[kani::proof]
#[kani::unwind(34)]
#[kani::stub(alloc::fmt::format, stub_format)]
#[kani::stub(<anchor_lang::error::Error as core::convert::From<anchor_lang::error::ErrorCode>>::from, stub_err_from_anchor_code)]
#[kani::stub(<anchor_lang::error::Error as core::convert::From<::whirlpool::errors::ErrorCode>>::from, stub_err_from_code)]
fn c12_view_whirlpool_read_rewards() {
    let bytes = any_wp_bytes();
    let j: usize = kani::any();
    kani::assume(j < 32);
    let w = wp_decode(&bytes);
    let v = wp_view(&bytes);
    let ri = v.reward_infos();
    let mut i = 0;
    while i < 3 {
        // key-like fields: byte j for every j
        assert!(ri[i].mint()[j] == w.reward_infos[i].mint.as_ref()[j]);
        assert!(ri[i].vault()[j] == w.reward_infos[i].vault.as_ref()[j]);
        assert!(ri[i].extension()[j] == w.reward_infos[i].extension[j]);
        assert!(ri[i].emissions_per_second_x64() == w.reward_infos[i].emissions_per_second_x64);
        assert!(ri[i].growth_global_x64() == w.reward_infos[i].growth_global_x64);
        assert!(ri[i].initialized() == w.reward_infos[i].initialized());
        i += 1;
    }
    kani::cover!(ri[2].initialized() && !ri[1].initialized(), "reward 2 initialised, reward 1 not");
}

/// MemoryMappedWhirlpool::seeds (PDA signer seeds for the vault CPIs) yields the same six byte strings as
/// `Whirlpool::seeds` on the decoded account
// @verif prop=C12 tier=quick timeout=300
#[kani::proof]
#[kani::unwind(34)]
#[kani::stub(alloc::fmt::format, stub_format)]
#[kani::stub(<anchor_lang::error::Error as core::convert::From<anchor_lang::error::ErrorCode>>::from, stub_err_from_anchor_code)]
#[kani::stub(<anchor_lang::error::Error as core::convert::From<::whirlpool::errors::ErrorCode>>::from, stub_err_from_code)]
fn c12_view_whirlpool_seeds() {
    let bytes = any_wp_bytes();
    let k: usize = kani::any();
    kani::assume(k < 6);
    let j: usize = kani::any();
    let w = wp_decode(&bytes);
    let v = wp_view(&bytes);
    let ps = v.seeds();
    let as_ = w.seeds();
    assert!(ps[k].len() == as_[k].len());
    kani::assume(j < as_[k].len());
    assert!(ps[k][j] == as_[k][j]);
    kani::cover!(k == 5 && j == 0, "bump seed");
    kani::cover!(k == 2 && j == 31, "mint seed");
}

/// MemoryMappedWhirlpool::update_liquidity_and_reward_growth_global writes exactly the bytes that
/// Anchor decode → Whirlpool::update_rewards_and_liquidity → Anchor encode produces (all 653 bytes)
// @verif prop=C12 tier=quick timeout=300
#[kani::proof]
#[kani::unwind(34)]
#[kani::stub(alloc::fmt::format, stub_format)]
#[kani::stub(<anchor_lang::error::Error as core::convert::From<anchor_lang::error::ErrorCode>>::from, stub_err_from_anchor_code)]
#[kani::stub(<anchor_lang::error::Error as core::convert::From<::whirlpool::errors::ErrorCode>>::from, stub_err_from_code)]
fn c12_view_whirlpool_write() {
    let bytes = any_wp_bytes();
    let liq: u128 = kani::any();
    let g: [u128; 3] = [kani::any(), kani::any(), kani::any()];
    let ts: u64 = kani::any();
    let k: usize = kani::any();
    kani::assume(k < WP_LEN);
    // Pinocchio write
    let mut pb = bytes;
    wp_view_mut(&mut pb).update_liquidity_and_reward_growth_global(liq, &g, ts);
    // Anchor write
    let mut w = wp_decode(&bytes);
    let mut infos = w.reward_infos;
    infos[0].growth_global_x64 = g[0];
    infos[1].growth_global_x64 = g[1];
    infos[2].growth_global_x64 = g[2];
    w.update_rewards_and_liquidity(infos, liq, ts);
    let ab = wp_encode(&w);
    assert!(pb[k] == ab[k]);
    // (Anchor decoding what Pinocchio wrote follows from byte equality + c12_view_whirlpool_read*)
    // Pinocchio reads what Anchor wrote
    let v2 = wp_view(&ab);
    assert!(v2.liquidity() == liq && v2.reward_last_updated_timestamp() == ts);
    assert!(v2.reward_infos()[2].growth_global_x64() == g[2]);
    kani::cover!(pb[k] != bytes[k], "a byte changed");
}

/// MemoryMappedPosition: every getter returns what `Position::try_deserialize` decodes from the same 216 bytes
// @verif prop=C12 tier=quick timeout=300
#[kani::proof]
#[kani::unwind(34)]
#[kani::stub(alloc::fmt::format, stub_format)]
#[kani::stub(<anchor_lang::error::Error as core::convert::From<anchor_lang::error::ErrorCode>>::from, stub_err_from_anchor_code)]
#[kani::stub(<anchor_lang::error::Error as core::convert::From<::whirlpool::errors::ErrorCode>>::from, stub_err_from_code)]
fn c12_view_position_read() {
    let bytes = any_pos_bytes();
    let p = pos_decode(&bytes);
    let v = pos_view(&bytes);
    assert!(core::mem::size_of::<MemoryMappedPosition>() == POS_LEN);
    assert!(<MemoryMappedPosition as WhirlpoolProgramAccount>::DISCRIMINATOR[..] == *Position::DISCRIMINATOR);
    assert!(eq32(v.whirlpool(), &p.whirlpool.to_bytes()));
    assert!(eq32(v.position_mint(), &p.position_mint.to_bytes()));
    assert!(v.liquidity() == p.liquidity);
    assert!(v.tick_lower_index() == p.tick_lower_index);
    assert!(v.tick_upper_index() == p.tick_upper_index);
    assert!(v.fee_growth_checkpoint_a() == p.fee_growth_checkpoint_a);
    assert!(v.fee_owed_a() == p.fee_owed_a);
    assert!(v.fee_growth_checkpoint_b() == p.fee_growth_checkpoint_b);
    assert!(v.fee_owed_b() == p.fee_owed_b);
    let ri = v.reward_infos();
    let mut i = 0;
    while i < 3 {
        assert!(ri[i].growth_inside_checkpoint() == p.reward_infos[i].growth_inside_checkpoint);
        assert!(ri[i].amount_owed() == p.reward_infos[i].amount_owed);
        i += 1;
    }
    kani::cover!(v.liquidity() != 0 && v.tick_lower_index() < v.tick_upper_index(), "plausible position");
}

/// MemoryMappedPosition::update writes exactly the bytes of Anchor decode → Position::update → Anchor encode
// @verif prop=C12 tier=quick timeout=300
#[kani::proof]
#[kani::unwind(34)]
#[kani::stub(alloc::fmt::format, stub_format)]
#[kani::stub(<anchor_lang::error::Error as core::convert::From<anchor_lang::error::ErrorCode>>::from, stub_err_from_anchor_code)]
#[kani::stub(<anchor_lang::error::Error as core::convert::From<::whirlpool::errors::ErrorCode>>::from, stub_err_from_code)]
fn c12_view_position_update() {
    let bytes = any_pos_bytes();
    let u = any_position_update();
    let k: usize = kani::any();
    kani::assume(k < POS_LEN);
    let mut pb = bytes;
    pos_view_mut(&mut pb).update(&u);
    let mut p = pos_decode(&bytes);
    p.update(&u);
    let ab = pos_encode(&p);
    assert!(pb[k] == ab[k]);
    // (Anchor decoding what Pinocchio wrote follows from byte equality + c12_view_position_read)
    // Pinocchio reads what Anchor wrote
    let v2 = pos_view(&ab);
    assert!(v2.liquidity() == u.liquidity);
    assert!(v2.fee_growth_checkpoint_a() == u.fee_growth_checkpoint_a);
    assert!(v2.fee_growth_checkpoint_b() == u.fee_growth_checkpoint_b);
    assert!(v2.reward_infos()[2].amount_owed() == u.reward_infos[2].amount_owed);
    assert!(v2.reward_infos()[1].growth_inside_checkpoint() == u.reward_infos[1].growth_inside_checkpoint);
    kani::cover!(pb[k] != bytes[k], "a byte changed");
}

/// the hand-written `wp_from_bytes` (used by the §2 harnesses instead of the Anchor decode) equals
/// `Whirlpool::try_deserialize` on all five fields of all three reward infos, for all 653-byte images
/// (non-reward fields: c12_view_whirlpool_read)
// @verif prop=C12 tier=quick timeout=300
#[kani::proof]
#[kani::unwind(34)]
#[kani::stub(alloc::fmt::format, stub_format)]
#[kani::stub(<anchor_lang::error::Error as core::convert::From<anchor_lang::error::ErrorCode>>::from, stub_err_from_anchor_code)]
#[kani::stub(<anchor_lang::error::Error as core::convert::From<::whirlpool::errors::ErrorCode>>::from, stub_err_from_code)]
fn c12_decode_whirlpool_manual_rewards() {
    let bytes = any_wp_bytes();
    let w = wp_decode(&bytes);
    let m = wp_from_bytes(&bytes);
    assert!(same_wp_reward(&w.reward_infos[0], &m.reward_infos[0], 0)
        && same_wp_reward(&w.reward_infos[1], &m.reward_infos[1], 0)
        && same_wp_reward(&w.reward_infos[2], &m.reward_infos[2], 0));
    kani::cover!(w.reward_infos[2].emissions_per_second_x64 != 0, "reward 2 emitting");
}

/// the hand-written `pos_from_bytes` used by the §2 harnesses equals `Position::try_deserialize` field by field on
/// all 216-byte images
// @verif prop=C12 tier=quick timeout=300
#[kani::proof]
#[kani::unwind(34)]
#[kani::stub(alloc::fmt::format, stub_format)]
#[kani::stub(<anchor_lang::error::Error as core::convert::From<anchor_lang::error::ErrorCode>>::from, stub_err_from_anchor_code)]
#[kani::stub(<anchor_lang::error::Error as core::convert::From<::whirlpool::errors::ErrorCode>>::from, stub_err_from_code)]
fn c12_decode_position_manual() {
    let bytes = any_pos_bytes();
    let j: usize = kani::any();
    kani::assume(j < 32);
    let p = pos_decode(&bytes);
    let m = pos_from_bytes(&bytes);
    assert!(same_pos(&p, &m, j));
    kani::cover!(p.liquidity != 0 && p.reward_infos[2].amount_owed != 0, "plausible position");
}

/// MemoryMappedTick getters ≡ zero-copy `Tick` fields on the same 113 bytes; MemoryMappedTick::update writes
/// exactly the bytes `Tick::update` writes
// @verif prop=C12 tier=quick timeout=300
#[kani::proof]
#[kani::unwind(5)]
#[kani::stub(alloc::fmt::format, stub_format)]
fn c12_view_tick_read_write() {
    let bytes = any_tick_bytes();
    let (au, pu) = any_tick_updates();
    let k: usize = kani::any();
    kani::assume(k < 113);
    assert!(core::mem::size_of::<MemoryMappedTick>() == 113 && core::mem::size_of::<Tick>() == 113);
    let t = tick_from_bytes(&bytes);
    let v = mtick(&bytes);
    assert!(v.initialized() == t.initialized);
    assert!(v.liquidity_net() == { t.liquidity_net });
    assert!(v.liquidity_gross() == { t.liquidity_gross });
    assert!(v.fee_growth_outside_a() == { t.fee_growth_outside_a });
    assert!(v.fee_growth_outside_b() == { t.fee_growth_outside_b });
    let r = v.reward_growths_outside();
    let tr = { t.reward_growths_outside };
    assert!(r[0] == tr[0] && r[1] == tr[1] && r[2] == tr[2]);
    // write
    let mut pb = bytes;
    mtick_mut(&mut pb).update(&pu);
    let mut t2 = t;
    t2.update(&au);
    let ab: [u8; 113] = unsafe { core::mem::transmute(t2) };
    assert!(pb[k] == ab[k]);
    kani::cover!(pb[k] != bytes[k], "a byte changed");
}

/// The hand-written division-free `check_is_usable_tick_and_get_offset` meets its multiplication spec for EVERY
/// tick_spacing >= 1, every start index in the range valid arrays can have and every tick index:
/// `Some(off)` ⇔ in array bounds ∧ MIN_TICK <= t <= MAX_TICK ∧ t − start = off·tick_spacing, and then off < 88.
/// (Anchor computes the same thing with `%` and `/`; for symbolic spacing the link is Euclid's division lemma,
/// which bit-blasting does not close — see c12_tick_offset_equiv for the differential on concrete spacings.)
// @verif prop=C12 tier=quick timeout=300
#[kani::proof]
#[kani::unwind(9)]
#[kani::stub(alloc::fmt::format, stub_format)]
#[kani::stub(<anchor_lang::error::Error as core::convert::From<anchor_lang::error::ErrorCode>>::from, stub_err_from_anchor_code)]
#[kani::stub(<anchor_lang::error::Error as core::convert::From<::whirlpool::errors::ErrorCode>>::from, stub_err_from_code)]
#[kani::stub(<::whirlpool::pinocchio::errors::UnifiedError as core::convert::From<::whirlpool::errors::ErrorCode>>::from, stub_unified_from_code)]
#[kani::stub(<::whirlpool::pinocchio::errors::UnifiedError as core::convert::From<anchor_lang::error::ErrorCode>>::from, stub_unified_from_anchor_code)]
fn c12_tick_offset_pino_spec() {
    let ts: u16 = kani::any();
    kani::assume(ts >= 1);
    let start: i32 = kani::any();
    // every valid start index lies in [MIN_TICK - 88*65535, MAX_TICK]
    kani::assume(start >= MIN_TICK_INDEX - 88 * 65535 && start <= MAX_TICK_INDEX);
    let t: i32 = kani::any();
    let q: u8 = kani::any();
    kani::assume(q < 88);
    let fb = fta_with_start(start);
    let p = fta_pino(&fb);
    let po = PTickArray::check_is_usable_tick_and_get_offset(p, t, ts);
    let inb = PTickArray::check_in_array_bounds(p, t, ts) && t >= MIN_TICK_INDEX && t <= MAX_TICK_INDEX;
    match po {
        Some(off) => {
            assert!(inb && off < 88);
            assert!((t - start) as i64 == (off as i64) * (ts as i64));
        }
        None => {
            // for every q < 88: t - start != q * ts
            if inb {
                assert!((t - start) as i64 != (q as i64) * (ts as i64));
            }
        }
    }
    kani::cover!(po == Some(87) && ts == 32896, "last slot, widest spacing");
    kani::cover!(po.is_none() && inb, "in bounds, not on the grid");
    // the same provided method instantiated for the dynamic view (start index at 8..12 as well) agrees
    let mut db: Box<[u8; DTA_LEN]> = Box::new([0u8; DTA_LEN]);
    let sb = start.to_le_bytes();
    db[8] = sb[0];
    db[9] = sb[1];
    db[10] = sb[2];
    db[11] = sb[3];
    let dp: &MemoryMappedDynamicTickArray = unsafe { &*(db.as_ptr() as *const MemoryMappedDynamicTickArray) };
    assert!(PTickArray::check_is_usable_tick_and_get_offset(dp, t, ts) == po);
}

fn offset_case(ts: u16, fb: &mut Box<[u8; FTA_LEN]>) {
    let start: i32 = kani::any();
    kani::assume(Tick::check_is_valid_start_tick(start, ts));
    let t: i32 = kani::any();
    let shifted: bool = kani::any();
    let sb = start.to_le_bytes();
    fb[8] = sb[0];
    fb[9] = sb[1];
    fb[10] = sb[2];
    fb[11] = sb[3];
    let a = fta_anchor(fb);
    let p = fta_pino(fb);
    assert!(TickArrayType::start_tick_index(a) == start && PTickArray::start_tick_index(p) == start);
    // Anchor decision
    let usable = TickArrayType::check_in_array_bounds(a, t, ts) && Tick::check_is_usable_tick(t, ts);
    let po = PTickArray::check_is_usable_tick_and_get_offset(p, t, ts);
    match po {
        Some(off) => {
            assert!(usable);
            let ao = TickArrayType::tick_offset(a, t, ts);
            match &ao {
                Ok(x) => assert!(*x >= 0 && *x as usize == off && off < 88),
                Err(_) => assert!(false, "anchor offset fails"),
            }
            core::mem::forget(ao);
            // slot addressing: the tick Pinocchio hands out is the tick Anchor indexes, 12 + 113*off into the image
            let pr = PTickArray::get_tick(p, t, ts);
            match &pr {
                Ok(y) => {
                    let pa = *y as *const MemoryMappedTick as usize;
                    let aa = &a.ticks[off] as *const Tick as usize;
                    assert!(pa == aa && pa == fb.as_ptr() as usize + 12 + 113 * off);
                }
                Err(_) => assert!(false, "pinocchio get_tick fails on a usable tick"),
            }
            core::mem::forget(pr);
        }
        None => assert!(!usable),
    }
    kani::cover!(po == Some(87), "last slot");
    kani::cover!(po.is_some() && start < MIN_TICK_INDEX, "leftmost array");
    kani::cover!(po.is_none() && TickArrayType::check_in_array_bounds(a, t, ts), "in bounds but not usable");
    // the helper predicates both traits duplicate
    assert!(TickArrayType::in_search_range(a, t, ts, shifted) == PTickArray::in_search_range(p, t, ts, shifted));
    assert!(TickArrayType::is_min_tick_array(a) == PTickArray::is_min_tick_array(p));
    assert!(TickArrayType::is_max_tick_array(a, ts) == PTickArray::is_max_tick_array(p, ts));
    if TickArrayType::in_search_range(a, t, ts, shifted) {
        let ao = TickArrayType::tick_offset(a, t, ts);
        let pof = PTickArray::tick_offset(p, t, ts);
        match (&ao, &pof) {
            (Ok(x), Ok(y)) => assert!(x == y),
            _ => assert!(false, "tick_offset fails for ts >= 1"),
        }
        core::mem::forget(ao);
        core::mem::forget(pof);
    }
}
fn offset_cases(list: &[u16]) {
    let mut fb: Box<[u8; FTA_LEN]> = Box::new([0u8; FTA_LEN]);
    let mut i = 0;
    while i < list.len() {
        offset_case(list[i], &mut fb);
        i += 1;
    }
}

/// Pinocchio `check_is_usable_tick_and_get_offset` / `get_tick` slot addressing ≡ Anchor
/// `check_in_array_bounds && Tick::check_is_usable_tick` + `tick_offset` + `&ticks[offset]`, plus `tick_offset`,
/// `in_search_range`, `is_min/max_tick_array`, for every tick index and every VALID start index
/// (`Tick::check_is_valid_start_tick`, enforced at array creation; without it the shift-subtract offset legitimately
/// differs — unreachable state). Tick spacing: each of 1, 2, 4, 8, 16, 32, 64, 128 (concrete: a symbolic divisor
/// against the shift-subtract loop does not terminate in CBMC; c12_tick_offset_pino_spec covers all spacings)
// @verif prop=C12 tier=quick timeout=300
#[kani::proof]
#[kani::unwind(9)]
#[kani::stub(alloc::fmt::format, stub_format)]
#[kani::stub(<anchor_lang::error::Error as core::convert::From<anchor_lang::error::ErrorCode>>::from, stub_err_from_anchor_code)]
#[kani::stub(<anchor_lang::error::Error as core::convert::From<::whirlpool::errors::ErrorCode>>::from, stub_err_from_code)]
#[kani::stub(<::whirlpool::pinocchio::errors::UnifiedError as core::convert::From<::whirlpool::errors::ErrorCode>>::from, stub_unified_from_code)]
#[kani::stub(<::whirlpool::pinocchio::errors::UnifiedError as core::convert::From<anchor_lang::error::ErrorCode>>::from, stub_unified_from_anchor_code)]
fn c12_tick_offset_equiv_pow2_small() {
    offset_cases(&[1, 2, 4, 8, 16, 32, 64, 128]);
}

/// same as c12_tick_offset_equiv_pow2_small for tick spacings 256, 512, 1024, 2048, 4096, 8192, 16384, 32768
// @verif prop=C12 tier=quick timeout=300
#[kani::proof]
#[kani::unwind(9)]
#[kani::stub(alloc::fmt::format, stub_format)]
#[kani::stub(<anchor_lang::error::Error as core::convert::From<anchor_lang::error::ErrorCode>>::from, stub_err_from_anchor_code)]
#[kani::stub(<anchor_lang::error::Error as core::convert::From<::whirlpool::errors::ErrorCode>>::from, stub_err_from_code)]
#[kani::stub(<::whirlpool::pinocchio::errors::UnifiedError as core::convert::From<::whirlpool::errors::ErrorCode>>::from, stub_unified_from_code)]
#[kani::stub(<::whirlpool::pinocchio::errors::UnifiedError as core::convert::From<anchor_lang::error::ErrorCode>>::from, stub_unified_from_anchor_code)]
fn c12_tick_offset_equiv_pow2_large() {
    offset_cases(&[256, 512, 1024, 2048, 4096, 8192, 16384, 32768]);
}

/// same as c12_tick_offset_equiv_pow2_small for the non-power-of-two spacings 3, 7, 96, 100, 32896 (full-range-only
/// pools), 65535
// @verif prop=C12 tier=quick timeout=300
#[kani::proof]
#[kani::unwind(9)]
#[kani::stub(alloc::fmt::format, stub_format)]
#[kani::stub(<anchor_lang::error::Error as core::convert::From<anchor_lang::error::ErrorCode>>::from, stub_err_from_anchor_code)]
#[kani::stub(<anchor_lang::error::Error as core::convert::From<::whirlpool::errors::ErrorCode>>::from, stub_err_from_code)]
#[kani::stub(<::whirlpool::pinocchio::errors::UnifiedError as core::convert::From<::whirlpool::errors::ErrorCode>>::from, stub_unified_from_code)]
#[kani::stub(<::whirlpool::pinocchio::errors::UnifiedError as core::convert::From<anchor_lang::error::ErrorCode>>::from, stub_unified_from_anchor_code)]
fn c12_tick_offset_equiv_other() {
    offset_cases(&[3, 7, 96, 100, 32896, 65535]);
}

// NOTE (removed harnesses, none finished on the unchanged tree within 900 s / 40 GB): a DATA-path differential of
// `get_tick`/`update_tick` over the 9988-byte fixed-array image (even with concrete addressing), and
// `MemoryMappedPosition::reset_position_range` vs `Position::reset_position_range` over `Account<Whirlpool>` (it did
// catch the seeded "is_position_empty ignores reward 2" mutation in 175 s, but the passing case does not terminate).
// The helpers below them (FtaImage, fta_image, ...) are kept for whoever retries with a cheaper formulation.

/// Dynamic tick array header: start index, whirlpool key, bitmap, variable-size flag and the slot -> byte offset map
/// (113·popcount + rest) read identically by `MemoryMappedDynamicTickArray` and Anchor's `DynamicTickArrayLoader`
/// from the same 60 header bytes (tick data: see C13)
// @verif prop=C12 tier=quick timeout=300
#[kani::proof]
#[kani::unwind(61)]
#[kani::stub(alloc::fmt::format, stub_format)]
#[kani::stub(<anchor_lang::error::Error as core::convert::From<anchor_lang::error::ErrorCode>>::from, stub_err_from_anchor_code)]
#[kani::stub(<anchor_lang::error::Error as core::convert::From<::whirlpool::errors::ErrorCode>>::from, stub_err_from_code)]
#[kani::stub(<::whirlpool::pinocchio::errors::UnifiedError as core::convert::From<::whirlpool::errors::ErrorCode>>::from, stub_unified_from_code)]
#[kani::stub(<::whirlpool::pinocchio::errors::UnifiedError as core::convert::From<anchor_lang::error::ErrorCode>>::from, stub_unified_from_anchor_code)]
fn c12_view_dynamic_header() {
    let hdr: [u8; 60] = kani::any();
    let slot: usize = kani::any();
    kani::assume(slot < 88);
    let j: usize = kani::any();
    kani::assume(j < 32);
    // Anchor's loader maps `[u8; MAX_LEN]` at data[8..], i.e. it claims 8 bytes beyond a MAX_LEN account: on chain
    // those are the runtime's 10 KiB realloc padding; model them
    let mut db: Box<[u8; DTA_LEN + 8]> = Box::new([0u8; DTA_LEN + 8]);
    let mut i = 0;
    while i < 60 {
        db[i] = hdr[i];
        i += 1;
    }
    assert!(core::mem::size_of::<MemoryMappedDynamicTickArray>() == DTA_LEN && DynamicTickArray::MAX_LEN == DTA_LEN);
    let p: &MemoryMappedDynamicTickArray = unsafe { &*(db.as_ptr() as *const MemoryMappedDynamicTickArray) };
    let a = DynamicTickArrayLoader::load(&db[8..]);
    assert!(TickArrayType::start_tick_index(a) == PTickArray::start_tick_index(p));
    assert!(TickArrayType::whirlpool(a).as_ref()[j] == PTickArray::whirlpool(p)[j]);
    assert!(TickArrayType::is_variable_size(a) && PTickArray::is_variable_size(p));
    assert!(a.verif_tick_bitmap() == p.verif_tick_bitmap());
    let ao = a.verif_byte_offset(slot as isize);
    let po = p.verif_byte_offset(slot);
    match (&ao, &po) {
        (Ok(x), Ok(y)) => assert!(x == y),
        _ => assert!(false, "byte_offset is infallible for slot >= 0"),
    }
    kani::cover!(matches!(&ao, Ok(x) if *x == 87 * 113), "all earlier slots initialised");
    core::mem::forget(ao);
    core::mem::forget(po);
}

/// MemoryMappedTokenAccount getters (mint, owner, amount, delegate, delegated_amount, is_frozen) ≡
/// `spl_token::state::Account::unpack` on the same 165 bytes, for every image the token program accepts
/// (unpack succeeds: initialised state, well-formed COption tags)
// @verif prop=C12 tier=quick timeout=300
#[kani::proof]
#[kani::unwind(34)]
#[kani::stub(alloc::fmt::format, stub_format)]
#[kani::stub(<anchor_lang::error::Error as core::convert::From<anchor_lang::error::ErrorCode>>::from, stub_err_from_anchor_code)]
#[kani::stub(<anchor_lang::error::Error as core::convert::From<::whirlpool::errors::ErrorCode>>::from, stub_err_from_code)]
#[kani::stub(<::whirlpool::pinocchio::errors::UnifiedError as core::convert::From<::whirlpool::errors::ErrorCode>>::from, stub_unified_from_code)]
#[kani::stub(<::whirlpool::pinocchio::errors::UnifiedError as core::convert::From<anchor_lang::error::ErrorCode>>::from, stub_unified_from_anchor_code)]
fn c12_view_token_account_read() {
    use anchor_lang::solana_program::program_pack::Pack;
    use anchor_spl::token::spl_token::state::{Account as SplAccount, AccountState};
    let b: [u8; 165] = kani::any();
    assert!(core::mem::size_of::<MemoryMappedTokenAccount>() == 165);
    let r = SplAccount::unpack(&b);
    let acc = match r {
        Ok(a) => a,
        Err(e) => {
            core::mem::forget(e);
            kani::assume(false);
            unreachable!()
        }
    };
    let v: &MemoryMappedTokenAccount = unsafe { &*(b.as_ptr() as *const MemoryMappedTokenAccount) };
    assert!(eq32(v.mint(), &acc.mint.to_bytes()));
    assert!(eq32(v.owner(), &acc.owner.to_bytes()));
    assert!(v.amount() == acc.amount);
    assert!(v.delegated_amount() == acc.delegated_amount);
    assert!(v.is_frozen() == (acc.state == AccountState::Frozen));
    assert!(v.is_frozen() == acc.is_frozen());
    assert!(::whirlpool::pinocchio::ported::util_shared::pino_is_locked_position(v) == acc.is_frozen());
    match (v.delegate(), Option::<anchor_lang::prelude::Pubkey>::from(acc.delegate)) {
        (Some(x), Some(y)) => assert!(eq32(x, &y.to_bytes())),
        (None, None) => {}
        _ => assert!(false, "delegate presence differs"),
    }
    kani::cover!(v.delegate().is_some() && v.is_frozen(), "delegated and frozen");
    kani::cover!(v.delegate().is_none() && !v.is_frozen(), "plain");
}

/// pino_verify_position_authority ≡ verify_position_authority on every valid 165-byte position token account and
/// authority key (authority is a signer: Anchor's `Signer` type; for a non-signer the Pinocchio result equals
/// Anchor's `validate_owner`)
// @verif prop=C12 tier=quick timeout=300
#[kani::proof]
#[kani::unwind(34)]
#[kani::stub(alloc::fmt::format, stub_format)]
#[kani::stub(<anchor_lang::error::Error as core::convert::From<anchor_lang::error::ErrorCode>>::from, stub_err_from_anchor_code)]
#[kani::stub(<anchor_lang::error::Error as core::convert::From<::whirlpool::errors::ErrorCode>>::from, stub_err_from_code)]
#[kani::stub(<::whirlpool::pinocchio::errors::UnifiedError as core::convert::From<::whirlpool::errors::ErrorCode>>::from, stub_unified_from_code)]
#[kani::stub(<::whirlpool::pinocchio::errors::UnifiedError as core::convert::From<anchor_lang::error::ErrorCode>>::from, stub_unified_from_anchor_code)]
fn c12_verify_position_authority_equiv() {
    use ::whirlpool::pinocchio::ported::util_shared::pino_verify_position_authority;
    use ::whirlpool::util::{validate_owner, verify_position_authority};
    let b: [u8; 165] = kani::any();
    let auth_key: [u8; 32] = kani::any();
    let is_signer: bool = kani::any();
    let tok = match anchor_spl::token::TokenAccount::try_deserialize(&mut &b[..]) {
        Ok(a) => a,
        Err(e) => {
            core::mem::forget(e);
            kani::assume(false);
            unreachable!()
        }
    };
    // Anchor authority account
    let key = anchor_lang::prelude::Pubkey::new_from_array(auth_key);
    let owner = anchor_lang::solana_program::system_program::ID;
    let mut lamports = 1u64;
    let mut nodata: [u8; 0] = [];
    let ai = anchor_lang::prelude::AccountInfo::new(&key, is_signer, false, &mut lamports, &mut nodata[..], &owner, false, 0);
    // Pinocchio authority account
    let mut raw = RawAcc::<0> { borrow_state: 0xff, is_signer: is_signer as u8, is_writable: 0, executable: 0, resize_delta: 0,
        key: auth_key, owner: [0u8; 32], lamports: 1, data_len: 0, data: [] };
    let pai = unsafe { pino_ai(&mut raw) };
    let v: &MemoryMappedTokenAccount = unsafe { &*(b.as_ptr() as *const MemoryMappedTokenAccount) };
    let pr = pino_verify_position_authority(v, &pai);
    let ar = if is_signer {
        let signer = match anchor_lang::prelude::Signer::try_from(&ai) {
            Ok(s) => s,
            Err(e) => {
                core::mem::forget(e);
                panic!("signer must load")
            }
        };
        verify_position_authority(&tok, &signer)
    } else {
        validate_owner(&tok.owner, &ai)
    };
    match (&ar, &pr) {
        (Ok(()), Ok(())) => {}
        (Err(x), Err(y)) => assert!(acode(x) == ucode(y)),
        _ => assert!(false, "outcome kind differs"),
    }
    kani::cover!(ar.is_ok() && v.delegate().is_some() && auth_key != tok.owner.to_bytes(), "delegate accepted");
    kani::cover!(ar.is_ok() && auth_key == tok.owner.to_bytes(), "owner accepted");
    kani::cover!(matches!(&ar, Err(e) if acode(e) == ecode(ErrorCode::InvalidPositionTokenAmount)), "delegate with wrong amount");
    core::mem::forget(ar);
    core::mem::forget(pr);
}

// ---------------------------------------------------------------------------------------------
// §2 ported functions vs Anchor originals

/// pino_next_tick_modify_liquidity_update ≡ next_tick_modify_liquidity_update on all 113-byte ticks and arguments
// @verif prop=C12 tier=quick timeout=300
#[kani::proof]
#[kani::unwind(5)]
#[kani::stub(alloc::fmt::format, stub_format)]
#[kani::stub(<anchor_lang::error::Error as core::convert::From<::whirlpool::errors::ErrorCode>>::from, stub_err_from_code)]
#[kani::stub(<::whirlpool::pinocchio::errors::UnifiedError as core::convert::From<::whirlpool::errors::ErrorCode>>::from, stub_unified_from_code)]
fn c12_tick_modify_equiv() {
    let bytes: [u8; 113] = kani::any();
    kani::assume(bytes[0] <= 1); // `initialized` is a bool in every account the program writes
    let tick_index: i32 = kani::any();
    let cur: i32 = kani::any();
    let ga: u128 = kani::any();
    let gb: u128 = kani::any();
    let rewards = any_rewards();
    let growths = [
        rewards[0].growth_global_x64,
        rewards[1].growth_global_x64,
        rewards[2].growth_global_x64,
    ];
    let delta: i128 = kani::any();
    let upper: bool = kani::any();
    let t = tick_from_bytes(&bytes);
    let a = next_tick_modify_liquidity_update(&t, tick_index, cur, ga, gb, &rewards, delta, upper);
    let p = pino_next_tick_modify_liquidity_update(mtick(&bytes), tick_index, cur, ga, gb, &growths, delta, upper);
    kani::cover!(a.is_ok() && delta != 0, "ok with change");
    kani::cover!(a.is_err(), "err");
    match (&a, &p) {
        (Ok(x), Ok(y)) => assert!(same_update(x, y)),
        (Err(x), Err(y)) => assert!(ecode(*x) == ucode(y)),
        _ => assert!(false, "outcome kind differs"),
    }
    core::mem::forget(p);
}

/// pino_next_fee_growths_inside ≡ next_fee_growths_inside on all pairs of 113-byte ticks, indexes and globals
// @verif prop=C12 tier=quick timeout=300
#[kani::proof]
#[kani::unwind(5)]
#[kani::stub(alloc::fmt::format, stub_format)]
fn c12_fee_growths_inside_equiv() {
    let lb = any_tick_bytes();
    let ub = any_tick_bytes();
    let cur: i32 = kani::any();
    let li: i32 = kani::any();
    let ui: i32 = kani::any();
    let ga: u128 = kani::any();
    let gb: u128 = kani::any();
    let a = next_fee_growths_inside(cur, &tick_from_bytes(&lb), li, &tick_from_bytes(&ub), ui, ga, gb);
    let p = pino_next_fee_growths_inside(cur, mtick(&lb), li, mtick(&ub), ui, ga, gb);
    assert!(a.0 == p.0 && a.1 == p.1);
    kani::cover!(lb[0] == 1 && ub[0] == 1 && cur >= li && cur < ui && a.0 != 0, "inside range, both initialised");
    kani::cover!(lb[0] == 1 && cur < li, "below range");
    kani::cover!(ub[0] == 1 && cur >= ui, "above range");
}

/// pino_next_reward_growths_inside ≡ next_reward_growths_inside: reward infos are the same 384 bytes
/// (Pinocchio: memory-mapped infos + separate next-growth array; Anchor: Borsh-decoded infos with the growths replaced)
// @verif prop=C12 tier=quick timeout=300
#[kani::proof]
#[kani::unwind(34)]
#[kani::stub(alloc::fmt::format, stub_format)]
#[kani::stub(<anchor_lang::error::Error as core::convert::From<anchor_lang::error::ErrorCode>>::from, stub_err_from_anchor_code)]
#[kani::stub(<anchor_lang::error::Error as core::convert::From<::whirlpool::errors::ErrorCode>>::from, stub_err_from_code)]
fn c12_reward_growths_inside_equiv() {
    let rb: [u8; 384] = kani::any();
    let lb = any_tick_bytes();
    let ub = any_tick_bytes();
    let cur: i32 = kani::any();
    let li: i32 = kani::any();
    let ui: i32 = kani::any();
    let next: [u128; 3] = [kani::any(), kani::any(), kani::any()];
    assert!(core::mem::size_of::<[MemoryMappedWhirlpoolRewardInfo; 3]>() == 384);
    let pinfos: &[MemoryMappedWhirlpoolRewardInfo; 3] = unsafe { &*(rb.as_ptr() as *const _) };
    let dec = <[WhirlpoolRewardInfo; 3] as AnchorDeserialize>::deserialize(&mut &rb[..]);
    let mut infos = match dec {
        Ok(x) => x,
        Err(e) => {
            core::mem::forget(e);
            panic!("reward infos must decode")
        }
    };
    infos[0].growth_global_x64 = next[0];
    infos[1].growth_global_x64 = next[1];
    infos[2].growth_global_x64 = next[2];
    let a = next_reward_growths_inside(cur, &tick_from_bytes(&lb), li, &tick_from_bytes(&ub), ui, &infos);
    let p = pino_next_reward_growths_inside(cur, mtick(&lb), li, mtick(&ub), ui, pinfos, &next);
    assert!(a[0] == p[0] && a[1] == p[1] && a[2] == p[2]);
    kani::cover!(a[0] != 0 && a[1] == 0 && a[2] != 0, "initialised / uninitialised rewards mixed");
}

/// verif_pino_next_position_modify_liquidity_update ≡ next_position_modify_liquidity_update on all 216-byte
/// positions; checked_mul_shift_right is the same uninterpreted function on both sides
// @verif prop=C12 tier=quick timeout=300
#[kani::proof]
#[kani::unwind(34)]
#[kani::stub(alloc::fmt::format, stub_format)]
#[kani::stub(<anchor_lang::error::Error as core::convert::From<anchor_lang::error::ErrorCode>>::from, stub_err_from_anchor_code)]
#[kani::stub(<anchor_lang::error::Error as core::convert::From<::whirlpool::errors::ErrorCode>>::from, stub_err_from_code)]
#[kani::stub(<::whirlpool::pinocchio::errors::UnifiedError as core::convert::From<::whirlpool::errors::ErrorCode>>::from, stub_unified_from_code)]
#[kani::stub(::whirlpool::math::bit_math::checked_mul_shift_right, uf::stub_checked_mul_shift_right)]
fn c12_position_modify_equiv() {
    let pb = any_pos_bytes();
    let delta: i128 = kani::any();
    let fa: u128 = kani::any();
    let fb: u128 = kani::any();
    let rg: [u128; 3] = [kani::any(), kani::any(), kani::any()];
    let pos = pos_from_bytes(&pb);
    let a = next_position_modify_liquidity_update(&pos, delta, fa, fb, &rg);
    let p = verif_pino_next_position_modify_liquidity_update(pos_view(&pb), delta, fa, fb, &rg);
    kani::cover!(a.is_ok() && delta != 0, "ok with change");
    kani::cover!(a.is_err(), "err");
    match (&a, &p) {
        (Ok(x), Ok(y)) => {
            assert!(x == y);
            kani::cover!(x.fee_owed_a != pos.fee_owed_a && x.reward_infos[2].amount_owed != pos.reward_infos[2].amount_owed, "fees and rewards accrue");
        }
        (Err(x), Err(y)) => assert!(ecode(*x) == ucode(y)),
        _ => assert!(false, "outcome kind differs"),
    }
    core::mem::forget(p);
}

/// verif_pino_next_whirlpool_liquidity ≡ next_whirlpool_liquidity on all 653-byte pools, ranges and deltas
// @verif prop=C12 tier=quick timeout=300
#[kani::proof]
#[kani::unwind(34)]
#[kani::stub(alloc::fmt::format, stub_format)]
#[kani::stub(<anchor_lang::error::Error as core::convert::From<anchor_lang::error::ErrorCode>>::from, stub_err_from_anchor_code)]
#[kani::stub(<anchor_lang::error::Error as core::convert::From<::whirlpool::errors::ErrorCode>>::from, stub_err_from_code)]
#[kani::stub(<::whirlpool::pinocchio::errors::UnifiedError as core::convert::From<::whirlpool::errors::ErrorCode>>::from, stub_unified_from_code)]
fn c12_whirlpool_liquidity_equiv() {
    let wb = any_wp_bytes();
    let up: i32 = kani::any();
    let lo: i32 = kani::any();
    let delta: i128 = kani::any();
    let w = wp_from_bytes(&wb);
    let a = next_whirlpool_liquidity(&w, up, lo, delta);
    let p = verif_pino_next_whirlpool_liquidity(wp_view(&wb), up, lo, delta);
    kani::cover!(a.is_ok() && a != Ok(w.liquidity), "in range, changed");
    kani::cover!(a.is_err(), "err");
    match (&a, &p) {
        (Ok(x), Ok(y)) => assert!(x == y),
        (Err(x), Err(y)) => assert!(ecode(*x) == ucode(y)),
        _ => assert!(false, "outcome kind differs"),
    }
    core::mem::forget(p);
}

/// verif_pino_next_whirlpool_reward_growth_global ≡ growth_global_x64 of next_whirlpool_reward_infos on all
/// 653-byte pools and timestamps. checked_mul_div is one uninterpreted function (exact for a zero factor).
/// Invariant assumed: an uninitialised reward (mint == default) has emissions_per_second_x64 == 0 — emissions are
/// only written by set_reward_emissions(_v2), whose `reward_vault` constraint (a token account at
/// `reward_infos[i].vault`) cannot hold for the all-zero vault key of an uninitialised reward. The Pinocchio
/// port relies on it ("It is same to !reward_info.initialized()").
// @verif prop=C12 tier=quick timeout=300
#[kani::proof]
#[kani::unwind(34)]
#[kani::stub(alloc::fmt::format, stub_format)]
#[kani::stub(<anchor_lang::error::Error as core::convert::From<anchor_lang::error::ErrorCode>>::from, stub_err_from_anchor_code)]
#[kani::stub(<anchor_lang::error::Error as core::convert::From<::whirlpool::errors::ErrorCode>>::from, stub_err_from_code)]
#[kani::stub(<::whirlpool::pinocchio::errors::UnifiedError as core::convert::From<::whirlpool::errors::ErrorCode>>::from, stub_unified_from_code)]
#[kani::stub(::whirlpool::math::bit_math::checked_mul_div, uf::stub_checked_mul_div)]
fn c12_reward_growth_global_equiv() {
    let wb = any_wp_bytes();
    let ts: u64 = kani::any();
    let w = wp_from_bytes(&wb);
    let mut i = 0;
    while i < 3 {
        if !w.reward_infos[i].initialized() {
            kani::assume(w.reward_infos[i].emissions_per_second_x64 == 0);
        }
        i += 1;
    }
    let a = next_whirlpool_reward_infos(&w, ts);
    let p = verif_pino_next_whirlpool_reward_growth_global(wp_view(&wb), ts);
    kani::cover!(a.is_ok() && ts > w.reward_last_updated_timestamp && w.liquidity != 0
        && w.reward_infos[0].emissions_per_second_x64 != 0 && w.reward_infos[2].initialized()
        && w.reward_infos[2].emissions_per_second_x64 == 0, "growth accrues; initialised reward with zero emissions");
    kani::cover!(a.is_err(), "err");
    match (&a, &p) {
        (Ok(x), Ok(y)) => {
            assert!(x[0].growth_global_x64 == y[0]);
            assert!(x[1].growth_global_x64 == y[1]);
            assert!(x[2].growth_global_x64 == y[2]);
        }
        (Err(x), Err(y)) => assert!(ecode(*x) == ucode(y)),
        _ => assert!(false, "outcome kind differs"),
    }
    core::mem::forget(p);
}

/// verif_pino_calculate_modify_tick_array ≡ calculate_modify_tick_array (rent-transfer and realloc decision)
/// on all 216-byte positions, 113-byte ticks, position/tick updates and both array kinds
// @verif prop=C12 tier=quick timeout=300
#[kani::proof]
#[kani::unwind(34)]
#[kani::stub(alloc::fmt::format, stub_format)]
#[kani::stub(<anchor_lang::error::Error as core::convert::From<anchor_lang::error::ErrorCode>>::from, stub_err_from_anchor_code)]
#[kani::stub(<anchor_lang::error::Error as core::convert::From<::whirlpool::errors::ErrorCode>>::from, stub_err_from_code)]
#[kani::stub(<::whirlpool::pinocchio::errors::UnifiedError as core::convert::From<::whirlpool::errors::ErrorCode>>::from, stub_unified_from_code)]
fn c12_modify_tick_array_equiv() {
    let pb = any_pos_bytes();
    let tb = any_tick_bytes();
    let pu = any_position_update();
    let (au, ptu) = any_tick_updates();
    let variable: bool = kani::any();
    let pos = pos_from_bytes(&pb);
    let a = calculate_modify_tick_array(&pos, &pu, variable, &tick_from_bytes(&tb), &au);
    let p = verif_pino_calculate_modify_tick_array(pos_view(&pb), &pu, variable, mtick(&tb), &ptu);
    match (&a, &p) {
        (Ok(x), Ok(y)) => {
            assert!(x.transfer_rent == y.transfer_rent && x.size_update == y.size_update);
            kani::cover!(x.size_update == TickArraySizeUpdate::Increase && x.transfer_rent == TickArrayRentTransfer::TransferToTickArray, "grow");
            kani::cover!(x.size_update == TickArraySizeUpdate::Decrease && x.transfer_rent == TickArrayRentTransfer::TransferToPosition, "shrink");
        }
        _ => assert!(false, "both are infallible"),
    }
    core::mem::forget(a);
    core::mem::forget(p);
}

/// pino_calculate_liquidity_token_deltas ≡ calculate_liquidity_token_deltas on all 216-byte positions, prices,
/// current ticks and deltas; sqrt_price_from_tick_index and get_amount_delta_a/b are uninterpreted functions
/// (same structure ⇒ same calls; an arbitrary one of several error codes may come back and must be propagated)
// @verif prop=C12 tier=quick timeout=300
#[kani::proof]
#[kani::unwind(34)]
#[kani::stub(alloc::fmt::format, stub_format)]
#[kani::stub(<anchor_lang::error::Error as core::convert::From<anchor_lang::error::ErrorCode>>::from, stub_err_from_anchor_code)]
#[kani::stub(<anchor_lang::error::Error as core::convert::From<::whirlpool::errors::ErrorCode>>::from, stub_err_from_code)]
#[kani::stub(<::whirlpool::pinocchio::errors::UnifiedError as core::convert::From<::whirlpool::errors::ErrorCode>>::from, stub_unified_from_code)]
#[kani::stub(<::whirlpool::pinocchio::errors::UnifiedError as core::convert::From<anchor_lang::error::ErrorCode>>::from, stub_unified_from_anchor_code)]
#[kani::stub(::whirlpool::math::tick_math::sqrt_price_from_tick_index, uf::stub_sqrt_price_from_tick_index)]
#[kani::stub(::whirlpool::math::token_math::get_amount_delta_a, uf::stub_get_amount_delta_a)]
#[kani::stub(::whirlpool::math::token_math::get_amount_delta_b, uf::stub_get_amount_delta_b)]
fn c12_liquidity_token_deltas_equiv() {
    let pb = any_pos_bytes();
    let cur: i32 = kani::any();
    let price: u128 = kani::any();
    let delta: i128 = kani::any();
    let pos = pos_from_bytes(&pb);
    let a = calculate_liquidity_token_deltas(cur, price, &pos, delta);
    let p = pino_calculate_liquidity_token_deltas(cur, price, pos_view(&pb), delta);
    match (&a, &p) {
        (Ok(x), Ok(y)) => {
            assert!(x.0 == y.0 && x.1 == y.1);
            kani::cover!(x.0 != 0 && x.1 != 0, "in range: both tokens");
            kani::cover!(x.0 != 0 && x.1 == 0 && cur < pos.tick_lower_index, "below range: token A only");
        }
        (Err(x), Err(y)) => assert!(acode(x) == ucode(y)),
        _ => assert!(false, "outcome kind differs"),
    }
    kani::cover!(matches!(&a, Err(e) if acode(e) == ecode(ErrorCode::TokenMaxExceeded)), "amount error propagated");
    kani::cover!(matches!(&a, Err(e) if acode(e) == ecode(ErrorCode::LiquidityZero)), "zero delta");
    core::mem::forget(a);
    core::mem::forget(p);
}

fn same_modify(a: &ModifyLiquidityUpdate, p: &PinoModifyLiquidityUpdate) -> bool {
    a.whirlpool_liquidity == p.whirlpool_liquidity
        && same_update(&a.tick_lower_update, &p.tick_lower_update)
        && same_update(&a.tick_upper_update, &p.tick_upper_update)
        && a.reward_infos[0].growth_global_x64 == p.next_reward_growth_global[0]
        && a.reward_infos[1].growth_global_x64 == p.next_reward_growth_global[1]
        && a.reward_infos[2].growth_global_x64 == p.next_reward_growth_global[2]
        && a.position_update == p.position_update
        && a.tick_array_lower_update.transfer_rent == p.tick_array_lower_update.transfer_rent
        && a.tick_array_lower_update.size_update == p.tick_array_lower_update.size_update
        && a.tick_array_upper_update.transfer_rent == p.tick_array_upper_update.transfer_rent
        && a.tick_array_upper_update.size_update == p.tick_array_upper_update.size_update
}
/// documented invariant shared by the composed harnesses: uninitialised reward ⇒ zero emissions (see
/// c12_reward_growth_global_equiv)
fn assume_reward_invariant(w: &Whirlpool) {
    let mut i = 0;
    while i < 3 {
        if !w.reward_infos[i].initialized() {
            kani::assume(w.reward_infos[i].emissions_per_second_x64 == 0);
        }
        i += 1;
    }
}

/// pino_calculate_modify_liquidity ≡ calculate_modify_liquidity (whole composition of the private
/// `_calculate_modify_liquidity`s): every field of the update (pool liquidity, both tick updates, reward growths,
/// position update, rent-transfer / realloc decisions) or the same error code, on all 653-byte pools, 216-byte
/// positions (tick range symbolic), all 113-byte lower/upper ticks, found/not-found and fixed/variable-size arrays
/// (MockArr), all i128 deltas and timestamps. checked_mul_div / checked_mul_shift_right are uninterpreted functions
/// shared by both sides; reward invariant as in c12_reward_growth_global_equiv.
// @verif prop=C12 tier=thorough timeout=900
#[kani::proof]
#[kani::unwind(34)]
#[kani::stub(alloc::fmt::format, stub_format)]
#[kani::stub(<anchor_lang::error::Error as core::convert::From<anchor_lang::error::ErrorCode>>::from, stub_err_from_anchor_code)]
#[kani::stub(<anchor_lang::error::Error as core::convert::From<::whirlpool::errors::ErrorCode>>::from, stub_err_from_code)]
#[kani::stub(<::whirlpool::pinocchio::errors::UnifiedError as core::convert::From<::whirlpool::errors::ErrorCode>>::from, stub_unified_from_code)]
#[kani::stub(<::whirlpool::pinocchio::errors::UnifiedError as core::convert::From<anchor_lang::error::ErrorCode>>::from, stub_unified_from_anchor_code)]
#[kani::stub(::whirlpool::manager::whirlpool_manager::next_whirlpool_reward_infos, leaf::a_next_whirlpool_reward_infos)]
#[kani::stub(::whirlpool::pinocchio::ported::manager_liquidity_manager::pino_next_whirlpool_reward_growth_global, leaf::p_next_whirlpool_reward_growth_global)]
#[kani::stub(::whirlpool::manager::position_manager::next_position_modify_liquidity_update, leaf::a_next_position_modify_liquidity_update)]
#[kani::stub(::whirlpool::pinocchio::ported::manager_liquidity_manager::pino_next_position_modify_liquidity_update, leaf::p_next_position_modify_liquidity_update)]
fn c12_calculate_modify_liquidity_equiv() {
    let wb = any_wp_bytes();
    let pb = any_pos_bytes();
    let (al, pl) = MockArr::any();
    let (au, pu) = MockArr::any();
    let delta: i128 = kani::any();
    let now: u64 = kani::any();
    let w = wp_from_bytes(&wb);
    assume_reward_invariant(&w);
    let pos = pos_from_bytes(&pb);
    unsafe {
        leaf::A_WP = &w as *const Whirlpool as usize;
        leaf::P_WP = wb.as_ptr() as usize;
        leaf::A_POS = &pos as *const Position as usize;
        leaf::P_POS = pb.as_ptr() as usize;
    }
    let a = calculate_modify_liquidity(&w, &pos, &al, &au, delta, now);
    let p = pino_calculate_modify_liquidity(wp_view(&wb), pos_view(&pb), &pl, &pu, delta, now);
    assert!(unsafe { !leaf::DIVERGED }, "the two summarised leaves are called with the same arguments");
    match (&a, &p) {
        (Ok(x), Ok(y)) => {
            assert!(same_modify(x, y));
            kani::cover!(delta > 0 && x.tick_lower_update.initialized
                && x.reward_infos[0].growth_global_x64 != w.reward_infos[0].growth_global_x64
                && x.tick_array_lower_update.size_update == TickArraySizeUpdate::Increase
                && x.tick_array_upper_update.size_update == TickArraySizeUpdate::None,
                "increase: reward growth accrues, realloc of the lower (dynamic) array only");
            kani::cover!(delta < 0 && !x.tick_upper_update.initialized, "decrease de-initialising the upper tick");
        }
        (Err(x), Err(y)) => assert!(acode(x) == ucode(y)),
        _ => assert!(false, "outcome kind differs"),
    }
    kani::cover!(matches!(&a, Err(e) if acode(e) == ecode(ErrorCode::LiquidityNetError)), "liquidity net error");
    core::mem::forget(a);
    core::mem::forget(p);
}

/// pino_sync_modify_liquidity_values ≡ sync_modify_liquidity_values: applying the same symbolic update through the
/// Pinocchio views and through the Anchor types leaves the same whirlpool and position state (every field of the
/// Anchor structs == the Pinocchio-written 653 / 216 bytes decoded) and issues the same `update_tick(index, spacing, update)` requests in the same order to
/// the lower / upper (Some) or shared (None) array (MockArr, each request may succeed or fail), or fails with the
/// same code
// @verif prop=C12 tier=quick timeout=300
#[kani::proof]
#[kani::unwind(34)]
#[kani::stub(alloc::fmt::format, stub_format)]
#[kani::stub(<anchor_lang::error::Error as core::convert::From<anchor_lang::error::ErrorCode>>::from, stub_err_from_anchor_code)]
#[kani::stub(<anchor_lang::error::Error as core::convert::From<::whirlpool::errors::ErrorCode>>::from, stub_err_from_code)]
#[kani::stub(<::whirlpool::pinocchio::errors::UnifiedError as core::convert::From<::whirlpool::errors::ErrorCode>>::from, stub_unified_from_code)]
#[kani::stub(<::whirlpool::pinocchio::errors::UnifiedError as core::convert::From<anchor_lang::error::ErrorCode>>::from, stub_unified_from_anchor_code)]
fn c12_sync_modify_liquidity_equiv() {
    let shared: bool = kani::any();
    let wb = any_wp_bytes();
    let pb = any_pos_bytes();
    let (mut al, mut pl) = MockArr::any();
    let (mut au, mut pup) = MockArr::any();
    let (alu, plu) = any_tick_updates();
    let (auu, puu) = any_tick_updates();
    let pu = any_position_update();
    let liq: u128 = kani::any();
    let g: [u128; 3] = [kani::any(), kani::any(), kani::any()];
    let now: u64 = kani::any();
    // Anchor side
    let mut w = wp_from_bytes(&wb);
    let mut pos = pos_from_bytes(&pb);
    let mut infos = w.reward_infos; // what calculate_modify_liquidity puts there: the pool's infos with new growths
    infos[0].growth_global_x64 = g[0];
    infos[1].growth_global_x64 = g[1];
    infos[2].growth_global_x64 = g[2];
    let aupd = ModifyLiquidityUpdate {
        whirlpool_liquidity: liq,
        tick_lower_update: alu,
        tick_upper_update: auu,
        reward_infos: infos,
        position_update: PositionUpdate { liquidity: pu.liquidity, fee_growth_checkpoint_a: pu.fee_growth_checkpoint_a, fee_owed_a: pu.fee_owed_a,
            fee_growth_checkpoint_b: pu.fee_growth_checkpoint_b, fee_owed_b: pu.fee_owed_b, reward_infos: pu.reward_infos },
        tick_array_lower_update: TickArrayUpdate::default(),
        tick_array_upper_update: TickArrayUpdate::default(),
    };
    let ar = if shared {
        sync_modify_liquidity_values(&mut w, &mut pos, &mut al, None, &aupd, now)
    } else {
        sync_modify_liquidity_values(&mut w, &mut pos, &mut al, Some(&mut au), &aupd, now)
    };
    // Pinocchio side
    let pupd = PinoModifyLiquidityUpdate {
        whirlpool_liquidity: liq,
        tick_lower_update: plu,
        tick_upper_update: puu,
        next_reward_growth_global: g,
        position_update: pu,
        tick_array_lower_update: TickArrayUpdate::default(),
        tick_array_upper_update: TickArrayUpdate::default(),
    };
    let mut pwb = wb;
    let mut ppb = pb;
    let pr = if shared {
        pino_sync_modify_liquidity_values(wp_view_mut(&mut pwb), pos_view_mut(&mut ppb), &mut pl, None, &pupd, now)
    } else {
        pino_sync_modify_liquidity_values(wp_view_mut(&mut pwb), pos_view_mut(&mut ppb), &mut pl, Some(&mut pup), &pupd, now)
    };
    // same requests to the arrays, whatever the outcome
    assert!(al.same_log(&pl) && au.same_log(&pup));
    match (&ar, &pr) {
        (Ok(()), Ok(())) => {
            // post-state: the Anchor structs equal what the Pinocchio-written bytes decode to, field by field (Borsh of
            // these all-integer structs is injective, so the serialised images are equal; the setters themselves are
            // compared byte-for-byte through the real AnchorSerialize in c12_view_whirlpool_write / _position_update)
            let mw = wp_from_bytes(&pwb);
            let mp = pos_from_bytes(&ppb);
            assert!(same_wp_core(&w, &mw, 0));
            assert!(same_wp_reward(&w.reward_infos[0], &mw.reward_infos[0], 0));
            assert!(same_wp_reward(&w.reward_infos[1], &mw.reward_infos[1], 0));
            assert!(same_wp_reward(&w.reward_infos[2], &mw.reward_infos[2], 0));
            assert!(same_pos(&pos, &mp, 0));
            assert!(if shared { al.n == 2 && au.n == 0 } else { al.n == 1 && au.n == 1 });
            kani::cover!(shared && al.log_idx[1] != al.log_idx[0] && mw.liquidity != wp_view(&wb).liquidity() && mp.fee_owed_a != pos_view(&pb).fee_owed_a(), "shared array: two requests; pool and position modified");
            kani::cover!(!shared, "separate upper array");
        }
        (Err(x), Err(y)) => assert!(acode(x) == ucode(y)),
        _ => assert!(false, "outcome kind differs"),
    }
    kani::cover!(ar.is_err() && al.n == 2, "second request on the shared array rejected");
    core::mem::forget(ar);
    core::mem::forget(pr);
}

// ---------------------------------------------------------------------------------------------
// §3 twin

/// vacuity twin: must FAIL
// @verif prop=C12 tier=quick timeout=300 twin
#[kani::proof]
#[kani::unwind(5)]
#[kani::stub(alloc::fmt::format, stub_format)]
#[kani::stub(<anchor_lang::error::Error as core::convert::From<::whirlpool::errors::ErrorCode>>::from, stub_err_from_code)]
#[kani::stub(<::whirlpool::pinocchio::errors::UnifiedError as core::convert::From<::whirlpool::errors::ErrorCode>>::from, stub_unified_from_code)]
fn c12_twin_must_fail() {
    let bytes: [u8; 113] = kani::any();
    kani::assume(bytes[0] <= 1);
    let rewards = any_rewards();
    let growths = [rewards[0].growth_global_x64, rewards[1].growth_global_x64, rewards[2].growth_global_x64];
    let delta: i128 = kani::any();
    let p = pino_next_tick_modify_liquidity_update(mtick(&bytes), kani::any(), kani::any(), kani::any(), kani::any(), &growths, delta, kani::any());
    let ok = p.is_ok();
    core::mem::forget(p);
    assert!(!ok, "twin: reachable Ok must be reported");
}

