//! C14 harnesses (Engine K)
