//! C14 — adaptive fees follow the volatility schedule and stay within the hard limit (Engine K).
//!
//! Inputs are symbolic everywhere. Constants are constrained ONLY by `validate_constants(..) == true`
//! (every writer of `Oracle.adaptive_fee_constants` / `AdaptiveFeeTier` goes through it), variables by the
//! stored-state invariant (established by `Oracle::reset_adaptive_fee_variables` — also on every constants
//! change — and preserved by `update_reference` / `update_volatility_accumulator`, which is itself asserted
//! below): `volatility_reference <= max_volatility_accumulator`, `volatility_accumulator <= max`, and the
//! reference group is the group of a tick the pool can store (`MIN_TICK_INDEX-1 ..= MAX_TICK_INDEX`).
//! Release builds have `overflow-checks = false`: Kani's built-in arithmetic checks are the "no overflow" claim.
use crate::common::*;
use ::whirlpool::errors::ErrorCode;
use ::whirlpool::manager::fee_rate_manager::*;
use ::whirlpool::math::*;
use ::whirlpool::state::*;

/// lowest value `whirlpool.tick_current_index` can hold (a_to_b crossing of the tick at MIN_TICK_INDEX shifts by -1)
const MIN_CUR_TICK: i32 = MIN_TICK_INDEX - 1;
const SCALE: u64 = 10_000; // VOLATILITY_ACCUMULATOR_SCALE_FACTOR, restated independently
const HARD_LIMIT: u32 = 100_000; // 10% in hundredths of a basis point, restated independently
const ONE_HOUR: u64 = 3_600;

fn raw_constants() -> AdaptiveFeeConstants {
    let mut c = AdaptiveFeeConstants::default();
    c.filter_period = kani::any();
    c.decay_period = kani::any();
    c.reduction_factor = kani::any();
    c.adaptive_fee_control_factor = kani::any();
    c.max_volatility_accumulator = kani::any();
    c.tick_group_size = kani::any();
    c.major_swap_threshold_ticks = kani::any();
    c
}
fn is_valid(tick_spacing: u16, c: &AdaptiveFeeConstants) -> bool {
    AdaptiveFeeConstants::validate_constants(
        tick_spacing,
        c.filter_period,
        c.decay_period,
        c.reduction_factor,
        c.adaptive_fee_control_factor,
        c.max_volatility_accumulator,
        c.tick_group_size,
        c.major_swap_threshold_ticks,
    )
}
/// all constants accepted by the program for some tick spacing
fn any_constants() -> AdaptiveFeeConstants {
    let tick_spacing: u16 = kani::any();
    let c = raw_constants();
    kani::assume(is_valid(tick_spacing, &c));
    c
}
/// `g` is the group (floor(t / size)) of some tick t in MIN_CUR_TICK..=MAX_TICK_INDEX, without dividing
fn is_group_of_storable_tick(g: i32, size: u16) -> bool {
    let lo = g as i64 * size as i64; // first tick of the group
    lo <= MAX_TICK_INDEX as i64 && lo + size as i64 - 1 >= MIN_CUR_TICK as i64
}
/// groups the swap loop can be in: the group of a storable tick, or one further (the loop advances once past the end)
fn is_visitable_group(g: i32, size: u16) -> bool {
    is_group_of_storable_tick(g, size) || is_group_of_storable_tick(g - 1, size) || is_group_of_storable_tick(g + 1, size)
}
/// all variable states an Oracle account can hold next to constants `c`
fn any_variables(c: &AdaptiveFeeConstants) -> AdaptiveFeeVariables {
    let mut v = AdaptiveFeeVariables::default();
    v.last_reference_update_timestamp = kani::any();
    v.last_major_swap_timestamp = kani::any();
    v.volatility_reference = kani::any();
    v.tick_group_index_reference = kani::any();
    v.volatility_accumulator = kani::any();
    kani::assume(v.volatility_reference <= c.max_volatility_accumulator);
    kani::assume(v.volatility_accumulator <= c.max_volatility_accumulator);
    kani::assume(is_group_of_storable_tick(v.tick_group_index_reference, c.tick_group_size));
    v
}
fn same_vars(a: &AdaptiveFeeVariables, b: &AdaptiveFeeVariables) -> bool {
    ({ a.last_reference_update_timestamp } == { b.last_reference_update_timestamp })
        && ({ a.last_major_swap_timestamp } == { b.last_major_swap_timestamp })
        && ({ a.volatility_reference } == { b.volatility_reference })
        && ({ a.tick_group_index_reference } == { b.tick_group_index_reference })
        && ({ a.volatility_accumulator } == { b.volatility_accumulator })
        && (a.reserved == b.reserved)
}
fn same_consts(a: &AdaptiveFeeConstants, b: &AdaptiveFeeConstants) -> bool {
    ({ a.filter_period } == { b.filter_period })
        && ({ a.decay_period } == { b.decay_period })
        && ({ a.reduction_factor } == { b.reduction_factor })
        && ({ a.adaptive_fee_control_factor } == { b.adaptive_fee_control_factor })
        && ({ a.max_volatility_accumulator } == { b.max_volatility_accumulator })
        && ({ a.tick_group_size } == { b.tick_group_size })
        && ({ a.major_swap_threshold_ticks } == { b.major_swap_threshold_ticks })
        && (a.reserved == b.reserved)
}
fn adaptive(
    a_to_b: bool,
    tick_group_index: i32,
    static_fee_rate: u16,
    c: AdaptiveFeeConstants,
    v: AdaptiveFeeVariables,
) -> FeeRateManager {
    FeeRateManager::Adaptive {
        a_to_b,
        tick_group_index,
        static_fee_rate,
        adaptive_fee_constants: c,
        adaptive_fee_variables: v,
        core_tick_group_range_lower_bound: None,
        core_tick_group_range_upper_bound: None,
    }
}

/// (1) validate_constants(ts, ..) == the rule list (doc comments of validate_constants / constant definitions in
/// state/oracle.rs, the only published statement of the rules in the repository), for ALL 8 arguments (full u16/u32
/// ranges). Deciding "group size divides tick spacing" twice (code and rule list) is the only expensive part for SAT
/// (uniqueness of 16-bit Euclidean division), so the input space is partitioned by the magnitude of tick_group_size
/// into 7 harnesses that together cover every value.
fn validate_constants_rules(tgs_lo: u16, tgs_hi: u16) {
    let ts: u16 = kani::any();
    let c = raw_constants();
    let (fp, dp, rf) = (c.filter_period, c.decay_period, c.reduction_factor);
    let (cf, mva) = (c.adaptive_fee_control_factor, c.max_volatility_accumulator);
    let (tgs, mst) = (c.tick_group_size, c.major_swap_threshold_ticks);
    kani::assume(tgs >= tgs_lo && tgs <= tgs_hi);
    let got = is_valid(ts, &c);
    let rule_periods = fp >= 1 && dp >= 1 && fp < dp;
    let rule_control = cf < 100_000; // strictly below its denominator
    let rule_reduction = rf < 10_000; // strictly below its denominator
    let rule_no_overflow = (mva as u64) * (tgs as u64) <= u32::MAX as u64;
    // tick_group_size is a divisor of tick_spacing (1 ..= tick_spacing)
    let rule_group = tgs >= 1 && tgs <= ts && ts % tgs == 0;
    // 1 ..= number of ticks spanned by one tick array (88 * tick_spacing)
    let rule_major = mst >= 1 && (mst as u32) <= 88u32 * ts as u32;
    let expected = rule_periods && rule_control && rule_reduction && rule_no_overflow && rule_group && rule_major;
    kani::cover!(got, "valid constants exist");
    kani::cover!(got && cf == 0, "valid with zero control factor");
    kani::cover!(!got && rule_periods && rule_control && rule_reduction && rule_no_overflow && rule_group, "rejected by the major-swap rule only");
    assert!(got == expected);
}
/// (1a) rule list, tick_group_size in 0..=15
// @verif prop=C14 tier=quick timeout=300
#[kani::proof]
#[kani::stub(alloc::fmt::format, stub_format)]
#[kani::stub(<anchor_lang::error::Error as core::convert::From<::whirlpool::errors::ErrorCode>>::from, stub_err_from_code)]
fn c14_validate_constants_rules_a() {
    validate_constants_rules(0, 15);
}
/// (1b) rule list, tick_group_size in 16..=63
// @verif prop=C14 tier=quick timeout=300
#[kani::proof]
#[kani::stub(alloc::fmt::format, stub_format)]
#[kani::stub(<anchor_lang::error::Error as core::convert::From<::whirlpool::errors::ErrorCode>>::from, stub_err_from_code)]
fn c14_validate_constants_rules_b() {
    validate_constants_rules(16, 63);
}
/// (1g) rule list, tick_group_size in 64..=255
// @verif prop=C14 tier=quick timeout=300
#[kani::proof]
#[kani::stub(alloc::fmt::format, stub_format)]
#[kani::stub(<anchor_lang::error::Error as core::convert::From<::whirlpool::errors::ErrorCode>>::from, stub_err_from_code)]
fn c14_validate_constants_rules_g() {
    validate_constants_rules(64, 255);
}
/// (1c) rule list, tick_group_size in 256..=511
// @verif prop=C14 tier=quick timeout=300
#[kani::proof]
#[kani::stub(alloc::fmt::format, stub_format)]
#[kani::stub(<anchor_lang::error::Error as core::convert::From<::whirlpool::errors::ErrorCode>>::from, stub_err_from_code)]
fn c14_validate_constants_rules_c() {
    validate_constants_rules(256, 511);
}
/// (1f) rule list, tick_group_size in 512..=1023
// @verif prop=C14 tier=quick timeout=300
#[kani::proof]
#[kani::stub(alloc::fmt::format, stub_format)]
#[kani::stub(<anchor_lang::error::Error as core::convert::From<::whirlpool::errors::ErrorCode>>::from, stub_err_from_code)]
fn c14_validate_constants_rules_f() {
    validate_constants_rules(512, 1023);
}
/// (1e) rule list, tick_group_size in 1024..=4095
// @verif prop=C14 tier=quick timeout=300
#[kani::proof]
#[kani::stub(alloc::fmt::format, stub_format)]
#[kani::stub(<anchor_lang::error::Error as core::convert::From<::whirlpool::errors::ErrorCode>>::from, stub_err_from_code)]
fn c14_validate_constants_rules_e() {
    validate_constants_rules(1024, 4095);
}
/// (1d) rule list, tick_group_size in 4096..=u16::MAX
// @verif prop=C14 tier=quick timeout=300
#[kani::proof]
#[kani::stub(alloc::fmt::format, stub_format)]
#[kani::stub(<anchor_lang::error::Error as core::convert::From<::whirlpool::errors::ErrorCode>>::from, stub_err_from_code)]
fn c14_validate_constants_rules_d() {
    validate_constants_rules(4096, u16::MAX);
}

/// (2) update_volatility_accumulator: Ok, no overflow, result == min(reference + |group - reference_group| * 10_000, max)
/// (hence <= max), nothing else modified; all valid constants, all stored variables, every group index a swap can visit
// @verif prop=C14 tier=quick timeout=300
#[kani::proof]
#[kani::stub(alloc::fmt::format, stub_format)]
#[kani::stub(<anchor_lang::error::Error as core::convert::From<::whirlpool::errors::ErrorCode>>::from, stub_err_from_code)]
fn c14_update_volatility_accumulator() {
    let c = any_constants();
    let v0 = any_variables(&c);
    let g: i32 = kani::any();
    // groups visited by the swap loop: group of a storable tick, or one further (the loop advances once past the end)
    kani::assume(g >= MIN_CUR_TICK - 1 && g <= MAX_TICK_INDEX + 1);
    let mut v = v0;
    let r = v.update_volatility_accumulator(g, &c);
    let ok = r.is_ok();
    core::mem::forget(r);
    assert!(ok);
    let dist = (g as i64 - v0.tick_group_index_reference as i64).unsigned_abs();
    let raw = v0.volatility_reference as u64 + dist * SCALE;
    let expected = if raw < c.max_volatility_accumulator as u64 { raw } else { c.max_volatility_accumulator as u64 };
    kani::cover!(raw < c.max_volatility_accumulator as u64 && dist > 1, "below the maximum");
    kani::cover!(raw > c.max_volatility_accumulator as u64, "saturated");
    assert!({ v.volatility_accumulator } as u64 == expected);
    assert!({ v.volatility_accumulator } <= { c.max_volatility_accumulator });
    let mut w = v0;
    w.volatility_accumulator = v.volatility_accumulator;
    assert!(same_vars(&v, &w));
}

/// (3a) get_total_fee_rate in [static, 100_000] and no arithmetic overflow in compute_adaptive_fee_rate, for all valid
/// constants, all stored variables, all u16 static rates; zero control factor => exactly the static rate; the Static
/// manager returns the static rate. `accumulator * group_size` is a product of two symbolic values whose overflow-freedom
/// (from accumulator <= max and the validated max * size <= u32::MAX) SAT decides only erratically (30 s .. > 400 s), so
/// the group size is fixed per harness (1, 64, 32896) and the size-generic arithmetic fact is the separate lemma
/// `c14_lemma_mul_monotone` (thorough tier).
fn total_fee_rate_bounds(size_is: u16) {
    let c = any_constants();
    kani::assume(c.tick_group_size == size_is);
    let v = any_variables(&c);
    let static_fee: u16 = kani::any();
    let a_to_b: bool = kani::any();
    let g: i32 = kani::any();
    let total = adaptive(a_to_b, g, static_fee, c, v).get_total_fee_rate();
    let st = FeeRateManager::Static { static_fee_rate: static_fee }.get_total_fee_rate();
    kani::cover!(total > static_fee as u32 && total < HARD_LIMIT, "adaptive part charged, below the cap");
    kani::cover!(total == HARD_LIMIT, "cap applies");
    assert!(total >= static_fee as u32);
    assert!(total <= HARD_LIMIT);
    assert!(st == static_fee as u32);
    if c.adaptive_fee_control_factor == 0 {
        assert!(total == static_fee as u32);
    }
}
/// (3a) total fee rate bounds, tick_group_size == 1
// @verif prop=C14 tier=quick timeout=300
#[kani::proof]
#[kani::stub(alloc::fmt::format, stub_format)]
#[kani::stub(<anchor_lang::error::Error as core::convert::From<::whirlpool::errors::ErrorCode>>::from, stub_err_from_code)]
fn c14_total_fee_rate_bounds_1() {
    total_fee_rate_bounds(1);
}
/// (3a) total fee rate bounds, tick_group_size == 64
// @verif prop=C14 tier=quick timeout=300
#[kani::proof]
#[kani::stub(alloc::fmt::format, stub_format)]
#[kani::stub(<anchor_lang::error::Error as core::convert::From<::whirlpool::errors::ErrorCode>>::from, stub_err_from_code)]
fn c14_total_fee_rate_bounds_64() {
    total_fee_rate_bounds(64);
}
/// (3a) total fee rate bounds, tick_group_size == 32896
// @verif prop=C14 tier=quick timeout=300
#[kani::proof]
#[kani::stub(alloc::fmt::format, stub_format)]
#[kani::stub(<anchor_lang::error::Error as core::convert::From<::whirlpool::errors::ErrorCode>>::from, stub_err_from_code)]
fn c14_total_fee_rate_bounds_32896() {
    total_fee_rate_bounds(32896);
}

/// (4) update_reference against the documented rule, as postconditions: Err(InvalidTimestamp) iff now < max(last update,
/// last major swap); reference older than one hour => reset; else by elapsed time since max(..): < filter => unchanged,
/// < decay => reference group := current, timestamp := now (decayed value: next two harnesses), >= decay =>
/// reference group := current, volatility_reference := 0. Accumulator / major-swap timestamp never touched; the stored
/// invariant volatility_reference <= max is preserved. Timestamps are arbitrary u64.
// @verif prop=C14 tier=quick timeout=300
#[kani::proof]
#[kani::stub(alloc::fmt::format, stub_format)]
#[kani::stub(<anchor_lang::error::Error as core::convert::From<::whirlpool::errors::ErrorCode>>::from, stub_err_from_code)]
fn c14_update_reference_rules() {
    let c = any_constants();
    let v0 = any_variables(&c);
    let g: i32 = kani::any();
    let now: u64 = kani::any();
    let mut v = v0;
    let r = v.update_reference(g, now, &c);
    let last_ref = v0.last_reference_update_timestamp;
    let last_major = v0.last_major_swap_timestamp;
    let last = if last_ref > last_major { last_ref } else { last_major };
    let reset = |v: &AdaptiveFeeVariables| {
        let (rg, vr, ts) = (v.tick_group_index_reference, v.volatility_reference, v.last_reference_update_timestamp);
        rg == g && vr == 0 && ts == now
    };
    kani::cover!(r.is_ok() && now - last_ref > ONE_HOUR && now - last < c.filter_period as u64, "one-hour reset inside the filter window");
    kani::cover!(r.is_ok() && now - last_ref <= ONE_HOUR && now - last >= c.filter_period as u64 && now - last < c.decay_period as u64 && { v.volatility_reference } > 0, "decayed reference");
    kani::cover!(r.is_err(), "time went backwards");
    match &r {
        Err(e) => {
            assert!(now < last);
            assert!(acode(e) == ecode(ErrorCode::InvalidTimestamp));
            assert!(same_vars(&v, &v0));
        }
        Ok(()) => {
            assert!(now >= last);
            // never touched by this function
            assert!({ v.volatility_accumulator } == { v0.volatility_accumulator });
            assert!({ v.last_major_swap_timestamp } == last_major);
            assert!(v.reserved == v0.reserved);
            let elapsed = now - last;
            if now - last_ref > ONE_HOUR {
                assert!(reset(&v));
            } else if elapsed < c.filter_period as u64 {
                assert!(same_vars(&v, &v0));
            } else if elapsed < c.decay_period as u64 {
                assert!({ v.tick_group_index_reference } == g);
                assert!({ v.last_reference_update_timestamp } == now);
                // value of the decayed reference: c14_update_reference_decay_bounded / _decay_value
            } else {
                assert!(reset(&v));
            }
            // stored-state invariant preserved (decay branch: see c14_update_reference_decay_bounded)
            if !(now - last_ref <= ONE_HOUR && elapsed >= c.filter_period as u64 && elapsed < c.decay_period as u64) {
                assert!({ v.volatility_reference } <= { c.max_volatility_accumulator });
            }
        }
    }
    core::mem::forget(r);
}

fn decay_branch() -> (AdaptiveFeeConstants, AdaptiveFeeVariables, AdaptiveFeeVariables) {
    let c = any_constants();
    let v0 = any_variables(&c);
    let g: i32 = kani::any();
    let now: u64 = kani::any();
    let last_ref = v0.last_reference_update_timestamp;
    let last_major = v0.last_major_swap_timestamp;
    let last = if last_ref > last_major { last_ref } else { last_major };
    // the decay window: not older than one hour, filter <= elapsed < decay
    kani::assume(now >= last && now - last_ref <= ONE_HOUR);
    kani::assume(now - last >= c.filter_period as u64 && now - last < c.decay_period as u64);
    let mut v = v0;
    let r = v.update_reference(g, now, &c);
    let ok = r.is_ok();
    core::mem::forget(r);
    assert!(ok);
    (c, v0, v)
}

/// (4b) decay window of update_reference: the new volatility_reference is <= the accumulator (hence <= max: the stored
/// invariant is preserved, which FeeRateManager::new relies on for `max - reference`)
// @verif prop=C14 tier=quick timeout=300
#[kani::proof]
#[kani::stub(alloc::fmt::format, stub_format)]
#[kani::stub(<anchor_lang::error::Error as core::convert::From<::whirlpool::errors::ErrorCode>>::from, stub_err_from_code)]
fn c14_update_reference_decay_bounded() {
    let (c, v0, v) = decay_branch();
    kani::cover!({ v.volatility_reference } > 0 && { v.volatility_reference } < { v0.volatility_accumulator }, "strictly decayed");
    assert!({ v.volatility_reference } <= { v0.volatility_accumulator });
    assert!({ v.volatility_reference } <= { c.max_volatility_accumulator });
}

/// (4c) decay window of update_reference: volatility_reference == floor(accumulator * reduction_factor / 10_000) exactly
/// (no truncation in the u32 cast), all u32 accumulators and valid reduction factors
// @verif prop=C14 tier=thorough timeout=900
#[kani::proof]
#[kani::stub(alloc::fmt::format, stub_format)]
#[kani::stub(<anchor_lang::error::Error as core::convert::From<::whirlpool::errors::ErrorCode>>::from, stub_err_from_code)]
fn c14_update_reference_decay_value() {
    let (c, v0, v) = decay_branch();
    let expected = v0.volatility_accumulator as u64 * c.reduction_factor as u64 / 10_000;
    kani::cover!(expected > 100_000, "large value");
    assert!({ v.volatility_reference } as u64 == expected);
}

/// (9) get_next_adaptive_fee_info: Some(constants, variables held by the manager) for Adaptive, None for Static
// @verif prop=C14 tier=quick timeout=300
#[kani::proof]
#[kani::stub(alloc::fmt::format, stub_format)]
#[kani::stub(<anchor_lang::error::Error as core::convert::From<::whirlpool::errors::ErrorCode>>::from, stub_err_from_code)]
fn c14_next_adaptive_fee_info() {
    let c = any_constants();
    let v = any_variables(&c);
    let g: i32 = kani::any();
    kani::assume(g >= MIN_CUR_TICK - 1 && g <= MAX_TICK_INDEX + 1);
    let mut m = adaptive(kani::any(), g, kani::any(), c, v);
    // the variables reported are the ones the manager updated last (accumulator of the group it was told to visit)
    let r = m.update_volatility_accumulator();
    let ok = r.is_ok();
    core::mem::forget(r);
    assert!(ok);
    let mut expect = v;
    let r2 = expect.update_volatility_accumulator(g, &c);
    core::mem::forget(r2);
    match m.get_next_adaptive_fee_info() {
        Some(info) => {
            assert!(same_consts(&info.constants, &c));
            assert!(same_vars(&info.variables, &expect));
            kani::cover!({ info.variables.volatility_accumulator } != { v.volatility_accumulator }, "accumulator changed");
        }
        None => assert!(false, "adaptive manager must report its variables"),
    }
    let s = FeeRateManager::Static { static_fee_rate: kani::any() };
    assert!(s.get_next_adaptive_fee_info().is_none());
}

/// vacuity twin: must FAIL (an adaptive pool with non-zero control factor can charge more than the static rate)
// @verif prop=C14 tier=quick timeout=300 twin
#[kani::proof]
#[kani::stub(alloc::fmt::format, stub_format)]
#[kani::stub(<anchor_lang::error::Error as core::convert::From<::whirlpool::errors::ErrorCode>>::from, stub_err_from_code)]
fn c14_twin_must_fail() {
    let c = any_constants();
    kani::assume(c.tick_group_size == 64);
    let v = any_variables(&c);
    let static_fee: u16 = kani::any();
    let total = adaptive(kani::any(), kani::any(), static_fee, c, v).get_total_fee_rate();
    assert!(total == static_fee as u32, "twin: adaptive surcharge must be reachable");
}

/// (L1) size-generic complement of (3a): acc <= max and max * size <= u32::MAX => acc * size <= u32::MAX (the only
/// multiplication in compute_adaptive_fee_rate that can overflow its type: u32 x u32; the others are widened first),
/// all u32 x u32 x u16
// @verif prop=C14 tier=thorough timeout=900
#[kani::proof]
#[kani::solver(kissat)]
fn c14_lemma_mul_monotone() {
    let mva: u32 = kani::any();
    let acc: u32 = kani::any();
    let tgs: u16 = kani::any();
    kani::assume(mva as u64 * tgs as u64 <= u32::MAX as u64);
    kani::assume(acc <= mva);
    kani::cover!(acc > 65_536 && tgs > 256, "large operands");
    assert!(acc as u64 * tgs as u64 <= u32::MAX as u64);
}

// ---------------------------------------------------------------------------------------------
// Abstract tick -> sqrt-price function (contracts T1/T2): an uninterpreted strictly increasing function, realised as a
// memo table filled in call order (equal ticks give equal prices; every new entry is ordered against all earlier
// ones). The table bound is asserted. A tick outside MIN..=MAX reaching the price function is reported (domain of T1).
mod t {
    use ::whirlpool::math::{MAX_SQRT_PRICE_X64, MIN_SQRT_PRICE_X64};
    use ::whirlpool::state::{MAX_TICK_INDEX, MIN_TICK_INDEX};
    pub const NP: usize = 12;
    static mut TK: [i32; NP] = [0; NP];
    static mut PR: [u128; NP] = [0; NP];
    static mut CNT: usize = 0;
    /// T1: strictly increasing tick -> sqrt price with p(MIN_TICK) = MIN_SQRT_PRICE, p(MAX_TICK) = MAX_SQRT_PRICE
    pub fn price_of(t: i32) -> u128 {
        assert!(t >= MIN_TICK_INDEX && t <= MAX_TICK_INDEX, "price function called outside the tick range");
        unsafe {
            let mut i = 0;
            while i < CNT {
                if TK[i] == t {
                    return PR[i];
                }
                i += 1;
            }
            let p: u128 = kani::any();
            kani::assume(p >= MIN_SQRT_PRICE_X64 && p <= MAX_SQRT_PRICE_X64);
            kani::assume((t == MIN_TICK_INDEX) == (p == MIN_SQRT_PRICE_X64));
            kani::assume((t == MAX_TICK_INDEX) == (p == MAX_SQRT_PRICE_X64));
            let mut j = 0;
            while j < CNT {
                if TK[j] < t {
                    kani::assume(PR[j] < p);
                } else {
                    kani::assume(PR[j] > p);
                }
                j += 1;
            }
            assert!(CNT < NP, "memo table bound (sqrt_price_from_tick_index)");
            TK[CNT] = t;
            PR[CNT] = p;
            CNT += 1;
            p
        }
    }
    pub fn stub_sqrt_price_from_tick_index(t: i32) -> u128 {
        price_of(t)
    }
    /// T2: the tick t with p(t) <= price < p(t+1)
    pub fn stub_tick_index_from_sqrt_price(p: &u128) -> i32 {
        assert!(*p >= MIN_SQRT_PRICE_X64 && *p <= MAX_SQRT_PRICE_X64, "tick_index_from_sqrt_price outside the price range");
        let t: i32 = kani::any();
        kani::assume(t >= MIN_TICK_INDEX && t <= MAX_TICK_INDEX);
        kani::assume(price_of(t) <= *p);
        if t < MAX_TICK_INDEX {
            kani::assume(*p < price_of(t + 1));
        }
        t
    }
}
use t::price_of;

fn clamp_tick(t: i64) -> i32 {
    if t < MIN_TICK_INDEX as i64 {
        MIN_TICK_INDEX
    } else if t > MAX_TICK_INDEX as i64 {
        MAX_TICK_INDEX
    } else {
        t as i32
    }
}
/// `g` is floor(t / size), stated without dividing
fn is_group_of(g: i32, t: i32, size: u16) -> bool {
    let lo = g as i64 * size as i64;
    lo <= t as i64 && (t as i64) < lo + size as i64
}
/// the accumulator is saturated (== max) in group g, for reference (rg, vr)
fn saturated(g: i32, v: &AdaptiveFeeVariables, c: &AdaptiveFeeConstants) -> bool {
    let dist = (g as i64 - v.tick_group_index_reference as i64).unsigned_abs();
    v.volatility_reference as u64 + dist * SCALE >= c.max_volatility_accumulator as u64
}

// recording stub of U256Muldiv::mul (uninterpreted 256-bit product)
static mut MUL_CALLS: u32 = 0;
static mut MUL_A: [u64; 4] = [0; 4];
static mut MUL_B: [u64; 4] = [0; 4];
static mut MUL_R: [u64; 4] = [0; 4];
fn stub_u256_mul(a: &U256Muldiv, b: U256Muldiv) -> U256Muldiv {
    unsafe {
        MUL_CALLS += 1;
        MUL_A = a.items;
        MUL_B = b.items;
        let r: [u64; 4] = kani::any();
        MUL_R = r;
        U256Muldiv { items: r }
    }
}

/// (5) update_major_swap_timestamp, structure with the 256-bit product uninterpreted and the tick->price function abstract
/// (T1): exactly one product, of min(pre, post) and price(major_swap_threshold_ticks); target = product >> 64;
/// Err(NumberDownCastError) iff the target does not fit u128 (then nothing changes); otherwise last_major_swap_timestamp :=
/// now iff max(pre, post) >= target, else unchanged; nothing else is modified. pre/post are symmetric (both directions).
// @verif prop=C14 tier=quick timeout=300
#[kani::proof]
#[kani::unwind(18)]
#[kani::stub(alloc::fmt::format, stub_format)]
#[kani::stub(<anchor_lang::error::Error as core::convert::From<::whirlpool::errors::ErrorCode>>::from, stub_err_from_code)]
#[kani::stub(::whirlpool::math::tick_math::sqrt_price_from_tick_index, t::stub_sqrt_price_from_tick_index)]
#[kani::stub(::whirlpool::math::u256_math::U256Muldiv::mul, stub_u256_mul)]
fn c14_major_swap_timestamp() {
    let c = any_constants();
    let v0 = any_variables(&c);
    let pre: u128 = kani::any();
    let post: u128 = kani::any();
    let now: u64 = kani::any();
    let mut v = v0;
    let r = v.update_major_swap_timestamp(pre, post, now, &c);
    let (small, large) = if pre < post { (pre, post) } else { (post, pre) };
    let factor = price_of(c.major_swap_threshold_ticks as i32);
    let (calls, a, b, prod) = unsafe { (MUL_CALLS, MUL_A, MUL_B, MUL_R) };
    assert!(calls == 1);
    let small_w = [small as u64, (small >> 64) as u64, 0, 0];
    let factor_w = [factor as u64, (factor >> 64) as u64, 0, 0];
    let eq4 = |x: &[u64; 4], y: &[u64; 4]| x[0] == y[0] && x[1] == y[1] && x[2] == y[2] && x[3] == y[3];
    assert!((eq4(&a, &small_w) && eq4(&b, &factor_w)) || (eq4(&a, &factor_w) && eq4(&b, &small_w)));
    let fits = prod[3] == 0;
    let target = ((prod[2] as u128) << 64) | prod[1] as u128;
    kani::cover!(r.is_ok() && pre > post && large == target, "a_to_b, exactly at the threshold");
    kani::cover!(r.is_ok() && pre < post && large == target, "b_to_a, exactly at the threshold");
    kani::cover!(r.is_ok() && large < target, "below the threshold");
    match &r {
        Err(e) => {
            assert!(!fits);
            assert!(acode(e) == ecode(ErrorCode::NumberDownCastError));
            assert!(same_vars(&v, &v0));
        }
        Ok(()) => {
            assert!(fits);
            let mut w = v0;
            if large >= target {
                w.last_major_swap_timestamp = now;
            }
            assert!(same_vars(&v, &w));
        }
    }
    core::mem::forget(r);
}

// contract stub of AdaptiveFeeVariables::update_reference = what c14_update_reference_rules / _decay_bounded prove:
// Err(InvalidTimestamp) iff now < max(timestamps); otherwise either nothing changes, or the reference group becomes the
// current group, the timestamp becomes now and the new volatility_reference is some value <= accumulator.
static mut UR_CALLS: u32 = 0;
static mut UR_GROUP: i32 = 0;
static mut UR_NOW: u64 = 0;
static mut UR_OUT: Option<AdaptiveFeeVariables> = None;
fn stub_update_reference(
    me: &mut AdaptiveFeeVariables,
    tick_group_index: i32,
    current_timestamp: u64,
    _c: &AdaptiveFeeConstants,
) -> anchor_lang::Result<()> {
    unsafe {
        UR_CALLS += 1;
        UR_GROUP = tick_group_index;
        UR_NOW = current_timestamp;
    }
    let (a, b) = (me.last_reference_update_timestamp, me.last_major_swap_timestamp);
    if current_timestamp < a || current_timestamp < b {
        return Err(stub_err_from_code(ErrorCode::InvalidTimestamp));
    }
    if kani::any() {
        let vr: u32 = kani::any();
        kani::assume(vr <= me.volatility_accumulator);
        me.tick_group_index_reference = tick_group_index;
        me.volatility_reference = vr;
        me.last_reference_update_timestamp = current_timestamp;
    }
    unsafe {
        UR_OUT = Some(*me);
    }
    Ok(())
}

/// (6) FeeRateManager::new (update_reference replaced by its proved contract, tick->price abstract T1): None => Static with
/// the given rate; Some => InvalidTimestamp passed through, else Adaptive with the given direction/rate/constants,
/// tick_group_index = floor(tick / group_size), variables = result of update_reference(that group, timestamp), and core
/// range bounds that are sound: every group strictly outside [lower, upper] has a saturated accumulator; the bound prices
/// are the outer boundary prices of the lower/upper core group and lie strictly inside the tick range. No overflow.
/// Group <-> tick conversions multiply/divide by the symbolic group size, which SAT cannot relate across code and
/// specification in reasonable time; the group size is therefore fixed per harness to representative values
/// (1: every tick is a group boundary; 64: typical; 32896: full-range-only pools, 27 groups, clamping at both ends).
fn manager_new(size_is: u16) {
    let c = any_constants();
    kani::assume(c.tick_group_size == size_is);
    let v0 = any_variables(&c);
    let a_to_b: bool = kani::any();
    let tick: i32 = kani::any();
    kani::assume(tick >= MIN_CUR_TICK && tick <= MAX_TICK_INDEX);
    let now: u64 = kani::any();
    let static_fee: u16 = kani::any();
    let g: i32 = kani::any(); // any group a swap can visit
    kani::assume(g >= MIN_CUR_TICK - 1 && g <= MAX_TICK_INDEX + 1);
    let is_adaptive: bool = kani::any();
    let info = if is_adaptive { Some(AdaptiveFeeInfo { constants: c, variables: v0 }) } else { None };
    let r = FeeRateManager::new(a_to_b, tick, now, static_fee, &info);
    let size = c.tick_group_size;
    kani::cover!(matches!(&r, Ok(FeeRateManager::Adaptive { core_tick_group_range_lower_bound: Some(_), core_tick_group_range_upper_bound: Some(_), .. })), "both bounds inside the tick range");
    kani::cover!(matches!(&r, Ok(FeeRateManager::Adaptive { core_tick_group_range_lower_bound: None, core_tick_group_range_upper_bound: Some(_), .. })), "lower bound outside");
    kani::cover!(r.is_err(), "invalid timestamp");
    match &r {
        Err(e) => {
            assert!(is_adaptive);
            assert!(now < v0.last_reference_update_timestamp || now < v0.last_major_swap_timestamp);
            assert!(acode(e) == ecode(ErrorCode::InvalidTimestamp));
        }
        Ok(FeeRateManager::Static { static_fee_rate }) => {
            assert!(!is_adaptive);
            assert!(*static_fee_rate == static_fee);
        }
        Ok(FeeRateManager::Adaptive {
            a_to_b: ab,
            tick_group_index,
            static_fee_rate,
            adaptive_fee_constants,
            adaptive_fee_variables,
            core_tick_group_range_lower_bound,
            core_tick_group_range_upper_bound,
        }) => {
            assert!(is_adaptive);
            assert!(*ab == a_to_b && *static_fee_rate == static_fee);
            assert!(same_consts(adaptive_fee_constants, &c));
            assert!(is_group_of(*tick_group_index, tick, size));
            let (calls, ur_group, ur_now, ur_out) = unsafe { (UR_CALLS, UR_GROUP, UR_NOW, UR_OUT) };
            assert!(calls == 1 && ur_group == *tick_group_index && ur_now == now);
            let v = ur_out.unwrap();
            assert!(same_vars(adaptive_fee_variables, &v));
            if let Some((li, lp)) = core_tick_group_range_lower_bound {
                let lt = *li as i64 * size as i64;
                assert!(lt > MIN_TICK_INDEX as i64 && lt <= MAX_TICK_INDEX as i64);
                assert!(*lp == price_of(lt as i32));
                if g < *li {
                    assert!(saturated(g, &v, &c));
                }
            }
            if let Some((ui, up)) = core_tick_group_range_upper_bound {
                let ut = *ui as i64 * size as i64 + size as i64;
                assert!(ut < MAX_TICK_INDEX as i64 && ut >= MIN_TICK_INDEX as i64);
                assert!(*up == price_of(ut as i32));
                if g > *ui {
                    assert!(saturated(g, &v, &c));
                }
            }
        }
    }
    core::mem::forget(r);
    core::mem::forget(info);
}

/// (6b) zero control factor: whatever the manager state (any group index, any core bounds, any liquidity, any target),
/// get_bounded_sqrt_price_target returns the unbounded target with skip = true (rate == static: see 3a)
// @verif prop=C14 tier=quick timeout=300
#[kani::proof]
#[kani::stub(alloc::fmt::format, stub_format)]
#[kani::stub(<anchor_lang::error::Error as core::convert::From<::whirlpool::errors::ErrorCode>>::from, stub_err_from_code)]
fn c14_zero_control_factor_always_skips() {
    let c = any_constants();
    kani::assume(c.adaptive_fee_control_factor == 0);
    let v = any_variables(&c);
    let lower: Option<(i32, u128)> = if kani::any() { Some((kani::any(), kani::any())) } else { None };
    let upper: Option<(i32, u128)> = if kani::any() { Some((kani::any(), kani::any())) } else { None };
    let m = FeeRateManager::Adaptive {
        a_to_b: kani::any(),
        tick_group_index: kani::any(),
        static_fee_rate: kani::any(),
        adaptive_fee_constants: c,
        adaptive_fee_variables: v,
        core_tick_group_range_lower_bound: lower,
        core_tick_group_range_upper_bound: upper,
    };
    let target: u128 = kani::any();
    let liq: u128 = kani::any();
    let (b, skip) = m.get_bounded_sqrt_price_target(target, liq);
    kani::cover!(liq != 0, "with liquidity");
    assert!(b == target && skip);
    // the static manager never bounds and never skips
    let s = FeeRateManager::Static { static_fee_rate: kani::any() };
    let (b2, skip2) = s.get_bounded_sqrt_price_target(target, liq);
    assert!(b2 == target && !skip2);
}

/// (7) get_bounded_sqrt_price_target on a manager built by `new` (contract of update_reference, abstract T1 price
/// function) and moved to ANY group index: the result is never beyond the target in the trade direction; without skip
/// it is the target or the far boundary of the current group, whichever comes first (so the step stays in the group
/// whose rate was charged); skip only if control factor == 0, liquidity == 0, or every tick the step can touch lies in a
/// group whose accumulator is saturated (rate cannot change within the step).
fn bounded_target(size_is: u16) {
    let c = any_constants();
    kani::assume(c.tick_group_size == size_is);
    let v0 = any_variables(&c);
    let a_to_b: bool = kani::any();
    let tick: i32 = kani::any();
    kani::assume(tick >= MIN_CUR_TICK && tick <= MAX_TICK_INDEX);
    let now: u64 = kani::any();
    let g: i32 = kani::any(); // group the loop is in
    kani::assume(g >= MIN_CUR_TICK - 1 && g <= MAX_TICK_INDEX + 1 && is_visitable_group(g, size_is));
    let target: u128 = kani::any();
    kani::assume(target >= MIN_SQRT_PRICE_X64 && target <= MAX_SQRT_PRICE_X64);
    let liq: u128 = kani::any();
    let t: i32 = kani::any(); // any tick
    kani::assume(t >= MIN_TICK_INDEX && t <= MAX_TICK_INDEX);
    let gt: i32 = kani::any(); // its group
    let size = c.tick_group_size;
    kani::assume(is_group_of(gt, t, size));
    let info = Some(AdaptiveFeeInfo { constants: c, variables: v0 });
    let r = FeeRateManager::new(a_to_b, tick, now, kani::any(), &info);
    kani::assume(r.is_ok());
    let mut m = r.unwrap();
    let mut v = v0;
    if let FeeRateManager::Adaptive { tick_group_index, adaptive_fee_variables, .. } = &mut m {
        *tick_group_index = g;
        v = *adaptive_fee_variables;
    }
    let (bounded, skip) = m.get_bounded_sqrt_price_target(target, liq);
    let near = price_of(clamp_tick(g as i64 * size as i64));
    let far = price_of(clamp_tick(g as i64 * size as i64 + size as i64));
    kani::cover!(skip && liq != 0 && c.adaptive_fee_control_factor != 0 && bounded != target, "skip up to the core range");
    kani::cover!(skip && liq != 0 && c.adaptive_fee_control_factor != 0 && bounded == target, "skip away from the core range");
    kani::cover!(!skip && bounded != target, "bounded by the group boundary");
    kani::cover!(!skip && bounded == target, "target inside the group");
    if a_to_b {
        assert!(bounded >= target);
    } else {
        assert!(bounded <= target);
    }
    if !skip {
        assert!(c.adaptive_fee_control_factor != 0 && liq != 0);
        if a_to_b {
            assert!(bounded == if target > near { target } else { near });
        } else {
            assert!(bounded == if target < far { target } else { far });
        }
    } else if c.adaptive_fee_control_factor != 0 && liq != 0 {
        assert!(saturated(g, &v, &c));
        // every tick whose price interval [p(t), p(t+1)) meets the traded interval, on the trade side of group g
        let touched = if a_to_b {
            gt <= g && (t == MAX_TICK_INDEX || price_of(t + 1) > bounded)
        } else {
            gt >= g && price_of(t) < bounded
        };
        if touched {
            assert!(saturated(gt, &v, &c));
        }
    }
    core::mem::forget(m);
    core::mem::forget(info);
}

/// (8b) one loop iteration without skip: update_volatility_accumulator + advance_tick_group move tick_group_index by
/// exactly one in the trade direction and leave everything but the accumulator unchanged; Static: no-ops
// @verif prop=C14 tier=quick timeout=300
#[kani::proof]
#[kani::stub(alloc::fmt::format, stub_format)]
#[kani::stub(<anchor_lang::error::Error as core::convert::From<::whirlpool::errors::ErrorCode>>::from, stub_err_from_code)]
fn c14_advance_tick_group_by_one() {
    let c = any_constants();
    let v0 = any_variables(&c);
    let a_to_b: bool = kani::any();
    let g: i32 = kani::any();
    kani::assume(g >= MIN_CUR_TICK - 1 && g <= MAX_TICK_INDEX + 1);
    let static_fee: u16 = kani::any();
    let mut m = adaptive(a_to_b, g, static_fee, c, v0);
    let r = m.update_volatility_accumulator();
    let ok = r.is_ok();
    core::mem::forget(r);
    assert!(ok);
    m.advance_tick_group();
    let mut expect = v0;
    let r2 = expect.update_volatility_accumulator(g, &c);
    core::mem::forget(r2);
    match &m {
        FeeRateManager::Adaptive { a_to_b: ab, tick_group_index, static_fee_rate, adaptive_fee_constants, adaptive_fee_variables, .. } => {
            assert!(*tick_group_index == if a_to_b { g - 1 } else { g + 1 });
            assert!(*ab == a_to_b && *static_fee_rate == static_fee);
            assert!(same_consts(adaptive_fee_constants, &c));
            assert!(same_vars(adaptive_fee_variables, &expect));
            kani::cover!(a_to_b, "left");
        }
        _ => assert!(false),
    }
    let mut s = FeeRateManager::Static { static_fee_rate: static_fee };
    let r3 = s.update_volatility_accumulator();
    let ok3 = r3.is_ok();
    core::mem::forget(r3);
    s.advance_tick_group();
    let r4 = s.update_major_swap_timestamp(kani::any(), kani::any(), kani::any());
    let ok4 = r4.is_ok();
    core::mem::forget(r4);
    assert!(ok3 && ok4);
    assert!(matches!(s, FeeRateManager::Static { static_fee_rate } if static_fee_rate == static_fee));
    core::mem::forget(m);
}

/// (8) advance_tick_group_after_skip (abstract T1/T2) against group-by-group stepping in closed form: stepping from group
/// g0 with update_volatility_accumulator / bounded target / advance_tick_group (harnesses 2, 7, 8b) stops in the first
/// group, in trade direction, whose far boundary price is not passed by the end price p (p(.) is monotone, so that is
/// the unique group `last` with far(last) not passed and, unless last == g0, near(last) passed). Claim: after the call
/// tick_group_index == last -/+ 1 and the variables are those of stepping: accumulator == min(reference + |last -
/// reference_group| * 10_000, max), nothing else changed. The span |last - g0| is NOT bounded. Split by direction and by
/// whether the step ended exactly on the next initialized tick (the two code branches); group size fixed per harness.
/// Loop invariant assumed at the call: p is not behind the near boundary of g0; next_tick_sqrt_price == p(next_tick_index).
fn after_skip_closed_form(size_is: u16, dir: bool, on_next: bool) {
    let c = any_constants();
    kani::assume(c.tick_group_size == size_is);
    let v0 = any_variables(&c);
    let a_to_b: bool = dir;
    let g0: i32 = kani::any();
    let size = c.tick_group_size;
    kani::assume(is_group_of_storable_tick(g0, size));
    let p: u128 = kani::any(); // price where the skipped step ended
    kani::assume(p >= MIN_SQRT_PRICE_X64 && p <= MAX_SQRT_PRICE_X64);
    let next_tick_index: i32 = kani::any();
    kani::assume(next_tick_index >= MIN_TICK_INDEX && next_tick_index <= MAX_TICK_INDEX);
    let static_fee: u16 = kani::any();
    let last: i32 = kani::any();
    kani::assume(is_group_of_storable_tick(last, size));
    let next_tick_sqrt_price = price_of(next_tick_index);
    kani::assume((p == next_tick_sqrt_price) == on_next);
    let lo = |g: i32| clamp_tick(g as i64 * size as i64);
    let hi = |g: i32| clamp_tick(g as i64 * size as i64 + size as i64);
    // the step started inside group g0 and moved in the trade direction
    let start_ok = if a_to_b { p <= price_of(hi(g0)) } else { p >= price_of(lo(g0)) };
    kani::assume(start_ok);
    // `last` = the group where group-by-group stepping from g0 stops
    let far_ok = if a_to_b { p >= price_of(lo(last)) } else { p <= price_of(hi(last)) };
    let near_ok = if a_to_b {
        last <= g0 && (last == g0 || p < price_of(hi(last)))
    } else {
        last >= g0 && (last == g0 || p > price_of(lo(last)))
    };
    kani::assume(far_ok && near_ok);
    let mut m1 = adaptive(a_to_b, g0, static_fee, c, v0);
    let r0 = m1.update_volatility_accumulator(); // loop head, group g0
    core::mem::forget(r0);
    let r1 = m1.advance_tick_group_after_skip(p, next_tick_sqrt_price, next_tick_index);
    let ok = r1.is_ok();
    core::mem::forget(r1);
    assert!(ok);
    kani::cover!(last == g0, "no group crossed");
    kani::cover!(last == g0 - 7 || last == g0 + 7 || (size_is > 64 && last != g0), "several groups crossed");
    let dist = (last as i64 - v0.tick_group_index_reference as i64).unsigned_abs();
    let raw = v0.volatility_reference as u64 + dist * SCALE;
    let acc = if raw < c.max_volatility_accumulator as u64 { raw } else { c.max_volatility_accumulator as u64 };
    let mut expect = v0;
    expect.volatility_accumulator = acc as u32;
    match &m1 {
        FeeRateManager::Adaptive { tick_group_index, adaptive_fee_variables, .. } => {
            assert!(*tick_group_index == if a_to_b { last - 1 } else { last + 1 });
            assert!(same_vars(adaptive_fee_variables, &expect));
        }
        _ => assert!(false),
    }
    core::mem::forget(m1);
}

// ---- instances (group size fixed per harness) ----
/// (6) FeeRateManager::new, tick_group_size == 1
// @verif prop=C14 tier=thorough timeout=900
#[kani::proof]
#[kani::solver(kissat)]
#[kani::unwind(18)]
#[kani::stub(alloc::fmt::format, stub_format)]
#[kani::stub(<anchor_lang::error::Error as core::convert::From<::whirlpool::errors::ErrorCode>>::from, stub_err_from_code)]
#[kani::stub(::whirlpool::math::tick_math::sqrt_price_from_tick_index, t::stub_sqrt_price_from_tick_index)]
#[kani::stub(::whirlpool::state::oracle::AdaptiveFeeVariables::update_reference, stub_update_reference)]
fn c14_manager_new_1() {
    manager_new(1);
}
/// (6) FeeRateManager::new, tick_group_size == 64
// @verif prop=C14 tier=quick timeout=300
#[kani::proof]
#[kani::unwind(18)]
#[kani::stub(alloc::fmt::format, stub_format)]
#[kani::stub(<anchor_lang::error::Error as core::convert::From<::whirlpool::errors::ErrorCode>>::from, stub_err_from_code)]
#[kani::stub(::whirlpool::math::tick_math::sqrt_price_from_tick_index, t::stub_sqrt_price_from_tick_index)]
#[kani::stub(::whirlpool::state::oracle::AdaptiveFeeVariables::update_reference, stub_update_reference)]
fn c14_manager_new_64() {
    manager_new(64);
}
/// (6) FeeRateManager::new, tick_group_size == 32896
// @verif prop=C14 tier=quick timeout=300
#[kani::proof]
#[kani::unwind(18)]
#[kani::stub(alloc::fmt::format, stub_format)]
#[kani::stub(<anchor_lang::error::Error as core::convert::From<::whirlpool::errors::ErrorCode>>::from, stub_err_from_code)]
#[kani::stub(::whirlpool::math::tick_math::sqrt_price_from_tick_index, t::stub_sqrt_price_from_tick_index)]
#[kani::stub(::whirlpool::state::oracle::AdaptiveFeeVariables::update_reference, stub_update_reference)]
fn c14_manager_new_32896() {
    manager_new(32896);
}
/// (7) get_bounded_sqrt_price_target, tick_group_size == 64
// @verif prop=C14 tier=thorough timeout=900
#[kani::proof]
#[kani::unwind(18)]
#[kani::stub(alloc::fmt::format, stub_format)]
#[kani::stub(<anchor_lang::error::Error as core::convert::From<::whirlpool::errors::ErrorCode>>::from, stub_err_from_code)]
#[kani::stub(::whirlpool::math::tick_math::sqrt_price_from_tick_index, t::stub_sqrt_price_from_tick_index)]
#[kani::stub(::whirlpool::state::oracle::AdaptiveFeeVariables::update_reference, stub_update_reference)]
fn c14_bounded_target_64() {
    bounded_target(64);
}
/// (7) get_bounded_sqrt_price_target, tick_group_size == 32896
// @verif prop=C14 tier=quick timeout=300
#[kani::proof]
#[kani::unwind(18)]
#[kani::stub(alloc::fmt::format, stub_format)]
#[kani::stub(<anchor_lang::error::Error as core::convert::From<::whirlpool::errors::ErrorCode>>::from, stub_err_from_code)]
#[kani::stub(::whirlpool::math::tick_math::sqrt_price_from_tick_index, t::stub_sqrt_price_from_tick_index)]
#[kani::stub(::whirlpool::state::oracle::AdaptiveFeeVariables::update_reference, stub_update_reference)]
fn c14_bounded_target_32896() {
    bounded_target(32896);
}
/// (8) advance_tick_group_after_skip, tick_group_size == 1, a_to_b == true, ended on the next initialized tick == true
// @verif prop=C14 tier=thorough timeout=900
#[kani::proof]
#[kani::unwind(18)]
#[kani::stub(alloc::fmt::format, stub_format)]
#[kani::stub(<anchor_lang::error::Error as core::convert::From<::whirlpool::errors::ErrorCode>>::from, stub_err_from_code)]
#[kani::stub(::whirlpool::math::tick_math::sqrt_price_from_tick_index, t::stub_sqrt_price_from_tick_index)]
#[kani::stub(::whirlpool::math::tick_math::tick_index_from_sqrt_price, t::stub_tick_index_from_sqrt_price)]
fn c14_after_skip_1_a2b_on_tick() {
    after_skip_closed_form(1, true, true);
}
/// (8) advance_tick_group_after_skip, tick_group_size == 1, a_to_b == true, ended on the next initialized tick == false
// @verif prop=C14 tier=thorough timeout=900
#[kani::proof]
#[kani::unwind(18)]
#[kani::stub(alloc::fmt::format, stub_format)]
#[kani::stub(<anchor_lang::error::Error as core::convert::From<::whirlpool::errors::ErrorCode>>::from, stub_err_from_code)]
#[kani::stub(::whirlpool::math::tick_math::sqrt_price_from_tick_index, t::stub_sqrt_price_from_tick_index)]
#[kani::stub(::whirlpool::math::tick_math::tick_index_from_sqrt_price, t::stub_tick_index_from_sqrt_price)]
fn c14_after_skip_1_a2b_off_tick() {
    after_skip_closed_form(1, true, false);
}
/// (8) advance_tick_group_after_skip, tick_group_size == 1, a_to_b == false, ended on the next initialized tick == true
// @verif prop=C14 tier=thorough timeout=900
#[kani::proof]
#[kani::unwind(18)]
#[kani::stub(alloc::fmt::format, stub_format)]
#[kani::stub(<anchor_lang::error::Error as core::convert::From<::whirlpool::errors::ErrorCode>>::from, stub_err_from_code)]
#[kani::stub(::whirlpool::math::tick_math::sqrt_price_from_tick_index, t::stub_sqrt_price_from_tick_index)]
#[kani::stub(::whirlpool::math::tick_math::tick_index_from_sqrt_price, t::stub_tick_index_from_sqrt_price)]
fn c14_after_skip_1_b2a_on_tick() {
    after_skip_closed_form(1, false, true);
}
/// (8) advance_tick_group_after_skip, tick_group_size == 1, a_to_b == false, ended on the next initialized tick == false
// @verif prop=C14 tier=thorough timeout=900
#[kani::proof]
#[kani::unwind(18)]
#[kani::stub(alloc::fmt::format, stub_format)]
#[kani::stub(<anchor_lang::error::Error as core::convert::From<::whirlpool::errors::ErrorCode>>::from, stub_err_from_code)]
#[kani::stub(::whirlpool::math::tick_math::sqrt_price_from_tick_index, t::stub_sqrt_price_from_tick_index)]
#[kani::stub(::whirlpool::math::tick_math::tick_index_from_sqrt_price, t::stub_tick_index_from_sqrt_price)]
fn c14_after_skip_1_b2a_off_tick() {
    after_skip_closed_form(1, false, false);
}
/// (8) advance_tick_group_after_skip, tick_group_size == 64, a_to_b == true, ended on the next initialized tick == true
// @verif prop=C14 tier=quick timeout=300
#[kani::proof]
#[kani::unwind(18)]
#[kani::stub(alloc::fmt::format, stub_format)]
#[kani::stub(<anchor_lang::error::Error as core::convert::From<::whirlpool::errors::ErrorCode>>::from, stub_err_from_code)]
#[kani::stub(::whirlpool::math::tick_math::sqrt_price_from_tick_index, t::stub_sqrt_price_from_tick_index)]
#[kani::stub(::whirlpool::math::tick_math::tick_index_from_sqrt_price, t::stub_tick_index_from_sqrt_price)]
fn c14_after_skip_64_a2b_on_tick() {
    after_skip_closed_form(64, true, true);
}
/// (8) advance_tick_group_after_skip, tick_group_size == 64, a_to_b == true, ended on the next initialized tick == false
// @verif prop=C14 tier=thorough timeout=900
#[kani::proof]
#[kani::unwind(18)]
#[kani::stub(alloc::fmt::format, stub_format)]
#[kani::stub(<anchor_lang::error::Error as core::convert::From<::whirlpool::errors::ErrorCode>>::from, stub_err_from_code)]
#[kani::stub(::whirlpool::math::tick_math::sqrt_price_from_tick_index, t::stub_sqrt_price_from_tick_index)]
#[kani::stub(::whirlpool::math::tick_math::tick_index_from_sqrt_price, t::stub_tick_index_from_sqrt_price)]
fn c14_after_skip_64_a2b_off_tick() {
    after_skip_closed_form(64, true, false);
}
/// (8) advance_tick_group_after_skip, tick_group_size == 64, a_to_b == false, ended on the next initialized tick == true
// @verif prop=C14 tier=thorough timeout=900
#[kani::proof]
#[kani::unwind(18)]
#[kani::stub(alloc::fmt::format, stub_format)]
#[kani::stub(<anchor_lang::error::Error as core::convert::From<::whirlpool::errors::ErrorCode>>::from, stub_err_from_code)]
#[kani::stub(::whirlpool::math::tick_math::sqrt_price_from_tick_index, t::stub_sqrt_price_from_tick_index)]
#[kani::stub(::whirlpool::math::tick_math::tick_index_from_sqrt_price, t::stub_tick_index_from_sqrt_price)]
fn c14_after_skip_64_b2a_on_tick() {
    after_skip_closed_form(64, false, true);
}
/// (8) advance_tick_group_after_skip, tick_group_size == 64, a_to_b == false, ended on the next initialized tick == false
// @verif prop=C14 tier=thorough timeout=900
#[kani::proof]
#[kani::unwind(18)]
#[kani::stub(alloc::fmt::format, stub_format)]
#[kani::stub(<anchor_lang::error::Error as core::convert::From<::whirlpool::errors::ErrorCode>>::from, stub_err_from_code)]
#[kani::stub(::whirlpool::math::tick_math::sqrt_price_from_tick_index, t::stub_sqrt_price_from_tick_index)]
#[kani::stub(::whirlpool::math::tick_math::tick_index_from_sqrt_price, t::stub_tick_index_from_sqrt_price)]
fn c14_after_skip_64_b2a_off_tick() {
    after_skip_closed_form(64, false, false);
}
/// (8) advance_tick_group_after_skip, tick_group_size == 32896, a_to_b == true, ended on the next initialized tick == true
// @verif prop=C14 tier=quick timeout=300
#[kani::proof]
#[kani::unwind(18)]
#[kani::stub(alloc::fmt::format, stub_format)]
#[kani::stub(<anchor_lang::error::Error as core::convert::From<::whirlpool::errors::ErrorCode>>::from, stub_err_from_code)]
#[kani::stub(::whirlpool::math::tick_math::sqrt_price_from_tick_index, t::stub_sqrt_price_from_tick_index)]
#[kani::stub(::whirlpool::math::tick_math::tick_index_from_sqrt_price, t::stub_tick_index_from_sqrt_price)]
fn c14_after_skip_32896_a2b_on_tick() {
    after_skip_closed_form(32896, true, true);
}
/// (8) advance_tick_group_after_skip, tick_group_size == 32896, a_to_b == true, ended on the next initialized tick == false
// @verif prop=C14 tier=quick timeout=300
#[kani::proof]
#[kani::unwind(18)]
#[kani::stub(alloc::fmt::format, stub_format)]
#[kani::stub(<anchor_lang::error::Error as core::convert::From<::whirlpool::errors::ErrorCode>>::from, stub_err_from_code)]
#[kani::stub(::whirlpool::math::tick_math::sqrt_price_from_tick_index, t::stub_sqrt_price_from_tick_index)]
#[kani::stub(::whirlpool::math::tick_math::tick_index_from_sqrt_price, t::stub_tick_index_from_sqrt_price)]
fn c14_after_skip_32896_a2b_off_tick() {
    after_skip_closed_form(32896, true, false);
}
/// (8) advance_tick_group_after_skip, tick_group_size == 32896, a_to_b == false, ended on the next initialized tick == true
// @verif prop=C14 tier=quick timeout=300
#[kani::proof]
#[kani::unwind(18)]
#[kani::stub(alloc::fmt::format, stub_format)]
#[kani::stub(<anchor_lang::error::Error as core::convert::From<::whirlpool::errors::ErrorCode>>::from, stub_err_from_code)]
#[kani::stub(::whirlpool::math::tick_math::sqrt_price_from_tick_index, t::stub_sqrt_price_from_tick_index)]
#[kani::stub(::whirlpool::math::tick_math::tick_index_from_sqrt_price, t::stub_tick_index_from_sqrt_price)]
fn c14_after_skip_32896_b2a_on_tick() {
    after_skip_closed_form(32896, false, true);
}
/// (8) advance_tick_group_after_skip, tick_group_size == 32896, a_to_b == false, ended on the next initialized tick == false
// @verif prop=C14 tier=quick timeout=300
#[kani::proof]
#[kani::unwind(18)]
#[kani::stub(alloc::fmt::format, stub_format)]
#[kani::stub(<anchor_lang::error::Error as core::convert::From<::whirlpool::errors::ErrorCode>>::from, stub_err_from_code)]
#[kani::stub(::whirlpool::math::tick_math::sqrt_price_from_tick_index, t::stub_sqrt_price_from_tick_index)]
#[kani::stub(::whirlpool::math::tick_math::tick_index_from_sqrt_price, t::stub_tick_index_from_sqrt_price)]
fn c14_after_skip_32896_b2a_off_tick() {
    after_skip_closed_form(32896, false, false);
}

/// (10) trade-enable time, function level: OracleAccessor::new on a program-owned Oracle account of this pool, then
/// is_trade_enabled(now) == Ok(trade_enable_timestamp <= now) for all u64 pairs (the four swap handlers return
/// Err(TradeIsNotEnabled) exactly when this is Ok(false)); an uninitialized oracle (system-owned, empty) never blocks.
// @verif prop=C14 tier=quick timeout=300
#[kani::proof]
#[kani::unwind(34)]
#[kani::stub(alloc::fmt::format, stub_format)]
#[kani::stub(<anchor_lang::error::Error as core::convert::From<::whirlpool::errors::ErrorCode>>::from, stub_err_from_code)]
#[kani::stub(<anchor_lang::error::Error as core::convert::From<anchor_lang::error::ErrorCode>>::from, stub_err_from_anchor_code)]
fn c14_trade_enable_timestamp() {
    use anchor_lang::prelude::{Account, AccountInfo, Pubkey};
    use anchor_lang::Discriminator;
    let program_id = ::whirlpool::ID;
    let system_id = anchor_lang::solana_program::system_program::ID;
    let wp_key = Pubkey::new_from_array(kani::any());
    let or_key = Pubkey::new_from_array(kani::any());
    let tet: u64 = kani::any();
    let now: u64 = kani::any();
    let initialized: bool = kani::any();
    let c = raw_constants();
    let mut wp_l = 1u64;
    let mut wp_data = [0u8; Whirlpool::LEN];
    wp_data[..8].copy_from_slice(Whirlpool::DISCRIMINATOR);
    let wp_ai = AccountInfo::new(&wp_key, false, true, &mut wp_l, &mut wp_data[..], &program_id, false, 0);
    let wp: Account<Whirlpool> = Account::try_from(&wp_ai).unwrap();
    let mut or_l = 1u64;
    let mut or_data = [0u8; Oracle::LEN];
    or_data[..8].copy_from_slice(Oracle::DISCRIMINATOR);
    or_data[8..40].copy_from_slice(&wp_key.to_bytes());
    or_data[40..48].copy_from_slice(&tet.to_le_bytes());
    or_data[48..50].copy_from_slice(&{ c.filter_period }.to_le_bytes());
    or_data[50..52].copy_from_slice(&{ c.decay_period }.to_le_bytes());
    let mut empty = [0u8; 0];
    let or_ai = if initialized {
        AccountInfo::new(&or_key, false, true, &mut or_l, &mut or_data[..], &program_id, false, 0)
    } else {
        AccountInfo::new(&or_key, false, false, &mut or_l, &mut empty[..], &system_id, false, 0)
    };
    let acc = OracleAccessor::new(&wp, or_ai);
    let acc = match acc {
        Ok(a) => a,
        Err(e) => {
            core::mem::forget(e);
            assert!(false, "accessor must accept the pool's oracle");
            return;
        }
    };
    let r = acc.is_trade_enabled(now);
    kani::cover!(matches!(r, Ok(false)), "trading refused");
    kani::cover!(matches!(r, Ok(true)) && initialized && tet > 0, "trading allowed after the enable time");
    match &r {
        Ok(enabled) => assert!(*enabled == (!initialized || tet <= now)),
        Err(_) => assert!(false, "is_trade_enabled must not fail"),
    }
    // same pool data reach the fee manager: adaptive info present iff the oracle is initialized
    let info = acc.get_adaptive_fee_info();
    match &info {
        Ok(Some(i)) => assert!(initialized && { i.constants.filter_period } == { c.filter_period } && { i.constants.decay_period } == { c.decay_period }),
        Ok(None) => assert!(!initialized),
        Err(_) => assert!(false),
    }
    core::mem::forget(r);
    core::mem::forget(info);
    core::mem::forget(acc);
    core::mem::forget(wp);
}
