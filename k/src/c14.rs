//! C14 — adaptive fees follow the volatility schedule and stay within the hard limit (Engine K).
//!
//! Inputs are symbolic everywhere. Constants are constrained ONLY by `validate_constants(..) == true`
//! (every writer of `Oracle.adaptive_fee_constants` / `AdaptiveFeeTier` goes through it), variables by the
//! stored-state invariant (established by `Oracle::reset_adaptive_fee_variables` — also on every constants
//! change — and preserved by `update_reference` / `update_volatility_accumulator`, which is itself asserted
//! below): `volatility_reference <= max_volatility_accumulator`, `volatility_accumulator <= max`, and the
//! reference group is the group of a tick the pool can store (`MIN_TICK_INDEX-1 ..= MAX_TICK_INDEX`).
//! Release builds have `overflow-checks = false`: Kani's built-in arithmetic checks are the "no overflow" claim.
use crate::common::*;
use ::whirlpool::errors::ErrorCode;
use ::whirlpool::manager::fee_rate_manager::*;
use ::whirlpool::math::*;
use ::whirlpool::state::*;

/// lowest value `whirlpool.tick_current_index` can hold (a_to_b crossing of the tick at MIN_TICK_INDEX shifts by -1)
const MIN_CUR_TICK: i32 = MIN_TICK_INDEX - 1;
const SCALE: u64 = 10_000; // VOLATILITY_ACCUMULATOR_SCALE_FACTOR, restated independently
const HARD_LIMIT: u32 = 100_000; // 10% in hundredths of a basis point, restated independently
const ONE_HOUR: u64 = 3_600;

fn raw_constants() -> AdaptiveFeeConstants {
    let mut c = AdaptiveFeeConstants::default();
    c.filter_period = kani::any();
    c.decay_period = kani::any();
    c.reduction_factor = kani::any();
    c.adaptive_fee_control_factor = kani::any();
    c.max_volatility_accumulator = kani::any();
    c.tick_group_size = kani::any();
    c.major_swap_threshold_ticks = kani::any();
    c
}
fn is_valid(tick_spacing: u16, c: &AdaptiveFeeConstants) -> bool {
    AdaptiveFeeConstants::validate_constants(
        tick_spacing,
        c.filter_period,
        c.decay_period,
        c.reduction_factor,
        c.adaptive_fee_control_factor,
        c.max_volatility_accumulator,
        c.tick_group_size,
        c.major_swap_threshold_ticks,
    )
}
/// all constants accepted by the program for some tick spacing
fn any_constants() -> AdaptiveFeeConstants {
    let tick_spacing: u16 = kani::any();
    let c = raw_constants();
    kani::assume(is_valid(tick_spacing, &c));
    c
}
/// `g` is the group (floor(t / size)) of some tick t in MIN_CUR_TICK..=MAX_TICK_INDEX, without dividing
fn is_group_of_storable_tick(g: i32, size: u16) -> bool {
    let lo = g as i64 * size as i64; // first tick of the group
    lo <= MAX_TICK_INDEX as i64 && lo + size as i64 - 1 >= MIN_CUR_TICK as i64
}
/// all variable states an Oracle account can hold next to constants `c`
fn any_variables(c: &AdaptiveFeeConstants) -> AdaptiveFeeVariables {
    let mut v = AdaptiveFeeVariables::default();
    v.last_reference_update_timestamp = kani::any();
    v.last_major_swap_timestamp = kani::any();
    v.volatility_reference = kani::any();
    v.tick_group_index_reference = kani::any();
    v.volatility_accumulator = kani::any();
    kani::assume(v.volatility_reference <= c.max_volatility_accumulator);
    kani::assume(v.volatility_accumulator <= c.max_volatility_accumulator);
    kani::assume(is_group_of_storable_tick(v.tick_group_index_reference, c.tick_group_size));
    v
}
fn same_vars(a: &AdaptiveFeeVariables, b: &AdaptiveFeeVariables) -> bool {
    ({ a.last_reference_update_timestamp } == { b.last_reference_update_timestamp })
        && ({ a.last_major_swap_timestamp } == { b.last_major_swap_timestamp })
        && ({ a.volatility_reference } == { b.volatility_reference })
        && ({ a.tick_group_index_reference } == { b.tick_group_index_reference })
        && ({ a.volatility_accumulator } == { b.volatility_accumulator })
        && (a.reserved == b.reserved)
}
fn same_consts(a: &AdaptiveFeeConstants, b: &AdaptiveFeeConstants) -> bool {
    ({ a.filter_period } == { b.filter_period })
        && ({ a.decay_period } == { b.decay_period })
        && ({ a.reduction_factor } == { b.reduction_factor })
        && ({ a.adaptive_fee_control_factor } == { b.adaptive_fee_control_factor })
        && ({ a.max_volatility_accumulator } == { b.max_volatility_accumulator })
        && ({ a.tick_group_size } == { b.tick_group_size })
        && ({ a.major_swap_threshold_ticks } == { b.major_swap_threshold_ticks })
        && (a.reserved == b.reserved)
}
fn adaptive(
    a_to_b: bool,
    tick_group_index: i32,
    static_fee_rate: u16,
    c: AdaptiveFeeConstants,
    v: AdaptiveFeeVariables,
) -> FeeRateManager {
    FeeRateManager::Adaptive {
        a_to_b,
        tick_group_index,
        static_fee_rate,
        adaptive_fee_constants: c,
        adaptive_fee_variables: v,
        core_tick_group_range_lower_bound: None,
        core_tick_group_range_upper_bound: None,
    }
}

/// (1) validate_constants(ts, ..) == the rule list (doc comments of validate_constants / constant definitions in
/// state/oracle.rs, the only published statement of the rules in the repository), for ALL 8 arguments
// @verif prop=C14 tier=quick timeout=300
#[kani::proof]
#[kani::stub(alloc::fmt::format, stub_format)]
#[kani::stub(<anchor_lang::error::Error as core::convert::From<::whirlpool::errors::ErrorCode>>::from, stub_err_from_code)]
fn c14_validate_constants_rules() {
    let ts: u16 = kani::any();
    let c = raw_constants();
    let (fp, dp, rf) = (c.filter_period, c.decay_period, c.reduction_factor);
    let (cf, mva) = (c.adaptive_fee_control_factor, c.max_volatility_accumulator);
    let (tgs, mst) = (c.tick_group_size, c.major_swap_threshold_ticks);
    let got = is_valid(ts, &c);
    let rule_periods = fp >= 1 && dp >= 1 && fp < dp;
    let rule_control = cf < 100_000; // strictly below its denominator
    let rule_reduction = rf < 10_000; // strictly below its denominator
    let rule_no_overflow = (mva as u64) * (tgs as u64) <= u32::MAX as u64;
    // tick_group_size is a divisor of tick_spacing (1 ..= tick_spacing)
    let rule_group = tgs >= 1 && tgs <= ts && (ts / tgs) * tgs == ts;
    // 1 ..= number of ticks spanned by one tick array (88 * tick_spacing)
    let rule_major = mst >= 1 && (mst as u32) <= 88u32 * ts as u32;
    let expected = rule_periods && rule_control && rule_reduction && rule_no_overflow && rule_group && rule_major;
    kani::cover!(got, "valid constants exist");
    kani::cover!(got && cf == 0, "valid with zero control factor");
    kani::cover!(!got && rule_periods && rule_control && rule_reduction && rule_no_overflow && rule_group, "rejected by the major-swap rule only");
    assert!(got == expected);
}

/// (2) update_volatility_accumulator: Ok, no overflow, result == min(reference + |group - reference_group| * 10_000, max)
/// (hence <= max), nothing else modified; all valid constants, all stored variables, every group index a swap can visit
// @verif prop=C14 tier=quick timeout=300
#[kani::proof]
#[kani::stub(alloc::fmt::format, stub_format)]
#[kani::stub(<anchor_lang::error::Error as core::convert::From<::whirlpool::errors::ErrorCode>>::from, stub_err_from_code)]
fn c14_update_volatility_accumulator() {
    let c = any_constants();
    let v0 = any_variables(&c);
    let g: i32 = kani::any();
    // groups visited by the swap loop: group of a storable tick, or one further (the loop advances once past the end)
    kani::assume(g >= MIN_CUR_TICK - 1 && g <= MAX_TICK_INDEX + 1);
    let mut v = v0;
    let r = v.update_volatility_accumulator(g, &c);
    let ok = r.is_ok();
    core::mem::forget(r);
    assert!(ok);
    let dist = (g as i64 - v0.tick_group_index_reference as i64).unsigned_abs();
    let raw = v0.volatility_reference as u64 + dist * SCALE;
    let expected = if raw < c.max_volatility_accumulator as u64 { raw } else { c.max_volatility_accumulator as u64 };
    kani::cover!(raw < c.max_volatility_accumulator as u64 && dist > 1, "below the maximum");
    kani::cover!(raw > c.max_volatility_accumulator as u64, "saturated");
    assert!({ v.volatility_accumulator } as u64 == expected);
    assert!({ v.volatility_accumulator } <= { c.max_volatility_accumulator });
    let mut w = v0;
    w.volatility_accumulator = v.volatility_accumulator;
    assert!(same_vars(&v, &w));
}

/// (3a) get_total_fee_rate in [static, 100_000], == min(static + adaptive, 100_000) where adaptive is the manager's rate
/// with static 0; no overflow in compute_adaptive_fee_rate; Static manager returns the static rate
// @verif prop=C14 tier=quick timeout=300
#[kani::proof]
#[kani::stub(alloc::fmt::format, stub_format)]
#[kani::stub(<anchor_lang::error::Error as core::convert::From<::whirlpool::errors::ErrorCode>>::from, stub_err_from_code)]
fn c14_total_fee_rate_bounds() {
    let c = any_constants();
    let v = any_variables(&c);
    let static_fee: u16 = kani::any();
    let a_to_b: bool = kani::any();
    let g: i32 = kani::any();
    let total = adaptive(a_to_b, g, static_fee, c, v).get_total_fee_rate();
    let only_adaptive = adaptive(a_to_b, g, 0, c, v).get_total_fee_rate();
    let st = FeeRateManager::Static { static_fee_rate: static_fee }.get_total_fee_rate();
    kani::cover!(total > static_fee as u32 && total < HARD_LIMIT, "adaptive part charged, below the cap");
    kani::cover!(static_fee as u32 + only_adaptive > HARD_LIMIT, "cap applies");
    assert!(total >= static_fee as u32);
    assert!(total <= HARD_LIMIT);
    assert!(only_adaptive <= HARD_LIMIT);
    let sum = static_fee as u32 + only_adaptive;
    assert!(total == if sum > HARD_LIMIT { HARD_LIMIT } else { sum });
    assert!(st == static_fee as u32);
    if c.adaptive_fee_control_factor == 0 {
        assert!(total == static_fee as u32);
    }
}

/// (3b) exact formula: adaptive rate == min(ceil(control_factor * (accumulator * group_size)^2 / 10^13), 100_000), stated
/// without division: r*D >= N > (r-1)*D below the cap, N > 99_999*D at the cap (D = 100_000 * 10_000 * 10_000)
// @verif prop=C14 tier=quick timeout=300
#[kani::proof]
#[kani::stub(alloc::fmt::format, stub_format)]
#[kani::stub(<anchor_lang::error::Error as core::convert::From<::whirlpool::errors::ErrorCode>>::from, stub_err_from_code)]
fn c14_adaptive_fee_rate_formula() {
    let c = any_constants();
    let v = any_variables(&c);
    let r = adaptive(kani::any(), kani::any(), 0, c, v).get_total_fee_rate() as u128;
    const D: u128 = 10_000_000_000_000;
    let crossed = v.volatility_accumulator as u128 * c.tick_group_size as u128;
    let n = c.adaptive_fee_control_factor as u128 * crossed * crossed;
    kani::cover!(r > 0 && r < HARD_LIMIT as u128, "strictly between");
    kani::cover!(r == HARD_LIMIT as u128, "capped");
    assert!(r <= HARD_LIMIT as u128);
    if r < HARD_LIMIT as u128 {
        assert!(r * D >= n);
        assert!(r == 0 || (r - 1) * D < n);
    } else {
        assert!(n > (HARD_LIMIT as u128 - 1) * D);
    }
}

/// (4) update_reference against the documented rule, as postconditions: Err(InvalidTimestamp) iff now < max(last update,
/// last major swap); reference older than one hour => reset; else by elapsed time since max(..): < filter => unchanged,
/// < decay => reference group := current, volatility_reference := floor(accumulator * reduction / 10_000), >= decay =>
/// reference group := current, volatility_reference := 0. Accumulator / major-swap timestamp never touched; the stored
/// invariant volatility_reference <= max is preserved. Timestamps are arbitrary u64.
// @verif prop=C14 tier=quick timeout=300
#[kani::proof]
#[kani::stub(alloc::fmt::format, stub_format)]
#[kani::stub(<anchor_lang::error::Error as core::convert::From<::whirlpool::errors::ErrorCode>>::from, stub_err_from_code)]
fn c14_update_reference_rules() {
    let c = any_constants();
    let v0 = any_variables(&c);
    let g: i32 = kani::any();
    let now: u64 = kani::any();
    let mut v = v0;
    let r = v.update_reference(g, now, &c);
    let last_ref = v0.last_reference_update_timestamp;
    let last_major = v0.last_major_swap_timestamp;
    let last = if last_ref > last_major { last_ref } else { last_major };
    let reset = |v: &AdaptiveFeeVariables| {
        let (rg, vr, ts) = (v.tick_group_index_reference, v.volatility_reference, v.last_reference_update_timestamp);
        rg == g && vr == 0 && ts == now
    };
    kani::cover!(r.is_ok() && now - last_ref > ONE_HOUR && now - last < c.filter_period as u64, "one-hour reset inside the filter window");
    kani::cover!(r.is_ok() && now - last_ref <= ONE_HOUR && now - last >= c.filter_period as u64 && now - last < c.decay_period as u64 && { v.volatility_reference } > 0, "decayed reference");
    kani::cover!(r.is_err(), "time went backwards");
    match &r {
        Err(e) => {
            assert!(now < last);
            assert!(acode(e) == ecode(ErrorCode::InvalidTimestamp));
            assert!(same_vars(&v, &v0));
        }
        Ok(()) => {
            assert!(now >= last);
            // never touched by this function
            assert!({ v.volatility_accumulator } == { v0.volatility_accumulator });
            assert!({ v.last_major_swap_timestamp } == last_major);
            assert!(v.reserved == v0.reserved);
            let elapsed = now - last;
            if now - last_ref > ONE_HOUR {
                assert!(reset(&v));
            } else if elapsed < c.filter_period as u64 {
                assert!(same_vars(&v, &v0));
            } else if elapsed < c.decay_period as u64 {
                assert!({ v.tick_group_index_reference } == g);
                assert!({ v.last_reference_update_timestamp } == now);
                // floor(acc * reduction / 10_000) without dividing
                let p = v0.volatility_accumulator as u64 * c.reduction_factor as u64;
                let q = { v.volatility_reference } as u64;
                assert!(q * 10_000 <= p && p < (q + 1) * 10_000);
            } else {
                assert!(reset(&v));
            }
            assert!({ v.volatility_reference } <= { c.max_volatility_accumulator });
        }
    }
    core::mem::forget(r);
}

/// (9) get_next_adaptive_fee_info: Some(constants, variables held by the manager) for Adaptive, None for Static
// @verif prop=C14 tier=quick timeout=300
#[kani::proof]
#[kani::stub(alloc::fmt::format, stub_format)]
#[kani::stub(<anchor_lang::error::Error as core::convert::From<::whirlpool::errors::ErrorCode>>::from, stub_err_from_code)]
fn c14_next_adaptive_fee_info() {
    let c = any_constants();
    let v = any_variables(&c);
    let g: i32 = kani::any();
    kani::assume(g >= MIN_CUR_TICK - 1 && g <= MAX_TICK_INDEX + 1);
    let mut m = adaptive(kani::any(), g, kani::any(), c, v);
    // the variables reported are the ones the manager updated last (accumulator of the group it was told to visit)
    let r = m.update_volatility_accumulator();
    let ok = r.is_ok();
    core::mem::forget(r);
    assert!(ok);
    let mut expect = v;
    let r2 = expect.update_volatility_accumulator(g, &c);
    core::mem::forget(r2);
    match m.get_next_adaptive_fee_info() {
        Some(info) => {
            assert!(same_consts(&info.constants, &c));
            assert!(same_vars(&info.variables, &expect));
            kani::cover!({ info.variables.volatility_accumulator } != { v.volatility_accumulator }, "accumulator changed");
        }
        None => assert!(false, "adaptive manager must report its variables"),
    }
    let s = FeeRateManager::Static { static_fee_rate: kani::any() };
    assert!(s.get_next_adaptive_fee_info().is_none());
}

/// vacuity twin: must FAIL (an adaptive pool with non-zero control factor can charge more than the static rate)
// @verif prop=C14 tier=quick timeout=300 twin
#[kani::proof]
#[kani::stub(alloc::fmt::format, stub_format)]
#[kani::stub(<anchor_lang::error::Error as core::convert::From<::whirlpool::errors::ErrorCode>>::from, stub_err_from_code)]
fn c14_twin_must_fail() {
    let c = any_constants();
    let v = any_variables(&c);
    let static_fee: u16 = kani::any();
    let total = adaptive(kani::any(), kani::any(), static_fee, c, v).get_total_fee_rate();
    assert!(total == static_fee as u32, "twin: adaptive surcharge must be reachable");
}
