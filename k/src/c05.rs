//! C05 harnesses (Engine K)
