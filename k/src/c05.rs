//! C05 — tradable liquidity equals the sum of the positions covering the current tick (Engine K part).
//!
//! Invariant I (all sums over the positions of one pool, in ℤ):
//!   pool.liquidity = Σ L over positions with lower <= cur < upper;
//!   for each tick t: net(t) = Σ_{lower = t} L − Σ_{upper = t} L,  gross(t) = Σ_{lower = t or upper = t} L,
//!   initialized(t) <=> gross(t) != 0.
//! Inductive steps decided here, each from a symbolic pre-state satisfying I in which all positions other than the
//! one being modified are summarised by symbolic ghost sums:
//!  (a) liquidity change of one position. Component lemmas with ghost sums (quick tier): `next_whirlpool_liquidity`,
//!      `next_tick_modify_liquidity_update`, `next_position_modify_liquidity_update` and their Pinocchio ports; wiring
//!      (thorough tier): `calculate_modify_liquidity` + `sync_modify_liquidity_values` and the Pinocchio pair store
//!      exactly the component results (tick arrays: a two-slot implementation of the program's traits, see `Pair`);
//!  (b) `swap_manager::calculate_update` (hook `verif_calculate_update`): crossing a tick in either direction.
//! That the swap loop crosses exactly the initialised ticks in order is C10; composing the steps over unbounded
//! histories and position sets is a written argument (DESIGN §4).
use crate::c07::*;
use crate::common::*;
use ::whirlpool::errors::ErrorCode;
use ::whirlpool::manager::liquidity_manager::{calculate_modify_liquidity, sync_modify_liquidity_values};
use ::whirlpool::manager::swap_manager::verif_calculate_update;
use ::whirlpool::pinocchio::ported::manager_liquidity_manager::{
    pino_calculate_modify_liquidity, pino_sync_modify_liquidity_values,
};
use ::whirlpool::pinocchio::state::whirlpool::tick_array::TickArray as PTickArray;
use ::whirlpool::pinocchio::state::whirlpool::tick_array::TickUpdate as PTickUpdate;
use ::whirlpool::pinocchio::state::whirlpool::{MemoryMappedPosition, MemoryMappedTick};
use ::whirlpool::state::*;

/// Tick-array stand-in implementing the program's own traits (`state::TickArrayType`, Pinocchio `TickArray`): it
/// holds the one or two ticks the step touches, keyed by tick index, and answers every other index with
/// TickNotFound. The real fixed / dynamic array addressing (`get_tick` / `update_tick` offset arithmetic and the
/// single-slot write) is NOT part of this lemma — with the real 10 kB arrays and symbolic slots CBMC exceeds 14 GB;
/// it is decided in C10 (contracts G2, G3) and C13. `variable` (symbolic) selects the fixed / dynamic branch of
/// `calculate_modify_tick_array`.
struct Pair {
    n: usize,
    idx: [i32; 2],
    t: [TB; 2],
    variable: bool,
    start: i32,
}
impl Pair {
    fn find(&self, tick_index: i32) -> Option<usize> {
        if self.n >= 1 && self.idx[0] == tick_index {
            Some(0)
        } else if self.n >= 2 && self.idx[1] == tick_index {
            Some(1)
        } else {
            None
        }
    }
    fn tick(&self, tick_index: i32) -> TB {
        match self.find(tick_index) {
            Some(k) => self.t[k],
            None => {
                assert!(false, "tick present");
                [0u8; 113]
            }
        }
    }
}
impl TickArrayType for Pair {
    fn is_variable_size(&self) -> bool {
        self.variable
    }
    fn start_tick_index(&self) -> i32 {
        self.start
    }
    fn whirlpool(&self) -> anchor_lang::prelude::Pubkey {
        anchor_lang::prelude::Pubkey::default()
    }
    fn get_next_init_tick_index(&self, _tick_index: i32, _tick_spacing: u16, _a_to_b: bool) -> anchor_lang::Result<Option<i32>> {
        Ok(None)
    }
    fn get_tick(&self, tick_index: i32, _tick_spacing: u16) -> anchor_lang::Result<Tick> {
        match self.find(tick_index) {
            Some(k) => Ok(tick_of(&self.t[k])),
            None => Err(ErrorCode::TickNotFound.into()),
        }
    }
    fn update_tick(&mut self, tick_index: i32, _tick_spacing: u16, update: &TickUpdate) -> anchor_lang::Result<()> {
        match self.find(tick_index) {
            Some(k) => {
                let mut t = tick_of(&self.t[k]);
                t.update(update); // the real `Tick::update`
                self.t[k] = tick_bytes(&t);
                Ok(())
            }
            None => Err(ErrorCode::TickNotFound.into()),
        }
    }
}
static PAIR_KEY: ::whirlpool::pinocchio::state::Pubkey = [0u8; 32];
impl PTickArray for Pair {
    fn is_variable_size(&self) -> bool {
        self.variable
    }
    fn whirlpool(&self) -> &::whirlpool::pinocchio::state::Pubkey {
        &PAIR_KEY
    }
    fn start_tick_index(&self) -> i32 {
        self.start
    }
    fn get_tick(&self, tick_index: i32, _tick_spacing: u16) -> ::whirlpool::pinocchio::Result<&MemoryMappedTick> {
        match self.find(tick_index) {
            Some(k) => Ok(mtick(&self.t[k])),
            None => Err(ErrorCode::TickNotFound.into()),
        }
    }
    fn update_tick(&mut self, tick_index: i32, _tick_spacing: u16, update: &PTickUpdate) -> ::whirlpool::pinocchio::Result<()> {
        match self.find(tick_index) {
            Some(k) => {
                // copy out / update / copy back: writing through a pointer cast of `&mut self.t[k]` with a symbolic k
                // made CBMC 6.11 report a spurious difference in the first byte (tool artefact of this stand-in only)
                let mut tb = self.t[k];
                mtick_mut(&mut tb).update(update); // the real `MemoryMappedTick::update`
                self.t[k] = tb;
                Ok(())
            }
            None => Err(ErrorCode::TickNotFound.into()),
        }
    }
}
fn mpos_mut(b: &mut PB) -> &mut MemoryMappedPosition {
    unsafe { &mut *(b.as_mut_ptr() as *mut MemoryMappedPosition) }
}

/// post-state read back from the accounts
struct Post {
    pool_liquidity: u128,
    position_liquidity: u128,
}

trait Modify {
    /// calculate + sync on the account bytes; `au == None` means lower and upper tick share one array account
    fn run(w: &mut WB, p: &mut PB, al: &mut Pair, au: Option<&mut Pair>, delta: i128, ts: u64) -> Result<Post, u32>;
}

impl Modify for Anchor {
    fn run(w: &mut WB, p: &mut PB, al: &mut Pair, au: Option<&mut Pair>, delta: i128, ts: u64) -> Result<Post, u32> {
        let mut wp = wp_of(w);
        let mut pos = pos_of(p);
        let update = match &au {
            Some(u) => calculate_modify_liquidity(&wp, &pos, &*al, &**u, delta, ts),
            None => calculate_modify_liquidity(&wp, &pos, &*al, &*al, delta, ts),
        };
        let update = match update {
            Ok(u) => u,
            Err(e) => {
                let c = acode(&e);
                core::mem::forget(e);
                return Err(c);
            }
        };
        let r = match au {
            Some(u) => sync_modify_liquidity_values(&mut wp, &mut pos, al, Some(u as &mut dyn TickArrayType), &update, ts),
            None => sync_modify_liquidity_values(&mut wp, &mut pos, al, None, &update, ts),
        };
        core::mem::forget(update);
        match r {
            Ok(()) => Ok(Post { pool_liquidity: wp.liquidity, position_liquidity: pos.liquidity }),
            Err(e) => {
                let c = acode(&e);
                core::mem::forget(e);
                Err(c)
            }
        }
    }
}

impl Modify for Pino {
    fn run(w: &mut WB, p: &mut PB, al: &mut Pair, au: Option<&mut Pair>, delta: i128, ts: u64) -> Result<Post, u32> {
        let update = match &au {
            Some(u) => pino_calculate_modify_liquidity(mwp(w), mpos(p), &*al, &**u, delta, ts),
            None => pino_calculate_modify_liquidity(mwp(w), mpos(p), &*al, &*al, delta, ts),
        };
        let update = match update {
            Ok(u) => u,
            Err(e) => {
                let c = ucode(&e);
                core::mem::forget(e);
                return Err(c);
            }
        };
        let r = match au {
            Some(u) => pino_sync_modify_liquidity_values(mwp_mut(w), mpos_mut(p), al, Some(u as &mut dyn PTickArray), &update, ts),
            None => pino_sync_modify_liquidity_values(mwp_mut(w), mpos_mut(p), al, None, &update, ts),
        };
        core::mem::forget(update);
        match r {
            Ok(()) => Ok(Post { pool_liquidity: mwp(w).liquidity(), position_liquidity: mpos(p).liquidity() }),
            Err(e) => {
                let c = ucode(&e);
                core::mem::forget(e);
                Err(c)
            }
        }
    }
}

// contract stubs: C05 does not depend on reward / fee amounts, so the two multiply-divide helpers on the path may
// return anything their signature allows (over-approximation; exact for d == 0).
fn stub_md_any(_n0: u128, _n1: u128, d: u128) -> Result<u128, ErrorCode> {
    if d == 0 {
        Err(ErrorCode::DivideByZero)
    } else if kani::any() {
        Ok(kani::any())
    } else {
        Err(ErrorCode::MulDivOverflow)
    }
}
fn stub_ms_any(_n0: u128, _n1: u128) -> Result<u64, ErrorCode> {
    if kani::any() {
        Ok(kani::any())
    } else {
        Err(ErrorCode::MultiplicationShiftRightOverflow)
    }
}

/// L + delta in ℤ, None if it leaves [0, 2^128)
fn add_delta(l: u128, delta: i128) -> Option<u128> {
    if delta >= 0 {
        l.checked_add(delta as u128)
    } else {
        l.checked_sub(delta.unsigned_abs())
    }
}
/// a − b in ℤ as i128, None if it leaves the i128 range (a, b are u128 sums)
fn signed_diff(a: u128, b: u128) -> Option<i128> {
    if a >= b {
        let d = a - b;
        if d <= i128::MAX as u128 {
            Some(d as i128)
        } else {
            None
        }
    } else {
        let d = b - a;
        if d <= 1u128 << 127 {
            Some((d as i128).wrapping_neg())
        } else {
            None
        }
    }
}

/// Step (a), wiring. The real calculate + sync pair run on symbolic accounts (any stored ticks, any placement of the
/// current tick, both ticks in one array account or in two, fixed or dynamic flavour) against the component
/// functions called directly on the same pre-state:
///   Ok  => stored pool.liquidity == `next_whirlpool_liquidity`(pool, upper, lower, delta),
///          stored lower / upper tick (net, gross, initialized) == `next_tick_modify_liquidity_update`(.., is_upper = false / true)
///          at the position's own tick indexes, stored position.liquidity == `next_position_modify_liquidity_update`.liquidity;
///   Err <=> LiquidityZero case | earlier timestamp | one of those four component calls fails; LiquidityZero iff its case.
/// With the component lemmas below (each component result == I recomputed from ghost sums) this is step (a).
/// Whole-path formula: ~2 M variables; the goals are equalities between identical sub-circuits.
fn wiring<E: Modify + Eng>(pino: bool) {
    let mut w: WB = any_whirlpool();
    let mut p: PB = any_pos();
    let tlb = any_tick();
    let tub = any_tick();
    let spacing: u16 = kani::any();
    let tl: i32 = kani::any();
    let tu: i32 = kani::any();
    let variable: [bool; 2] = kani::any();
    let same_array: bool = kani::any();
    let delta: i128 = kani::any();
    let ts: u64 = kani::any();
    kani::assume(spacing >= 1);
    kani::assume(tl < tu);
    kani::assume(tl >= MIN_TICK_INDEX && tu <= MAX_TICK_INDEX);
    w[W_TICK_SPACING] = spacing.to_le_bytes()[0];
    w[W_TICK_SPACING + 1] = spacing.to_le_bytes()[1];
    wr32(&mut p, 88, tl);
    wr32(&mut p, 92, tu);
    let (w0, p0) = (w, p);
    let cur = rd32(&w0, W_TICK_CURRENT);
    let (ga, gb) = (rd128(&w0, W_FEE_GROWTH_A), rd128(&w0, W_FEE_GROWTH_B));
    let lp = rd128(&p0, 72);
    let last_ts = rd64(&w0, W_REWARD_TS);
    let mut al = Pair { n: if same_array { 2 } else { 1 }, idx: [tl, tu], t: [tlb, tub], variable: variable[0], start: 0 };
    let mut au = Pair { n: 1, idx: [tu, tu], t: [tub, tub], variable: variable[1], start: 0 };

    // -- the real step
    let r = if same_array { <E as Modify>::run(&mut w, &mut p, &mut al, None, delta, ts) } else { <E as Modify>::run(&mut w, &mut p, &mut al, Some(&mut au), delta, ts) };
    let ntl = al.tick(tl);
    let ntu = if same_array { al.tick(tu) } else { au.tick(tu) };

    // -- the components on the same pre-state (liquidity fields do not depend on the fee / reward arguments)
    let c_pool: Result<u128, u32> = if pino {
        match ::whirlpool::pinocchio::ported::manager_liquidity_manager::verif_pino_next_whirlpool_liquidity(mwp(&w0), tu, tl, delta) {
            Ok(v) => Ok(v),
            Err(e) => {
                let c = ucode(&e);
                core::mem::forget(e);
                Err(c)
            }
        }
    } else {
        ::whirlpool::manager::whirlpool_manager::next_whirlpool_liquidity(&wp_of(&w0), tu, tl, delta).map_err(ecode)
    };
    let rw0 = w_rw(&w0);
    let c_tl = <E as Eng>::modify(&tlb, tl, cur, ga, gb, &rw0, delta, false);
    let c_tu = <E as Eng>::modify(&tub, tu, cur, ga, gb, &rw0, delta, true);
    let c_pos = <E as Eng>::pos_update(&p0, delta, 0, 0, &[0; 3]);
    let zero_case = delta == 0 && lp == 0;
    let any_err = zero_case || ts < last_ts || c_pool.is_err() || c_tl.is_err() || c_tu.is_err() || c_pos.is_err();

    kani::cover!(r.is_ok() && delta < 0 && same_array, "withdrawal, one array");
    kani::cover!(r.is_ok() && delta > 0 && !same_array && cur >= tl && cur < tu, "deposit in range, two arrays");
    kani::cover!(matches!(r, Err(c) if c == ecode(ErrorCode::LiquidityNetError)), "net error");
    match r {
        Ok(post) => {
            assert!(!any_err);
            assert!(c_pool == Ok(post.pool_liquidity), "pool.liquidity wired to next_whirlpool_liquidity(upper, lower)");
            if let Ok(n) = &c_tl {
                assert!(t_net(n) == t_net(&ntl) && t_gross(n) == t_gross(&ntl) && t_init(n) == t_init(&ntl), "lower tick wired to the lower-bound update");
            }
            if let Ok(n) = &c_tu {
                assert!(t_net(n) == t_net(&ntu) && t_gross(n) == t_gross(&ntu) && t_init(n) == t_init(&ntu), "upper tick wired to the upper-bound update");
            }
            if let Ok(u) = &c_pos {
                assert!(u.liquidity == post.position_liquidity);
            }
        }
        Err(c) => {
            assert!(any_err, "Err only for LiquidityZero / InvalidTimestamp / a failing component");
            assert!((c == ecode(ErrorCode::LiquidityZero)) == zero_case);
            assert!(
                c == ecode(ErrorCode::LiquidityZero)
                    || c == ecode(ErrorCode::InvalidTimestamp)
                    || c == ecode(ErrorCode::LiquidityOverflow)
                    || c == ecode(ErrorCode::LiquidityUnderflow)
                    || c == ecode(ErrorCode::LiquidityNetError)
            );
        }
    }
}

// ------------------------------------------------------------------------------------------------
// Step (a), component lemmas (the functions `calculate_modify_liquidity` is wired from), quick tier.

/// pool.liquidity: `next_whirlpool_liquidity` / `pino_next_whirlpool_liquidity` with ghost g_in = Σ L of the other
/// positions covering cur and this position's lp: Ok => result == Σ over covering positions with lp' = lp + delta
/// (in ℤ; unchanged when the position does not cover cur); Err <=> in range and pool.liquidity + delta leaves u128.
fn pool_step(pino: bool, place: u8) {
    let mut w: WB = any_whirlpool();
    let tl: i32 = kani::any();
    let tu: i32 = kani::any();
    let cur: i32 = kani::any();
    let (g_in, lp): (u128, u128) = kani::any();
    let delta: i128 = kani::any();
    kani::assume(tl < tu);
    assume_place(place, cur, tl, tu);
    let in_range = place == INSIDE;
    let pool = if in_range { g_in.checked_add(lp) } else { Some(g_in) };
    kani::assume(pool.is_some());
    let pool = pool.unwrap();
    wr128(&mut w, W_LIQUIDITY, pool);
    wr32(&mut w, W_TICK_CURRENT, cur);

    let r: Result<u128, u32> = if pino {
        match ::whirlpool::pinocchio::ported::manager_liquidity_manager::verif_pino_next_whirlpool_liquidity(mwp(&w), tu, tl, delta) {
            Ok(v) => Ok(v),
            Err(e) => {
                let c = ucode(&e);
                core::mem::forget(e);
                Err(c)
            }
        }
    } else {
        ::whirlpool::manager::whirlpool_manager::next_whirlpool_liquidity(&wp_of(&w), tu, tl, delta).map_err(ecode)
    };
    let lp2 = add_delta(lp, delta);
    kani::cover!(r.is_ok() && delta != 0, "ok");
    kani::cover!(if in_range { r.is_err() } else { cur == tl.wrapping_sub(1) || cur == tu }, "in range: error / out of range: next to a bound");
    match r {
        Ok(v) => {
            if in_range {
                hint(v == pool.wrapping_add(delta as u128));
                // lp' may be negative here only if the position update fails later (`pos_step`); then nothing is stored
                if let Some(l2) = lp2 {
                    assert!(g_in.checked_add(l2) == Some(v), "pool.liquidity == sum over covering positions");
                }
            } else {
                assert!(v == g_in);
            }
        }
        Err(c) => {
            assert!(in_range && add_delta(pool, delta).is_none());
            assert!(c == ecode(ErrorCode::LiquidityOverflow) || c == ecode(ErrorCode::LiquidityUnderflow));
        }
    }
}

/// one bound tick: `next_tick_modify_liquidity_update` (Anchor / Pinocchio through c07::Eng) with ghosts a = Σ L of the
/// other positions with lower == t, b = Σ L of the others with upper == t, this position's lp counted on the side
/// given by `upper`. Ok (and lp' = lp + delta >= 0) => gross' == a + b + lp', net' == (a [+ lp']) - (b [+ lp']),
/// initialized' <=> gross' != 0 (all in ℤ, each fitting its field); Err <=> gross + delta leaves u128, or the tick
/// stays in use and net +/- delta leaves i128.
pub(crate) const T_GROSS: u8 = 0;
pub(crate) const T_NET_DEPOSIT: u8 = 1; // net, delta > 0
pub(crate) const T_NET_WITHDRAW: u8 = 3; // net, delta < 0
pub(crate) const T_ERR: u8 = 2;
fn tick_step<E: Eng>(upper: bool, part: u8) {
    let mut t = any_tick();
    let idx: i32 = kani::any();
    let cur: i32 = kani::any();
    let ga: u128 = kani::any();
    let gb: u128 = kani::any();
    let rw = Rw::any();
    let (a, b, lp): (u128, u128, u128) = kani::any();
    let delta: i128 = kani::any();
    let gross = a.checked_add(b).and_then(|x| x.checked_add(lp));
    let net = if upper { b.checked_add(lp).and_then(|x| signed_diff(a, x)) } else { a.checked_add(lp).and_then(|x| signed_diff(x, b)) };
    kani::assume(gross.is_some() && net.is_some());
    let (gross, net) = (gross.unwrap(), net.unwrap());
    t[0] = (gross != 0) as u8;
    wr128(&mut t, 1, net as u128);
    wr128(&mut t, 17, gross);

    if part == T_NET_DEPOSIT {
        kani::assume(delta > 0);
    }
    if part == T_NET_WITHDRAW {
        kani::assume(delta < 0);
    }
    let r = E::modify(&t, idx, cur, ga, gb, &rw, delta, upper);
    let lp2 = add_delta(lp, delta);
    kani::cover!(if part == T_NET_WITHDRAW { matches!(&r, Ok(n) if t_gross(n) == 0 && gross != 0) } else { r.is_ok() && delta > 0 && gross == 0 }, "deposit initialises / withdrawal de-initialises the tick");
    kani::cover!(if part == T_NET_DEPOSIT { r.is_ok() && net < 0 && lp != 0 } else { matches!(&r, Ok(n) if delta < 0 && t_gross(n) != 0 && lp2 == Some(0)) }, "full withdrawal with the tick staying initialised (shared bound) / deposit on a negative net");
    kani::cover!(matches!(r, Err(c) if c == ecode(ErrorCode::LiquidityNetError)), "net error");
    match r {
        Ok(n) => {
            if part == T_GROSS {
                hint(t_gross(&n) == gross.wrapping_add(delta as u128));
                assert!(t_init(&n) == (t_gross(&n) != 0), "initialized <=> gross != 0");
                if delta == 0 {
                    assert!(same_tick(&n, &t), "no change without a liquidity change");
                }
                if let Some(l2) = lp2 {
                    hint(l2 == lp.wrapping_add(delta as u128));
                    let x_gross = a.checked_add(b).and_then(|x| x.checked_add(l2));
                    assert!(x_gross == Some(t_gross(&n)), "gross == sum over bounded positions");
                }
            }
            if part == T_NET_DEPOSIT || part == T_NET_WITHDRAW {
                hint(t_gross(&n) == gross.wrapping_add(delta as u128));
                hint(t_gross(&n) == 0 || t_net(&n) == if upper { net.wrapping_sub(delta) } else { net.wrapping_add(delta) });
                if let Some(l2) = lp2 {
                    hint(l2 == lp.wrapping_add(delta as u128));
                    // (x, y) = (Σ lower == t, Σ upper == t) after the step; x - y must be the stored net, in ℤ
                    let (x0, y0) = if upper { (a, b.wrapping_add(lp)) } else { (a.wrapping_add(lp), b) };
                    let (x, y) = if upper { (a, b.wrapping_add(l2)) } else { (a.wrapping_add(l2), b) };
                    hint(net as u128 == x0.wrapping_sub(y0));
                    hint(t_net(&n) as u128 == x.wrapping_sub(y)); // equal mod 2^128
                    hint((x >= y) == (t_net(&n) >= 0)); // ... and of the right sign: equal in ℤ
                    let x_net = if upper { b.checked_add(l2).and_then(|v| signed_diff(a, v)) } else { a.checked_add(l2).and_then(|v| signed_diff(v, b)) };
                    assert!(x_net == Some(t_net(&n)), "net == lower sum - upper sum");
                }
            }
        }
        Err(c) => {
            if part == T_ERR {
                let g2 = add_delta(gross, delta);
                let n2 = if upper { net.checked_sub(delta) } else { net.checked_add(delta) };
                assert!(delta != 0 && (g2.is_none() || (g2 != Some(0) && n2.is_none())));
                assert!((c == ecode(ErrorCode::LiquidityNetError)) == g2.is_some());
                assert!(c == ecode(ErrorCode::LiquidityNetError) || c == ecode(ErrorCode::LiquidityOverflow) || c == ecode(ErrorCode::LiquidityUnderflow));
            }
        }
    }
    if part == T_ERR {
        // converse: no documented check fires => Ok
        let g2 = add_delta(gross, delta);
        let n2 = if upper { net.checked_sub(delta) } else { net.checked_add(delta) };
        if delta == 0 || (g2.is_some() && (g2 == Some(0) || n2.is_some())) {
            assert!(E::modify(&t, idx, cur, ga, gb, &rw, delta, upper).is_ok());
        }
    }
}

/// position.liquidity: `next_position_modify_liquidity_update` (Anchor / Pinocchio): Ok => liquidity' == lp + delta,
/// Err(LiquidityOverflow / LiquidityUnderflow) <=> lp + delta leaves u128 (fee / reward credits: C07 / C11 L4)
fn pos_step<E: Eng>() {
    let p = any_pos();
    let delta: i128 = kani::any();
    let ia: u128 = kani::any();
    let ib: u128 = kani::any();
    let ri: [u128; 3] = kani::any();
    let lp = rd128(&p, 72);
    let r = E::pos_update(&p, delta, ia, ib, &ri);
    kani::cover!(r.is_ok() && delta < 0, "withdrawal");
    kani::cover!(r.is_err(), "error");
    match r {
        Ok(u) => assert!(add_delta(lp, delta) == Some(u.liquidity)),
        Err(c) => {
            assert!(add_delta(lp, delta).is_none());
            assert!(c == if delta > 0 { ecode(ErrorCode::LiquidityOverflow) } else { ecode(ErrorCode::LiquidityUnderflow) });
        }
    }
}

/// Step (b). Tick t with ghost sums a = Σ L of positions with lower == t, b = Σ L with upper == t (so net = a − b,
/// assumed to fit i128 and != i128::MIN, see below) and c = Σ L of positions spanning t (lower < t < upper).
/// The segment below t is covered by b + c, the segment from t upwards by a + c (both assumed to fit u128).
/// b_to_a (upwards): pre liquidity == b + c  =>  Ok and post == a + c;  a_to_b: pre == a + c  =>  Ok and post == b + c;
/// net, gross and `initialized` of the tick are not changed by the crossing.
/// net == i128::MIN would need b == 2^127 of liquidity ending at one tick; deposits are bounded by u64 token
/// amounts (C08), which keeps every liquidity sum below 2^110; the code negates net in a_to_b direction, which
/// overflows only for that value.
fn crossing_step(a_to_b: bool) {
    let mut t = any_tick();
    let (a, b, c): (u128, u128, u128) = kani::any();
    let ga: u128 = kani::any();
    let gb: u128 = kani::any();
    let rw = Rw::any();
    let below = b.checked_add(c);
    let above = a.checked_add(c);
    let gross = a.checked_add(b);
    let net = signed_diff(a, b);
    kani::assume(below.is_some() && above.is_some() && gross.is_some() && net.is_some());
    kani::assume(net.unwrap() != i128::MIN);
    kani::assume(gross.unwrap() != 0); // only initialised ticks are crossed (C10)
    t[0] = 1;
    wr128(&mut t, 1, net.unwrap() as u128);
    wr128(&mut t, 17, gross.unwrap());
    let (from, to) = if a_to_b { (above.unwrap(), below.unwrap()) } else { (below.unwrap(), above.unwrap()) };

    let r = verif_calculate_update(&tick_of(&t), a_to_b, from, ga, gb, &rw.anchor());
    kani::cover!(r.is_ok() && a > b && c != 0, "positive net");
    kani::cover!(r.is_ok() && a < b, "negative net");
    match &r {
        Ok((u, next)) => {
            assert!(*next == to, "liquidity after crossing == sum over positions covering the destination segment");
            assert!(u.liquidity_net == net.unwrap() && u.liquidity_gross == gross.unwrap() && u.initialized);
        }
        Err(_) => assert!(false, "crossing between two representable segment sums cannot fail"),
    }
    core::mem::forget(r);
}

/// Step (b), error side: from an arbitrary pre liquidity, `calculate_update` fails iff liquidity ± net leaves u128,
/// and otherwise returns exactly liquidity + net (b_to_a) / liquidity − net (a_to_b).
fn crossing_error_iff(a_to_b: bool) {
    let t = any_tick();
    let liq: u128 = kani::any();
    let ga: u128 = kani::any();
    let gb: u128 = kani::any();
    let rw = Rw::any();
    let net = t_net(&t);
    kani::assume(net != i128::MIN);
    let expect = if a_to_b { add_delta(liq, net.wrapping_neg()) } else { add_delta(liq, net) };
    let r = verif_calculate_update(&tick_of(&t), a_to_b, liq, ga, gb, &rw.anchor());
    kani::cover!(r.is_err(), "error");
    kani::cover!(r.is_ok() && net != 0, "ok");
    match &r {
        Ok((_, next)) => assert!(expect == Some(*next)),
        Err(e) => {
            assert!(expect.is_none());
            let c = acode(e);
            assert!(c == ecode(ErrorCode::LiquidityOverflow) || c == ecode(ErrorCode::LiquidityUnderflow));
        }
    }
    core::mem::forget(r);
}

// ------------------------------------------------------------------------------------------------
// harnesses

/// (a) pool.liquidity `next_whirlpool_liquidity` with ghost sum g_in of the other covering positions; cur < lower: unchanged
// @verif prop=C05 tier=quick timeout=300
#[kani::proof]
#[kani::unwind(34)]
#[kani::stub(alloc::fmt::format, stub_format)]
#[kani::stub(<anchor_lang::error::Error as core::convert::From<::whirlpool::errors::ErrorCode>>::from, stub_err_from_code)]
#[kani::stub(<::whirlpool::pinocchio::errors::UnifiedError as core::convert::From<::whirlpool::errors::ErrorCode>>::from, stub_unified_from_code)]
fn c05_pool_below_anchor() {
    pool_step(false, BELOW);
}

/// (a) pool.liquidity `next_whirlpool_liquidity` with ghost sum g_in of the other covering positions; lower <= cur < upper incl. cur == lower: == g_in + lp + delta, Err iff that leaves u128
// @verif prop=C05 tier=quick timeout=300
#[kani::proof]
#[kani::unwind(34)]
#[kani::stub(alloc::fmt::format, stub_format)]
#[kani::stub(<anchor_lang::error::Error as core::convert::From<::whirlpool::errors::ErrorCode>>::from, stub_err_from_code)]
#[kani::stub(<::whirlpool::pinocchio::errors::UnifiedError as core::convert::From<::whirlpool::errors::ErrorCode>>::from, stub_unified_from_code)]
fn c05_pool_inside_anchor() {
    pool_step(false, INSIDE);
}

/// (a) pool.liquidity `next_whirlpool_liquidity` with ghost sum g_in of the other covering positions; cur >= upper incl. cur == upper: unchanged
// @verif prop=C05 tier=quick timeout=300
#[kani::proof]
#[kani::unwind(34)]
#[kani::stub(alloc::fmt::format, stub_format)]
#[kani::stub(<anchor_lang::error::Error as core::convert::From<::whirlpool::errors::ErrorCode>>::from, stub_err_from_code)]
#[kani::stub(<::whirlpool::pinocchio::errors::UnifiedError as core::convert::From<::whirlpool::errors::ErrorCode>>::from, stub_unified_from_code)]
fn c05_pool_above_anchor() {
    pool_step(false, ABOVE);
}

/// (a) pool.liquidity `pino_next_whirlpool_liquidity` with ghost sum g_in of the other covering positions; cur < lower: unchanged
// @verif prop=C05 tier=quick timeout=300
#[kani::proof]
#[kani::unwind(34)]
#[kani::stub(alloc::fmt::format, stub_format)]
#[kani::stub(<anchor_lang::error::Error as core::convert::From<::whirlpool::errors::ErrorCode>>::from, stub_err_from_code)]
#[kani::stub(<::whirlpool::pinocchio::errors::UnifiedError as core::convert::From<::whirlpool::errors::ErrorCode>>::from, stub_unified_from_code)]
fn c05_pool_below_pino() {
    pool_step(true, BELOW);
}

/// (a) pool.liquidity `pino_next_whirlpool_liquidity` with ghost sum g_in of the other covering positions; lower <= cur < upper incl. cur == lower: == g_in + lp + delta, Err iff that leaves u128
// @verif prop=C05 tier=quick timeout=300
#[kani::proof]
#[kani::unwind(34)]
#[kani::stub(alloc::fmt::format, stub_format)]
#[kani::stub(<anchor_lang::error::Error as core::convert::From<::whirlpool::errors::ErrorCode>>::from, stub_err_from_code)]
#[kani::stub(<::whirlpool::pinocchio::errors::UnifiedError as core::convert::From<::whirlpool::errors::ErrorCode>>::from, stub_unified_from_code)]
fn c05_pool_inside_pino() {
    pool_step(true, INSIDE);
}

/// (a) pool.liquidity `pino_next_whirlpool_liquidity` with ghost sum g_in of the other covering positions; cur >= upper incl. cur == upper: unchanged
// @verif prop=C05 tier=quick timeout=300
#[kani::proof]
#[kani::unwind(34)]
#[kani::stub(alloc::fmt::format, stub_format)]
#[kani::stub(<anchor_lang::error::Error as core::convert::From<::whirlpool::errors::ErrorCode>>::from, stub_err_from_code)]
#[kani::stub(<::whirlpool::pinocchio::errors::UnifiedError as core::convert::From<::whirlpool::errors::ErrorCode>>::from, stub_unified_from_code)]
fn c05_pool_above_pino() {
    pool_step(true, ABOVE);
}

/// (a) `next_tick_modify_liquidity_update`, this position counted as lower bound, ghost sums a (others with lower == t), b (others with upper == t): gross == a + b + lp', initialized <=> gross != 0, delta == 0 is a no-op
// @verif prop=C05 tier=quick timeout=300
#[kani::proof]
#[kani::unwind(34)]
#[kani::stub(alloc::fmt::format, stub_format)]
#[kani::stub(<anchor_lang::error::Error as core::convert::From<::whirlpool::errors::ErrorCode>>::from, stub_err_from_code)]
#[kani::stub(<::whirlpool::pinocchio::errors::UnifiedError as core::convert::From<::whirlpool::errors::ErrorCode>>::from, stub_unified_from_code)]
fn c05_tick_lower_gross_anchor() {
    tick_step::<Anchor>(false, T_GROSS);
}

/// (a) `next_tick_modify_liquidity_update`, this position counted as lower bound, ghost sums a (others with lower == t), b (others with upper == t): delta > 0: net == lower sum - upper sum in ℤ
// @verif prop=C05 tier=quick timeout=300
#[kani::proof]
#[kani::unwind(34)]
#[kani::stub(alloc::fmt::format, stub_format)]
#[kani::stub(<anchor_lang::error::Error as core::convert::From<::whirlpool::errors::ErrorCode>>::from, stub_err_from_code)]
#[kani::stub(<::whirlpool::pinocchio::errors::UnifiedError as core::convert::From<::whirlpool::errors::ErrorCode>>::from, stub_unified_from_code)]
fn c05_tick_lower_net_deposit_anchor() {
    tick_step::<Anchor>(false, T_NET_DEPOSIT);
}

/// (a) `next_tick_modify_liquidity_update`, this position counted as lower bound, ghost sums a (others with lower == t), b (others with upper == t): delta < 0: net == lower sum - upper sum in ℤ
// @verif prop=C05 tier=quick timeout=300
#[kani::proof]
#[kani::unwind(34)]
#[kani::stub(alloc::fmt::format, stub_format)]
#[kani::stub(<anchor_lang::error::Error as core::convert::From<::whirlpool::errors::ErrorCode>>::from, stub_err_from_code)]
#[kani::stub(<::whirlpool::pinocchio::errors::UnifiedError as core::convert::From<::whirlpool::errors::ErrorCode>>::from, stub_unified_from_code)]
fn c05_tick_lower_net_withdraw_anchor() {
    tick_step::<Anchor>(false, T_NET_WITHDRAW);
}

/// (a) `next_tick_modify_liquidity_update`, this position counted as lower bound, ghost sums a (others with lower == t), b (others with upper == t): Err <=> gross + delta leaves u128, or tick stays in use and net +/- delta leaves i128; error codes
// @verif prop=C05 tier=quick timeout=300
#[kani::proof]
#[kani::unwind(34)]
#[kani::stub(alloc::fmt::format, stub_format)]
#[kani::stub(<anchor_lang::error::Error as core::convert::From<::whirlpool::errors::ErrorCode>>::from, stub_err_from_code)]
#[kani::stub(<::whirlpool::pinocchio::errors::UnifiedError as core::convert::From<::whirlpool::errors::ErrorCode>>::from, stub_unified_from_code)]
fn c05_tick_lower_err_anchor() {
    tick_step::<Anchor>(false, T_ERR);
}

/// (a) `next_tick_modify_liquidity_update`, this position counted as upper bound, ghost sums a (others with lower == t), b (others with upper == t): gross == a + b + lp', initialized <=> gross != 0, delta == 0 is a no-op
// @verif prop=C05 tier=quick timeout=300
#[kani::proof]
#[kani::unwind(34)]
#[kani::stub(alloc::fmt::format, stub_format)]
#[kani::stub(<anchor_lang::error::Error as core::convert::From<::whirlpool::errors::ErrorCode>>::from, stub_err_from_code)]
#[kani::stub(<::whirlpool::pinocchio::errors::UnifiedError as core::convert::From<::whirlpool::errors::ErrorCode>>::from, stub_unified_from_code)]
fn c05_tick_upper_gross_anchor() {
    tick_step::<Anchor>(true, T_GROSS);
}

/// (a) `next_tick_modify_liquidity_update`, this position counted as upper bound, ghost sums a (others with lower == t), b (others with upper == t): delta > 0: net == lower sum - upper sum in ℤ
// @verif prop=C05 tier=quick timeout=300
#[kani::proof]
#[kani::unwind(34)]
#[kani::stub(alloc::fmt::format, stub_format)]
#[kani::stub(<anchor_lang::error::Error as core::convert::From<::whirlpool::errors::ErrorCode>>::from, stub_err_from_code)]
#[kani::stub(<::whirlpool::pinocchio::errors::UnifiedError as core::convert::From<::whirlpool::errors::ErrorCode>>::from, stub_unified_from_code)]
fn c05_tick_upper_net_deposit_anchor() {
    tick_step::<Anchor>(true, T_NET_DEPOSIT);
}

/// (a) `next_tick_modify_liquidity_update`, this position counted as upper bound, ghost sums a (others with lower == t), b (others with upper == t): delta < 0: net == lower sum - upper sum in ℤ
// @verif prop=C05 tier=quick timeout=300
#[kani::proof]
#[kani::unwind(34)]
#[kani::stub(alloc::fmt::format, stub_format)]
#[kani::stub(<anchor_lang::error::Error as core::convert::From<::whirlpool::errors::ErrorCode>>::from, stub_err_from_code)]
#[kani::stub(<::whirlpool::pinocchio::errors::UnifiedError as core::convert::From<::whirlpool::errors::ErrorCode>>::from, stub_unified_from_code)]
fn c05_tick_upper_net_withdraw_anchor() {
    tick_step::<Anchor>(true, T_NET_WITHDRAW);
}

/// (a) `next_tick_modify_liquidity_update`, this position counted as upper bound, ghost sums a (others with lower == t), b (others with upper == t): Err <=> gross + delta leaves u128, or tick stays in use and net +/- delta leaves i128; error codes
// @verif prop=C05 tier=quick timeout=300
#[kani::proof]
#[kani::unwind(34)]
#[kani::stub(alloc::fmt::format, stub_format)]
#[kani::stub(<anchor_lang::error::Error as core::convert::From<::whirlpool::errors::ErrorCode>>::from, stub_err_from_code)]
#[kani::stub(<::whirlpool::pinocchio::errors::UnifiedError as core::convert::From<::whirlpool::errors::ErrorCode>>::from, stub_unified_from_code)]
fn c05_tick_upper_err_anchor() {
    tick_step::<Anchor>(true, T_ERR);
}

/// (a) position.liquidity `next_position_modify_liquidity_update`: == lp + delta, Err(LiquidityOverflow/Underflow) iff that leaves u128
// @verif prop=C05 tier=quick timeout=300 contract
#[kani::proof]
#[kani::unwind(34)]
#[kani::stub(alloc::fmt::format, stub_format)]
#[kani::stub(<anchor_lang::error::Error as core::convert::From<::whirlpool::errors::ErrorCode>>::from, stub_err_from_code)]
#[kani::stub(<::whirlpool::pinocchio::errors::UnifiedError as core::convert::From<::whirlpool::errors::ErrorCode>>::from, stub_unified_from_code)]
#[kani::stub(::whirlpool::math::bit_math::checked_mul_shift_right, stub_ms_any)]
fn c05_position_anchor() {
    pos_step::<Anchor>();
}

/// (a) `pino_next_tick_modify_liquidity_update`, this position counted as lower bound, ghost sums a (others with lower == t), b (others with upper == t): gross == a + b + lp', initialized <=> gross != 0, delta == 0 is a no-op
// @verif prop=C05 tier=quick timeout=300
#[kani::proof]
#[kani::unwind(34)]
#[kani::stub(alloc::fmt::format, stub_format)]
#[kani::stub(<anchor_lang::error::Error as core::convert::From<::whirlpool::errors::ErrorCode>>::from, stub_err_from_code)]
#[kani::stub(<::whirlpool::pinocchio::errors::UnifiedError as core::convert::From<::whirlpool::errors::ErrorCode>>::from, stub_unified_from_code)]
fn c05_tick_lower_gross_pino() {
    tick_step::<Pino>(false, T_GROSS);
}

/// (a) `pino_next_tick_modify_liquidity_update`, this position counted as lower bound, ghost sums a (others with lower == t), b (others with upper == t): delta > 0: net == lower sum - upper sum in ℤ
// @verif prop=C05 tier=quick timeout=300
#[kani::proof]
#[kani::unwind(34)]
#[kani::stub(alloc::fmt::format, stub_format)]
#[kani::stub(<anchor_lang::error::Error as core::convert::From<::whirlpool::errors::ErrorCode>>::from, stub_err_from_code)]
#[kani::stub(<::whirlpool::pinocchio::errors::UnifiedError as core::convert::From<::whirlpool::errors::ErrorCode>>::from, stub_unified_from_code)]
fn c05_tick_lower_net_deposit_pino() {
    tick_step::<Pino>(false, T_NET_DEPOSIT);
}

/// (a) `pino_next_tick_modify_liquidity_update`, this position counted as lower bound, ghost sums a (others with lower == t), b (others with upper == t): delta < 0: net == lower sum - upper sum in ℤ
// @verif prop=C05 tier=quick timeout=300
#[kani::proof]
#[kani::unwind(34)]
#[kani::stub(alloc::fmt::format, stub_format)]
#[kani::stub(<anchor_lang::error::Error as core::convert::From<::whirlpool::errors::ErrorCode>>::from, stub_err_from_code)]
#[kani::stub(<::whirlpool::pinocchio::errors::UnifiedError as core::convert::From<::whirlpool::errors::ErrorCode>>::from, stub_unified_from_code)]
fn c05_tick_lower_net_withdraw_pino() {
    tick_step::<Pino>(false, T_NET_WITHDRAW);
}

/// (a) `pino_next_tick_modify_liquidity_update`, this position counted as lower bound, ghost sums a (others with lower == t), b (others with upper == t): Err <=> gross + delta leaves u128, or tick stays in use and net +/- delta leaves i128; error codes
// @verif prop=C05 tier=quick timeout=300
#[kani::proof]
#[kani::unwind(34)]
#[kani::stub(alloc::fmt::format, stub_format)]
#[kani::stub(<anchor_lang::error::Error as core::convert::From<::whirlpool::errors::ErrorCode>>::from, stub_err_from_code)]
#[kani::stub(<::whirlpool::pinocchio::errors::UnifiedError as core::convert::From<::whirlpool::errors::ErrorCode>>::from, stub_unified_from_code)]
fn c05_tick_lower_err_pino() {
    tick_step::<Pino>(false, T_ERR);
}

/// (a) `pino_next_tick_modify_liquidity_update`, this position counted as upper bound, ghost sums a (others with lower == t), b (others with upper == t): gross == a + b + lp', initialized <=> gross != 0, delta == 0 is a no-op
// @verif prop=C05 tier=quick timeout=300
#[kani::proof]
#[kani::unwind(34)]
#[kani::stub(alloc::fmt::format, stub_format)]
#[kani::stub(<anchor_lang::error::Error as core::convert::From<::whirlpool::errors::ErrorCode>>::from, stub_err_from_code)]
#[kani::stub(<::whirlpool::pinocchio::errors::UnifiedError as core::convert::From<::whirlpool::errors::ErrorCode>>::from, stub_unified_from_code)]
fn c05_tick_upper_gross_pino() {
    tick_step::<Pino>(true, T_GROSS);
}

/// (a) `pino_next_tick_modify_liquidity_update`, this position counted as upper bound, ghost sums a (others with lower == t), b (others with upper == t): delta > 0: net == lower sum - upper sum in ℤ
// @verif prop=C05 tier=quick timeout=300
#[kani::proof]
#[kani::unwind(34)]
#[kani::stub(alloc::fmt::format, stub_format)]
#[kani::stub(<anchor_lang::error::Error as core::convert::From<::whirlpool::errors::ErrorCode>>::from, stub_err_from_code)]
#[kani::stub(<::whirlpool::pinocchio::errors::UnifiedError as core::convert::From<::whirlpool::errors::ErrorCode>>::from, stub_unified_from_code)]
fn c05_tick_upper_net_deposit_pino() {
    tick_step::<Pino>(true, T_NET_DEPOSIT);
}

/// (a) `pino_next_tick_modify_liquidity_update`, this position counted as upper bound, ghost sums a (others with lower == t), b (others with upper == t): delta < 0: net == lower sum - upper sum in ℤ
// @verif prop=C05 tier=quick timeout=300
#[kani::proof]
#[kani::unwind(34)]
#[kani::stub(alloc::fmt::format, stub_format)]
#[kani::stub(<anchor_lang::error::Error as core::convert::From<::whirlpool::errors::ErrorCode>>::from, stub_err_from_code)]
#[kani::stub(<::whirlpool::pinocchio::errors::UnifiedError as core::convert::From<::whirlpool::errors::ErrorCode>>::from, stub_unified_from_code)]
fn c05_tick_upper_net_withdraw_pino() {
    tick_step::<Pino>(true, T_NET_WITHDRAW);
}

/// (a) `pino_next_tick_modify_liquidity_update`, this position counted as upper bound, ghost sums a (others with lower == t), b (others with upper == t): Err <=> gross + delta leaves u128, or tick stays in use and net +/- delta leaves i128; error codes
// @verif prop=C05 tier=quick timeout=300
#[kani::proof]
#[kani::unwind(34)]
#[kani::stub(alloc::fmt::format, stub_format)]
#[kani::stub(<anchor_lang::error::Error as core::convert::From<::whirlpool::errors::ErrorCode>>::from, stub_err_from_code)]
#[kani::stub(<::whirlpool::pinocchio::errors::UnifiedError as core::convert::From<::whirlpool::errors::ErrorCode>>::from, stub_unified_from_code)]
fn c05_tick_upper_err_pino() {
    tick_step::<Pino>(true, T_ERR);
}

/// (a) position.liquidity `pino_next_position_modify_liquidity_update`: == lp + delta, Err(LiquidityOverflow/Underflow) iff that leaves u128
// @verif prop=C05 tier=quick timeout=300 contract
#[kani::proof]
#[kani::unwind(34)]
#[kani::stub(alloc::fmt::format, stub_format)]
#[kani::stub(<anchor_lang::error::Error as core::convert::From<::whirlpool::errors::ErrorCode>>::from, stub_err_from_code)]
#[kani::stub(<::whirlpool::pinocchio::errors::UnifiedError as core::convert::From<::whirlpool::errors::ErrorCode>>::from, stub_unified_from_code)]
#[kani::stub(::whirlpool::math::bit_math::checked_mul_shift_right, stub_ms_any)]
fn c05_position_pino() {
    pos_step::<Pino>();
}

/// (a) wiring `calculate_modify_liquidity` + `sync_modify_liquidity_values`: stored pool / tick / position liquidity fields == the component functions on the same pre-state (upper/lower not swapped, right tick indexes, same delta); Err iff LiquidityZero / earlier timestamp / a component fails; any placement, one or two tick arrays
// @verif prop=C05 tier=thorough timeout=900 contract
#[kani::proof]
#[kani::unwind(34)]
#[kani::stub(alloc::fmt::format, stub_format)]
#[kani::stub(<anchor_lang::error::Error as core::convert::From<::whirlpool::errors::ErrorCode>>::from, stub_err_from_code)]
#[kani::stub(<::whirlpool::pinocchio::errors::UnifiedError as core::convert::From<::whirlpool::errors::ErrorCode>>::from, stub_unified_from_code)]
#[kani::stub(::whirlpool::math::bit_math::checked_mul_div, stub_md_any)]
#[kani::stub(::whirlpool::math::bit_math::checked_mul_shift_right, stub_ms_any)]
fn c05_wiring_anchor() {
    wiring::<Anchor>(false);
}

/// (a) wiring `pino_calculate_modify_liquidity` + `pino_sync_modify_liquidity_values`: as c05_wiring_anchor on the Pinocchio pair (same account bytes)
// @verif prop=C05 tier=thorough timeout=900 contract
#[kani::proof]
#[kani::unwind(34)]
#[kani::stub(alloc::fmt::format, stub_format)]
#[kani::stub(<anchor_lang::error::Error as core::convert::From<::whirlpool::errors::ErrorCode>>::from, stub_err_from_code)]
#[kani::stub(<::whirlpool::pinocchio::errors::UnifiedError as core::convert::From<::whirlpool::errors::ErrorCode>>::from, stub_unified_from_code)]
#[kani::stub(::whirlpool::math::bit_math::checked_mul_div, stub_md_any)]
#[kani::stub(::whirlpool::math::bit_math::checked_mul_shift_right, stub_ms_any)]
fn c05_wiring_pino() {
    wiring::<Pino>(true);
}

/// (b) `calculate_update`: crossing tick t with ghost sums a (lower == t), b (upper == t), c (spanning): a_to_b: pre == sum covering [t, next), post == sum covering [prev, t); tick net / gross unchanged
// @verif prop=C05 tier=quick timeout=300
#[kani::proof]
#[kani::unwind(34)]
#[kani::stub(alloc::fmt::format, stub_format)]
#[kani::stub(<anchor_lang::error::Error as core::convert::From<::whirlpool::errors::ErrorCode>>::from, stub_err_from_code)]
#[kani::stub(<::whirlpool::pinocchio::errors::UnifiedError as core::convert::From<::whirlpool::errors::ErrorCode>>::from, stub_unified_from_code)]
fn c05_cross_down() {
    crossing_step(true);
}

/// (b) `calculate_update` from any pre liquidity and stored tick: returns liquidity - net, Err(LiquidityOverflow/Underflow) iff that leaves u128
// @verif prop=C05 tier=quick timeout=300
#[kani::proof]
#[kani::unwind(34)]
#[kani::stub(alloc::fmt::format, stub_format)]
#[kani::stub(<anchor_lang::error::Error as core::convert::From<::whirlpool::errors::ErrorCode>>::from, stub_err_from_code)]
#[kani::stub(<::whirlpool::pinocchio::errors::UnifiedError as core::convert::From<::whirlpool::errors::ErrorCode>>::from, stub_unified_from_code)]
fn c05_cross_error_iff_down() {
    crossing_error_iff(true);
}

/// (b) `calculate_update`: crossing tick t with ghost sums a (lower == t), b (upper == t), c (spanning): b_to_a: pre == sum covering [prev, t), post == sum covering [t, next); tick net / gross unchanged
// @verif prop=C05 tier=quick timeout=300
#[kani::proof]
#[kani::unwind(34)]
#[kani::stub(alloc::fmt::format, stub_format)]
#[kani::stub(<anchor_lang::error::Error as core::convert::From<::whirlpool::errors::ErrorCode>>::from, stub_err_from_code)]
#[kani::stub(<::whirlpool::pinocchio::errors::UnifiedError as core::convert::From<::whirlpool::errors::ErrorCode>>::from, stub_unified_from_code)]
fn c05_cross_up() {
    crossing_step(false);
}

/// (b) `calculate_update` from any pre liquidity and stored tick: returns liquidity + net, Err(LiquidityOverflow/Underflow) iff that leaves u128
// @verif prop=C05 tier=quick timeout=300
#[kani::proof]
#[kani::unwind(34)]
#[kani::stub(alloc::fmt::format, stub_format)]
#[kani::stub(<anchor_lang::error::Error as core::convert::From<::whirlpool::errors::ErrorCode>>::from, stub_err_from_code)]
#[kani::stub(<::whirlpool::pinocchio::errors::UnifiedError as core::convert::From<::whirlpool::errors::ErrorCode>>::from, stub_unified_from_code)]
fn c05_cross_error_iff_up() {
    crossing_error_iff(false);
}

/// vacuity twin: crossing a tick with non-zero net DOES change the liquidity — must FAIL
// @verif prop=C05 tier=quick timeout=300 twin
#[kani::proof]
#[kani::unwind(34)]
#[kani::stub(alloc::fmt::format, stub_format)]
#[kani::stub(<anchor_lang::error::Error as core::convert::From<::whirlpool::errors::ErrorCode>>::from, stub_err_from_code)]
#[kani::stub(<::whirlpool::pinocchio::errors::UnifiedError as core::convert::From<::whirlpool::errors::ErrorCode>>::from, stub_unified_from_code)]
fn c05_twin_must_fail() {
    let t = any_tick();
    let liq: u128 = kani::any();
    let ga: u128 = kani::any();
    let gb: u128 = kani::any();
    let rw = Rw::any();
    kani::assume(t_net(&t) != i128::MIN);
    let r = verif_calculate_update(&tick_of(&t), false, liq, ga, gb, &rw.anchor());
    let same = match &r {
        Ok((_, next)) => *next == liq,
        Err(_) => true,
    };
    core::mem::forget(r);
    assert!(same, "twin: crossing a tick with non-zero net must change the liquidity");
}
