//! C19 — pools exist only with in-bound parameters and over supported token mints.
//!
//! Part 1: every state method that writes a bounded field (all arguments symbolic).
//! Part 2: handler-level spot checks on real Anchor account structs (thorough tier).
//! Part 3: Token-2022 mint admission (`get_token_extension_types`, `is_supported_token_mint`).
//! Part 4: `is_token_badge_initialized`.
use crate::common::*;
use anchor_lang::prelude::*;
use anchor_lang::Discriminator;
use ::whirlpool::errors::ErrorCode;
use ::whirlpool::math::{MAX_FEE_RATE, MAX_PROTOCOL_FEE_RATE, MAX_SQRT_PRICE_X64, MIN_SQRT_PRICE_X64};
use ::whirlpool::state::*;

// ------------------------------------------------------------------------------------------------
// reference predicates, written from the property text (not from the code)

/// "fee rate is at most 6%" (hundredths of a basis point) / "protocol fee rate at most 25% of fees" (basis points)
const REF_MAX_FEE_RATE: u16 = 60_000;
const REF_MAX_PROTOCOL_FEE_RATE: u16 = 2_500;
/// protocol price bounds (sqrt-price at MIN_TICK_INDEX / MAX_TICK_INDEX, Q64.64)
const REF_MIN_SQRT_PRICE: u128 = 4295048016;
const REF_MAX_SQRT_PRICE: u128 = 79226673515401279992447579055;

/// canonical mint order = strict lexicographic order of the 32 key bytes
fn ref_key_lt(a: &[u8; 32], b: &[u8; 32]) -> bool {
    let mut i = 0;
    while i < 32 {
        if a[i] != b[i] {
            return a[i] < b[i];
        }
        i += 1;
    }
    false
}

/// the bounded pool parameters of the property statement
fn ref_pool_bounds(w: &Whirlpool) -> bool {
    w.fee_rate <= REF_MAX_FEE_RATE
        && w.protocol_fee_rate <= REF_MAX_PROTOCOL_FEE_RATE
        && w.sqrt_price >= REF_MIN_SQRT_PRICE
        && w.sqrt_price <= REF_MAX_SQRT_PRICE
        && w.tick_spacing != 0
        && ref_key_lt(&w.token_mint_a.to_bytes(), &w.token_mint_b.to_bytes())
}

/// "periods ordered, factors below their denominators, group size dividing tick spacing,
/// accumulator times group size within 32 bits"
#[allow(clippy::too_many_arguments)]
fn ref_adaptive_constants_ok(
    tick_spacing: u16,
    filter_period: u16,
    decay_period: u16,
    reduction_factor: u16,
    adaptive_fee_control_factor: u32,
    max_volatility_accumulator: u32,
    tick_group_size: u16,
) -> bool {
    filter_period < decay_period
        && reduction_factor < 10_000
        && adaptive_fee_control_factor < 100_000
        && tick_group_size != 0
        && tick_spacing % tick_group_size == 0
        && (max_volatility_accumulator as u64) * (tick_group_size as u64) <= u32::MAX as u64
}

// ------------------------------------------------------------------------------------------------
// helpers

fn any_key() -> Pubkey {
    Pubkey::new_from_array(kani::any())
}

/// serialized WhirlpoolsConfig with symbolic authorities / default protocol fee rate / flags
fn any_config_bytes() -> [u8; WhirlpoolsConfig::LEN] {
    let mut d = [0u8; WhirlpoolsConfig::LEN];
    d[..8].copy_from_slice(WhirlpoolsConfig::DISCRIMINATOR);
    let a: [u8; 32] = kani::any();
    d[8..40].copy_from_slice(&a);
    let b: [u8; 32] = kani::any();
    d[40..72].copy_from_slice(&b);
    let c: [u8; 32] = kani::any();
    d[72..104].copy_from_slice(&c);
    let r: [u8; 4] = kani::any();
    d[104..108].copy_from_slice(&r);
    d
}

/// a pool in a state satisfying the property's bounds, everything else unconstrained where it matters
fn any_bounded_pool() -> Whirlpool {
    let mut w = Whirlpool::default();
    w.whirlpools_config = any_key();
    w.tick_spacing = kani::any();
    w.fee_tier_index_seed = kani::any();
    w.fee_rate = kani::any();
    w.protocol_fee_rate = kani::any();
    w.liquidity = kani::any();
    w.sqrt_price = kani::any();
    w.tick_current_index = kani::any();
    w.token_mint_a = any_key();
    w.token_mint_b = any_key();
    w
}

fn same_other_pool_fields(a: &Whirlpool, b: &Whirlpool) -> bool {
    a.whirlpools_config == b.whirlpools_config
        && a.tick_spacing == b.tick_spacing
        && a.fee_tier_index_seed == b.fee_tier_index_seed
        && a.liquidity == b.liquidity
        && a.sqrt_price == b.sqrt_price
        && a.tick_current_index == b.tick_current_index
        && a.token_mint_a == b.token_mint_a
        && a.token_mint_b == b.token_mint_b
}

// ================================================================================================
// Part 1 — state methods

/// Whirlpool::initialize over all arguments and any config: Ok ⇔ (mint_a < mint_b ∧ price in bounds ∧ fee ≤ 60 000 ∧
/// config protocol fee ≤ 2 500); Ok ⇒ post-state satisfies every pool bound of the property and stores the arguments;
/// Err carries the documented code in the documented priority. `tick_spacing == 0` is `unreachable!()` in the code
/// (a panic aborts the transaction); the only callers pass FeeTier/AdaptiveFeeTier.tick_spacing, which the tier
/// harnesses below prove non-zero, so it is assumed here. tick_index_from_sqrt_price = memo stub (contract T2).
// @verif prop=C19 tier=quick timeout=300
#[kani::proof]
#[kani::unwind(34)]
#[kani::stub(alloc::fmt::format, stub_format)]
#[kani::stub(<anchor_lang::error::Error as core::convert::From<::whirlpool::errors::ErrorCode>>::from, stub_err_from_code)]
#[kani::stub(<anchor_lang::error::Error as core::convert::From<anchor_lang::error::ErrorCode>>::from, stub_err_from_anchor_code)]
#[kani::stub(::whirlpool::math::tick_math::tick_index_from_sqrt_price, memo::stub_tick_index_from_sqrt_price)]
#[kani::stub(::whirlpool::math::tick_math::sqrt_price_from_tick_index, memo::stub_sqrt_price_from_tick_index)]
fn c19_whirlpool_initialize() {
    let program_id = ::whirlpool::ID;
    let cfg_key = any_key();
    let mut cfg_l = 1u64;
    let mut cfg_data = any_config_bytes();
    let cfg_default_pfr = u16::from_le_bytes([cfg_data[104], cfg_data[105]]);
    let mut w = any_bounded_pool(); // pre-state arbitrary (the handlers pass a zeroed `init` account)
    let fee_tier_index: u16 = kani::any();
    let bump: u8 = kani::any();
    let tick_spacing: u16 = kani::any();
    kani::assume(tick_spacing != 0);
    let sqrt_price: u128 = kani::any();
    let default_fee_rate: u16 = kani::any();
    let mint_a: [u8; 32] = kani::any();
    let mint_b: [u8; 32] = kani::any();
    let vault_a = any_key();
    let vault_b = any_key();
    let flags = WhirlpoolControlFlags::from_bits_truncate(kani::any());

    let cfg_ai = AccountInfo::new(&cfg_key, false, false, &mut cfg_l, &mut cfg_data, &program_id, false, 0);
    let cfg: Account<WhirlpoolsConfig> = Account::try_from(&cfg_ai).unwrap();
    let r = w.initialize(
        &cfg,
        fee_tier_index,
        bump,
        tick_spacing,
        sqrt_price,
        default_fee_rate,
        Pubkey::new_from_array(mint_a),
        vault_a,
        Pubkey::new_from_array(mint_b),
        vault_b,
        flags,
    );
    let order_ok = ref_key_lt(&mint_a, &mint_b);
    let price_ok = sqrt_price >= REF_MIN_SQRT_PRICE && sqrt_price <= REF_MAX_SQRT_PRICE;
    let fee_ok = default_fee_rate <= REF_MAX_FEE_RATE;
    let pfee_ok = cfg_default_pfr <= REF_MAX_PROTOCOL_FEE_RATE;
    kani::cover!(r.is_ok(), "initialize ok");
    kani::cover!(r.is_ok() && sqrt_price == REF_MIN_SQRT_PRICE, "ok at min price");
    kani::cover!(r.is_ok() && sqrt_price == REF_MAX_SQRT_PRICE && default_fee_rate == 60_000, "ok at max price, max fee");
    kani::cover!(r.is_err() && order_ok && price_ok && fee_ok, "protocol fee error reachable");
    match &r {
        Ok(()) => {
            assert!(order_ok && price_ok && fee_ok && pfee_ok);
            assert!(ref_pool_bounds(&w));
            assert!(w.fee_rate == default_fee_rate);
            assert!(w.protocol_fee_rate == cfg_default_pfr);
            assert!(w.sqrt_price == sqrt_price);
            assert!(w.tick_spacing == tick_spacing);
            assert!(w.token_mint_a.to_bytes() == mint_a && w.token_mint_b.to_bytes() == mint_b);
            assert!(w.whirlpools_config == cfg_key);
            assert!(w.liquidity == 0);
            assert!(w.tick_current_index >= MIN_TICK_INDEX && w.tick_current_index <= MAX_TICK_INDEX);
            assert!(w.fee_tier_index_seed == fee_tier_index.to_le_bytes());
        }
        Err(e) => {
            let c = acode(e);
            if !order_ok {
                assert!(c == ecode(ErrorCode::InvalidTokenMintOrder));
            } else if !price_ok {
                assert!(c == ecode(ErrorCode::SqrtPriceOutOfBounds));
            } else if !fee_ok {
                assert!(c == ecode(ErrorCode::FeeRateMaxExceeded));
            } else {
                assert!(!pfee_ok);
                assert!(c == ecode(ErrorCode::ProtocolFeeRateMaxExceeded));
            }
        }
    }
    core::mem::forget(r);
}

/// Whirlpool::update_fee_rate / update_protocol_fee_rate, inductive form: from any pool (bounded or not) and any
/// argument: Ok ⇔ argument within its bound; Ok ⇒ field == argument; Err ⇒ documented code and the pool is unchanged;
/// neither touches any other bounded field; hence pool bounds before ⇒ pool bounds after.
// @verif prop=C19 tier=quick timeout=300
#[kani::proof]
#[kani::unwind(34)]
#[kani::stub(alloc::fmt::format, stub_format)]
#[kani::stub(<anchor_lang::error::Error as core::convert::From<::whirlpool::errors::ErrorCode>>::from, stub_err_from_code)]
fn c19_whirlpool_fee_setters() {
    let mut w = any_bounded_pool();
    let before_bounds = ref_pool_bounds(&w);
    let w0 = w.clone();
    let x: u16 = kani::any();
    let y: u16 = kani::any();
    let r1 = w.update_fee_rate(x);
    kani::cover!(r1.is_ok() && x == 60_000, "max fee accepted");
    kani::cover!(r1.is_err(), "fee rejected");
    match &r1 {
        Ok(()) => assert!(x <= REF_MAX_FEE_RATE && w.fee_rate == x),
        Err(e) => assert!(x > REF_MAX_FEE_RATE && acode(e) == ecode(ErrorCode::FeeRateMaxExceeded) && w.fee_rate == w0.fee_rate),
    }
    assert!(w.protocol_fee_rate == w0.protocol_fee_rate && same_other_pool_fields(&w, &w0));
    let w1 = w.clone();
    let r2 = w.update_protocol_fee_rate(y);
    kani::cover!(r2.is_ok() && y == 2_500, "max protocol fee accepted");
    kani::cover!(r2.is_err(), "protocol fee rejected");
    match &r2 {
        Ok(()) => assert!(y <= REF_MAX_PROTOCOL_FEE_RATE && w.protocol_fee_rate == y),
        Err(e) => assert!(
            y > REF_MAX_PROTOCOL_FEE_RATE
                && acode(e) == ecode(ErrorCode::ProtocolFeeRateMaxExceeded)
                && w.protocol_fee_rate == w1.protocol_fee_rate
        ),
    }
    assert!(w.fee_rate == w1.fee_rate && same_other_pool_fields(&w, &w0));
    if before_bounds {
        assert!(ref_pool_bounds(&w));
    }
    core::mem::forget(r1);
    core::mem::forget(r2);
}

/// WhirlpoolsConfig::initialize / update_default_protocol_fee_rate: Ok ⇔ rate ≤ 2 500, Ok ⇒ stored; the setter's Err
/// leaves the config unchanged; authority setters and feature flags never touch the rate (bound before ⇒ bound after).
// @verif prop=C19 tier=quick timeout=300
#[kani::proof]
#[kani::unwind(34)]
#[kani::stub(alloc::fmt::format, stub_format)]
#[kani::stub(<anchor_lang::error::Error as core::convert::From<::whirlpool::errors::ErrorCode>>::from, stub_err_from_code)]
fn c19_config_writers() {
    let mut c = WhirlpoolsConfig {
        fee_authority: any_key(),
        collect_protocol_fees_authority: any_key(),
        reward_emissions_super_authority: any_key(),
        default_protocol_fee_rate: kani::any(),
        feature_flags: kani::any(),
    };
    let init_rate: u16 = kani::any();
    let (a1, a2, a3) = (any_key(), any_key(), any_key());
    let set_rate: u16 = kani::any();
    let flag_on: bool = kani::any();
    let k = any_key();
    let which: u8 = kani::any();
    let step_rate: u16 = kani::any();

    let r0 = c.initialize(a1, a2, a3, init_rate);
    kani::cover!(r0.is_ok() && init_rate == 2_500, "config init at max");
    kani::cover!(r0.is_err(), "config init rejected");
    match &r0 {
        Ok(()) => assert!(init_rate <= REF_MAX_PROTOCOL_FEE_RATE && c.default_protocol_fee_rate == init_rate && c.fee_authority == a1),
        Err(e) => assert!(init_rate > REF_MAX_PROTOCOL_FEE_RATE && acode(e) == ecode(ErrorCode::ProtocolFeeRateMaxExceeded)),
    }
    // inductive step from an arbitrary bounded config
    c.default_protocol_fee_rate = step_rate;
    kani::assume(c.default_protocol_fee_rate <= REF_MAX_PROTOCOL_FEE_RATE);
    let before = c.default_protocol_fee_rate;
    let r1 = c.update_default_protocol_fee_rate(set_rate);
    kani::cover!(r1.is_ok() && set_rate == 2_500, "config set at max");
    kani::cover!(r1.is_err(), "config set rejected");
    match &r1 {
        Ok(()) => assert!(set_rate <= REF_MAX_PROTOCOL_FEE_RATE && c.default_protocol_fee_rate == set_rate),
        Err(e) => assert!(
            set_rate > REF_MAX_PROTOCOL_FEE_RATE
                && acode(e) == ecode(ErrorCode::ProtocolFeeRateMaxExceeded)
                && c.default_protocol_fee_rate == before
        ),
    }
    let mid = c.default_protocol_fee_rate;
    match which % 4 {
        0 => c.update_fee_authority(k),
        1 => c.update_collect_protocol_fees_authority(k),
        2 => c.update_reward_emissions_super_authority(k),
        _ => {
            let r = c.update_feature_flags(ConfigFeatureFlag::TokenBadge(flag_on));
            assert!(r.is_ok());
        }
    }
    assert!(c.default_protocol_fee_rate == mid && mid <= REF_MAX_PROTOCOL_FEE_RATE);
    core::mem::forget(r0);
    core::mem::forget(r1);
}

/// FeeTier::initialize / update_default_fee_rate: Ok ⇔ tick_spacing ≠ 0 ∧ rate ≤ 60 000 (initialize), rate ≤ 60 000
/// (setter); Ok ⇒ stored values, tier bound to the config key; setter Err ⇒ tier unchanged; tick_spacing never rewritten.
// @verif prop=C19 tier=quick timeout=300
#[kani::proof]
#[kani::unwind(34)]
#[kani::stub(alloc::fmt::format, stub_format)]
#[kani::stub(<anchor_lang::error::Error as core::convert::From<::whirlpool::errors::ErrorCode>>::from, stub_err_from_code)]
#[kani::stub(<anchor_lang::error::Error as core::convert::From<anchor_lang::error::ErrorCode>>::from, stub_err_from_anchor_code)]
fn c19_fee_tier_writers() {
    let program_id = ::whirlpool::ID;
    let cfg_key = any_key();
    let mut cfg_l = 1u64;
    let mut cfg_data = any_config_bytes();
    let mut t = FeeTier { whirlpools_config: any_key(), tick_spacing: kani::any(), default_fee_rate: kani::any() };
    let ts: u16 = kani::any();
    let rate: u16 = kani::any();
    let rate2: u16 = kani::any();
    let step_ts: u16 = kani::any();
    let step_rate: u16 = kani::any();
    let cfg_ai = AccountInfo::new(&cfg_key, false, false, &mut cfg_l, &mut cfg_data, &program_id, false, 0);
    let cfg: Account<WhirlpoolsConfig> = Account::try_from(&cfg_ai).unwrap();

    let r0 = t.initialize(&cfg, ts, rate);
    kani::cover!(r0.is_ok() && rate == 60_000 && ts == 1, "tier init at max fee");
    kani::cover!(r0.is_err() && ts != 0, "tier init fee rejected");
    match &r0 {
        Ok(()) => assert!(ts != 0 && rate <= REF_MAX_FEE_RATE && t.tick_spacing == ts && t.default_fee_rate == rate && t.whirlpools_config == cfg_key),
        Err(e) => {
            if ts == 0 {
                assert!(acode(e) == ecode(ErrorCode::InvalidTickSpacing));
            } else {
                assert!(rate > REF_MAX_FEE_RATE && acode(e) == ecode(ErrorCode::FeeRateMaxExceeded));
            }
        }
    }
    // inductive step from an arbitrary bounded tier
    t.tick_spacing = step_ts;
    t.default_fee_rate = step_rate;
    kani::assume(t.tick_spacing != 0 && t.default_fee_rate <= REF_MAX_FEE_RATE);
    let (ts0, f0) = (t.tick_spacing, t.default_fee_rate);
    let r1 = t.update_default_fee_rate(rate2);
    kani::cover!(r1.is_ok() && rate2 == 60_000, "tier set at max");
    kani::cover!(r1.is_err(), "tier set rejected");
    match &r1 {
        Ok(()) => assert!(rate2 <= REF_MAX_FEE_RATE && t.default_fee_rate == rate2),
        Err(e) => assert!(rate2 > REF_MAX_FEE_RATE && acode(e) == ecode(ErrorCode::FeeRateMaxExceeded) && t.default_fee_rate == f0),
    }
    assert!(t.tick_spacing == ts0 && t.default_fee_rate <= REF_MAX_FEE_RATE);
    core::mem::forget(r0);
    core::mem::forget(r1);
}

// The adaptive-fee constants are decided compositionally, because two copies of a 16-bit remainder by a symbolic
// divisor (code + reference) do not close under SAT (> 10 min) while z3's bit-vector theory shares the term (9 s):
//   (V)  the real `validate_constants(args)` ⇒ the validity rules of the property text   [c19_validate_constants_rules, z3]
//   (W)  every writer stores constants only after `validate_constants(self.tick_spacing, exactly those constants)`
//        returned true — in the writer harnesses `validate_constants` is an uninterpreted recording stub.
mod vc {
    pub type Args = (u16, u16, u16, u16, u32, u32, u16, u16);
    pub static mut CALLS: u8 = 0;
    pub static mut ARGS: Args = (0, 0, 0, 0, 0, 0, 0, 0);
    pub static mut RET: bool = false;
    /// uninterpreted `AdaptiveFeeConstants::validate_constants`: arbitrary verdict, call recorded
    #[allow(clippy::too_many_arguments)]
    pub fn stub_validate_constants(ts: u16, fp: u16, dp: u16, rf: u16, cf: u32, mva: u32, tgs: u16, mst: u16) -> bool {
        let b: bool = kani::any();
        unsafe {
            CALLS += 1;
            ARGS = (ts, fp, dp, rf, cf, mva, tgs, mst);
            RET = b;
        }
        b
    }
    pub fn calls() -> u8 {
        unsafe { CALLS }
    }
    pub fn args() -> Args {
        unsafe { ARGS }
    }
    pub fn ret() -> bool {
        unsafe { RET }
    }
}

/// (V) the real AdaptiveFeeConstants::validate_constants on all 8 arguments: true ⇒ filter_period < decay_period,
/// reduction_factor < 10 000, adaptive_fee_control_factor < 100 000, tick_group_size ≠ 0 divides tick_spacing,
/// max_volatility_accumulator × tick_group_size ≤ u32::MAX (reference predicate written from the property text);
/// additionally (code rule beyond the text) filter_period ≥ 1, tick_spacing ≠ 0 and 1 ≤ major_swap_threshold ≤ 88·spacing.
// @verif prop=C19 tier=quick timeout=300
#[kani::proof]
#[kani::solver(z3)]
fn c19_validate_constants_rules() {
    let ts: u16 = kani::any();
    let fp: u16 = kani::any();
    let dp: u16 = kani::any();
    let rf: u16 = kani::any();
    let cf: u32 = kani::any();
    let mva: u32 = kani::any();
    let tgs: u16 = kani::any();
    let mst: u16 = kani::any();
    let v = AdaptiveFeeConstants::validate_constants(ts, fp, dp, rf, cf, mva, tgs, mst);
    kani::cover!(v, "some constants are valid");
    kani::cover!(v && tgs == ts && rf == 9_999 && cf == 99_999 && fp + 1 == dp, "valid at the edges");
    kani::cover!(v && tgs > 1 && tgs < ts, "valid with a proper divisor");
    if v {
        assert!(ref_adaptive_constants_ok(ts, fp, dp, rf, cf, mva, tgs));
        assert!(fp >= 1 && ts != 0 && mst >= 1 && (mst as u32) <= ts as u32 * 88);
    }
}

type CTuple = (u16, u16, u16, u32, u32, u16, u16);
fn tier_tuple(t: &AdaptiveFeeTier) -> CTuple {
    (t.filter_period, t.decay_period, t.reduction_factor, t.adaptive_fee_control_factor, t.max_volatility_accumulator, t.tick_group_size, t.major_swap_threshold_ticks)
}
fn const_tuple(c: &AdaptiveFeeConstants) -> CTuple {
    (c.filter_period, c.decay_period, c.reduction_factor, c.adaptive_fee_control_factor, c.max_volatility_accumulator, c.tick_group_size, c.major_swap_threshold_ticks)
}
fn with_ts(ts: u16, c: CTuple) -> vc::Args {
    (ts, c.0, c.1, c.2, c.3, c.4, c.5, c.6)
}

fn any_adaptive_tier() -> AdaptiveFeeTier {
    AdaptiveFeeTier {
        whirlpools_config: any_key(),
        fee_tier_index: kani::any(),
        tick_spacing: kani::any(),
        initialize_pool_authority: any_key(),
        delegated_fee_authority: any_key(),
        default_base_fee_rate: kani::any(),
        filter_period: kani::any(),
        decay_period: kani::any(),
        reduction_factor: kani::any(),
        adaptive_fee_control_factor: kani::any(),
        max_volatility_accumulator: kani::any(),
        tick_group_size: kani::any(),
        major_swap_threshold_ticks: kani::any(),
    }
}

/// (W) AdaptiveFeeTier::initialize over all arguments: Ok ⇔ fee_tier_index ≠ tick_spacing ∧ tick_spacing ≠ 0 ∧ base fee
/// ≤ 60 000 ∧ validate_constants(tick_spacing, the 7 constants) returned true; Ok ⇒ all arguments stored; otherwise
/// the documented Err in the documented priority. validate_constants = recording stub (see (V)).
// @verif prop=C19 tier=quick timeout=300
#[kani::proof]
#[kani::unwind(34)]
#[kani::stub(alloc::fmt::format, stub_format)]
#[kani::stub(<anchor_lang::error::Error as core::convert::From<::whirlpool::errors::ErrorCode>>::from, stub_err_from_code)]
#[kani::stub(<anchor_lang::error::Error as core::convert::From<anchor_lang::error::ErrorCode>>::from, stub_err_from_anchor_code)]
#[kani::stub(::whirlpool::state::oracle::AdaptiveFeeConstants::validate_constants, vc::stub_validate_constants)]
fn c19_adaptive_tier_initialize() {
    let program_id = ::whirlpool::ID;
    let cfg_key = any_key();
    let mut cfg_l = 1u64;
    let mut cfg_data = any_config_bytes();
    let mut t = any_adaptive_tier();
    let idx: u16 = kani::any();
    let ts: u16 = kani::any();
    let (ipa, dfa) = (any_key(), any_key());
    let rate: u16 = kani::any();
    let c: CTuple = (kani::any(), kani::any(), kani::any(), kani::any(), kani::any(), kani::any(), kani::any());
    let cfg_ai = AccountInfo::new(&cfg_key, false, false, &mut cfg_l, &mut cfg_data, &program_id, false, 0);
    let cfg: Account<WhirlpoolsConfig> = Account::try_from(&cfg_ai).unwrap();

    let r = t.initialize(&cfg, idx, ts, ipa, dfa, rate, c.0, c.1, c.2, c.3, c.4, c.5, c.6);
    kani::cover!(r.is_ok(), "adaptive tier init ok");
    kani::cover!(r.is_ok() && rate == 60_000, "adaptive tier init at max base fee");
    kani::cover!(r.is_err() && idx != ts && ts != 0 && rate <= 60_000, "constants rejected");
    match &r {
        Ok(()) => {
            assert!(ts != 0 && idx != ts && rate <= REF_MAX_FEE_RATE);
            assert!(vc::calls() == 1 && vc::ret() && vc::args() == with_ts(ts, c));
            assert!(t.tick_spacing == ts && t.fee_tier_index == idx && t.default_base_fee_rate == rate);
            assert!(t.whirlpools_config == cfg_key && t.initialize_pool_authority == ipa && t.delegated_fee_authority == dfa);
            assert!(tier_tuple(&t) == c);
        }
        Err(e) => {
            let code = acode(e);
            if idx == ts {
                assert!(code == ecode(ErrorCode::InvalidFeeTierIndex));
            } else if ts == 0 {
                assert!(code == ecode(ErrorCode::InvalidTickSpacing));
            } else if rate > REF_MAX_FEE_RATE {
                assert!(code == ecode(ErrorCode::FeeRateMaxExceeded));
            } else {
                assert!(code == ecode(ErrorCode::InvalidAdaptiveFeeConstants));
                assert!(vc::calls() == 1 && !vc::ret() && vc::args() == with_ts(ts, c));
            }
        }
    }
    core::mem::forget(r);
}

/// (W) AdaptiveFeeTier setters, inductive form: from any tier, update_default_base_fee_rate: Ok ⇔ rate ≤ 60 000, Err ⇒
/// unchanged; update_adaptive_fee_constants: stores exactly the arguments iff validate_constants(self.tick_spacing,
/// arguments) returned true, otherwise InvalidAdaptiveFeeConstants and constants unchanged; tick_spacing is never
/// rewritten; authority setters touch neither. Hence (spacing ≠ 0 ∧ fee bound ∧ constants validated for this spacing)
/// is preserved. validate_constants = recording stub (see (V)).
// @verif prop=C19 tier=quick timeout=300
#[kani::proof]
#[kani::unwind(34)]
#[kani::stub(alloc::fmt::format, stub_format)]
#[kani::stub(<anchor_lang::error::Error as core::convert::From<::whirlpool::errors::ErrorCode>>::from, stub_err_from_code)]
#[kani::stub(::whirlpool::state::oracle::AdaptiveFeeConstants::validate_constants, vc::stub_validate_constants)]
fn c19_adaptive_tier_setters() {
    let mut t = any_adaptive_tier();
    let rate: u16 = kani::any();
    let c: CTuple = (kani::any(), kani::any(), kani::any(), kani::any(), kani::any(), kani::any(), kani::any());
    let k = any_key();
    let which: bool = kani::any();
    let ts0 = t.tick_spacing;
    let f0 = t.default_base_fee_rate;
    let old = tier_tuple(&t);

    let r1 = t.update_default_base_fee_rate(rate);
    kani::cover!(r1.is_ok() && rate == 60_000, "base fee at max");
    kani::cover!(r1.is_err(), "base fee rejected");
    match &r1 {
        Ok(()) => assert!(rate <= REF_MAX_FEE_RATE && t.default_base_fee_rate == rate),
        Err(e) => assert!(rate > REF_MAX_FEE_RATE && acode(e) == ecode(ErrorCode::FeeRateMaxExceeded) && t.default_base_fee_rate == f0),
    }
    assert!(tier_tuple(&t) == old && t.tick_spacing == ts0 && vc::calls() == 0);
    let f1 = t.default_base_fee_rate;

    let r2 = t.update_adaptive_fee_constants(c.0, c.1, c.2, c.3, c.4, c.5, c.6);
    kani::cover!(r2.is_ok(), "constants accepted");
    kani::cover!(r2.is_err(), "constants rejected");
    assert!(vc::calls() == 1 && vc::args() == with_ts(ts0, c));
    match &r2 {
        Ok(()) => assert!(vc::ret() && tier_tuple(&t) == c),
        Err(e) => assert!(!vc::ret() && acode(e) == ecode(ErrorCode::InvalidAdaptiveFeeConstants) && tier_tuple(&t) == old),
    }
    let mid = tier_tuple(&t);
    if which {
        t.update_initialize_pool_authority(k);
    } else {
        t.update_delegated_fee_authority(k);
    }
    assert!(tier_tuple(&t) == mid && t.tick_spacing == ts0 && t.default_base_fee_rate == f1);
    if f0 <= REF_MAX_FEE_RATE {
        assert!(t.default_base_fee_rate <= REF_MAX_FEE_RATE);
    }
    core::mem::forget(r1);
    core::mem::forget(r2);
}

fn any_constants() -> AdaptiveFeeConstants {
    AdaptiveFeeConstants {
        filter_period: kani::any(),
        decay_period: kani::any(),
        reduction_factor: kani::any(),
        adaptive_fee_control_factor: kani::any(),
        max_volatility_accumulator: kani::any(),
        tick_group_size: kani::any(),
        major_swap_threshold_ticks: kani::any(),
        reserved: [0u8; 16],
    }
}

/// (W) Oracle::initialize and Oracle::initialize_adaptive_fee_constants (the writer behind set_adaptive_fee_constants):
/// constants are stored iff validate_constants(tick_spacing argument, those constants) returned true; otherwise
/// InvalidAdaptiveFeeConstants and the stored constants are unchanged; initialize also resets the variables and
/// binds the pool key. validate_constants = recording stub (see (V)). That the tick_spacing argument is the pool's is
/// checked on the handlers (c19_handler_set_adaptive_fee_constants; initialize_pool_with_adaptive_fee by reading: both
/// Whirlpool::initialize and Oracle::initialize receive adaptive_fee_tier.tick_spacing).
// @verif prop=C19 tier=quick timeout=300
#[kani::proof]
#[kani::unwind(34)]
#[kani::stub(alloc::fmt::format, stub_format)]
#[kani::stub(<anchor_lang::error::Error as core::convert::From<::whirlpool::errors::ErrorCode>>::from, stub_err_from_code)]
#[kani::stub(::whirlpool::state::oracle::AdaptiveFeeConstants::validate_constants, vc::stub_validate_constants)]
fn c19_oracle_writers() {
    let mut o = Oracle::default();
    o.adaptive_fee_constants = any_constants();
    o.adaptive_fee_variables.volatility_accumulator = kani::any();
    let pool = any_key();
    let tet: Option<u64> = kani::any();
    let ts: u16 = kani::any();
    let ts2: u16 = kani::any();
    let c1 = any_constants();
    let c2 = any_constants();
    let before0 = o.adaptive_fee_constants;

    let r0 = o.initialize(
        pool,
        tet,
        ts,
        c1.filter_period,
        c1.decay_period,
        c1.reduction_factor,
        c1.adaptive_fee_control_factor,
        c1.max_volatility_accumulator,
        c1.tick_group_size,
        c1.major_swap_threshold_ticks,
    );
    kani::cover!(r0.is_ok(), "oracle init ok");
    kani::cover!(r0.is_err(), "oracle init rejected");
    assert!(vc::calls() == 1 && vc::args() == with_ts(ts, const_tuple(&c1)));
    match &r0 {
        Ok(()) => {
            assert!(vc::ret());
            assert!(o.adaptive_fee_constants == c1);
            assert!(o.adaptive_fee_variables == AdaptiveFeeVariables::default());
            assert!({ o.whirlpool } == pool);
        }
        Err(e) => assert!(!vc::ret() && acode(e) == ecode(ErrorCode::InvalidAdaptiveFeeConstants) && o.adaptive_fee_constants == before0),
    }
    let before = o.adaptive_fee_constants;
    let r1 = o.initialize_adaptive_fee_constants(c2, ts2);
    kani::cover!(r1.is_ok(), "oracle constants accepted");
    kani::cover!(r1.is_err(), "oracle constants rejected");
    assert!(vc::calls() == 2 && vc::args() == with_ts(ts2, const_tuple(&c2)));
    match &r1 {
        Ok(()) => assert!(vc::ret() && o.adaptive_fee_constants == c2),
        Err(e) => assert!(!vc::ret() && acode(e) == ecode(ErrorCode::InvalidAdaptiveFeeConstants) && o.adaptive_fee_constants == before),
    }
    core::mem::forget(r0);
    core::mem::forget(r1);
}

// ================================================================================================
// Part 3 — Token-2022 mint admission

/// number of extension type numbers known to the program (0 = Uninitialized … 27 = PausableAccount)
const REF_KNOWN_TYPES: u16 = 28;
const MAXE: usize = 8;

/// outcome of the reference TLV walk (Token-2022 `get_tlv_data_info` semantics, as cited by the code comment):
/// list of type numbers in order, or malformed
struct RefWalk {
    malformed: bool,
    n: usize,
    types: [u16; MAXE],
    /// offset of the value and declared length of each entry
    value_start: [usize; MAXE],
    value_len: [usize; MAXE],
}

/// reference TLV walk over `d`: entries are (type u16 LE, length u16 LE, value[length]); the walk ends at the end of
/// the buffer, when fewer than 2 bytes remain, or at type 0 (Uninitialized); an unknown type number, a type without
/// room for its length field, or a value running past the buffer is malformed.
fn ref_walk(d: &[u8]) -> RefWalk {
    let mut w = RefWalk { malformed: false, n: 0, types: [0; MAXE], value_start: [0; MAXE], value_len: [0; MAXE] };
    let len = d.len();
    let mut cur = 0usize;
    while cur < len {
        if len - cur < 2 {
            return w; // a single trailing byte is padding
        }
        let ty = (d[cur] as u16) | ((d[cur + 1] as u16) << 8);
        if ty >= REF_KNOWN_TYPES {
            w.malformed = true;
            return w;
        }
        if ty == 0 {
            return w;
        }
        if len - cur < 4 {
            w.malformed = true;
            return w;
        }
        let l = ((d[cur + 2] as u16) | ((d[cur + 3] as u16) << 8)) as usize;
        if l > len - cur - 4 {
            w.malformed = true;
            return w;
        }
        assert!(w.n < MAXE, "harness bound: entries fit MAXE");
        w.types[w.n] = ty;
        w.value_start[w.n] = cur + 4;
        w.value_len[w.n] = l;
        w.n += 1;
        cur += 4 + l;
    }
    w
}

/// body of the TLV differential: every TLV area of 0..=T fully symbolic bytes
fn tlv_types_vs_reference<const T: usize>() -> (bool, usize, usize, usize) {
    let buf: [u8; T] = kani::any();
    let n: usize = kani::any();
    kani::assume(n <= T);
    let d = &buf[..n];
    let r = ::whirlpool::util::verif_get_token_extension_types(d);
    let w = ref_walk(d);
    match &r {
        Ok(v) => {
            assert!(!w.malformed);
            assert!(v.len() == w.n);
            let mut i = 0;
            while i < w.n {
                assert!(v[i] == w.types[i]);
                i += 1;
            }
        }
        Err(e) => {
            assert!(w.malformed);
            // ProgramError::InvalidAccountData
            assert!(matches!(e, anchor_lang::error::Error::ProgramError(p) if p.program_error == ProgramError::InvalidAccountData));
        }
    }
    let ok = r.is_ok();
    core::mem::forget(r);
    (ok, n, w.n, w.value_len[0])
}

/// get_token_extension_types (through the verif wrapper) ≡ reference TLV walk on every TLV area of 0..=10 fully
/// symbolic bytes (so ≤ 2 entries; type numbers known and unknown, lengths fitting and overrunning, every kind of
/// truncated tail): same verdict (list / malformed) and, when well-formed, the same list of type numbers in order.
// @verif prop=C19 tier=quick timeout=300
#[kani::proof]
#[kani::unwind(4)]
#[kani::stub(alloc::fmt::format, stub_format)]
#[kani::stub(<anchor_lang::error::Error as core::convert::From<::whirlpool::errors::ErrorCode>>::from, stub_err_from_code)]
#[kani::stub(<anchor_lang::error::Error as core::convert::From<anchor_lang::error::ErrorCode>>::from, stub_err_from_anchor_code)]
fn c19_tlv_types_vs_reference() {
    let (ok, n, wn, len0) = tlv_types_vs_reference::<10>();
    kani::cover!(ok && wn == 2 && len0 == 2, "two entries, the first with a value");
    kani::cover!(!ok && wn == 1, "malformed after one entry");
    kani::cover!(ok && n == 5 && wn == 1, "single trailing byte tolerated");
}

/// same on every TLV area of 0..=12 bytes (≤ 3 entries)
// @verif prop=C19 tier=thorough timeout=900
#[kani::proof]
#[kani::unwind(5)]
#[kani::stub(alloc::fmt::format, stub_format)]
#[kani::stub(<anchor_lang::error::Error as core::convert::From<::whirlpool::errors::ErrorCode>>::from, stub_err_from_code)]
#[kani::stub(<anchor_lang::error::Error as core::convert::From<anchor_lang::error::ErrorCode>>::from, stub_err_from_anchor_code)]
fn c19_tlv_types_vs_reference_12() {
    let (ok, n, wn, len0) = tlv_types_vs_reference::<12>();
    kani::cover!(ok && wn == 3, "three entries");
    kani::cover!(ok && wn == 2 && len0 == 3, "two entries with a value");
    kani::cover!(!ok && wn == 2, "malformed after two entries");
    kani::cover!(ok && n == 5 && wn == 1, "single trailing byte tolerated");
}

use anchor_spl::token_2022::spl_token_2022;
use anchor_spl::token_interface::Mint as IMint;
use spl_token_2022::extension::{BaseStateWithExtensions, StateWithExtensions};

/// offset of the TLV area in a Token-2022 mint account: 82-byte base, zero padding up to 165, account-type byte
const MINT_TLV_START: usize = 166;

// extension type numbers (Token-2022 `ExtensionType`)
const X_TRANSFER_FEE_CONFIG: u16 = 1;
const X_MINT_CLOSE_AUTHORITY: u16 = 3;
const X_CONFIDENTIAL_TRANSFER_MINT: u16 = 4;
const X_DEFAULT_ACCOUNT_STATE: u16 = 6;
const X_NON_TRANSFERABLE: u16 = 9;
const X_INTEREST_BEARING: u16 = 10;
const X_PERMANENT_DELEGATE: u16 = 12;
const X_TRANSFER_HOOK: u16 = 14;
const X_CONFIDENTIAL_TRANSFER_FEE_CONFIG: u16 = 16;
const X_METADATA_POINTER: u16 = 18;
const X_TOKEN_METADATA: u16 = 19;
const X_SCALED_UI_AMOUNT: u16 = 25;
const X_PAUSABLE: u16 = 26;

/// extensions the program supports without conditions (code comments "supported" / "partially supported")
fn ref_always_supported(t: u16) -> bool {
    t == X_TRANSFER_FEE_CONFIG
        || t == X_INTEREST_BEARING
        || t == X_TOKEN_METADATA
        || t == X_METADATA_POINTER
        || t == X_SCALED_UI_AMOUNT
        || t == X_CONFIDENTIAL_TRANSFER_MINT
        || t == X_CONFIDENTIAL_TRANSFER_FEE_CONFIG
}
/// extensions accepted only with a token badge (property text: permanent delegate, transfer hook, close authority,
/// non-default account state, pausability; the freeze authority is a base-mint field and handled separately)
fn ref_badge_gated(t: u16) -> bool {
    t == X_PERMANENT_DELEGATE || t == X_TRANSFER_HOOK || t == X_MINT_CLOSE_AUTHORITY || t == X_DEFAULT_ACCOUNT_STATE || t == X_PAUSABLE
}

/// a Token/Token-2022 mint account image (82-byte base, 83 zero bytes, account type, TLV area of T bytes). It is a
/// struct of arrays of <= 64 bytes so that CBMC keeps every byte as its own SSA symbol (constants written by the
/// harness stay constants); the program sees it as one contiguous `&mut [u8]`.
#[repr(C)]
struct MintImage<const T: usize> {
    mint_authority_tag: [u8; 4],
    mint_authority: [u8; 32],
    supply: [u8; 8],
    decimals: u8,
    is_initialized: u8,
    freeze_authority_tag: [u8; 4],
    freeze_authority: [u8; 32],
    pad_a: [u8; 42],
    pad_b: [u8; 41],
    account_type: u8,
    tlv: [u8; T],
}
impl<const T: usize> MintImage<T> {
    const LEN: usize = MINT_TLV_START + T;
    /// symbolic base fields and TLV area. Validity predicates (needed for Anchor to deserialize
    /// `InterfaceAccount<Mint>` at all): is_initialized = 1, COption tags ∈ {0,1}, zero padding, account type = Mint.
    /// The two COption tags are harness parameters (concrete) so that `Mint::unpack` has no symbolic failure branch.
    fn any(mint_authority_present: bool, freeze_authority_present: bool) -> Self {
        assert!(core::mem::size_of::<Self>() == Self::LEN);
        MintImage {
            mint_authority_tag: [mint_authority_present as u8, 0, 0, 0],
            mint_authority: kani::any(),
            supply: kani::any(),
            decimals: kani::any(),
            is_initialized: 1,
            freeze_authority_tag: [freeze_authority_present as u8, 0, 0, 0],
            freeze_authority: kani::any(),
            pad_a: [0; 42],
            pad_b: [0; 41],
            account_type: 1,
            tlv: kani::any(),
        }
    }
    fn freeze_present(&self) -> bool {
        self.freeze_authority_tag[0] == 1
    }
    /// pin entry k to the concrete length `lens[k]` (entries laid out back to back)
    fn fix_entry_lengths(&mut self, lens: &[u16]) {
        let mut off = 0usize;
        let mut k = 0;
        while k < lens.len() {
            if off + 4 <= T {
                self.tlv[off + 2] = lens[k] as u8;
                self.tlv[off + 3] = (lens[k] >> 8) as u8;
            }
            off += 4 + lens[k] as usize;
            k += 1;
        }
    }
    fn bytes_mut(&mut self) -> &mut [u8] {
        unsafe { core::slice::from_raw_parts_mut(self as *mut Self as *mut u8, Self::LEN) }
    }
}

/// the admission rule, written from the property text and the code comments. Returns (necessary, exact):
/// `necessary` = what the property demands of every accepted mint; `exact` = the rule the code implements
/// (adds: a DefaultAccountState extension must be a 1-byte value and, unless it says Initialized, needs a freeze
/// authority — "as thawing would not be possible").
fn ref_admission(owner_is_token: bool, is_native_2022: bool, freeze_present: bool, badge: bool, tlv: &[u8]) -> (bool, bool) {
    if owner_is_token {
        return (true, true); // plain SPL mint
    }
    if is_native_2022 {
        return (false, false);
    }
    if freeze_present && !badge {
        return (false, false);
    }
    let w = ref_walk(tlv);
    if w.malformed {
        return (false, false); // truncated TLV or unknown type number
    }
    let mut necessary = true;
    let mut exact = true;
    let mut seen_default_state = false;
    let mut i = 0;
    while i < w.n {
        let t = w.types[i];
        if ref_always_supported(t) {
        } else if ref_badge_gated(t) {
            if !badge {
                necessary = false;
                exact = false;
            }
            if t == X_DEFAULT_ACCOUNT_STATE && !seen_default_state {
                seen_default_state = true;
                let ok = w.value_len[i] == 1 && (tlv[w.value_start[i]] == 1 || freeze_present);
                if !ok {
                    exact = false;
                }
            }
        } else {
            // NonTransferable, account-side extensions, group / confidential-mint-burn, ...: never
            necessary = false;
            exact = false;
        }
        i += 1;
    }
    (necessary, exact)
}

/// is_supported_token_mint on a real `InterfaceAccount<Mint>` whose TLV area has T bytes; `lens` = None leaves the
/// area fully symbolic, Some(l) pins the entry lengths (types, values, tail stay symbolic).
struct AdmObs {
    accepted: bool,
    is_err: bool,
    badge: bool,
    is_native: bool,
    malformed: bool,
    n: usize,
    t0: u16,
    len0: usize,
}

fn mint_admission_check<const T: usize>(owner_is_token: bool, freeze: bool, lens: Option<&[u16]>) -> AdmObs {
    let mut img = MintImage::<T>::any(true, freeze);
    if let Some(l) = lens {
        img.fix_entry_lengths(l);
    }
    let key: [u8; 32] = kani::any();
    let badge: bool = kani::any();
    let freeze_present = img.freeze_present();
    let tlv_copy = img.tlv;
    let key_pk = Pubkey::new_from_array(key);
    let owner = if owner_is_token { anchor_spl::token::ID } else { anchor_spl::token_2022::ID };
    let mut lamports = 1u64;
    let ai = AccountInfo::new(&key_pk, false, false, &mut lamports, img.bytes_mut(), &owner, false, 0);
    let mint = match InterfaceAccount::<IMint>::try_from(&ai) {
        Ok(m) => m,
        Err(e) => {
            core::mem::forget(e);
            panic!("mint image must deserialize");
        }
    };
    let r = ::whirlpool::util::is_supported_token_mint(&mint, badge);

    let is_native = key == spl_token_2022::native_mint::id().to_bytes();
    let tlv = &tlv_copy[..];
    let (necessary, exact) = ref_admission(owner_is_token, is_native, freeze_present, badge, tlv);
    let accepted = matches!(&r, Ok(true));
    let w = ref_walk(tlv);

    // the code's decision is exactly the rule
    assert!(accepted == exact);
    // and what the property demands follows
    if accepted {
        assert!(necessary);
        if !owner_is_token {
            assert!(!is_native);
            assert!(badge || !freeze_present);
            let mut i = 0;
            while i < w.n {
                let t = w.types[i];
                assert!(t != X_NON_TRANSFERABLE && t < REF_KNOWN_TYPES);
                assert!(ref_always_supported(t) || (badge && ref_badge_gated(t)));
                i += 1;
            }
        }
    }
    let is_err = r.is_err();
    core::mem::forget(r);
    AdmObs { accepted, is_err, badge, is_native, malformed: w.malformed, n: w.n, t0: w.types[0], len0: w.value_len[0] }
}

fn adm_covers_2022(o: &AdmObs, freeze: bool) {
    kani::cover!(o.accepted && o.n >= 2 && o.badge == freeze, "2022 mint with >= 2 extensions accepted");
    kani::cover!(o.accepted && o.badge && o.n >= 1 && o.t0 == X_TRANSFER_HOOK, "transfer hook accepted with badge");
    kani::cover!(o.accepted && o.n >= 1 && o.t0 == X_DEFAULT_ACCOUNT_STATE, "default-state accepted");
    kani::cover!(!o.accepted && o.badge && !o.malformed && o.n >= 1 && o.t0 == X_NON_TRANSFERABLE, "non-transferable rejected despite badge");
    kani::cover!(o.is_err && o.malformed, "malformed TLV / unknown type is an error");
    kani::cover!(!o.accepted && o.is_native && o.badge, "native-2022 mint rejected despite badge");
}

/// is_supported_token_mint(mint, badge) on a real Token-2022 InterfaceAccount<Mint> WITH a freeze authority (key symbolic
/// incl. the native-2022 mint, badge flag symbolic), 4 TLV entries of lengths [1,0,2,0] + 3 tail bytes, all type
/// numbers (known and unknown), values and the tail symbolic:
/// Ok(true) ⇔ not native-2022 ∧ badge ∧ TLV well-formed ∧ every extension on the supported list (badge-gated ones
/// allowed because badge) ∧ DefaultAccountState is a 1-byte value; NonTransferable / unknown / account-side never.
// @verif prop=C19 tier=thorough timeout=900 unwindset=memcmp.0:85
#[kani::proof]
#[kani::unwind(6)]
#[kani::stub(alloc::fmt::format, stub_format)]
#[kani::stub(<anchor_lang::error::Error as core::convert::From<::whirlpool::errors::ErrorCode>>::from, stub_err_from_code)]
#[kani::stub(<anchor_lang::error::Error as core::convert::From<anchor_lang::error::ErrorCode>>::from, stub_err_from_anchor_code)]
fn c19_mint_admission_freeze_4_entries() {
    let o = mint_admission_check::<22>(false, true, Some(&[1, 0, 2, 0]));
    adm_covers_2022(&o, true);
}

/// same WITHOUT a freeze authority: Ok(true) ⇔ not native-2022 ∧ TLV well-formed ∧ every extension on the supported
/// list, the badge-gated ones (PermanentDelegate, TransferHook, MintCloseAuthority, DefaultAccountState, Pausable)
/// only with badge ∧ DefaultAccountState = 1-byte value "Initialized" (no freeze authority ⇒ could not be thawed).
// @verif prop=C19 tier=thorough timeout=900 unwindset=memcmp.0:85
#[kani::proof]
#[kani::unwind(6)]
#[kani::stub(alloc::fmt::format, stub_format)]
#[kani::stub(<anchor_lang::error::Error as core::convert::From<::whirlpool::errors::ErrorCode>>::from, stub_err_from_code)]
#[kani::stub(<anchor_lang::error::Error as core::convert::From<anchor_lang::error::ErrorCode>>::from, stub_err_from_anchor_code)]
fn c19_mint_admission_nofreeze_4_entries() {
    let o = mint_admission_check::<22>(false, false, Some(&[1, 0, 2, 0]));
    adm_covers_2022(&o, false);
    kani::cover!(!o.accepted && o.badge && !o.malformed && o.n == 1 && o.t0 == X_DEFAULT_ACCOUNT_STATE && o.len0 == 1 && !o.is_native, "non-initialized default state without freeze authority rejected despite badge");
}

/// quick-tier size of c19_mint_admission_freeze_4_entries: 2 entries of lengths [1,0] + 3 tail bytes
// @verif prop=C19 tier=quick timeout=300 unwindset=memcmp.0:85
#[kani::proof]
#[kani::unwind(4)]
#[kani::stub(alloc::fmt::format, stub_format)]
#[kani::stub(<anchor_lang::error::Error as core::convert::From<::whirlpool::errors::ErrorCode>>::from, stub_err_from_code)]
#[kani::stub(<anchor_lang::error::Error as core::convert::From<anchor_lang::error::ErrorCode>>::from, stub_err_from_anchor_code)]
fn c19_mint_admission_freeze_2_entries() {
    let o = mint_admission_check::<12>(false, true, Some(&[1, 0]));
    adm_covers_2022(&o, true);
}

/// quick-tier size of c19_mint_admission_nofreeze_4_entries: 2 entries of lengths [1,0] + 3 tail bytes
// @verif prop=C19 tier=quick timeout=300 unwindset=memcmp.0:85
#[kani::proof]
#[kani::unwind(4)]
#[kani::stub(alloc::fmt::format, stub_format)]
#[kani::stub(<anchor_lang::error::Error as core::convert::From<::whirlpool::errors::ErrorCode>>::from, stub_err_from_code)]
#[kani::stub(<anchor_lang::error::Error as core::convert::From<anchor_lang::error::ErrorCode>>::from, stub_err_from_anchor_code)]
fn c19_mint_admission_nofreeze_2_entries() {
    let o = mint_admission_check::<12>(false, false, Some(&[1, 0]));
    adm_covers_2022(&o, false);
    kani::cover!(!o.accepted && o.badge && !o.malformed && o.n == 1 && o.t0 == X_DEFAULT_ACCOUNT_STATE && o.len0 == 1 && !o.is_native, "non-initialized default state without freeze authority rejected despite badge");
}

/// plain SPL Token mint (owner = Token program; same image, freeze authority present, any extension bytes, any key):
/// always accepted, with or without badge — the rule found in the code ("compatible to initialize_pool /
/// initialize_reward"); the property text says "only over a plain SPL mint or ...", i.e. no badge needed.
// @verif prop=C19 tier=quick timeout=300 unwindset=memcmp.0:85
#[kani::proof]
#[kani::unwind(4)]
#[kani::stub(alloc::fmt::format, stub_format)]
#[kani::stub(<anchor_lang::error::Error as core::convert::From<::whirlpool::errors::ErrorCode>>::from, stub_err_from_code)]
#[kani::stub(<anchor_lang::error::Error as core::convert::From<anchor_lang::error::ErrorCode>>::from, stub_err_from_anchor_code)]
fn c19_mint_admission_plain_spl() {
    let o = mint_admission_check::<8>(true, true, None);
    kani::cover!(o.accepted && !o.badge, "plain SPL mint accepted without badge");
    assert!(o.accepted);
}

// ================================================================================================
// Part 4 — token badge

/// reference: a token badge counts for (config, mint) iff the account is owned by the Whirlpool program, carries the
/// TokenBadge discriminator, and records exactly that config and that mint (plus borsh well-formedness of the
/// 1-byte attribute). That the account sits at the PDA ["token_badge", config, mint] is an Anchor `seeds=` constraint
/// on the instruction structs (outside this harness).
fn ref_badge_valid(owner: &[u8; 32], data: &[u8], config: &[u8; 32], mint: &[u8; 32]) -> bool {
    *owner == ::whirlpool::ID.to_bytes()
        && data.len() >= 73
        && data[..8] == *TokenBadge::DISCRIMINATOR
        && data[8..40] == config[..]
        && data[40..72] == mint[..]
        && data[72] <= 1
}

const BADGE_BUF: usize = 80;

/// is_token_badge_initialized(config, mint, account) over a symbolic account (owner key, 80 data bytes — a TokenBadge
/// uses the first 73 —, all symbolic) and symbolic config / mint keys: Ok(true) ⇔ owner = program ∧ discriminator ∧ badge.whirlpools_config =
/// config ∧ badge.token_mint = mint (∧ attribute byte is a bool); a foreign owner gives Ok(false); a program-owned
/// account that is not a TokenBadge gives Err; another config's or mint's badge gives Ok(false).
// @verif prop=C19 tier=quick timeout=300
#[kani::proof]
#[kani::unwind(34)]
#[kani::stub(alloc::fmt::format, stub_format)]
#[kani::stub(<anchor_lang::error::Error as core::convert::From<::whirlpool::errors::ErrorCode>>::from, stub_err_from_code)]
#[kani::stub(<anchor_lang::error::Error as core::convert::From<anchor_lang::error::ErrorCode>>::from, stub_err_from_anchor_code)]
fn c19_token_badge_initialized() {
    let owner: [u8; 32] = kani::any();
    let mut data: [u8; BADGE_BUF] = kani::any();
    let n: usize = BADGE_BUF;
    let config: [u8; 32] = kani::any();
    let mint: [u8; 32] = kani::any();
    let key = any_key();
    let image = data;
    let owner_pk = Pubkey::new_from_array(owner);
    let mut lamports = 1u64;
    let ai = AccountInfo::new(&key, false, false, &mut lamports, &mut data[..n], &owner_pk, false, 0);
    let acc = UncheckedAccount::try_from(&ai);
    let r = ::whirlpool::util::is_token_badge_initialized(Pubkey::new_from_array(config), Pubkey::new_from_array(mint), &acc);
    let valid = ref_badge_valid(&owner, &image[..n], &config, &mint);
    kani::cover!(matches!(&r, Ok(true)), "badge accepted");
    kani::cover!(matches!(&r, Ok(false)) && owner == ::whirlpool::ID.to_bytes(), "program-owned badge of another config/mint");
    kani::cover!(matches!(&r, Ok(false)) && owner != ::whirlpool::ID.to_bytes(), "foreign owner");
    kani::cover!(r.is_err(), "program-owned non-badge");
    assert!(matches!(&r, Ok(true)) == valid);
    if owner != ::whirlpool::ID.to_bytes() {
        assert!(matches!(&r, Ok(false)));
    }
    if let Err(e) = &r {
        // only for program-owned accounts that do not deserialize as a TokenBadge
        assert!(owner == ::whirlpool::ID.to_bytes());
        assert!(n < 73 || image[..8] != *TokenBadge::DISCRIMINATOR || image[72] > 1);
    }
    core::mem::forget(r);
}

// ================================================================================================
// Part 2 — handler-level spot checks on the Anchor account structs (thorough tier)
use anchor_lang::{Accounts, AccountsExit, Bumps};
use std::collections::BTreeSet;

const WP_TICK_SPACING: usize = 41;
const WP_FEE_RATE: usize = 45;
const WP_PROTOCOL_FEE_RATE: usize = 47;
const WP_SQRT_PRICE: usize = 65;
const WP_MINT_A: usize = 101;
const WP_MINT_B: usize = 181;

fn rd16(d: &[u8], o: usize) -> u16 {
    u16::from_le_bytes([d[o], d[o + 1]])
}
fn rd128(d: &[u8], o: usize) -> u128 {
    let mut b = [0u8; 16];
    b.copy_from_slice(&d[o..o + 16]);
    u128::from_le_bytes(b)
}
fn rdkey(d: &[u8], o: usize) -> [u8; 32] {
    let mut b = [0u8; 32];
    b.copy_from_slice(&d[o..o + 32]);
    b
}

/// serialized Whirlpool with symbolic config key, tick spacing, fee-tier seed, fee rates, price and mints
fn any_pool_bytes() -> [u8; Whirlpool::LEN] {
    let mut d = [0u8; Whirlpool::LEN];
    d[..8].copy_from_slice(Whirlpool::DISCRIMINATOR);
    let cfg: [u8; 32] = kani::any();
    d[8..40].copy_from_slice(&cfg);
    let small: [u8; 8] = kani::any(); // tick_spacing, fee_tier_index_seed, fee_rate, protocol_fee_rate
    d[41..49].copy_from_slice(&small);
    let price: [u8; 16] = kani::any();
    d[65..81].copy_from_slice(&price);
    let ma: [u8; 32] = kani::any();
    d[101..133].copy_from_slice(&ma);
    let mb: [u8; 32] = kani::any();
    d[181..213].copy_from_slice(&mb);
    d
}

/// (config, pool, authority) instructions that set one of the pool's fee fields: Anchor validation (`try_accounts`
/// on symbolic account bytes, keys, signer flag) + the real handler on the resulting `Context`; the pool is observed as
/// the deserialized `Account<Whirlpool>` the handler mutated (Anchor's generic `exit` serialization is not re-run:
/// it exhausts 14 GB with the 653-byte pool). `$field` = field written, `$max` its bound, `$err` the documented error.
macro_rules! pool_fee_setter_body {
    ($accounts:ty, $handler:path, $field:ident, $other:ident, $max:expr, $err:expr) => {{
        let program_id = ::whirlpool::ID;
        let cfg_key = any_key();
        let mut cfg_l = 1u64;
        let mut cfg_data = any_config_bytes();
        let wp_key = any_key();
        let mut wp_l = 1u64;
        let mut wp_data = any_pool_bytes();
        let auth_key = any_key();
        let auth_signer: bool = kani::any();
        let mut auth_l = 1u64;
        let mut auth_d = [0u8; 0];
        let sys = Pubkey::default();
        let arg: u16 = kani::any();
        let cfg_ai = AccountInfo::new(&cfg_key, false, false, &mut cfg_l, &mut cfg_data, &program_id, false, 0);
        let wp_ai = AccountInfo::new(&wp_key, false, true, &mut wp_l, &mut wp_data, &program_id, false, 0);
        let auth_ai = AccountInfo::new(&auth_key, auth_signer, false, &mut auth_l, &mut auth_d, &sys, false, 0);
        let accounts = [cfg_ai, wp_ai, auth_ai];
        let mut slice: &[AccountInfo] = &accounts;
        let mut bumps = <$accounts as Bumps>::Bumps::default();
        let mut reallocs = BTreeSet::new();
        let v = <$accounts>::try_accounts(&program_id, &mut slice, &[], &mut bumps, &mut reallocs);
        kani::cover!(v.is_ok(), "validation can pass");
        match v {
            Ok(mut accs) => {
                let pre: Whirlpool = (*accs.whirlpool).clone();
                let r = $handler(Context::new(&program_id, &mut accs, &[], bumps), arg);
                let post: &Whirlpool = &accs.whirlpool;
                kani::cover!(r.is_ok() && arg == $max, "setter accepts the maximum");
                kani::cover!(r.is_err(), "setter rejects");
                match &r {
                    Ok(()) => assert!(arg <= $max && post.$field == arg),
                    Err(e) => assert!(arg > $max && acode(e) == ecode($err) && post.$field == pre.$field),
                }
                assert!(post.$other == pre.$other && same_other_pool_fields(post, &pre));
                if ref_pool_bounds(&pre) {
                    assert!(ref_pool_bounds(post));
                }
                core::mem::forget(r);
                core::mem::forget(accs);
            }
            Err(e) => core::mem::forget(e),
        }
    }};
}

/// set_fee_rate (config, pool, fee authority): Ok ⇔ fee_rate ≤ 60 000; Ok ⇒ stored; Err ⇒ FeeRateMaxExceeded and pool
/// unchanged; no other bounded pool field touched; pool bounds before ⇒ pool bounds after.
// @verif prop=C19 tier=thorough timeout=900
#[kani::proof]
#[kani::unwind(34)]
#[kani::stub(alloc::fmt::format, stub_format)]
#[kani::stub(<anchor_lang::error::Error as core::convert::From<::whirlpool::errors::ErrorCode>>::from, stub_err_from_code)]
#[kani::stub(<anchor_lang::error::Error as core::convert::From<anchor_lang::error::ErrorCode>>::from, stub_err_from_anchor_code)]
fn c19_handler_set_fee_rate() {
    pool_fee_setter_body!(
        ::whirlpool::instructions::SetFeeRate,
        ::whirlpool::instructions::set_fee_rate::handler,
        fee_rate,
        protocol_fee_rate,
        REF_MAX_FEE_RATE,
        ErrorCode::FeeRateMaxExceeded
    );
}

/// set_protocol_fee_rate (config, pool, fee authority): Ok ⇔ protocol_fee_rate ≤ 2 500; Ok ⇒ stored; Err ⇒
/// ProtocolFeeRateMaxExceeded and pool unchanged; no other bounded pool field touched; pool bounds preserved.
// @verif prop=C19 tier=thorough timeout=900
#[kani::proof]
#[kani::unwind(34)]
#[kani::stub(alloc::fmt::format, stub_format)]
#[kani::stub(<anchor_lang::error::Error as core::convert::From<::whirlpool::errors::ErrorCode>>::from, stub_err_from_code)]
#[kani::stub(<anchor_lang::error::Error as core::convert::From<anchor_lang::error::ErrorCode>>::from, stub_err_from_anchor_code)]
fn c19_handler_set_protocol_fee_rate() {
    pool_fee_setter_body!(
        ::whirlpool::instructions::SetProtocolFeeRate,
        ::whirlpool::instructions::set_protocol_fee_rate::handler,
        protocol_fee_rate,
        fee_rate,
        REF_MAX_PROTOCOL_FEE_RATE,
        ErrorCode::ProtocolFeeRateMaxExceeded
    );
}

/// serialized AdaptiveFeeTier (256 bytes) with every field symbolic
fn any_adaptive_tier_bytes() -> [u8; AdaptiveFeeTier::LEN] {
    let mut d = [0u8; AdaptiveFeeTier::LEN];
    d[..8].copy_from_slice(AdaptiveFeeTier::DISCRIMINATOR);
    let body: [u8; 120] = kani::any();
    d[8..128].copy_from_slice(&body);
    d
}

/// set_fee_rate_by_delegated_fee_authority (pool, adaptive fee tier, delegated authority): the delegated path goes
/// through the same bound: Ok ⇔ fee_rate ≤ 60 000, Ok ⇒ stored, Err ⇒ FeeRateMaxExceeded and unchanged, no other
/// bounded pool field touched, pool bounds preserved.
// @verif prop=C19 tier=thorough timeout=900
#[kani::proof]
#[kani::unwind(34)]
#[kani::stub(alloc::fmt::format, stub_format)]
#[kani::stub(<anchor_lang::error::Error as core::convert::From<::whirlpool::errors::ErrorCode>>::from, stub_err_from_code)]
#[kani::stub(<anchor_lang::error::Error as core::convert::From<anchor_lang::error::ErrorCode>>::from, stub_err_from_anchor_code)]
fn c19_handler_set_fee_rate_by_delegated_authority() {
    use ::whirlpool::instructions::SetFeeRateByDelegatedFeeAuthority as Accs;
    let program_id = ::whirlpool::ID;
    let wp_key = any_key();
    let mut wp_l = 1u64;
    let mut wp_data = any_pool_bytes();
    let tier_key = any_key();
    let mut tier_l = 1u64;
    let mut tier_data = any_adaptive_tier_bytes();
    let auth_key = any_key();
    let auth_signer: bool = kani::any();
    let mut auth_l = 1u64;
    let mut auth_d = [0u8; 0];
    let sys = Pubkey::default();
    let arg: u16 = kani::any();
    let wp_ai = AccountInfo::new(&wp_key, false, true, &mut wp_l, &mut wp_data, &program_id, false, 0);
    let tier_ai = AccountInfo::new(&tier_key, false, false, &mut tier_l, &mut tier_data, &program_id, false, 0);
    let auth_ai = AccountInfo::new(&auth_key, auth_signer, false, &mut auth_l, &mut auth_d, &sys, false, 0);
    let accounts = [wp_ai, tier_ai, auth_ai];
    let mut slice: &[AccountInfo] = &accounts;
    let mut bumps = <Accs as Bumps>::Bumps::default();
    let mut reallocs = BTreeSet::new();
    let v = Accs::try_accounts(&program_id, &mut slice, &[], &mut bumps, &mut reallocs);
    kani::cover!(v.is_ok(), "validation can pass");
    match v {
        Ok(mut accs) => {
            let pre: Whirlpool = (*accs.whirlpool).clone();
            let r = ::whirlpool::instructions::set_fee_rate_by_delegated_fee_authority::handler(Context::new(&program_id, &mut accs, &[], bumps), arg);
            let post: &Whirlpool = &accs.whirlpool;
            kani::cover!(r.is_ok() && arg == 60_000, "delegated setter accepts the maximum");
            kani::cover!(r.is_err(), "delegated setter rejects");
            match &r {
                Ok(()) => assert!(arg <= REF_MAX_FEE_RATE && post.fee_rate == arg),
                Err(e) => assert!(arg > REF_MAX_FEE_RATE && acode(e) == ecode(ErrorCode::FeeRateMaxExceeded) && post.fee_rate == pre.fee_rate),
            }
            assert!(post.protocol_fee_rate == pre.protocol_fee_rate && same_other_pool_fields(post, &pre));
            if ref_pool_bounds(&pre) {
                assert!(ref_pool_bounds(post));
            }
            core::mem::forget(r);
            core::mem::forget(accs);
        }
        Err(e) => core::mem::forget(e),
    }
}

/// set_default_fee_rate (config, fee tier, authority) on the real Anchor struct + handler: Ok ⇔ rate ≤ 60 000,
/// Ok ⇒ stored, Err ⇒ FeeRateMaxExceeded and unchanged; tick_spacing and config binding untouched.
// @verif prop=C19 tier=thorough timeout=900
#[kani::proof]
#[kani::unwind(34)]
#[kani::stub(alloc::fmt::format, stub_format)]
#[kani::stub(<anchor_lang::error::Error as core::convert::From<::whirlpool::errors::ErrorCode>>::from, stub_err_from_code)]
#[kani::stub(<anchor_lang::error::Error as core::convert::From<anchor_lang::error::ErrorCode>>::from, stub_err_from_anchor_code)]
fn c19_handler_set_default_fee_rate() {
    use ::whirlpool::instructions::SetDefaultFeeRate as Accs;
    let program_id = ::whirlpool::ID;
    let cfg_key = any_key();
    let mut cfg_l = 1u64;
    let mut cfg_data = any_config_bytes();
    let ft_key = any_key();
    let mut ft_l = 1u64;
    let mut ft_data = [0u8; FeeTier::LEN];
    ft_data[..8].copy_from_slice(FeeTier::DISCRIMINATOR);
    let body: [u8; 36] = kani::any();
    ft_data[8..44].copy_from_slice(&body);
    let auth_key = any_key();
    let auth_signer: bool = kani::any();
    let mut auth_l = 1u64;
    let mut auth_d = [0u8; 0];
    let sys = Pubkey::default();
    let arg: u16 = kani::any();
    let cfg_ai = AccountInfo::new(&cfg_key, false, false, &mut cfg_l, &mut cfg_data, &program_id, false, 0);
    let ft_ai = AccountInfo::new(&ft_key, false, true, &mut ft_l, &mut ft_data, &program_id, false, 0);
    let auth_ai = AccountInfo::new(&auth_key, auth_signer, false, &mut auth_l, &mut auth_d, &sys, false, 0);
    let accounts = [cfg_ai, ft_ai, auth_ai];
    let mut slice: &[AccountInfo] = &accounts;
    let mut bumps = <Accs as Bumps>::Bumps::default();
    let mut reallocs = BTreeSet::new();
    let v = Accs::try_accounts(&program_id, &mut slice, &[], &mut bumps, &mut reallocs);
    kani::cover!(v.is_ok(), "validation can pass");
    match v {
        Ok(mut accs) => {
            let pre: FeeTier = (*accs.fee_tier).clone();
            let r = ::whirlpool::instructions::set_default_fee_rate::handler(Context::new(&program_id, &mut accs, &[], bumps), arg);
            let post: &FeeTier = &accs.fee_tier;
            kani::cover!(r.is_ok() && arg == 60_000, "tier setter accepts the maximum");
            kani::cover!(r.is_err(), "tier setter rejects");
            match &r {
                Ok(()) => assert!(arg <= REF_MAX_FEE_RATE && post.default_fee_rate == arg),
                Err(e) => assert!(arg > REF_MAX_FEE_RATE && acode(e) == ecode(ErrorCode::FeeRateMaxExceeded) && post.default_fee_rate == pre.default_fee_rate),
            }
            assert!(post.tick_spacing == pre.tick_spacing && post.whirlpools_config == pre.whirlpools_config);
            core::mem::forget(r);
            core::mem::forget(accs);
        }
        Err(e) => core::mem::forget(e),
    }
}

/// initialize_fee_tier handler on a hand-built `Context<InitializeFeeTier>` (the `init` constraint = System-program CPI
/// and the `seeds=` PDA are outside; the fee-tier account is the zeroed program-owned account `init` produces):
/// Ok ⇔ tick_spacing ≠ 0 ∧ default_fee_rate ≤ 60 000; Ok ⇒ the tier stores exactly these and the config key.
// @verif prop=C19 tier=thorough timeout=900
#[kani::proof]
#[kani::unwind(34)]
#[kani::stub(alloc::fmt::format, stub_format)]
#[kani::stub(<anchor_lang::error::Error as core::convert::From<::whirlpool::errors::ErrorCode>>::from, stub_err_from_code)]
#[kani::stub(<anchor_lang::error::Error as core::convert::From<anchor_lang::error::ErrorCode>>::from, stub_err_from_anchor_code)]
fn c19_handler_initialize_fee_tier() {
    use ::whirlpool::instructions::InitializeFeeTier as Accs;
    let program_id = ::whirlpool::ID;
    let cfg_key = any_key();
    let mut cfg_l = 1u64;
    let mut cfg_data = any_config_bytes();
    let ft_key = any_key();
    let mut ft_l = 1u64;
    let mut ft_data = [0u8; FeeTier::LEN];
    let f_key = any_key();
    let mut f_l = 1u64;
    let mut f_d = [0u8; 0];
    let a_key = any_key();
    let mut a_l = 1u64;
    let mut a_d = [0u8; 0];
    let sys = anchor_lang::system_program::ID;
    let mut s_l = 1u64;
    let mut s_d = [0u8; 0];
    let native_loader = Pubkey::new_from_array([3u8; 32]);
    let tick_spacing: u16 = kani::any();
    let rate: u16 = kani::any();
    let cfg_ai = AccountInfo::new(&cfg_key, false, false, &mut cfg_l, &mut cfg_data, &program_id, false, 0);
    let ft_ai = AccountInfo::new(&ft_key, false, true, &mut ft_l, &mut ft_data, &program_id, false, 0);
    let f_ai = AccountInfo::new(&f_key, true, true, &mut f_l, &mut f_d, &sys, false, 0);
    let a_ai = AccountInfo::new(&a_key, true, false, &mut a_l, &mut a_d, &sys, false, 0);
    let s_ai = AccountInfo::new(&sys, false, false, &mut s_l, &mut s_d, &native_loader, true, 0);
    let mut accs = Accs {
        config: Box::new(Account::try_from(&cfg_ai).unwrap()),
        fee_tier: Account::try_from_unchecked(&ft_ai).unwrap(),
        funder: Signer::try_from(&f_ai).unwrap(),
        fee_authority: Signer::try_from(&a_ai).unwrap(),
        system_program: Program::try_from(&s_ai).unwrap(),
    };
    let bumps = <Accs as Bumps>::Bumps::default();
    let r = ::whirlpool::instructions::initialize_fee_tier::handler(Context::new(&program_id, &mut accs, &[], bumps), tick_spacing, rate);
    kani::cover!(r.is_ok() && rate == 60_000, "tier created at the maximum fee");
    kani::cover!(r.is_err() && tick_spacing != 0, "tier creation rejected for the fee");
    match &r {
        Ok(()) => {
            assert!(tick_spacing != 0 && rate <= REF_MAX_FEE_RATE);
            assert!(accs.fee_tier.tick_spacing == tick_spacing && accs.fee_tier.default_fee_rate == rate);
            assert!(accs.fee_tier.whirlpools_config == cfg_key);
        }
        Err(e) => {
            if tick_spacing == 0 {
                assert!(acode(e) == ecode(ErrorCode::InvalidTickSpacing));
            } else {
                assert!(rate > REF_MAX_FEE_RATE && acode(e) == ecode(ErrorCode::FeeRateMaxExceeded));
            }
        }
    }
    core::mem::forget(r);
    core::mem::forget(accs);
}

/// set_adaptive_fee_constants (pool, config, oracle, fee authority) on the real Anchor struct + handler with
/// `validate_constants` as the recording stub (see (V)/(W)): the constants reaching the oracle are validated against
/// the POOL's tick_spacing (the oracle is bound to the pool by has_one); Ok ⇒ validated ∧ stored ∧ variables reset;
/// Err ⇒ oracle constants unchanged.
// @verif prop=C19 tier=thorough timeout=900
#[kani::proof]
#[kani::unwind(34)]
#[kani::stub(alloc::fmt::format, stub_format)]
#[kani::stub(<anchor_lang::error::Error as core::convert::From<::whirlpool::errors::ErrorCode>>::from, stub_err_from_code)]
#[kani::stub(<anchor_lang::error::Error as core::convert::From<anchor_lang::error::ErrorCode>>::from, stub_err_from_anchor_code)]
#[kani::stub(::whirlpool::state::oracle::AdaptiveFeeConstants::validate_constants, vc::stub_validate_constants)]
fn c19_handler_set_adaptive_fee_constants() {
    use ::whirlpool::instructions::SetAdaptiveFeeConstants as Accs;
    let program_id = ::whirlpool::ID;
    let wp_key = any_key();
    let mut wp_l = 1u64;
    let mut wp_data = any_pool_bytes();
    let pool_ts = rd16(&wp_data, WP_TICK_SPACING);
    let cfg_key = any_key();
    let mut cfg_l = 1u64;
    let mut cfg_data = any_config_bytes();
    let or_key = any_key();
    let mut or_l = 1u64;
    let mut or_data = [0u8; Oracle::LEN];
    or_data[..8].copy_from_slice(Oracle::DISCRIMINATOR);
    let or_body: [u8; 118] = kani::any(); // pool key, timestamp, constants, variables
    or_data[8..126].copy_from_slice(&or_body);
    or_data[66..82].copy_from_slice(&[0u8; 16]); // constants.reserved is always written as zero
    let auth_key = any_key();
    let auth_signer: bool = kani::any();
    let mut auth_l = 1u64;
    let mut auth_d = [0u8; 0];
    let sys = Pubkey::default();
    let a: (Option<u16>, Option<u16>, Option<u16>, Option<u32>, Option<u32>, Option<u16>, Option<u16>) =
        (kani::any(), kani::any(), kani::any(), kani::any(), kani::any(), kani::any(), kani::any());
    let wp_ai = AccountInfo::new(&wp_key, false, false, &mut wp_l, &mut wp_data, &program_id, false, 0);
    let cfg_ai = AccountInfo::new(&cfg_key, false, false, &mut cfg_l, &mut cfg_data, &program_id, false, 0);
    let or_ai = AccountInfo::new(&or_key, false, true, &mut or_l, &mut or_data, &program_id, false, 0);
    let auth_ai = AccountInfo::new(&auth_key, auth_signer, false, &mut auth_l, &mut auth_d, &sys, false, 0);
    let accounts = [wp_ai, cfg_ai, or_ai, auth_ai];
    let mut slice: &[AccountInfo] = &accounts;
    let mut bumps = <Accs as Bumps>::Bumps::default();
    let mut reallocs = BTreeSet::new();
    let v = Accs::try_accounts(&program_id, &mut slice, &[], &mut bumps, &mut reallocs);
    kani::cover!(v.is_ok(), "validation can pass");
    match v {
        Ok(mut accs) => {
            let pre = const_tuple(&accs.oracle.load().unwrap().adaptive_fee_constants);
            let r = ::whirlpool::instructions::set_adaptive_fee_constants::handler(
                Context::new(&program_id, &mut accs, &[], bumps), a.0, a.1, a.2, a.3, a.4, a.5, a.6);
            let o = accs.oracle.load().unwrap();
            let post = const_tuple(&o.adaptive_fee_constants);
            let want: CTuple = (a.0.unwrap_or(pre.0), a.1.unwrap_or(pre.1), a.2.unwrap_or(pre.2), a.3.unwrap_or(pre.3), a.4.unwrap_or(pre.4), a.5.unwrap_or(pre.5), a.6.unwrap_or(pre.6));
            kani::cover!(r.is_ok(), "constants updated");
            kani::cover!(r.is_err() && vc::calls() == 1, "constants rejected by validation");
            match &r {
                Ok(()) => {
                    assert!(vc::calls() == 1 && vc::ret() && vc::args() == with_ts(pool_ts, want));
                    assert!(post == want && want != pre);
                    assert!(o.adaptive_fee_variables == AdaptiveFeeVariables::default());
                    assert!({ o.whirlpool } == wp_key);
                }
                Err(e) => {
                    assert!(post == pre);
                    if vc::calls() == 1 {
                        assert!(!vc::ret() && vc::args() == with_ts(pool_ts, want) && acode(e) == ecode(ErrorCode::InvalidAdaptiveFeeConstants));
                    } else {
                        assert!(vc::calls() == 0 && want == pre && acode(e) == ecode(ErrorCode::AdaptiveFeeConstantsUnchanged));
                    }
                }
            }
            core::mem::forget(r);
        }
        Err(e) => core::mem::forget(e),
    }
}

/// an 82-byte mint without extensions (struct of small arrays for the same reason as `MintImage`)
#[repr(C)]
struct MintBaseImage {
    mint_authority_tag: [u8; 4],
    mint_authority: [u8; 32],
    supply: [u8; 8],
    decimals: u8,
    is_initialized: u8,
    freeze_authority_tag: [u8; 4],
    freeze_authority: [u8; 32],
}
impl MintBaseImage {
    fn any(mint_authority_present: bool, freeze_authority_present: bool) -> Self {
        assert!(core::mem::size_of::<Self>() == 82);
        MintBaseImage {
            mint_authority_tag: [mint_authority_present as u8, 0, 0, 0],
            mint_authority: kani::any(),
            supply: kani::any(),
            decimals: kani::any(),
            is_initialized: 1,
            freeze_authority_tag: [freeze_authority_present as u8, 0, 0, 0],
            freeze_authority: kani::any(),
        }
    }
    fn bytes_mut(&mut self) -> &mut [u8] {
        unsafe { core::slice::from_raw_parts_mut(self as *mut Self as *mut u8, 82) }
    }
}

/// verify_supported_token_mint (the gate called by initialize_pool_v2 / initialize_pool_with_adaptive_fee /
/// initialize_reward_v2) on an extension-less Token-2022 mint WITH a freeze authority and a symbolic badge account
/// (owner, 80 data bytes) for symbolic config / mint keys: Ok ⇔ the badge account is program-owned, has the TokenBadge
/// discriminator and records exactly this config and this mint (and the mint is not native-2022); a missing badge, a
/// badge of another config or of another mint ⇒ UnsupportedTokenMint.
// @verif prop=C19 tier=thorough timeout=900
#[kani::proof]
#[kani::unwind(34)]
#[kani::stub(alloc::fmt::format, stub_format)]
#[kani::stub(<anchor_lang::error::Error as core::convert::From<::whirlpool::errors::ErrorCode>>::from, stub_err_from_code)]
#[kani::stub(<anchor_lang::error::Error as core::convert::From<anchor_lang::error::ErrorCode>>::from, stub_err_from_anchor_code)]
fn c19_verify_mint_needs_matching_badge() {
    let mut mint_img = MintBaseImage::any(true, true); // freeze authority present
    let mint_key: [u8; 32] = kani::any();
    let config: [u8; 32] = kani::any();
    let badge_owner: [u8; 32] = kani::any();
    let mut badge_data: [u8; BADGE_BUF] = kani::any();
    let badge_key = any_key();
    let badge_image = badge_data;
    let mint_pk = Pubkey::new_from_array(mint_key);
    let t22 = anchor_spl::token_2022::ID;
    let mut m_l = 1u64;
    let mint_ai = AccountInfo::new(&mint_pk, false, false, &mut m_l, mint_img.bytes_mut(), &t22, false, 0);
    let mint = InterfaceAccount::<IMint>::try_from(&mint_ai).unwrap();
    let badge_owner_pk = Pubkey::new_from_array(badge_owner);
    let mut b_l = 1u64;
    let badge_ai = AccountInfo::new(&badge_key, false, false, &mut b_l, &mut badge_data[..], &badge_owner_pk, false, 0);
    let badge = UncheckedAccount::try_from(&badge_ai);
    let r = ::whirlpool::util::verify_supported_token_mint(&mint, Pubkey::new_from_array(config), &badge);
    let valid = ref_badge_valid(&badge_owner, &badge_image[..], &config, &mint_key);
    let is_native = mint_key == spl_token_2022::native_mint::id().to_bytes();
    kani::cover!(r.is_ok(), "freeze-authority mint admitted with its badge");
    kani::cover!(r.is_err() && badge_owner == ::whirlpool::ID.to_bytes() && badge_image[..8] == *TokenBadge::DISCRIMINATOR && badge_image[72] == 0 && badge_image[8..40] == config[..], "badge of another mint rejected");
    kani::cover!(r.is_err() && badge_owner == ::whirlpool::ID.to_bytes() && badge_image[..8] == *TokenBadge::DISCRIMINATOR && badge_image[72] == 0 && badge_image[40..72] == mint_key[..], "badge of another config rejected");
    assert!(r.is_ok() == (valid && !is_native));
    if let Err(e) = &r {
        if badge_owner != ::whirlpool::ID.to_bytes() {
            assert!(acode(e) == ecode(ErrorCode::UnsupportedTokenMint));
        }
    }
    core::mem::forget(r);
}

/// reference TLV walk ≡ spl-token-2022's own iterator (`StateWithExtensions::get_extension_types`) on a real mint image
/// with 4 entries of lengths [1,0,2,0] + 3 tail bytes (types, values, tail symbolic): same list / same malformed
/// verdict. Ties the harness-written reference to the library the Token-2022 program itself uses.
// @verif prop=C19 tier=thorough timeout=900 unwindset=memcmp.0:85
#[kani::proof]
#[kani::unwind(7)]
#[kani::stub(alloc::fmt::format, stub_format)]
fn c19_ref_walk_vs_spl_iterator() {
    let mut img = MintImage::<22>::any(true, true);
    img.fix_entry_lengths(&[1, 0, 2, 0]);
    let tlv_copy = img.tlv;
    let st = StateWithExtensions::<spl_token_2022::state::Mint>::unpack(img.bytes_mut()).unwrap();
    let r = st.get_extension_types();
    let w = ref_walk(&tlv_copy[..]);
    kani::cover!(r.is_ok() && w.n == 4, "four extensions listed");
    kani::cover!(r.is_err(), "malformed");
    match &r {
        Ok(v) => {
            assert!(!w.malformed && v.len() == w.n);
            let mut i = 0;
            while i < w.n {
                assert!(u16::from(v[i]) == w.types[i]);
                i += 1;
            }
        }
        Err(_) => assert!(w.malformed),
    }
    core::mem::forget(r);
}

/// vacuity twin: must FAIL — a Token-2022 mint carrying a badge-gated extension is reachable-accepted, so claiming
/// "never accepted" must be refuted
// @verif prop=C19 tier=quick timeout=300 twin unwindset=memcmp.0:85
#[kani::proof]
#[kani::unwind(3)]
#[kani::stub(alloc::fmt::format, stub_format)]
#[kani::stub(<anchor_lang::error::Error as core::convert::From<::whirlpool::errors::ErrorCode>>::from, stub_err_from_code)]
#[kani::stub(<anchor_lang::error::Error as core::convert::From<anchor_lang::error::ErrorCode>>::from, stub_err_from_anchor_code)]
fn c19_twin_must_fail() {
    let o = mint_admission_check::<8>(false, false, Some(&[1]));
    let bad = o.accepted && o.n >= 1 && o.t0 == X_TRANSFER_HOOK;
    assert!(!bad, "twin: a transfer-hook mint with badge is accepted, this must be reported");
}

/// is_supported_token_mint on a Token-2022 mint without freeze authority whose whole TLV area (12 bytes, so ≤ 3
/// entries) is symbolic, lengths included: type numbers known/unknown, lengths fitting/overrunning, truncated tails.
/// Same ⇔ as c19_mint_admission_nofreeze_4_entries.
// @verif prop=C19 tier=thorough timeout=900 unwindset=memcmp.0:85
#[kani::proof]
#[kani::unwind(6)]
#[kani::stub(alloc::fmt::format, stub_format)]
#[kani::stub(<anchor_lang::error::Error as core::convert::From<::whirlpool::errors::ErrorCode>>::from, stub_err_from_code)]
#[kani::stub(<anchor_lang::error::Error as core::convert::From<anchor_lang::error::ErrorCode>>::from, stub_err_from_anchor_code)]
fn c19_mint_admission_symbolic_tlv() {
    let o = mint_admission_check::<12>(false, false, None);
    kani::cover!(o.accepted && o.n == 3, "three extensions accepted");
    kani::cover!(o.accepted && o.n == 1 && o.len0 == 7, "one extension with a 7-byte value and a trailing byte accepted");
    kani::cover!(o.is_err && o.malformed, "malformed TLV is an error");
}
