//! C19 — pools exist only with in-bound parameters and over supported token mints.
//!
//! Part 1: every state method that writes a bounded field (all arguments symbolic).
//! Part 2: handler-level spot checks on real Anchor account structs (thorough tier).
//! Part 3: Token-2022 mint admission (`get_token_extension_types`, `is_supported_token_mint`).
//! Part 4: `is_token_badge_initialized`.
use crate::common::*;
use anchor_lang::prelude::*;
use anchor_lang::Discriminator;
use ::whirlpool::errors::ErrorCode;
use ::whirlpool::math::{MAX_FEE_RATE, MAX_PROTOCOL_FEE_RATE, MAX_SQRT_PRICE_X64, MIN_SQRT_PRICE_X64};
use ::whirlpool::state::*;

// ------------------------------------------------------------------------------------------------
// reference predicates, written from the property text (not from the code)

/// "fee rate is at most 6%" (hundredths of a basis point) / "protocol fee rate at most 25% of fees" (basis points)
const REF_MAX_FEE_RATE: u16 = 60_000;
const REF_MAX_PROTOCOL_FEE_RATE: u16 = 2_500;
/// protocol price bounds (sqrt-price at MIN_TICK_INDEX / MAX_TICK_INDEX, Q64.64)
const REF_MIN_SQRT_PRICE: u128 = 4295048016;
const REF_MAX_SQRT_PRICE: u128 = 79226673515401279992447579055;

/// canonical mint order = strict lexicographic order of the 32 key bytes
fn ref_key_lt(a: &[u8; 32], b: &[u8; 32]) -> bool {
    let mut i = 0;
    while i < 32 {
        if a[i] != b[i] {
            return a[i] < b[i];
        }
        i += 1;
    }
    false
}

/// the bounded pool parameters of the property statement
fn ref_pool_bounds(w: &Whirlpool) -> bool {
    w.fee_rate <= REF_MAX_FEE_RATE
        && w.protocol_fee_rate <= REF_MAX_PROTOCOL_FEE_RATE
        && w.sqrt_price >= REF_MIN_SQRT_PRICE
        && w.sqrt_price <= REF_MAX_SQRT_PRICE
        && w.tick_spacing != 0
        && ref_key_lt(&w.token_mint_a.to_bytes(), &w.token_mint_b.to_bytes())
}

/// "periods ordered, factors below their denominators, group size dividing tick spacing,
/// accumulator times group size within 32 bits"
#[allow(clippy::too_many_arguments)]
fn ref_adaptive_constants_ok(
    tick_spacing: u16,
    filter_period: u16,
    decay_period: u16,
    reduction_factor: u16,
    adaptive_fee_control_factor: u32,
    max_volatility_accumulator: u32,
    tick_group_size: u16,
) -> bool {
    filter_period < decay_period
        && reduction_factor < 10_000
        && adaptive_fee_control_factor < 100_000
        && tick_group_size != 0
        && tick_spacing % tick_group_size == 0
        && (max_volatility_accumulator as u64) * (tick_group_size as u64) <= u32::MAX as u64
}

// ------------------------------------------------------------------------------------------------
// helpers

fn any_key() -> Pubkey {
    Pubkey::new_from_array(kani::any())
}

/// serialized WhirlpoolsConfig with symbolic authorities / default protocol fee rate / flags
fn any_config_bytes() -> [u8; WhirlpoolsConfig::LEN] {
    let mut d = [0u8; WhirlpoolsConfig::LEN];
    d[..8].copy_from_slice(WhirlpoolsConfig::DISCRIMINATOR);
    let a: [u8; 32] = kani::any();
    d[8..40].copy_from_slice(&a);
    let b: [u8; 32] = kani::any();
    d[40..72].copy_from_slice(&b);
    let c: [u8; 32] = kani::any();
    d[72..104].copy_from_slice(&c);
    let r: [u8; 4] = kani::any();
    d[104..108].copy_from_slice(&r);
    d
}

/// a pool in a state satisfying the property's bounds, everything else unconstrained where it matters
fn any_bounded_pool() -> Whirlpool {
    let mut w = Whirlpool::default();
    w.whirlpools_config = any_key();
    w.tick_spacing = kani::any();
    w.fee_tier_index_seed = kani::any();
    w.fee_rate = kani::any();
    w.protocol_fee_rate = kani::any();
    w.liquidity = kani::any();
    w.sqrt_price = kani::any();
    w.tick_current_index = kani::any();
    w.token_mint_a = any_key();
    w.token_mint_b = any_key();
    w
}

fn same_other_pool_fields(a: &Whirlpool, b: &Whirlpool) -> bool {
    a.whirlpools_config == b.whirlpools_config
        && a.tick_spacing == b.tick_spacing
        && a.fee_tier_index_seed == b.fee_tier_index_seed
        && a.liquidity == b.liquidity
        && a.sqrt_price == b.sqrt_price
        && a.tick_current_index == b.tick_current_index
        && a.token_mint_a == b.token_mint_a
        && a.token_mint_b == b.token_mint_b
}

// ================================================================================================
// Part 1 — state methods

/// Whirlpool::initialize over all arguments and any config: Ok ⇔ (mint_a < mint_b ∧ price in bounds ∧ fee ≤ 60 000 ∧
/// config protocol fee ≤ 2 500); Ok ⇒ post-state satisfies every pool bound of the property and stores the arguments;
/// Err carries the documented code in the documented priority. `tick_spacing == 0` is `unreachable!()` in the code
/// (a panic aborts the transaction); the only callers pass FeeTier/AdaptiveFeeTier.tick_spacing, which the tier
/// harnesses below prove non-zero, so it is assumed here. tick_index_from_sqrt_price = memo stub (contract T2).
// @verif prop=C19 tier=quick timeout=300
#[kani::proof]
#[kani::unwind(34)]
#[kani::stub(alloc::fmt::format, stub_format)]
#[kani::stub(<anchor_lang::error::Error as core::convert::From<::whirlpool::errors::ErrorCode>>::from, stub_err_from_code)]
#[kani::stub(<anchor_lang::error::Error as core::convert::From<anchor_lang::error::ErrorCode>>::from, stub_err_from_anchor_code)]
#[kani::stub(::whirlpool::math::tick_math::tick_index_from_sqrt_price, memo::stub_tick_index_from_sqrt_price)]
#[kani::stub(::whirlpool::math::tick_math::sqrt_price_from_tick_index, memo::stub_sqrt_price_from_tick_index)]
fn c19_whirlpool_initialize() {
    let program_id = ::whirlpool::ID;
    let cfg_key = any_key();
    let mut cfg_l = 1u64;
    let mut cfg_data = any_config_bytes();
    let cfg_default_pfr = u16::from_le_bytes([cfg_data[104], cfg_data[105]]);
    let mut w = any_bounded_pool(); // pre-state arbitrary (the handlers pass a zeroed `init` account)
    let fee_tier_index: u16 = kani::any();
    let bump: u8 = kani::any();
    let tick_spacing: u16 = kani::any();
    kani::assume(tick_spacing != 0);
    let sqrt_price: u128 = kani::any();
    let default_fee_rate: u16 = kani::any();
    let mint_a: [u8; 32] = kani::any();
    let mint_b: [u8; 32] = kani::any();
    let vault_a = any_key();
    let vault_b = any_key();
    let flags = WhirlpoolControlFlags::from_bits_truncate(kani::any());

    let cfg_ai = AccountInfo::new(&cfg_key, false, false, &mut cfg_l, &mut cfg_data, &program_id, false, 0);
    let cfg: Account<WhirlpoolsConfig> = Account::try_from(&cfg_ai).unwrap();
    let r = w.initialize(
        &cfg,
        fee_tier_index,
        bump,
        tick_spacing,
        sqrt_price,
        default_fee_rate,
        Pubkey::new_from_array(mint_a),
        vault_a,
        Pubkey::new_from_array(mint_b),
        vault_b,
        flags,
    );
    let order_ok = ref_key_lt(&mint_a, &mint_b);
    let price_ok = sqrt_price >= REF_MIN_SQRT_PRICE && sqrt_price <= REF_MAX_SQRT_PRICE;
    let fee_ok = default_fee_rate <= REF_MAX_FEE_RATE;
    let pfee_ok = cfg_default_pfr <= REF_MAX_PROTOCOL_FEE_RATE;
    kani::cover!(r.is_ok(), "initialize ok");
    kani::cover!(r.is_ok() && sqrt_price == REF_MIN_SQRT_PRICE, "ok at min price");
    kani::cover!(r.is_ok() && sqrt_price == REF_MAX_SQRT_PRICE && default_fee_rate == 60_000, "ok at max price, max fee");
    kani::cover!(r.is_err() && order_ok && price_ok && fee_ok, "protocol fee error reachable");
    match &r {
        Ok(()) => {
            assert!(order_ok && price_ok && fee_ok && pfee_ok);
            assert!(ref_pool_bounds(&w));
            assert!(w.fee_rate == default_fee_rate);
            assert!(w.protocol_fee_rate == cfg_default_pfr);
            assert!(w.sqrt_price == sqrt_price);
            assert!(w.tick_spacing == tick_spacing);
            assert!(w.token_mint_a.to_bytes() == mint_a && w.token_mint_b.to_bytes() == mint_b);
            assert!(w.whirlpools_config == cfg_key);
            assert!(w.liquidity == 0);
            assert!(w.tick_current_index >= MIN_TICK_INDEX && w.tick_current_index <= MAX_TICK_INDEX);
            assert!(w.fee_tier_index_seed == fee_tier_index.to_le_bytes());
        }
        Err(e) => {
            let c = acode(e);
            if !order_ok {
                assert!(c == ecode(ErrorCode::InvalidTokenMintOrder));
            } else if !price_ok {
                assert!(c == ecode(ErrorCode::SqrtPriceOutOfBounds));
            } else if !fee_ok {
                assert!(c == ecode(ErrorCode::FeeRateMaxExceeded));
            } else {
                assert!(!pfee_ok);
                assert!(c == ecode(ErrorCode::ProtocolFeeRateMaxExceeded));
            }
        }
    }
    core::mem::forget(r);
}

/// Whirlpool::update_fee_rate / update_protocol_fee_rate, inductive form: from any pool (bounded or not) and any
/// argument: Ok ⇔ argument within its bound; Ok ⇒ field == argument; Err ⇒ documented code and the pool is unchanged;
/// neither touches any other bounded field; hence pool bounds before ⇒ pool bounds after.
// @verif prop=C19 tier=quick timeout=300
#[kani::proof]
#[kani::unwind(34)]
#[kani::stub(alloc::fmt::format, stub_format)]
#[kani::stub(<anchor_lang::error::Error as core::convert::From<::whirlpool::errors::ErrorCode>>::from, stub_err_from_code)]
fn c19_whirlpool_fee_setters() {
    let mut w = any_bounded_pool();
    let before_bounds = ref_pool_bounds(&w);
    let w0 = w.clone();
    let x: u16 = kani::any();
    let y: u16 = kani::any();
    let r1 = w.update_fee_rate(x);
    kani::cover!(r1.is_ok() && x == 60_000, "max fee accepted");
    kani::cover!(r1.is_err(), "fee rejected");
    match &r1 {
        Ok(()) => assert!(x <= REF_MAX_FEE_RATE && w.fee_rate == x),
        Err(e) => assert!(x > REF_MAX_FEE_RATE && acode(e) == ecode(ErrorCode::FeeRateMaxExceeded) && w.fee_rate == w0.fee_rate),
    }
    assert!(w.protocol_fee_rate == w0.protocol_fee_rate && same_other_pool_fields(&w, &w0));
    let w1 = w.clone();
    let r2 = w.update_protocol_fee_rate(y);
    kani::cover!(r2.is_ok() && y == 2_500, "max protocol fee accepted");
    kani::cover!(r2.is_err(), "protocol fee rejected");
    match &r2 {
        Ok(()) => assert!(y <= REF_MAX_PROTOCOL_FEE_RATE && w.protocol_fee_rate == y),
        Err(e) => assert!(
            y > REF_MAX_PROTOCOL_FEE_RATE
                && acode(e) == ecode(ErrorCode::ProtocolFeeRateMaxExceeded)
                && w.protocol_fee_rate == w1.protocol_fee_rate
        ),
    }
    assert!(w.fee_rate == w1.fee_rate && same_other_pool_fields(&w, &w0));
    if before_bounds {
        assert!(ref_pool_bounds(&w));
    }
    core::mem::forget(r1);
    core::mem::forget(r2);
}

/// WhirlpoolsConfig::initialize / update_default_protocol_fee_rate: Ok ⇔ rate ≤ 2 500, Ok ⇒ stored; the setter's Err
/// leaves the config unchanged; authority setters and feature flags never touch the rate (bound before ⇒ bound after).
// @verif prop=C19 tier=quick timeout=300
#[kani::proof]
#[kani::unwind(34)]
#[kani::stub(alloc::fmt::format, stub_format)]
#[kani::stub(<anchor_lang::error::Error as core::convert::From<::whirlpool::errors::ErrorCode>>::from, stub_err_from_code)]
fn c19_config_writers() {
    let mut c = WhirlpoolsConfig {
        fee_authority: any_key(),
        collect_protocol_fees_authority: any_key(),
        reward_emissions_super_authority: any_key(),
        default_protocol_fee_rate: kani::any(),
        feature_flags: kani::any(),
    };
    let init_rate: u16 = kani::any();
    let (a1, a2, a3) = (any_key(), any_key(), any_key());
    let set_rate: u16 = kani::any();
    let flag_on: bool = kani::any();
    let k = any_key();
    let which: u8 = kani::any();
    let step_rate: u16 = kani::any();

    let r0 = c.initialize(a1, a2, a3, init_rate);
    kani::cover!(r0.is_ok() && init_rate == 2_500, "config init at max");
    kani::cover!(r0.is_err(), "config init rejected");
    match &r0 {
        Ok(()) => assert!(init_rate <= REF_MAX_PROTOCOL_FEE_RATE && c.default_protocol_fee_rate == init_rate && c.fee_authority == a1),
        Err(e) => assert!(init_rate > REF_MAX_PROTOCOL_FEE_RATE && acode(e) == ecode(ErrorCode::ProtocolFeeRateMaxExceeded)),
    }
    // inductive step from an arbitrary bounded config
    c.default_protocol_fee_rate = step_rate;
    kani::assume(c.default_protocol_fee_rate <= REF_MAX_PROTOCOL_FEE_RATE);
    let before = c.default_protocol_fee_rate;
    let r1 = c.update_default_protocol_fee_rate(set_rate);
    kani::cover!(r1.is_ok() && set_rate == 2_500, "config set at max");
    kani::cover!(r1.is_err(), "config set rejected");
    match &r1 {
        Ok(()) => assert!(set_rate <= REF_MAX_PROTOCOL_FEE_RATE && c.default_protocol_fee_rate == set_rate),
        Err(e) => assert!(
            set_rate > REF_MAX_PROTOCOL_FEE_RATE
                && acode(e) == ecode(ErrorCode::ProtocolFeeRateMaxExceeded)
                && c.default_protocol_fee_rate == before
        ),
    }
    let mid = c.default_protocol_fee_rate;
    match which % 4 {
        0 => c.update_fee_authority(k),
        1 => c.update_collect_protocol_fees_authority(k),
        2 => c.update_reward_emissions_super_authority(k),
        _ => {
            let r = c.update_feature_flags(ConfigFeatureFlag::TokenBadge(flag_on));
            assert!(r.is_ok());
        }
    }
    assert!(c.default_protocol_fee_rate == mid && mid <= REF_MAX_PROTOCOL_FEE_RATE);
    core::mem::forget(r0);
    core::mem::forget(r1);
}

/// FeeTier::initialize / update_default_fee_rate: Ok ⇔ tick_spacing ≠ 0 ∧ rate ≤ 60 000 (initialize), rate ≤ 60 000
/// (setter); Ok ⇒ stored values, tier bound to the config key; setter Err ⇒ tier unchanged; tick_spacing never rewritten.
// @verif prop=C19 tier=quick timeout=300
#[kani::proof]
#[kani::unwind(34)]
#[kani::stub(alloc::fmt::format, stub_format)]
#[kani::stub(<anchor_lang::error::Error as core::convert::From<::whirlpool::errors::ErrorCode>>::from, stub_err_from_code)]
#[kani::stub(<anchor_lang::error::Error as core::convert::From<anchor_lang::error::ErrorCode>>::from, stub_err_from_anchor_code)]
fn c19_fee_tier_writers() {
    let program_id = ::whirlpool::ID;
    let cfg_key = any_key();
    let mut cfg_l = 1u64;
    let mut cfg_data = any_config_bytes();
    let mut t = FeeTier { whirlpools_config: any_key(), tick_spacing: kani::any(), default_fee_rate: kani::any() };
    let ts: u16 = kani::any();
    let rate: u16 = kani::any();
    let rate2: u16 = kani::any();
    let step_ts: u16 = kani::any();
    let step_rate: u16 = kani::any();
    let cfg_ai = AccountInfo::new(&cfg_key, false, false, &mut cfg_l, &mut cfg_data, &program_id, false, 0);
    let cfg: Account<WhirlpoolsConfig> = Account::try_from(&cfg_ai).unwrap();

    let r0 = t.initialize(&cfg, ts, rate);
    kani::cover!(r0.is_ok() && rate == 60_000 && ts == 1, "tier init at max fee");
    kani::cover!(r0.is_err() && ts != 0, "tier init fee rejected");
    match &r0 {
        Ok(()) => assert!(ts != 0 && rate <= REF_MAX_FEE_RATE && t.tick_spacing == ts && t.default_fee_rate == rate && t.whirlpools_config == cfg_key),
        Err(e) => {
            if ts == 0 {
                assert!(acode(e) == ecode(ErrorCode::InvalidTickSpacing));
            } else {
                assert!(rate > REF_MAX_FEE_RATE && acode(e) == ecode(ErrorCode::FeeRateMaxExceeded));
            }
        }
    }
    // inductive step from an arbitrary bounded tier
    t.tick_spacing = step_ts;
    t.default_fee_rate = step_rate;
    kani::assume(t.tick_spacing != 0 && t.default_fee_rate <= REF_MAX_FEE_RATE);
    let (ts0, f0) = (t.tick_spacing, t.default_fee_rate);
    let r1 = t.update_default_fee_rate(rate2);
    kani::cover!(r1.is_ok() && rate2 == 60_000, "tier set at max");
    kani::cover!(r1.is_err(), "tier set rejected");
    match &r1 {
        Ok(()) => assert!(rate2 <= REF_MAX_FEE_RATE && t.default_fee_rate == rate2),
        Err(e) => assert!(rate2 > REF_MAX_FEE_RATE && acode(e) == ecode(ErrorCode::FeeRateMaxExceeded) && t.default_fee_rate == f0),
    }
    assert!(t.tick_spacing == ts0 && t.default_fee_rate <= REF_MAX_FEE_RATE);
    core::mem::forget(r0);
    core::mem::forget(r1);
}

// The adaptive-fee constants are decided compositionally, because two copies of a 16-bit remainder by a symbolic
// divisor (code + reference) do not close under SAT (> 10 min) while z3's bit-vector theory shares the term (9 s):
//   (V)  the real `validate_constants(args)` ⇒ the validity rules of the property text   [c19_validate_constants_rules, z3]
//   (W)  every writer stores constants only after `validate_constants(self.tick_spacing, exactly those constants)`
//        returned true — in the writer harnesses `validate_constants` is an uninterpreted recording stub.
mod vc {
    pub type Args = (u16, u16, u16, u16, u32, u32, u16, u16);
    pub static mut CALLS: u8 = 0;
    pub static mut ARGS: Args = (0, 0, 0, 0, 0, 0, 0, 0);
    pub static mut RET: bool = false;
    /// uninterpreted `AdaptiveFeeConstants::validate_constants`: arbitrary verdict, call recorded
    #[allow(clippy::too_many_arguments)]
    pub fn stub_validate_constants(ts: u16, fp: u16, dp: u16, rf: u16, cf: u32, mva: u32, tgs: u16, mst: u16) -> bool {
        let b: bool = kani::any();
        unsafe {
            CALLS += 1;
            ARGS = (ts, fp, dp, rf, cf, mva, tgs, mst);
            RET = b;
        }
        b
    }
    pub fn calls() -> u8 {
        unsafe { CALLS }
    }
    pub fn args() -> Args {
        unsafe { ARGS }
    }
    pub fn ret() -> bool {
        unsafe { RET }
    }
}

/// (V) the real AdaptiveFeeConstants::validate_constants on all 8 arguments: true ⇒ filter_period < decay_period,
/// reduction_factor < 10 000, adaptive_fee_control_factor < 100 000, tick_group_size ≠ 0 divides tick_spacing,
/// max_volatility_accumulator × tick_group_size ≤ u32::MAX (reference predicate written from the property text);
/// additionally (code rule beyond the text) filter_period ≥ 1, tick_spacing ≠ 0 and 1 ≤ major_swap_threshold ≤ 88·spacing.
// @verif prop=C19 tier=quick timeout=300
#[kani::proof]
#[kani::solver(z3)]
fn c19_validate_constants_rules() {
    let ts: u16 = kani::any();
    let fp: u16 = kani::any();
    let dp: u16 = kani::any();
    let rf: u16 = kani::any();
    let cf: u32 = kani::any();
    let mva: u32 = kani::any();
    let tgs: u16 = kani::any();
    let mst: u16 = kani::any();
    let v = AdaptiveFeeConstants::validate_constants(ts, fp, dp, rf, cf, mva, tgs, mst);
    kani::cover!(v, "some constants are valid");
    kani::cover!(v && tgs == ts && rf == 9_999 && cf == 99_999 && fp + 1 == dp, "valid at the edges");
    kani::cover!(v && tgs > 1 && tgs < ts, "valid with a proper divisor");
    if v {
        assert!(ref_adaptive_constants_ok(ts, fp, dp, rf, cf, mva, tgs));
        assert!(fp >= 1 && ts != 0 && mst >= 1 && (mst as u32) <= ts as u32 * 88);
    }
}

type CTuple = (u16, u16, u16, u32, u32, u16, u16);
fn tier_tuple(t: &AdaptiveFeeTier) -> CTuple {
    (t.filter_period, t.decay_period, t.reduction_factor, t.adaptive_fee_control_factor, t.max_volatility_accumulator, t.tick_group_size, t.major_swap_threshold_ticks)
}
fn const_tuple(c: &AdaptiveFeeConstants) -> CTuple {
    (c.filter_period, c.decay_period, c.reduction_factor, c.adaptive_fee_control_factor, c.max_volatility_accumulator, c.tick_group_size, c.major_swap_threshold_ticks)
}
fn with_ts(ts: u16, c: CTuple) -> vc::Args {
    (ts, c.0, c.1, c.2, c.3, c.4, c.5, c.6)
}

fn any_adaptive_tier() -> AdaptiveFeeTier {
    AdaptiveFeeTier {
        whirlpools_config: any_key(),
        fee_tier_index: kani::any(),
        tick_spacing: kani::any(),
        initialize_pool_authority: any_key(),
        delegated_fee_authority: any_key(),
        default_base_fee_rate: kani::any(),
        filter_period: kani::any(),
        decay_period: kani::any(),
        reduction_factor: kani::any(),
        adaptive_fee_control_factor: kani::any(),
        max_volatility_accumulator: kani::any(),
        tick_group_size: kani::any(),
        major_swap_threshold_ticks: kani::any(),
    }
}

/// (W) AdaptiveFeeTier::initialize over all arguments: Ok ⇔ fee_tier_index ≠ tick_spacing ∧ tick_spacing ≠ 0 ∧ base fee
/// ≤ 60 000 ∧ validate_constants(tick_spacing, the 7 constants) returned true; Ok ⇒ all arguments stored; otherwise
/// the documented Err in the documented priority. validate_constants = recording stub (see (V)).
// @verif prop=C19 tier=quick timeout=300
#[kani::proof]
#[kani::unwind(34)]
#[kani::stub(alloc::fmt::format, stub_format)]
#[kani::stub(<anchor_lang::error::Error as core::convert::From<::whirlpool::errors::ErrorCode>>::from, stub_err_from_code)]
#[kani::stub(<anchor_lang::error::Error as core::convert::From<anchor_lang::error::ErrorCode>>::from, stub_err_from_anchor_code)]
#[kani::stub(::whirlpool::state::oracle::AdaptiveFeeConstants::validate_constants, vc::stub_validate_constants)]
fn c19_adaptive_tier_initialize() {
    let program_id = ::whirlpool::ID;
    let cfg_key = any_key();
    let mut cfg_l = 1u64;
    let mut cfg_data = any_config_bytes();
    let mut t = any_adaptive_tier();
    let idx: u16 = kani::any();
    let ts: u16 = kani::any();
    let (ipa, dfa) = (any_key(), any_key());
    let rate: u16 = kani::any();
    let c: CTuple = (kani::any(), kani::any(), kani::any(), kani::any(), kani::any(), kani::any(), kani::any());
    let cfg_ai = AccountInfo::new(&cfg_key, false, false, &mut cfg_l, &mut cfg_data, &program_id, false, 0);
    let cfg: Account<WhirlpoolsConfig> = Account::try_from(&cfg_ai).unwrap();

    let r = t.initialize(&cfg, idx, ts, ipa, dfa, rate, c.0, c.1, c.2, c.3, c.4, c.5, c.6);
    kani::cover!(r.is_ok(), "adaptive tier init ok");
    kani::cover!(r.is_ok() && rate == 60_000, "adaptive tier init at max base fee");
    kani::cover!(r.is_err() && idx != ts && ts != 0 && rate <= 60_000, "constants rejected");
    match &r {
        Ok(()) => {
            assert!(ts != 0 && idx != ts && rate <= REF_MAX_FEE_RATE);
            assert!(vc::calls() == 1 && vc::ret() && vc::args() == with_ts(ts, c));
            assert!(t.tick_spacing == ts && t.fee_tier_index == idx && t.default_base_fee_rate == rate);
            assert!(t.whirlpools_config == cfg_key && t.initialize_pool_authority == ipa && t.delegated_fee_authority == dfa);
            assert!(tier_tuple(&t) == c);
        }
        Err(e) => {
            let code = acode(e);
            if idx == ts {
                assert!(code == ecode(ErrorCode::InvalidFeeTierIndex));
            } else if ts == 0 {
                assert!(code == ecode(ErrorCode::InvalidTickSpacing));
            } else if rate > REF_MAX_FEE_RATE {
                assert!(code == ecode(ErrorCode::FeeRateMaxExceeded));
            } else {
                assert!(code == ecode(ErrorCode::InvalidAdaptiveFeeConstants));
                assert!(vc::calls() == 1 && !vc::ret() && vc::args() == with_ts(ts, c));
            }
        }
    }
    core::mem::forget(r);
}

/// (W) AdaptiveFeeTier setters, inductive form: from any tier, update_default_base_fee_rate: Ok ⇔ rate ≤ 60 000, Err ⇒
/// unchanged; update_adaptive_fee_constants: stores exactly the arguments iff validate_constants(self.tick_spacing,
/// arguments) returned true, otherwise InvalidAdaptiveFeeConstants and constants unchanged; tick_spacing is never
/// rewritten; authority setters touch neither. Hence (spacing ≠ 0 ∧ fee bound ∧ constants validated for this spacing)
/// is preserved. validate_constants = recording stub (see (V)).
// @verif prop=C19 tier=quick timeout=300
#[kani::proof]
#[kani::unwind(34)]
#[kani::stub(alloc::fmt::format, stub_format)]
#[kani::stub(<anchor_lang::error::Error as core::convert::From<::whirlpool::errors::ErrorCode>>::from, stub_err_from_code)]
#[kani::stub(::whirlpool::state::oracle::AdaptiveFeeConstants::validate_constants, vc::stub_validate_constants)]
fn c19_adaptive_tier_setters() {
    let mut t = any_adaptive_tier();
    let rate: u16 = kani::any();
    let c: CTuple = (kani::any(), kani::any(), kani::any(), kani::any(), kani::any(), kani::any(), kani::any());
    let k = any_key();
    let which: bool = kani::any();
    let ts0 = t.tick_spacing;
    let f0 = t.default_base_fee_rate;
    let old = tier_tuple(&t);

    let r1 = t.update_default_base_fee_rate(rate);
    kani::cover!(r1.is_ok() && rate == 60_000, "base fee at max");
    kani::cover!(r1.is_err(), "base fee rejected");
    match &r1 {
        Ok(()) => assert!(rate <= REF_MAX_FEE_RATE && t.default_base_fee_rate == rate),
        Err(e) => assert!(rate > REF_MAX_FEE_RATE && acode(e) == ecode(ErrorCode::FeeRateMaxExceeded) && t.default_base_fee_rate == f0),
    }
    assert!(tier_tuple(&t) == old && t.tick_spacing == ts0 && vc::calls() == 0);
    let f1 = t.default_base_fee_rate;

    let r2 = t.update_adaptive_fee_constants(c.0, c.1, c.2, c.3, c.4, c.5, c.6);
    kani::cover!(r2.is_ok(), "constants accepted");
    kani::cover!(r2.is_err(), "constants rejected");
    assert!(vc::calls() == 1 && vc::args() == with_ts(ts0, c));
    match &r2 {
        Ok(()) => assert!(vc::ret() && tier_tuple(&t) == c),
        Err(e) => assert!(!vc::ret() && acode(e) == ecode(ErrorCode::InvalidAdaptiveFeeConstants) && tier_tuple(&t) == old),
    }
    let mid = tier_tuple(&t);
    if which {
        t.update_initialize_pool_authority(k);
    } else {
        t.update_delegated_fee_authority(k);
    }
    assert!(tier_tuple(&t) == mid && t.tick_spacing == ts0 && t.default_base_fee_rate == f1);
    if f0 <= REF_MAX_FEE_RATE {
        assert!(t.default_base_fee_rate <= REF_MAX_FEE_RATE);
    }
    core::mem::forget(r1);
    core::mem::forget(r2);
}

fn any_constants() -> AdaptiveFeeConstants {
    AdaptiveFeeConstants {
        filter_period: kani::any(),
        decay_period: kani::any(),
        reduction_factor: kani::any(),
        adaptive_fee_control_factor: kani::any(),
        max_volatility_accumulator: kani::any(),
        tick_group_size: kani::any(),
        major_swap_threshold_ticks: kani::any(),
        reserved: [0u8; 16],
    }
}

/// (W) Oracle::initialize and Oracle::initialize_adaptive_fee_constants (the writer behind set_adaptive_fee_constants):
/// constants are stored iff validate_constants(tick_spacing argument, those constants) returned true; otherwise
/// InvalidAdaptiveFeeConstants and the stored constants are unchanged; initialize also resets the variables and
/// binds the pool key. validate_constants = recording stub (see (V)). That the tick_spacing argument is the pool's is
/// checked on the handlers (c19_handler_set_adaptive_fee_constants; initialize_pool_with_adaptive_fee by reading: both
/// Whirlpool::initialize and Oracle::initialize receive adaptive_fee_tier.tick_spacing).
// @verif prop=C19 tier=quick timeout=300
#[kani::proof]
#[kani::unwind(34)]
#[kani::stub(alloc::fmt::format, stub_format)]
#[kani::stub(<anchor_lang::error::Error as core::convert::From<::whirlpool::errors::ErrorCode>>::from, stub_err_from_code)]
#[kani::stub(::whirlpool::state::oracle::AdaptiveFeeConstants::validate_constants, vc::stub_validate_constants)]
fn c19_oracle_writers() {
    let mut o = Oracle::default();
    o.adaptive_fee_constants = any_constants();
    o.adaptive_fee_variables.volatility_accumulator = kani::any();
    let pool = any_key();
    let tet: Option<u64> = kani::any();
    let ts: u16 = kani::any();
    let ts2: u16 = kani::any();
    let c1 = any_constants();
    let c2 = any_constants();
    let before0 = o.adaptive_fee_constants;

    let r0 = o.initialize(
        pool,
        tet,
        ts,
        c1.filter_period,
        c1.decay_period,
        c1.reduction_factor,
        c1.adaptive_fee_control_factor,
        c1.max_volatility_accumulator,
        c1.tick_group_size,
        c1.major_swap_threshold_ticks,
    );
    kani::cover!(r0.is_ok(), "oracle init ok");
    kani::cover!(r0.is_err(), "oracle init rejected");
    assert!(vc::calls() == 1 && vc::args() == with_ts(ts, const_tuple(&c1)));
    match &r0 {
        Ok(()) => {
            assert!(vc::ret());
            assert!(o.adaptive_fee_constants == c1);
            assert!(o.adaptive_fee_variables == AdaptiveFeeVariables::default());
            assert!({ o.whirlpool } == pool);
        }
        Err(e) => assert!(!vc::ret() && acode(e) == ecode(ErrorCode::InvalidAdaptiveFeeConstants) && o.adaptive_fee_constants == before0),
    }
    let before = o.adaptive_fee_constants;
    let r1 = o.initialize_adaptive_fee_constants(c2, ts2);
    kani::cover!(r1.is_ok(), "oracle constants accepted");
    kani::cover!(r1.is_err(), "oracle constants rejected");
    assert!(vc::calls() == 2 && vc::args() == with_ts(ts2, const_tuple(&c2)));
    match &r1 {
        Ok(()) => assert!(vc::ret() && o.adaptive_fee_constants == c2),
        Err(e) => assert!(!vc::ret() && acode(e) == ecode(ErrorCode::InvalidAdaptiveFeeConstants) && o.adaptive_fee_constants == before),
    }
    core::mem::forget(r0);
    core::mem::forget(r1);
}
