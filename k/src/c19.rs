//! C19 harnesses (Engine K)
