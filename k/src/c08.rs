//! C08 harnesses (Engine K)
