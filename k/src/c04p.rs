//! C04 / C15 — the Pinocchio-dispatched instructions (all six rows of `PINOCCHIO_INSTRUCTIONS` in
//! `/repo/programs/whirlpool/src/entrypoint.rs`) and the Pinocchio account helpers.
//!
//! Handler harnesses run the REAL handler over raw symbolic account memory (every account: key, owner,
//! signer flag, writable flag and all data bytes `kani::any()`).
//!  * `*_prefix`: `Clock::get` (the first sysvar call, placed by every handler after the whole validation
//!    block) is stubbed to set `REACHED` and return `Err`: "validation passed => consequences".
//!  * `*_tick_arrays`: `Clock::get` succeeds with an arbitrary timestamp, the handler goes on to
//!    `TickArraysMut::load` (where tick-array ownership / back-reference is checked) and is cut at the next
//!    callee, `pino_calculate_modify_liquidity`, whose stub records the `whirlpool()` back-reference of the
//!    two arrays it was handed.
use crate::common::*;
use pinocchio::account_info::AccountInfo;
use pinocchio::program_error::ProgramError;
use pinocchio::sysvars::clock::Clock;
use ::whirlpool::pinocchio::constants::address::{
    MEMO_PROGRAM_ID, SYSTEM_PROGRAM_ID, TOKEN_2022_PROGRAM_ID, TOKEN_PROGRAM_ID, WHIRLPOOL_PROGRAM_ID,
};
use ::whirlpool::pinocchio::errors::UnifiedError;
use ::whirlpool::pinocchio::ported::manager_liquidity_manager::PinoModifyLiquidityUpdate;
use ::whirlpool::pinocchio::state::token::MemoryMappedTokenAccount;
use ::whirlpool::pinocchio::state::whirlpool::tick_array::loader::{load_tick_array, load_tick_array_mut};
use ::whirlpool::pinocchio::state::whirlpool::{
    MemoryMappedPosition, MemoryMappedWhirlpool, TickArray,
};
use ::whirlpool::pinocchio::utils::account_info_iter::AccountIterator;
use ::whirlpool::pinocchio::utils::account_load::{load_account, load_account_mut, load_token_program_account};
use ::whirlpool::pinocchio::utils::verify::{verify_address, verify_constraint};

type PResult<T> = core::result::Result<T, UnifiedError>;

// ---------------------------------------------------------------------------------------------
// raw account memory, laid out exactly as `pinocchio::account_info::Account` followed by the data
#[repr(C)]
pub struct Raw<const N: usize> {
    borrow_state: u8,
    is_signer: u8,
    is_writable: u8,
    executable: u8,
    resize_delta: i32,
    key: [u8; 32],
    owner: [u8; 32],
    lamports: u64,
    data_len: u64,
    data: [u8; N],
}
/// fully symbolic account with `N` data bytes (not borrowed, as at instruction start)
fn raw<const N: usize>() -> Raw<N> {
    Raw {
        borrow_state: 0xff,
        is_signer: kani::any::<bool>() as u8,
        is_writable: kani::any::<bool>() as u8,
        executable: kani::any::<bool>() as u8,
        resize_delta: 0,
        key: kani::any(),
        owner: kani::any(),
        lamports: kani::any(),
        data_len: N as u64,
        data: kani::any(),
    }
}
/// as `raw`, with a symbolic data length `<= N`
fn raw_len<const N: usize>() -> Raw<N> {
    let mut r = raw::<N>();
    let l: u64 = kani::any();
    kani::assume(l <= N as u64);
    r.data_len = l;
    r
}
unsafe fn ai<const N: usize>(r: *mut Raw<N>) -> AccountInfo {
    let mut slot = core::mem::MaybeUninit::<AccountInfo>::uninit();
    (slot.as_mut_ptr() as *mut *mut Raw<N>).write(r);
    slot.assume_init()
}

// byte offsets (pinocchio/state/whirlpool/whirlpool.rs, position.rs; spl token account)
const WP_MINT_A: usize = 101;
const WP_VAULT_A: usize = 133;
const WP_MINT_B: usize = 181;
const WP_VAULT_B: usize = 213;
const POS_WHIRLPOOL: usize = 8;
const POS_MINT: usize = 40;
const POS_LIQUIDITY: usize = 72;
const FIXED_TA_LEN: usize = 9988; // FixedTickArray::LEN
const FIXED_TA_WHIRLPOOL: usize = 9956;
const DYN_TA_WHIRLPOOL: usize = 12;
const WP_DISC: [u8; 8] = [0x3f, 0x95, 0xd1, 0x0c, 0xe1, 0x80, 0x63, 0x09];
const POS_DISC: [u8; 8] = [0xaa, 0xbc, 0x8f, 0xe4, 0x7a, 0x40, 0xf7, 0xd0];

fn key_at(d: &[u8], off: usize) -> [u8; 32] {
    let mut k = [0u8; 32];
    k.copy_from_slice(&d[off..off + 32]);
    k
}
fn u64_at(d: &[u8], off: usize) -> u64 {
    let mut k = [0u8; 8];
    k.copy_from_slice(&d[off..off + 8]);
    u64::from_le_bytes(k)
}

/// C04: `authority` signed and is the token account's owner, or its delegate with delegated_amount == 1
fn authority_controls(pos_token: &[u8], authority_key: &[u8; 32], authority_signer: u8) -> bool {
    let is_owner = key_at(pos_token, 32) == *authority_key;
    let is_delegate = pos_token[72] == 1 && key_at(pos_token, 76) == *authority_key;
    let delegated_amount = u64_at(pos_token, 121);
    authority_signer != 0 && (is_owner || (is_delegate && delegated_amount == 1))
}

/// consequences common to all six handlers (C04: authority; C15: pool / position / token account / vaults)
fn assert_common<const T: usize>(
    whirlpool: &Raw<653>,
    authority: &Raw<0>,
    position: &Raw<216>,
    pos_token: &Raw<T>,
    vault_a: &Raw<165>,
    vault_b: &Raw<165>,
) {
    // C04
    assert!(authority.is_signer != 0, "authority signed");
    assert!(
        authority_controls(&pos_token.data, &authority.key, authority.is_signer),
        "authority is owner or one-token delegate"
    );
    assert!(u64_at(&pos_token.data, 64) == 1, "position token amount == 1");
    assert!(key_at(&pos_token.data, 0) == key_at(&position.data, POS_MINT), "token account mint == position mint");
    assert!(
        pos_token.owner == TOKEN_PROGRAM_ID || pos_token.owner == TOKEN_2022_PROGRAM_ID,
        "token account owned by a token program"
    );
    assert!(pos_token.data_len > 108 && pos_token.data[108] != 0, "token account initialized");
    // C15
    assert!(whirlpool.owner == WHIRLPOOL_PROGRAM_ID && whirlpool.owner == ::whirlpool::ID.to_bytes());
    assert!(whirlpool.data[0..8] == WP_DISC);
    assert!(whirlpool.is_writable != 0);
    assert!(position.owner == WHIRLPOOL_PROGRAM_ID);
    assert!(position.data[0..8] == POS_DISC);
    assert!(position.is_writable != 0);
    assert!(key_at(&position.data, POS_WHIRLPOOL) == whirlpool.key, "position belongs to the pool");
    assert!(vault_a.key == key_at(&whirlpool.data, WP_VAULT_A), "vault A is the pool's");
    assert!(vault_b.key == key_at(&whirlpool.data, WP_VAULT_B), "vault B is the pool's");
    assert!(vault_a.is_writable != 0 && vault_b.is_writable != 0);
}

/// v2 extras (C15): mints are the pool's, each token program is SPL Token / Token-2022 and owns its mint, memo id
fn assert_v2(
    whirlpool: &Raw<653>,
    tp_a: &Raw<0>,
    tp_b: &Raw<0>,
    memo: &Raw<0>,
    mint_a: &Raw<82>,
    mint_b: &Raw<82>,
) {
    assert!(mint_a.key == key_at(&whirlpool.data, WP_MINT_A), "mint A is the pool's");
    assert!(mint_b.key == key_at(&whirlpool.data, WP_MINT_B), "mint B is the pool's");
    assert!(tp_a.key == TOKEN_PROGRAM_ID || tp_a.key == TOKEN_2022_PROGRAM_ID);
    assert!(tp_b.key == TOKEN_PROGRAM_ID || tp_b.key == TOKEN_2022_PROGRAM_ID);
    assert!(tp_a.key == mint_a.owner, "token program A owns mint A");
    assert!(tp_b.key == mint_b.owner, "token program B owns mint B");
    assert!(memo.key == MEMO_PROGRAM_ID);
}

// ---------------------------------------------------------------------------------------------
// stubs
static mut REACHED: bool = false;
/// prefix cut: the first sysvar call
fn stub_clock_get_cut() -> Result<Clock, ProgramError> {
    unsafe {
        REACHED = true;
    }
    Err(ProgramError::UnsupportedSysvar)
}
/// stage 2: the sysvar call succeeds with an arbitrary clock
fn stub_clock_get_any() -> Result<Clock, ProgramError> {
    Ok(Clock {
        slot: kani::any(),
        epoch_start_timestamp: kani::any(),
        epoch: kani::any(),
        leader_schedule_epoch: kani::any(),
        unix_timestamp: kani::any(),
    })
}

static mut CALLS: usize = 0;
static mut SEEN_LOWER: [[u8; 32]; 2] = [[0; 32]; 2];
static mut SEEN_UPPER: [[u8; 32]; 2] = [[0; 32]; 2];
/// stage-2 cut: records the back-reference of the tick arrays the handler is about to act on, then fails
fn stub_calc_modify_cut(
    _whirlpool: &MemoryMappedWhirlpool,
    _position: &MemoryMappedPosition,
    tick_array_lower: &dyn TickArray,
    tick_array_upper: &dyn TickArray,
    _liquidity_delta: i128,
    _timestamp: u64,
) -> PResult<PinoModifyLiquidityUpdate> {
    unsafe {
        assert!(CALLS < 2);
        SEEN_LOWER[CALLS] = *tick_array_lower.whirlpool();
        SEEN_UPPER[CALLS] = *tick_array_upper.whirlpool();
        CALLS += 1;
    }
    Err(UnifiedError::Pinocchio(ProgramError::Custom(0xdead)))
}

/// `tick array account is the pool's` as read off raw memory: program-owned, writable, known discriminator,
/// back-reference == pool key
fn tick_array_belongs(ta: &Raw<FIXED_TA_LEN>, pool_key: &[u8; 32]) -> bool {
    use anchor_lang::Discriminator;
    let fixed = ta.data[0..8] == *::whirlpool::state::FixedTickArray::DISCRIMINATOR;
    let dynamic = ta.data[0..8] == *::whirlpool::state::DynamicTickArray::DISCRIMINATOR;
    let back = if fixed { key_at(&ta.data, FIXED_TA_WHIRLPOOL) } else { key_at(&ta.data, DYN_TA_WHIRLPOOL) };
    ta.owner == WHIRLPOOL_PROGRAM_ID && ta.is_writable != 0 && (fixed || dynamic) && back == *pool_key
}

// ---------------------------------------------------------------------------------------------
// handler prefixes

/// increase_liquidity (v1) handler prefix: reaching the Clock sysvar call implies signer/authority (C04) and pool-membership (C15) facts; 11 fully symbolic accounts, 40 symbolic data bytes
// @verif prop=C04,C15 tier=quick timeout=300
#[kani::proof]
#[kani::unwind(40)]
#[kani::stub(alloc::fmt::format, stub_format)]
#[kani::stub(<Clock as pinocchio::sysvars::Sysvar>::get, stub_clock_get_cut)]
#[kani::stub(<::whirlpool::pinocchio::errors::UnifiedError as core::convert::From<::whirlpool::errors::ErrorCode>>::from, stub_unified_from_code)]
#[kani::stub(<::whirlpool::pinocchio::errors::UnifiedError as core::convert::From<anchor_lang::error::ErrorCode>>::from, stub_unified_from_anchor_code)]
fn c04p_increase_liquidity_prefix() {
    let mut whirlpool = raw::<653>();
    let mut token_program = raw::<0>();
    let mut authority = raw::<0>();
    let mut position = raw::<216>();
    let mut pos_token = raw::<165>();
    let mut owner_a = raw::<165>();
    let mut owner_b = raw::<165>();
    let mut vault_a = raw::<165>();
    let mut vault_b = raw::<165>();
    let mut ta_lower = raw::<16>();
    let mut ta_upper = raw::<16>();
    let data: [u8; 40] = kani::any();
    let accounts = unsafe {
        [ai(&mut whirlpool), ai(&mut token_program), ai(&mut authority), ai(&mut position), ai(&mut pos_token),
         ai(&mut owner_a), ai(&mut owner_b), ai(&mut vault_a), ai(&mut vault_b), ai(&mut ta_lower), ai(&mut ta_upper)]
    };
    let r = ::whirlpool::pinocchio::instructions::increase_liquidity::handler(&accounts, &data);
    let reached = unsafe { REACHED };
    kani::cover!(reached, "validation can pass");
    kani::cover!(reached && key_at(&pos_token.data, 32) != authority.key, "validation can pass for a delegate");
    if reached {
        assert_common(&whirlpool, &authority, &position, &pos_token, &vault_a, &vault_b);
        assert!(token_program.key == TOKEN_PROGRAM_ID);
    }
    core::mem::forget(r);
}
