//! C04 / C15 — the Pinocchio-dispatched instructions (all six rows of `PINOCCHIO_INSTRUCTIONS` in
//! `/repo/programs/whirlpool/src/entrypoint.rs`) and the Pinocchio account helpers.
//!
//! Handler harnesses run the REAL handler over raw symbolic account memory (every account: key, owner,
//! signer flag, writable flag, lamports and all data bytes `kani::any()`), one harness per handler:
//!  * prefix part: the stub of `Clock::get` (the first sysvar call; every handler places it after its whole
//!    account-validation block) sets `REACHED` and returns an arbitrary clock:
//!    `REACHED => signer / authority facts (C04) and pool-membership facts (C15)`.
//!  * tick-array part: the handler then goes on to `TickArraysMut::load` (real), whose callee
//!    `load_tick_array_mut` is replaced by a recording model (arbitrary Ok/Err outcome), and is cut at
//!    `pino_calculate_modify_liquidity`: reaching it implies that exactly the handler's tick-array accounts were
//!    put through the loader with the pool account's key. What the real loader enforces (program-owned,
//!    writable, discriminator, back-reference == that key) is decided by `c04p_load_tick_array_mut` /
//!    `c04p_load_tick_array` on a full-size (10 KB) account. (Two 10 KB symbolic accounts inside a handler
//!    harness do not fit: measured OOM at 14 GB.)
use crate::common::*;
use pinocchio::account_info::AccountInfo;
use pinocchio::program_error::ProgramError;
use pinocchio::sysvars::clock::Clock;
use ::whirlpool::pinocchio::constants::address::{
    MEMO_PROGRAM_ID, SYSTEM_PROGRAM_ID, TOKEN_2022_PROGRAM_ID, TOKEN_PROGRAM_ID, WHIRLPOOL_PROGRAM_ID,
};
use ::whirlpool::pinocchio::errors::UnifiedError;
use ::whirlpool::pinocchio::ported::manager_liquidity_manager::PinoModifyLiquidityUpdate;
use ::whirlpool::pinocchio::state::token::MemoryMappedTokenAccount;
use ::whirlpool::pinocchio::state::whirlpool::tick_array::loader::{
    load_tick_array, load_tick_array_mut, LoadedTickArrayMut,
};
use ::whirlpool::pinocchio::state::whirlpool::tick_array::tick::MemoryMappedTick;
use ::whirlpool::pinocchio::state::whirlpool::tick_array::TickUpdate;
use ::whirlpool::util::{TransferFeeExcludedAmount, TransferFeeIncludedAmount};
use pinocchio::account_info::RefMut;
use ::whirlpool::pinocchio::state::whirlpool::{
    MemoryMappedPosition, MemoryMappedWhirlpool, TickArray,
};
use ::whirlpool::pinocchio::utils::account_info_iter::AccountIterator;
use ::whirlpool::pinocchio::utils::account_load::{load_account, load_account_mut, load_token_program_account};
use ::whirlpool::pinocchio::utils::verify::{verify_address, verify_constraint};

type PResult<T> = core::result::Result<T, UnifiedError>;

// ---------------------------------------------------------------------------------------------
// raw account memory, laid out exactly as `pinocchio::account_info::Account` (88-byte header) followed by the
// account data, as in the runtime's input buffer. (Measured alternatives: header as a byte array -> 4x larger
// formula; one flat byte array -> small formula but the solver's JSON traces explode.)
pub const HDR: usize = 88;
#[repr(C)]
pub struct Raw<const N: usize> {
    borrow_state: u8,
    is_signer: u8,
    is_writable: u8,
    executable: u8,
    resize_delta: i32,
    key: [u8; 32],
    owner: [u8; 32],
    lamports: u64,
    data_len: u64,
    data: [u8; N],
}
impl<const N: usize> Raw<N> {
    fn signer(&self) -> bool { self.is_signer != 0 }
    fn writable(&self) -> bool { self.is_writable != 0 }
    fn key(&self) -> [u8; 32] { self.key }
    fn owner(&self) -> [u8; 32] { self.owner }
    fn data_len(&self) -> u64 { self.data_len }
    /// data byte `i`
    fn d(&self, i: usize) -> u8 { self.data[i] }
    fn dkey(&self, off: usize) -> [u8; 32] { key_at(&self.data, off) }
    fn du64(&self, off: usize) -> u64 { u64_at(&self.data, off) }
    fn du128(&self, off: usize) -> u128 {
        let mut k = [0u8; 16];
        k.copy_from_slice(&self.data[off..off + 16]);
        u128::from_le_bytes(k)
    }
    fn d8(&self, off: usize) -> [u8; 8] {
        let mut k = [0u8; 8];
        k.copy_from_slice(&self.data[off..off + 8]);
        k
    }
}
/// fully symbolic account with `N` data bytes: key, owner, signer / writable / executable flags, lamports and
/// every data byte are `kani::any()`; not borrowed and not resized, as at instruction start
fn raw<const N: usize>() -> Raw<N> {
    Raw {
        borrow_state: 0xff,
        is_signer: kani::any::<bool>() as u8,
        is_writable: kani::any::<bool>() as u8,
        executable: kani::any::<bool>() as u8,
        resize_delta: 0,
        key: kani::any(),
        owner: kani::any(),
        lamports: kani::any(),
        data_len: N as u64,
        data: kani::any(),
    }
}
/// as `raw`, with a symbolic data length `<= N`
fn raw_len<const N: usize>() -> Raw<N> {
    let mut r = raw::<N>();
    let l: u64 = kani::any();
    kani::assume(l <= N as u64);
    r.data_len = l;
    r
}
unsafe fn ai<const N: usize>(r: *mut Raw<N>) -> AccountInfo {
    let mut slot = core::mem::MaybeUninit::<AccountInfo>::uninit();
    (slot.as_mut_ptr() as *mut *mut Raw<N>).write(r);
    slot.assume_init()
}
// data sizes
const A0: usize = 0; // program / wallet accounts: no data
const A_WP: usize = 653;
const A_POS: usize = 216;
const A_TOK: usize = 165;
const A_MINT: usize = 82;
const A_TA: usize = 148; // handler level: tick arrays go through the loader model, which looks at bytes [12, 44)

// byte offsets (pinocchio/state/whirlpool/whirlpool.rs, position.rs; spl token account)
const WP_MINT_A: usize = 101;
const WP_VAULT_A: usize = 133;
const WP_MINT_B: usize = 181;
const WP_VAULT_B: usize = 213;
const POS_WHIRLPOOL: usize = 8;
const POS_MINT: usize = 40;
const POS_LIQUIDITY: usize = 72;
const FIXED_TA_WHIRLPOOL: usize = 9956;
const DYN_TA_WHIRLPOOL: usize = 12;
const WP_DISC: [u8; 8] = [0x3f, 0x95, 0xd1, 0x0c, 0xe1, 0x80, 0x63, 0x09];
const POS_DISC: [u8; 8] = [0xaa, 0xbc, 0x8f, 0xe4, 0x7a, 0x40, 0xf7, 0xd0];

fn key_at(d: &[u8], off: usize) -> [u8; 32] {
    let mut k = [0u8; 32];
    k.copy_from_slice(&d[off..off + 32]);
    k
}
fn u64_at(d: &[u8], off: usize) -> u64 {
    let mut k = [0u8; 8];
    k.copy_from_slice(&d[off..off + 8]);
    u64::from_le_bytes(k)
}

/// C04: `authority` signed and is the token account's owner, or its delegate with delegated_amount == 1
fn authority_controls(pos_token: &[u8], authority_key: &[u8; 32], authority_signer: u8) -> bool {
    let is_owner = key_at(pos_token, 32) == *authority_key;
    let is_delegate = pos_token[72] == 1 && key_at(pos_token, 76) == *authority_key;
    let delegated_amount = u64_at(pos_token, 121);
    authority_signer != 0 && (is_owner || (is_delegate && delegated_amount == 1))
}

/// consequences common to all six handlers (C04: authority; C15: pool / position / token account / vaults)
fn assert_common<const T: usize>(
    whirlpool: &Raw<A_WP>,
    authority: &Raw<A0>,
    position: &Raw<A_POS>,
    pos_token: &Raw<T>,
    vault_a: &Raw<A_TOK>,
    vault_b: &Raw<A_TOK>,
) {
    // C04
    assert!(authority.signer(), "authority signed");
    assert!(
        authority_controls(&pos_token.data, &authority.key(), authority.is_signer),
        "authority is owner or one-token delegate"
    );
    assert!(pos_token.du64(64) == 1, "position token amount == 1");
    assert!(pos_token.dkey(0) == position.dkey(POS_MINT), "token account mint == position mint");
    assert!(
        pos_token.owner() == TOKEN_PROGRAM_ID || pos_token.owner() == TOKEN_2022_PROGRAM_ID,
        "token account owned by a token program"
    );
    assert!(pos_token.data_len() > 108 && pos_token.d(108) != 0, "token account initialized");
    // C15
    assert!(whirlpool.owner() == WHIRLPOOL_PROGRAM_ID && whirlpool.owner() == ::whirlpool::ID.to_bytes());
    assert!(whirlpool.d8(0) == WP_DISC);
    assert!(whirlpool.writable());
    assert!(position.owner() == WHIRLPOOL_PROGRAM_ID);
    assert!(position.d8(0) == POS_DISC);
    assert!(position.writable());
    assert!(position.dkey(POS_WHIRLPOOL) == whirlpool.key(), "position belongs to the pool");
    assert!(vault_a.key() == whirlpool.dkey(WP_VAULT_A), "vault A is the pool's");
    assert!(vault_b.key() == whirlpool.dkey(WP_VAULT_B), "vault B is the pool's");
    assert!(vault_a.writable() && vault_b.writable());
}

/// v2 extras (C15): mints are the pool's, each token program is SPL Token / Token-2022 and owns its mint, memo id
fn assert_v2(
    whirlpool: &Raw<A_WP>,
    tp_a: &Raw<A0>,
    tp_b: &Raw<A0>,
    memo: &Raw<A0>,
    mint_a: &Raw<A_MINT>,
    mint_b: &Raw<A_MINT>,
) {
    assert!(mint_a.key() == whirlpool.dkey(WP_MINT_A), "mint A is the pool's");
    assert!(mint_b.key() == whirlpool.dkey(WP_MINT_B), "mint B is the pool's");
    assert!(tp_a.key() == TOKEN_PROGRAM_ID || tp_a.key() == TOKEN_2022_PROGRAM_ID);
    assert!(tp_b.key() == TOKEN_PROGRAM_ID || tp_b.key() == TOKEN_2022_PROGRAM_ID);
    assert!(tp_a.key() == mint_a.owner(), "token program A owns mint A");
    assert!(tp_b.key() == mint_b.owner(), "token program B owns mint B");
    assert!(memo.key() == MEMO_PROGRAM_ID);
}

// ---------------------------------------------------------------------------------------------
// stubs
/// `From<borsh io::Error> for UnifiedError` (instruction-data decode failure): same outcome class (an error is
/// returned before anything else happens) without running the recursive drop glue of `io::Error`
fn stub_unified_from_io(e: std::io::Error) -> UnifiedError {
    core::mem::forget(e);
    UnifiedError::Pinocchio(ProgramError::BorshIoError)
}
fn cut_err() -> UnifiedError {
    UnifiedError::Pinocchio(ProgramError::Custom(0xdead))
}

static mut REACHED: bool = false;
/// prefix cut: the first sysvar call (all account validation of every handler precedes it)
fn stub_clock_get_cut() -> Result<Clock, ProgramError> {
    unsafe {
        REACHED = true;
    }
    Err(ProgramError::UnsupportedSysvar)
}
/// stage 2: the first sysvar call is recorded and succeeds with an arbitrary clock
fn stub_clock_get_any() -> Result<Clock, ProgramError> {
    unsafe {
        REACHED = true;
    }
    Ok(Clock {
        slot: kani::any(),
        epoch_start_timestamp: kani::any(),
        epoch: kani::any(),
        leader_schedule_epoch: kani::any(),
        unix_timestamp: kani::any(),
    })
}

/// what the loader model hands out: a view of the account's bytes [12, 44) (the dynamic layout's back-reference)
#[repr(C)]
struct ModelTickArray {
    whirlpool: [u8; 32],
}
impl TickArray for ModelTickArray {
    fn is_variable_size(&self) -> bool { true }
    fn whirlpool(&self) -> &[u8; 32] { &self.whirlpool }
    fn start_tick_index(&self) -> i32 { 0 }
    fn get_tick(&self, _tick_index: i32, _tick_spacing: u16) -> PResult<&MemoryMappedTick> { Err(cut_err()) }
    fn update_tick(&mut self, _tick_index: i32, _tick_spacing: u16, _update: &TickUpdate) -> PResult<()> { Err(cut_err()) }
}

const MAXLOAD: usize = 6;
static mut NLOAD: usize = 0;
static mut LOAD_ACCT: [usize; MAXLOAD] = [0; MAXLOAD]; // address of the AccountInfo handed to the loader
static mut LOAD_POOL: [[u8; 32]; MAXLOAD] = [[0; 32]; MAXLOAD]; // pool key handed to the loader
static mut LOAD_OK: [bool; MAXLOAD] = [false; MAXLOAD]; // outcome of each call, drawn by the harness
/// recording model of `load_tick_array_mut(account, whirlpool)`: logs its arguments, then fails or returns a
/// mutable borrow of the account -- an arbitrary outcome per call (the real function is decided separately)
fn stub_load_tick_array_mut<'a>(account: &'a AccountInfo, whirlpool: &[u8; 32]) -> PResult<LoadedTickArrayMut<'a>> {
    let ok;
    unsafe {
        assert!(NLOAD < MAXLOAD, "loader model log bound");
        LOAD_ACCT[NLOAD] = account as *const AccountInfo as usize;
        LOAD_POOL[NLOAD] = *whirlpool;
        ok = LOAD_OK[NLOAD];
        NLOAD += 1;
    }
    if !ok {
        return Err(cut_err());
    }
    let data = account.try_borrow_mut_data()?;
    Ok(RefMut::map(data, |d| {
        let m = unsafe { &mut *(d.as_mut_ptr().add(DYN_TA_WHIRLPOOL) as *mut ModelTickArray) };
        m as &mut dyn TickArray
    }))
}
fn draw_load_outcomes() {
    let o: [bool; MAXLOAD] = kani::any();
    unsafe {
        LOAD_OK = o;
    }
}

const MAXCALC: usize = 2;
static mut CALLS: usize = 0;
static mut CALC_NLOAD: [usize; MAXCALC] = [0; MAXCALC]; // number of loader calls made before each call
static mut CALC_OK_FIRST: bool = false; // reposition, second range: let the first call succeed
/// cut after the tick arrays were loaded: `pino_calculate_modify_liquidity` records how many loader calls
/// preceded it and fails (the first call may succeed with an arbitrary result when CALC_OK_FIRST is set)
fn stub_calc_modify(
    _whirlpool: &MemoryMappedWhirlpool,
    _position: &MemoryMappedPosition,
    _tick_array_lower: &dyn TickArray,
    _tick_array_upper: &dyn TickArray,
    _liquidity_delta: i128,
    _timestamp: u64,
) -> PResult<PinoModifyLiquidityUpdate> {
    let first;
    unsafe {
        assert!(CALLS < MAXCALC, "calc log bound");
        CALC_NLOAD[CALLS] = NLOAD;
        first = CALLS == 0;
        CALLS += 1;
    }
    if first && unsafe { CALC_OK_FIRST } {
        return Ok(PinoModifyLiquidityUpdate {
            whirlpool_liquidity: kani::any(),
            tick_lower_update: TickUpdate::default(),
            tick_upper_update: TickUpdate::default(),
            next_reward_growth_global: [0; 3],
            position_update: Default::default(),
            tick_array_lower_update: Default::default(),
            tick_array_upper_update: Default::default(),
        });
    }
    Err(cut_err())
}

// continuation stubs: code after the cut does no further account validation of its own (transfers are CPIs);
// these keep it out of symbolic execution. `_dead` = must not be reached at all in the harness using it.
fn stub_update_tick_array_accounts_dead(
    _position_info: &AccountInfo,
    _lower: &AccountInfo,
    _upper: &AccountInfo,
    _lu: &::whirlpool::manager::tick_array_manager::TickArrayUpdate,
    _uu: &::whirlpool::manager::tick_array_manager::TickArrayUpdate,
) -> PResult<()> {
    assert!(false, "continuation after the cut is dead");
    Err(cut_err())
}
fn stub_update_tick_array_accounts_ok(
    _position_info: &AccountInfo,
    _lower: &AccountInfo,
    _upper: &AccountInfo,
    _lu: &::whirlpool::manager::tick_array_manager::TickArrayUpdate,
    _uu: &::whirlpool::manager::tick_array_manager::TickArrayUpdate,
) -> PResult<()> {
    Ok(())
}
fn stub_sync_modify_ok(
    _whirlpool: &mut MemoryMappedWhirlpool,
    _position: &mut MemoryMappedPosition,
    _lower: &mut dyn TickArray,
    _upper: Option<&mut dyn TickArray>,
    _update: &PinoModifyLiquidityUpdate,
    _ts: u64,
) -> PResult<()> {
    Ok(())
}
fn stub_token_deltas_any(_tick: i32, _price: u128, _position: &MemoryMappedPosition, _delta: i128) -> PResult<(u64, u64)> {
    Ok((kani::any(), kani::any()))
}
fn stub_ensure_rent_ok(_funder: &AccountInfo, _position: &AccountInfo, _system: &AccountInfo) -> PResult<()> {
    Ok(())
}
fn stub_reset_position_range_ok(
    _position: &mut MemoryMappedPosition,
    _whirlpool: &MemoryMappedWhirlpool,
    _lower: i32,
    _upper: i32,
    _keep_owed: bool,
) -> PResult<()> {
    Ok(())
}
/// transfer-fee arithmetic over the mint's extension area: arbitrary result (no account validation inside)
fn stub_fee_excluded_any(_mint: &AccountInfo, _amount: u64) -> PResult<TransferFeeExcludedAmount> {
    Ok(TransferFeeExcludedAmount { amount: kani::any(), transfer_fee: kani::any() })
}
/// price arithmetic (128-bit mul/div): arbitrary result
fn stub_estimate_liquidity_any(_p: u128, _l: i32, _u: i32, _a: u64, _b: u64) -> Result<u128, ::whirlpool::errors::ErrorCode> {
    Ok(kani::any())
}
/// release a loader result: drop the borrow, but never run the drop glue of a boxed error (expensive)
fn release<T>(r: PResult<T>) {
    match r {
        Ok(x) => drop(x),
        Err(e) => core::mem::forget(e),
    }
}
fn addr(a: &AccountInfo) -> usize {
    a as *const AccountInfo as usize
}
/// C15, tick arrays: loader calls `from ..` are exactly the pair (lower, upper) -- upper skipped iff it has the
/// lower's key, i.e. is the same account -- each with the pool account's key; returns the number of calls
fn assert_pair_loaded<const L: usize, const U: usize>(
    from: usize,
    upto: usize,
    pool: &[u8; 32],
    lower: &AccountInfo,
    lower_raw: &Raw<L>,
    upper: &AccountInfo,
    upper_raw: &Raw<U>,
) -> usize {
    unsafe {
        assert!(upto > from, "a tick array was loaded");
        assert!(LOAD_ACCT[from] == addr(lower) && LOAD_POOL[from] == *pool, "lower tick array loaded against the pool key");
        if lower_raw.key() == upper_raw.key() {
            assert!(upto == from + 1);
            1
        } else {
            assert!(upto == from + 2);
            assert!(LOAD_ACCT[from + 1] == addr(upper) && LOAD_POOL[from + 1] == *pool, "upper tick array loaded against the pool key");
            2
        }
    }
}
/// every loader call of the run used the pool account's key
fn assert_all_loads_against(pool: &[u8; 32]) {
    unsafe {
        let mut i = 0;
        while i < MAXLOAD {
            if i < NLOAD {
                assert!(LOAD_POOL[i] == *pool, "loader always gets the pool key");
            }
            i += 1;
        }
    }
}

// ---------------------------------------------------------------------------------------------
// handler harnesses (all six rows of PINOCCHIO_INSTRUCTIONS)

/// v1 handlers: 11 accounts, 40 data bytes. `$stage2 == false`: prefix harness (the Clock stub cuts);
/// `$stage2 == true`: Clock succeeds, loader model, cut at pino_calculate_modify_liquidity.
/// v1 handlers: 11 accounts, 40 data bytes. `$stage2 == false`: prefix harness (the Clock stub cuts);
/// `$stage2 == true`: Clock succeeds, loader model, cut at pino_calculate_modify_liquidity.
/// v1 handlers: 11 accounts, 40 data bytes. `$stage2 == false`: prefix harness (the Clock stub cuts);
/// `$stage2 == true`: Clock succeeds, loader model, cut at pino_calculate_modify_liquidity.
/// v1 handlers: 11 accounts, 40 data bytes. `$stage2 == false`: prefix harness (the Clock stub cuts);
/// `$stage2 == true`: Clock succeeds, loader model, cut at pino_calculate_modify_liquidity.
/// v1 handlers: 11 accounts, 40 data bytes. `$stage2 == false`: prefix harness (the Clock stub cuts);
/// `$stage2 == true`: Clock succeeds, loader model, cut at pino_calculate_modify_liquidity.
/// v1 handlers: 11 accounts, 40 data bytes. `$stage2 == false`: prefix harness (the Clock stub cuts);
/// `$stage2 == true`: Clock succeeds, loader model, cut at pino_calculate_modify_liquidity.
/// v1 handlers: 11 accounts, 40 data bytes. `$stage2 == false`: prefix harness (the Clock stub cuts);
/// `$stage2 == true`: Clock succeeds, loader model, cut at pino_calculate_modify_liquidity.
/// v1 handlers: 11 accounts, 40 data bytes. `$stage2 == false`: prefix harness (the Clock stub cuts);
/// `$stage2 == true`: Clock succeeds, loader model, cut at pino_calculate_modify_liquidity.
/// v1 handlers: 11 accounts, 40 data bytes. `$stage2 == false`: prefix harness (the Clock stub cuts);
/// `$stage2 == true`: Clock succeeds, loader model, cut at pino_calculate_modify_liquidity.
/// v1 handlers: 11 accounts, 40 data bytes. `$stage2 == false`: prefix harness (the Clock stub cuts);
/// `$stage2 == true`: Clock succeeds, loader model, cut at pino_calculate_modify_liquidity.
macro_rules! v1_body {
    ($handler:path, $frozen_blocks:expr, $stage2:expr) => {{
        let mut whirlpool = raw::<A_WP>();
        let mut token_program = raw::<A0>();
        let mut authority = raw::<A0>();
        let mut position = raw::<A_POS>();
        let mut pos_token = raw::<A_TOK>();
        let mut owner_a = raw::<A_TOK>();
        let mut owner_b = raw::<A_TOK>();
        let mut vault_a = raw::<A_TOK>();
        let mut vault_b = raw::<A_TOK>();
        let mut ta_lower = raw::<A_TA>();
        let mut ta_upper = raw::<A_TA>();
        let data: [u8; 40] = kani::any();
        draw_load_outcomes();
        let accounts = unsafe {
            [ai(&mut whirlpool), ai(&mut token_program), ai(&mut authority), ai(&mut position), ai(&mut pos_token),
             ai(&mut owner_a), ai(&mut owner_b), ai(&mut vault_a), ai(&mut vault_b), ai(&mut ta_lower), ai(&mut ta_upper)]
        };
        let r = $handler(&accounts, &data);
        let (reached, calls, nload) = unsafe { (REACHED, CALLS, NLOAD) };
        if !$stage2 {
            kani::cover!(reached, "validation can pass");
            kani::cover!(reached && pos_token.dkey(32) != authority.key(), "validation can pass for a delegate");
            if reached {
                assert_common(&whirlpool, &authority, &position, &pos_token, &vault_a, &vault_b);
                assert!(token_program.key() == TOKEN_PROGRAM_ID);
                assert!(ta_lower.writable() && ta_upper.writable());
                if $frozen_blocks {
                    assert!(pos_token.d(108) != 2, "locked (frozen) position cannot withdraw");
                }
            }
        } else {
            kani::cover!(calls == 1 && nload == 2, "two tick arrays can load");
            kani::cover!(calls == 1 && nload == 1, "one shared tick array can load");
            let pool = whirlpool.key();
            assert!(reached || nload == 0, "no tick array is touched before validation");
            if calls == 1 {
                assert_pair_loaded(0, unsafe { CALC_NLOAD[0] }, &pool, &accounts[9], &ta_lower, &accounts[10], &ta_upper);
            }
            assert_all_loads_against(&pool);
        }
        core::mem::forget(r);
    }};
}

/// increase_liquidity (v1) handler prefix, 11 fully symbolic accounts + 40 data bytes: reaching the Clock sysvar call => authority signed and is owner / one-token delegate of the position token account (amount 1, mint = position mint, owned by a token program, initialized); pool and position program-owned with the right discriminator and writable; position.whirlpool = pool key; vault keys = pool vaults; token program id
// @verif prop=C04,C15 tier=quick timeout=300
#[kani::proof]
#[kani::unwind(40)]
#[kani::stub(alloc::fmt::format, stub_format)]
#[kani::stub(<Clock as pinocchio::sysvars::Sysvar>::get, stub_clock_get_cut)]
#[kani::stub(<anchor_lang::error::Error as core::convert::From<::whirlpool::errors::ErrorCode>>::from, stub_err_from_code)]
#[kani::stub(<anchor_lang::error::Error as core::convert::From<anchor_lang::error::ErrorCode>>::from, stub_err_from_anchor_code)]
fn c04p_increase_liquidity_prefix() {
    v1_body!(::whirlpool::pinocchio::instructions::increase_liquidity::handler, false, false);
}

/// decrease_liquidity (v1) handler prefix, 11 fully symbolic accounts + 40 data bytes: consequences of c04p_increase_liquidity_prefix, plus a frozen (locked) position token account never reaches the Clock call
// @verif prop=C04,C15 tier=quick timeout=300
#[kani::proof]
#[kani::unwind(40)]
#[kani::stub(alloc::fmt::format, stub_format)]
#[kani::stub(<Clock as pinocchio::sysvars::Sysvar>::get, stub_clock_get_cut)]
#[kani::stub(<anchor_lang::error::Error as core::convert::From<::whirlpool::errors::ErrorCode>>::from, stub_err_from_code)]
#[kani::stub(<anchor_lang::error::Error as core::convert::From<anchor_lang::error::ErrorCode>>::from, stub_err_from_anchor_code)]
fn c04p_decrease_liquidity_prefix() {
    v1_body!(::whirlpool::pinocchio::instructions::decrease_liquidity::handler, true, false);
}

/// increase_liquidity (v1) past the Clock call (arbitrary clock), real TickArraysMut::load over the recording loader model, cut at pino_calculate_modify_liquidity: reaching it => exactly the lower/upper tick-array accounts of the handler (upper skipped iff same key) were put through load_tick_array_mut with the key of the pool account; no loader call before validation passed; every loader call uses the pool key
// @verif prop=C15 tier=thorough timeout=900
#[kani::proof]
#[kani::unwind(40)]
#[kani::stub(alloc::fmt::format, stub_format)]
#[kani::stub(<Clock as pinocchio::sysvars::Sysvar>::get, stub_clock_get_any)]
#[kani::stub(::whirlpool::pinocchio::state::whirlpool::tick_array::loader::load_tick_array_mut, stub_load_tick_array_mut)]
#[kani::stub(::whirlpool::pinocchio::ported::manager_liquidity_manager::pino_calculate_modify_liquidity, stub_calc_modify)]
#[kani::stub(::whirlpool::pinocchio::ported::manager_tick_array_manager::pino_update_tick_array_accounts, stub_update_tick_array_accounts_dead)]
#[kani::stub(<anchor_lang::error::Error as core::convert::From<::whirlpool::errors::ErrorCode>>::from, stub_err_from_code)]
#[kani::stub(<anchor_lang::error::Error as core::convert::From<anchor_lang::error::ErrorCode>>::from, stub_err_from_anchor_code)]
fn c04p_increase_liquidity_tick_arrays() {
    v1_body!(::whirlpool::pinocchio::instructions::increase_liquidity::handler, false, true);
}

/// decrease_liquidity (v1): as c04p_increase_liquidity_tick_arrays
// @verif prop=C15 tier=thorough timeout=900
#[kani::proof]
#[kani::unwind(40)]
#[kani::stub(alloc::fmt::format, stub_format)]
#[kani::stub(<Clock as pinocchio::sysvars::Sysvar>::get, stub_clock_get_any)]
#[kani::stub(::whirlpool::pinocchio::state::whirlpool::tick_array::loader::load_tick_array_mut, stub_load_tick_array_mut)]
#[kani::stub(::whirlpool::pinocchio::ported::manager_liquidity_manager::pino_calculate_modify_liquidity, stub_calc_modify)]
#[kani::stub(::whirlpool::pinocchio::ported::manager_tick_array_manager::pino_update_tick_array_accounts, stub_update_tick_array_accounts_dead)]
#[kani::stub(<anchor_lang::error::Error as core::convert::From<::whirlpool::errors::ErrorCode>>::from, stub_err_from_code)]
#[kani::stub(<anchor_lang::error::Error as core::convert::From<anchor_lang::error::ErrorCode>>::from, stub_err_from_anchor_code)]
fn c04p_decrease_liquidity_tick_arrays() {
    v1_body!(::whirlpool::pinocchio::instructions::decrease_liquidity::handler, true, true);
}

/// the 15 accounts shared by the three single-range v2 handlers; `$n` = instruction data length
/// (`remaining_accounts_info` = `None`; validation does not consult it), `$tag0` = offset of a second tag byte
macro_rules! v2_body {
    ($handler:path, $n:expr, $tag0:expr, $frozen_blocks:expr, $stage2:expr) => {{
        let mut whirlpool = raw::<A_WP>();
        let mut tp_a = raw::<A0>();
        let mut tp_b = raw::<A0>();
        let mut memo = raw::<A0>();
        let mut authority = raw::<A0>();
        let mut position = raw::<A_POS>();
        let mut pos_token = raw::<A_TOK>();
        let mut mint_a = raw::<A_MINT>();
        let mut mint_b = raw::<A_MINT>();
        let mut owner_a = raw::<A_TOK>();
        let mut owner_b = raw::<A_TOK>();
        let mut vault_a = raw::<A_TOK>();
        let mut vault_b = raw::<A_TOK>();
        let mut ta_lower = raw::<A_TA>();
        let mut ta_upper = raw::<A_TA>();
        // all argument bytes symbolic; the enum / option tag bytes are fixed to 0, the only value with which the
        // data decodes without remaining-accounts slices (any undecodable data makes the handler return at once;
        // symbolic tags would drag the recursive drop glue of borsh's io::Error into every path)
        let mut data: [u8; $n] = kani::any();
        data[$n - 1] = 0; // remaining_accounts_info = None
        data[$tag0] = 0; // method variant (or again the option tag)
        draw_load_outcomes();
        let accounts = unsafe {
            [ai(&mut whirlpool), ai(&mut tp_a), ai(&mut tp_b), ai(&mut memo), ai(&mut authority), ai(&mut position),
             ai(&mut pos_token), ai(&mut mint_a), ai(&mut mint_b), ai(&mut owner_a), ai(&mut owner_b), ai(&mut vault_a),
             ai(&mut vault_b), ai(&mut ta_lower), ai(&mut ta_upper)]
        };
        let r = $handler(&accounts, &data);
        let (reached, calls, nload) = unsafe { (REACHED, CALLS, NLOAD) };
        if !$stage2 {
            kani::cover!(reached, "validation can pass");
            kani::cover!(reached && pos_token.dkey(32) != authority.key(), "validation can pass for a delegate");
            if reached {
                assert_common(&whirlpool, &authority, &position, &pos_token, &vault_a, &vault_b);
                assert_v2(&whirlpool, &tp_a, &tp_b, &memo, &mint_a, &mint_b);
                assert!(ta_lower.writable() && ta_upper.writable());
                if $frozen_blocks {
                    assert!(pos_token.d(108) != 2, "locked (frozen) position cannot withdraw");
                }
            }
        } else {
            kani::cover!(calls == 1 && nload == 2, "two tick arrays can load");
            let pool = whirlpool.key();
            assert!(reached || nload == 0, "no tick array is touched before validation");
            if calls == 1 {
                assert_pair_loaded(0, unsafe { CALC_NLOAD[0] }, &pool, &accounts[13], &ta_lower, &accounts[14], &ta_upper);
            }
            assert_all_loads_against(&pool);
        }
        core::mem::forget(r);
    }};
}

/// increase_liquidity_v2 handler prefix, 15 fully symbolic accounts + 41 data bytes: consequences of c04p_increase_liquidity_prefix plus mint keys = pool mints, each token program is SPL Token or Token-2022 and is the owner of its mint account, memo program id
// @verif prop=C04,C15 tier=quick timeout=300
#[kani::proof]
#[kani::unwind(40)]
#[kani::stub(alloc::fmt::format, stub_format)]
#[kani::stub(<Clock as pinocchio::sysvars::Sysvar>::get, stub_clock_get_cut)]
#[kani::stub(<anchor_lang::error::Error as core::convert::From<::whirlpool::errors::ErrorCode>>::from, stub_err_from_code)]
#[kani::stub(<anchor_lang::error::Error as core::convert::From<anchor_lang::error::ErrorCode>>::from, stub_err_from_anchor_code)]
fn c04p_increase_liquidity_v2_prefix() {
    v2_body!(::whirlpool::pinocchio::instructions::increase_liquidity_v2::handler, 41, 40, false, false);
}

/// decrease_liquidity_v2 handler prefix, 15 fully symbolic accounts + 41 data bytes: as c04p_increase_liquidity_v2_prefix, plus a frozen (locked) position token account never reaches the Clock call
// @verif prop=C04,C15 tier=quick timeout=300
#[kani::proof]
#[kani::unwind(40)]
#[kani::stub(alloc::fmt::format, stub_format)]
#[kani::stub(<Clock as pinocchio::sysvars::Sysvar>::get, stub_clock_get_cut)]
#[kani::stub(<anchor_lang::error::Error as core::convert::From<::whirlpool::errors::ErrorCode>>::from, stub_err_from_code)]
#[kani::stub(<anchor_lang::error::Error as core::convert::From<anchor_lang::error::ErrorCode>>::from, stub_err_from_anchor_code)]
fn c04p_decrease_liquidity_v2_prefix() {
    v2_body!(::whirlpool::pinocchio::instructions::decrease_liquidity_v2::handler, 41, 40, true, false);
}

/// increase_liquidity_by_token_amounts_v2 handler prefix, 15 fully symbolic accounts + 58 data bytes: as c04p_increase_liquidity_v2_prefix; the transfer-fee and price arithmetic that sits between validation and the Clock call returns arbitrary values
// @verif prop=C04,C15 tier=quick timeout=300 contract
#[kani::proof]
#[kani::unwind(40)]
#[kani::stub(alloc::fmt::format, stub_format)]
#[kani::stub(<Clock as pinocchio::sysvars::Sysvar>::get, stub_clock_get_cut)]
#[kani::stub(::whirlpool::pinocchio::ported::util_token::pino_calculate_transfer_fee_excluded_amount, stub_fee_excluded_any)]
#[kani::stub(::whirlpool::math::token_math::estimate_max_liquidity_from_token_amounts, stub_estimate_liquidity_any)]
#[kani::stub(<anchor_lang::error::Error as core::convert::From<::whirlpool::errors::ErrorCode>>::from, stub_err_from_code)]
#[kani::stub(<anchor_lang::error::Error as core::convert::From<anchor_lang::error::ErrorCode>>::from, stub_err_from_anchor_code)]
fn c04p_increase_liquidity_by_token_amounts_v2_prefix() {
    v2_body!(::whirlpool::pinocchio::instructions::increase_liquidity_by_token_amounts_v2::handler, 58, 8, false, false);
}

/// increase_liquidity_v2 past the Clock call: as c04p_increase_liquidity_tick_arrays (15 accounts)
// @verif prop=C15 tier=thorough timeout=900
#[kani::proof]
#[kani::unwind(40)]
#[kani::stub(alloc::fmt::format, stub_format)]
#[kani::stub(<Clock as pinocchio::sysvars::Sysvar>::get, stub_clock_get_any)]
#[kani::stub(::whirlpool::pinocchio::state::whirlpool::tick_array::loader::load_tick_array_mut, stub_load_tick_array_mut)]
#[kani::stub(::whirlpool::pinocchio::ported::manager_liquidity_manager::pino_calculate_modify_liquidity, stub_calc_modify)]
#[kani::stub(::whirlpool::pinocchio::ported::manager_tick_array_manager::pino_update_tick_array_accounts, stub_update_tick_array_accounts_dead)]
#[kani::stub(<anchor_lang::error::Error as core::convert::From<::whirlpool::errors::ErrorCode>>::from, stub_err_from_code)]
#[kani::stub(<anchor_lang::error::Error as core::convert::From<anchor_lang::error::ErrorCode>>::from, stub_err_from_anchor_code)]
fn c04p_increase_liquidity_v2_tick_arrays() {
    v2_body!(::whirlpool::pinocchio::instructions::increase_liquidity_v2::handler, 41, 40, false, true);
}

/// decrease_liquidity_v2 past the Clock call: as c04p_increase_liquidity_tick_arrays (15 accounts)
// @verif prop=C15 tier=thorough timeout=900
#[kani::proof]
#[kani::unwind(40)]
#[kani::stub(alloc::fmt::format, stub_format)]
#[kani::stub(<Clock as pinocchio::sysvars::Sysvar>::get, stub_clock_get_any)]
#[kani::stub(::whirlpool::pinocchio::state::whirlpool::tick_array::loader::load_tick_array_mut, stub_load_tick_array_mut)]
#[kani::stub(::whirlpool::pinocchio::ported::manager_liquidity_manager::pino_calculate_modify_liquidity, stub_calc_modify)]
#[kani::stub(::whirlpool::pinocchio::ported::manager_tick_array_manager::pino_update_tick_array_accounts, stub_update_tick_array_accounts_dead)]
#[kani::stub(<anchor_lang::error::Error as core::convert::From<::whirlpool::errors::ErrorCode>>::from, stub_err_from_code)]
#[kani::stub(<anchor_lang::error::Error as core::convert::From<anchor_lang::error::ErrorCode>>::from, stub_err_from_anchor_code)]
fn c04p_decrease_liquidity_v2_tick_arrays() {
    v2_body!(::whirlpool::pinocchio::instructions::decrease_liquidity_v2::handler, 41, 40, true, true);
}

/// increase_liquidity_by_token_amounts_v2 past the Clock call: as c04p_increase_liquidity_tick_arrays (15 accounts; fee / price arithmetic arbitrary)
// @verif prop=C15 tier=thorough timeout=900 contract
#[kani::proof]
#[kani::unwind(40)]
#[kani::stub(alloc::fmt::format, stub_format)]
#[kani::stub(<Clock as pinocchio::sysvars::Sysvar>::get, stub_clock_get_any)]
#[kani::stub(::whirlpool::pinocchio::ported::util_token::pino_calculate_transfer_fee_excluded_amount, stub_fee_excluded_any)]
#[kani::stub(::whirlpool::math::token_math::estimate_max_liquidity_from_token_amounts, stub_estimate_liquidity_any)]
#[kani::stub(::whirlpool::pinocchio::state::whirlpool::tick_array::loader::load_tick_array_mut, stub_load_tick_array_mut)]
#[kani::stub(::whirlpool::pinocchio::ported::manager_liquidity_manager::pino_calculate_modify_liquidity, stub_calc_modify)]
#[kani::stub(::whirlpool::pinocchio::ported::manager_tick_array_manager::pino_update_tick_array_accounts, stub_update_tick_array_accounts_dead)]
#[kani::stub(<anchor_lang::error::Error as core::convert::From<::whirlpool::errors::ErrorCode>>::from, stub_err_from_code)]
#[kani::stub(<anchor_lang::error::Error as core::convert::From<anchor_lang::error::ErrorCode>>::from, stub_err_from_anchor_code)]
fn c04p_increase_liquidity_by_token_amounts_v2_tick_arrays() {
    v2_body!(::whirlpool::pinocchio::instructions::increase_liquidity_by_token_amounts_v2::handler, 58, 8, false, true);
}

/// reposition_liquidity_v2: 19 accounts, 66 data bytes. (false, false): prefix (the Clock stub cuts);
/// (true, false): up to the first pino_calculate_modify_liquidity; (true, true): the first call succeeds
/// (arbitrary result) so that the new range's arrays are reached after the existing range was processed.
/// (bool literals so that the unused arm is removed before verification: a cover in dead code counts as vacuous)
/// NOTE: the (true, true) harness did not finish within 900 s and was removed; the new range of a non-empty
/// position goes through the same, single call site (`increase_liquidity_into_new_range`) that the
/// (true, false) harness reaches with an empty position.
#[repr(C)]
struct Data66 {
    a: [u8; 33],
    b: [u8; 33],
}
macro_rules! reposition_body {
    ($s1:expr, $s2:expr) => {{
        let mut whirlpool = raw::<A_WP>();
        let mut tp_a = raw::<A0>();
        let mut tp_b = raw::<A0>();
        let mut memo = raw::<A0>();
        let mut authority = raw::<A0>();
        let mut funder = raw::<A0>();
        let mut position = raw::<A_POS>();
        let mut pos_token = raw::<A_TOK>();
        let mut mint_a = raw::<A_MINT>();
        let mut mint_b = raw::<A_MINT>();
        let mut owner_a = raw::<A_TOK>();
        let mut owner_b = raw::<A_TOK>();
        let mut vault_a = raw::<A_TOK>();
        let mut vault_b = raw::<A_TOK>();
        let mut ex_lower = raw::<A_TA>();
        let mut ex_upper = raw::<A_TA>();
        let mut new_lower = raw::<A_TA>();
        let mut new_upper = raw::<A_TA>();
        let mut system = raw::<A0>();
        // all argument bytes symbolic; the two tag bytes fixed to their only decodable-without-slices value
        // (method = ByLiquidity, remaining_accounts_info = None), see v2_body. Two halves of 33 bytes: CBMC
        // tracks arrays of up to 64 elements per element, which keeps borsh's error paths out of the run.
        let mut data66 = Data66 { a: kani::any(), b: kani::any() };
        data66.a[16] = 0;
        data66.b[32] = 0;
        let data: &[u8] = unsafe { core::slice::from_raw_parts(&data66 as *const Data66 as *const u8, 66) };
        if $s2 {
            // reaching the second range needs every earlier loader call to succeed anyway
            unsafe {
                LOAD_OK = [true; MAXLOAD];
            }
        } else {
            draw_load_outcomes();
        }
        unsafe {
            CALC_OK_FIRST = $s2;
        }
        let liquidity_before = position.du128(POS_LIQUIDITY);
        if $s2 {
            // an empty position has no existing range to withdraw from: its only range is covered by stage 1
            kani::assume(liquidity_before != 0);
        }
        let accounts = unsafe {
            [ai(&mut whirlpool), ai(&mut tp_a), ai(&mut tp_b), ai(&mut memo), ai(&mut authority), ai(&mut funder),
             ai(&mut position), ai(&mut pos_token), ai(&mut mint_a), ai(&mut mint_b), ai(&mut owner_a), ai(&mut owner_b),
             ai(&mut vault_a), ai(&mut vault_b), ai(&mut ex_lower), ai(&mut ex_upper), ai(&mut new_lower),
             ai(&mut new_upper), ai(&mut system)]
        };
        let r = ::whirlpool::pinocchio::instructions::reposition_liquidity_v2::handler(&accounts, data);
        let (reached, calls, nload) = unsafe { (REACHED, CALLS, NLOAD) };
        if !$s1 {
            kani::cover!(reached, "validation can pass");
            kani::cover!(reached && pos_token.dkey(32) != authority.key(), "validation can pass for a delegate");
            if reached {
                assert_common(&whirlpool, &authority, &position, &pos_token, &vault_a, &vault_b);
                assert_v2(&whirlpool, &tp_a, &tp_b, &memo, &mint_a, &mint_b);
                assert!(funder.signer() && funder.writable(), "funder signed and is writable");
                assert!(system.key() == SYSTEM_PROGRAM_ID);
                assert!(ex_lower.writable() && ex_upper.writable() && new_lower.writable() && new_upper.writable());
                assert!(pos_token.d(108) != 2, "locked (frozen) position cannot be repositioned");
            }
        } else {
            if !$s2 {
                kani::cover!(calls == 1 && liquidity_before != 0, "existing range's tick arrays can load");
                kani::cover!(calls == 1 && liquidity_before == 0, "new range's tick arrays can load (empty position)");
            } else {
                kani::cover!(calls == 2, "both ranges can be reached");
            }
            let pool = whirlpool.key();
            assert!(reached || nload == 0, "no tick array is touched before validation");
            if calls >= 1 {
                let first_end = unsafe { CALC_NLOAD[0] };
                if liquidity_before != 0 {
                    // first call: withdrawing from the existing range
                    let c = assert_pair_loaded(0, first_end, &pool, &accounts[14], &ex_lower, &accounts[15], &ex_upper);
                    if calls == 2 {
                        // second call: depositing into the new range
                        assert_pair_loaded(c, unsafe { CALC_NLOAD[1] }, &pool, &accounts[16], &new_lower, &accounts[17], &new_upper);
                    }
                } else {
                    // empty position: the existing range is skipped, the first call is already the new range
                    assert_pair_loaded(0, first_end, &pool, &accounts[16], &new_lower, &accounts[17], &new_upper);
                }
            }
            assert_all_loads_against(&pool);
        }
        core::mem::forget(r);
    }};
}

/// reposition_liquidity_v2 handler prefix, 19 fully symbolic accounts + 66 data bytes: consequences of c04p_decrease_liquidity_v2_prefix plus funder signed and writable, system program id, all four tick-array accounts writable
// @verif prop=C04,C15 tier=thorough timeout=900
#[kani::proof]
#[kani::unwind(40)]
#[kani::stub(alloc::fmt::format, stub_format)]
#[kani::stub(<Clock as pinocchio::sysvars::Sysvar>::get, stub_clock_get_cut)]
#[kani::stub(<anchor_lang::error::Error as core::convert::From<::whirlpool::errors::ErrorCode>>::from, stub_err_from_code)]
#[kani::stub(<anchor_lang::error::Error as core::convert::From<anchor_lang::error::ErrorCode>>::from, stub_err_from_anchor_code)]
fn c04p_reposition_liquidity_v2_prefix() {
    reposition_body!(false, false);
}

/// reposition_liquidity_v2 past the Clock call up to the first pino_calculate_modify_liquidity (rent top-up, fee arithmetic and range reset return arbitrary successes): the first range processed (the existing range, or the new range for an empty position) has both its tick-array accounts put through the loader with the pool key
// @verif prop=C15 tier=thorough timeout=900 contract
#[kani::proof]
#[kani::unwind(40)]
#[kani::stub(alloc::fmt::format, stub_format)]
#[kani::stub(<Clock as pinocchio::sysvars::Sysvar>::get, stub_clock_get_any)]
#[kani::stub(::whirlpool::pinocchio::ported::position::pino_ensure_position_has_enough_rent_for_ticks, stub_ensure_rent_ok)]
#[kani::stub(::whirlpool::pinocchio::ported::util_token::pino_calculate_transfer_fee_excluded_amount, stub_fee_excluded_any)]
#[kani::stub(::whirlpool::pinocchio::state::whirlpool::position::MemoryMappedPosition::reset_position_range, stub_reset_position_range_ok)]
#[kani::stub(::whirlpool::pinocchio::state::whirlpool::tick_array::loader::load_tick_array_mut, stub_load_tick_array_mut)]
#[kani::stub(::whirlpool::pinocchio::ported::manager_liquidity_manager::pino_calculate_modify_liquidity, stub_calc_modify)]
#[kani::stub(::whirlpool::pinocchio::ported::manager_tick_array_manager::pino_update_tick_array_accounts, stub_update_tick_array_accounts_dead)]
#[kani::stub(<anchor_lang::error::Error as core::convert::From<::whirlpool::errors::ErrorCode>>::from, stub_err_from_code)]
#[kani::stub(<anchor_lang::error::Error as core::convert::From<anchor_lang::error::ErrorCode>>::from, stub_err_from_anchor_code)]
fn c04p_reposition_liquidity_v2_tick_arrays() {
    reposition_body!(true, false);
}

// ---------------------------------------------------------------------------------------------
// function level

/// pino_verify_position_authority vs Anchor verify_position_authority_interface on the same symbolic 165-byte token account (valid per spl unpack), authority key and signer flag: same accept/reject and same error code; accept <=> signed and (one-token delegate, or owner when not the delegate)
// @verif prop=C04,C12 tier=quick timeout=300
#[kani::proof]
#[kani::unwind(40)]
#[kani::stub(alloc::fmt::format, stub_format)]
#[kani::stub(<anchor_lang::error::Error as core::convert::From<::whirlpool::errors::ErrorCode>>::from, stub_err_from_code)]
#[kani::stub(<anchor_lang::error::Error as core::convert::From<anchor_lang::error::ErrorCode>>::from, stub_err_from_anchor_code)]
fn c04p_verify_position_authority_equiv() {
    use anchor_lang::prelude::{AccountInfo as AAccountInfo, InterfaceAccount, Pubkey as APubkey, Signer};
    use anchor_spl::token_interface::TokenAccount as TokenAccountInterface;
    use ::whirlpool::pinocchio::ported::util_shared::pino_verify_position_authority;
    use ::whirlpool::util::verify_position_authority_interface;
    // inputs
    let mut tok = raw::<A_TOK>();
    let mut auth = raw::<A0>();
    let tok_key: [u8; 32] = tok.key();
    let auth_key: [u8; 32] = auth.key();
    let signed = auth.signer();
    // Anchor side: same bytes, same key, same flag
    let a_tok_key = APubkey::new_from_array(tok_key);
    // (neither function looks at which token program owns the token account; Anchor needs a valid one to wrap it)
    let a_tok_owner = anchor_spl::token::ID;
    let mut a_tok_lamports = 1u64;
    let mut a_tok_data = [0u8; 165];
    a_tok_data.copy_from_slice(&tok.data);
    let a_tok = AAccountInfo::new(&a_tok_key, false, false, &mut a_tok_lamports, &mut a_tok_data[..], &a_tok_owner, false, 0);
    let a_auth_key = APubkey::new_from_array(auth_key);
    let a_auth_owner = APubkey::default();
    let mut a_auth_lamports = 1u64;
    let mut a_auth_data = [0u8; 0];
    let a_auth = AAccountInfo::new(&a_auth_key, signed, false, &mut a_auth_lamports, &mut a_auth_data[..], &a_auth_owner, false, 0);
    // validity predicate: the bytes are a token account the token program can have written (spl unpack accepts)
    let iface = match InterfaceAccount::<TokenAccountInterface>::try_from(&a_tok) {
        Ok(i) => i,
        Err(e) => {
            core::mem::forget(e);
            return;
        }
    };
    // Pinocchio side
    let p_auth = unsafe { ai(&mut auth) };
    let view = unsafe { &*(tok.data.as_ptr() as *const MemoryMappedTokenAccount) };
    let p = pino_verify_position_authority(view, &p_auth);
    // C04: closed form
    let d = &tok.data[..];
    let is_delegate = d[72] == 1 && key_at(d, 76) == auth_key;
    let spec = signed && if is_delegate { u64_at(d, 121) == 1 } else { key_at(d, 32) == auth_key };
    assert!(p.is_ok() == spec);
    if p.is_ok() {
        assert!(authority_controls(d, &auth_key, signed as u8));
    }
    kani::cover!(p.is_ok() && is_delegate, "delegate accepted");
    kani::cover!(p.is_ok() && !is_delegate, "owner accepted");
    // C12: differential
    if signed {
        let signer = match Signer::try_from(&a_auth) {
            Ok(x) => x,
            Err(e) => {
                core::mem::forget(e);
                assert!(false, "a signed account is a Signer");
                return;
            }
        };
        let a = verify_position_authority_interface(&iface, &signer);
        match (&a, &p) {
            (Ok(()), Ok(())) => {}
            (Err(x), Err(y)) => assert!(acode(x) == ucode(y)),
            _ => assert!(false, "outcome kind differs"),
        }
        core::mem::forget(a);
    } else {
        // Anchor cannot even build the Signer; Pinocchio must reject with the owner/delegate error
        let s = Signer::try_from(&a_auth);
        assert!(s.is_err());
        core::mem::forget(s);
        match &p {
            Err(y) => assert!(ucode(y) == ecode(::whirlpool::errors::ErrorCode::MissingOrInvalidDelegate)),
            Ok(()) => assert!(false),
        }
    }
    core::mem::forget(p);
    core::mem::forget(iface);
}

/// AccountIterator on 7 fully symbolic accounts: next_signer / next_mut / next_signer_mut / next_program_token / next_program_token_or_token_2022 / next_program_memo / next_program_system return Ok exactly when the flag / key condition holds (and then the account at that position), the Anchor error code otherwise; an exhausted iterator fails with AccountNotEnoughKeys
// @verif prop=C04,C15 tier=quick timeout=300
#[kani::proof]
#[kani::unwind(40)]
#[kani::stub(alloc::fmt::format, stub_format)]
#[kani::stub(<anchor_lang::error::Error as core::convert::From<anchor_lang::error::ErrorCode>>::from, stub_err_from_anchor_code)]
fn c04p_account_iterator() {
    use anchor_lang::error::ErrorCode as AE;
    let mut a0 = raw::<A0>();
    let mut a1 = raw::<A0>();
    let mut a2 = raw::<A0>();
    let mut a3 = raw::<A0>();
    let mut a4 = raw::<A0>();
    let mut a5 = raw::<A0>();
    let mut a6 = raw::<A0>();
    let accounts = unsafe { [ai(&mut a0), ai(&mut a1), ai(&mut a2), ai(&mut a3), ai(&mut a4), ai(&mut a5), ai(&mut a6)] };
    let mut it = AccountIterator::new(&accounts);
    fn check(r: PResult<&AccountInfo>, want: &AccountInfo, cond: bool, code: AE) {
        match &r {
            Ok(a) => assert!(cond && addr(a) == addr(want)),
            Err(e) => assert!(!cond && ucode(e) == code as u32),
        }
        core::mem::forget(r);
    }
    let r0 = it.next_signer();
    kani::cover!(r0.is_ok(), "signer accepted");
    check(r0, &accounts[0], a0.signer(), AE::AccountNotSigner);
    check(it.next_mut(), &accounts[1], a1.writable(), AE::AccountNotMutable);
    let r2 = it.next_signer_mut();
    match &r2 {
        Ok(a) => assert!(a2.signer() && a2.writable() && addr(a) == addr(&accounts[2])),
        Err(e) => assert!(
            (!a2.writable() && ucode(e) == AE::AccountNotMutable as u32)
                || (a2.writable() && !a2.signer() && ucode(e) == AE::AccountNotSigner as u32)
        ),
    }
    core::mem::forget(r2);
    check(it.next_program_token(), &accounts[3], a3.key() == TOKEN_PROGRAM_ID, AE::InvalidProgramId);
    check(
        it.next_program_token_or_token_2022(),
        &accounts[4],
        a4.key() == TOKEN_PROGRAM_ID || a4.key() == TOKEN_2022_PROGRAM_ID,
        AE::InvalidProgramId,
    );
    check(it.next_program_memo(), &accounts[5], a5.key() == MEMO_PROGRAM_ID, AE::InvalidProgramId);
    let r6 = it.next_program_system();
    kani::cover!(r6.is_ok(), "system program accepted");
    check(r6, &accounts[6], a6.key() == SYSTEM_PROGRAM_ID, AE::InvalidProgramId);
    assert!(it.remaining_accounts().len() == 0);
    // exhausted
    let e = it.next();
    match &e {
        Err(x) => assert!(ucode(x) == AE::AccountNotEnoughKeys as u32),
        Ok(_) => assert!(false),
    }
    core::mem::forget(e);
    let e = it.next_signer();
    assert!(e.is_err());
    core::mem::forget(e);
    // the program ids are the real ones
    assert!(TOKEN_PROGRAM_ID == anchor_spl::token::ID.to_bytes());
    assert!(TOKEN_2022_PROGRAM_ID == anchor_spl::token_2022::ID.to_bytes());
    assert!(MEMO_PROGRAM_ID == anchor_spl::memo::ID.to_bytes());
    assert!(WHIRLPOOL_PROGRAM_ID == ::whirlpool::ID.to_bytes());
    assert!(SYSTEM_PROGRAM_ID == anchor_lang::solana_program::system_program::ID.to_bytes());
}

/// load_account_mut::<Whirlpool> / load_account::<Position> on fully symbolic accounts (full size, and a 4-byte one), verify_address, verify_constraint: Ok exactly when owner = whirlpool program and the 8-byte discriminator is present and matches / keys equal / condition true; Anchor error codes otherwise
// @verif prop=C15 tier=quick timeout=300
#[kani::proof]
#[kani::unwind(40)]
#[kani::stub(alloc::fmt::format, stub_format)]
#[kani::stub(<anchor_lang::error::Error as core::convert::From<anchor_lang::error::ErrorCode>>::from, stub_err_from_anchor_code)]
fn c04p_loaders() {
    use anchor_lang::error::ErrorCode as AE;
    use anchor_lang::Discriminator;
    let mut wp = raw::<A_WP>();
    let mut pos = raw::<A_POS>();
    let mut short = raw::<4>();
    let (wpi, posi, shorti) = unsafe { (ai(&mut wp), ai(&mut pos), ai(&mut short)) };
    let r = load_account_mut::<MemoryMappedWhirlpool>(&wpi);
    let ok = r.is_ok();
    let code = match &r {
        Ok(_) => 0,
        Err(e) => ucode(e),
    };
    release(r);
    kani::cover!(ok, "whirlpool loads");
    assert!(ok == (wp.owner() == WHIRLPOOL_PROGRAM_ID && wp.d8(0) == WP_DISC));
    if !ok {
        assert!(code == if wp.owner() != WHIRLPOOL_PROGRAM_ID { AE::AccountOwnedByWrongProgram as u32 } else { AE::AccountDiscriminatorMismatch as u32 });
    }
    let r = load_account::<MemoryMappedPosition>(&posi);
    let ok = r.is_ok();
    release(r);
    assert!(ok == (pos.owner() == WHIRLPOOL_PROGRAM_ID && pos.d8(0) == POS_DISC));
    let r = load_account::<MemoryMappedPosition>(&shorti);
    match &r {
        Ok(_) => assert!(false, "an account without 8 discriminator bytes never loads"),
        Err(e) => assert!(short.owner() != WHIRLPOOL_PROGRAM_ID || ucode(e) == AE::AccountDiscriminatorNotFound as u32),
    }
    release(r);
    assert!(WP_DISC[..] == *::whirlpool::state::Whirlpool::DISCRIMINATOR);
    assert!(POS_DISC[..] == *::whirlpool::state::Position::DISCRIMINATOR);
    // verify_address / verify_constraint
    let a: [u8; 32] = kani::any();
    let b: [u8; 32] = kani::any();
    let r = verify_address(&a, &b);
    match &r {
        Ok(()) => assert!(a == b),
        Err(e) => assert!(a != b && ucode(e) == AE::ConstraintAddress as u32),
    }
    core::mem::forget(r);
    let c: bool = kani::any();
    let r = verify_constraint(c);
    match &r {
        Ok(()) => assert!(c),
        Err(e) => assert!(!c && ucode(e) == AE::ConstraintRaw as u32),
    }
    core::mem::forget(r);
}

macro_rules! token_account_load_case {
    ($n:expr, $spec:expr) => {{
        let mut tok = raw::<$n>();
        let toki = unsafe { ai(&mut tok) };
        let r = load_token_program_account::<MemoryMappedTokenAccount>(&toki);
        let owner_ok = tok.owner() == TOKEN_PROGRAM_ID || tok.owner() == TOKEN_2022_PROGRAM_ID;
        let spec: bool = owner_ok && ($spec)(&tok);
        match &r {
            Ok(t) => assert!(spec && t.is_token_2022() == (tok.owner() == TOKEN_2022_PROGRAM_ID)),
            Err(e) => {
                assert!(!spec);
                if !owner_ok {
                    assert!(ucode(e) == anchor_lang::error::ErrorCode::AccountOwnedByWrongProgram as u32);
                }
            }
        }
        let ok = r.is_ok();
        release(r);
        ok
    }};
}

/// load_token_program_account::<TokenAccount> on fully symbolic accounts of 165 (base), 170 (with extensions), 355 (multisig size) and 100 (too short) data bytes: Ok exactly when the owner is SPL Token or Token-2022, the state byte (offset 108) is non-zero and the size is the base size or the account-type byte (offset 165) is 2; multisig-sized and short accounts never load; is_token_2022 reflects the owner
// @verif prop=C04,C15 tier=quick timeout=300
#[kani::proof]
#[kani::unwind(40)]
#[kani::stub(alloc::fmt::format, stub_format)]
#[kani::stub(<anchor_lang::error::Error as core::convert::From<anchor_lang::error::ErrorCode>>::from, stub_err_from_anchor_code)]
fn c04p_load_token_account() {
    let ok_base = token_account_load_case!(165, |t: &Raw<165>| t.d(108) != 0);
    let ok_ext = token_account_load_case!(170, |t: &Raw<170>| t.d(108) != 0 && t.d(165) == 2);
    let ok_multisig = token_account_load_case!(355, |_t: &Raw<355>| false);
    let ok_short = token_account_load_case!(100, |_t: &Raw<100>| false);
    kani::cover!(ok_base, "base token account loads");
    kani::cover!(ok_ext, "token account with extensions loads");
    assert!(!ok_multisig && !ok_short);
}

// full-size tick-array account: bare 8-aligned word array (a top-level array stays cheap in CBMC, a struct
// member of this size does not), 88-byte header + 10004 bytes = the largest layout (dynamic) the loaders may view
const TA_WORDS: usize = (HDR + 10004 + 7) / 8;
fn rd32(p: *const u8, off: usize) -> [u8; 32] {
    let mut k = [0u8; 32];
    let mut i = 0;
    while i < 32 {
        k[i] = unsafe { *p.add(off + i) };
        i += 1;
    }
    k
}
macro_rules! tick_array_loader_body {
    ($loader:path, $needs_writable:expr) => {{
        use anchor_lang::error::ErrorCode as AE;
        use anchor_lang::Discriminator;
        let mut mem: [u64; TA_WORDS] = kani::any();
        let pool: [u8; 32] = kani::any();
        let len: u64 = kani::any();
        kani::assume(len <= 10004);
        let p = mem.as_mut_ptr() as *mut u8;
        unsafe {
            *p = 0xff; // not borrowed
            kani::assume(*p.add(1) <= 1 && *p.add(2) <= 1 && *p.add(3) <= 1);
            *(p.add(4) as *mut u32) = 0; // resize_delta
            *(p.add(80) as *mut u64) = len;
        }
        let a = unsafe {
            let mut slot = core::mem::MaybeUninit::<AccountInfo>::uninit();
            (slot.as_mut_ptr() as *mut *mut u8).write(p);
            slot.assume_init()
        };
        let r = $loader(&a, &pool);
        let ok = r.is_ok();
        let code = match &r {
            Ok(_) => 0,
            Err(e) => ucode(e),
        };
        release(r);
        let writable = unsafe { *p.add(2) } != 0;
        let owner = rd32(p, 40);
        let mut disc = [0u8; 8];
        let mut i = 0;
        while i < 8 {
            disc[i] = unsafe { *p.add(HDR + i) };
            i += 1;
        }
        let fixed = disc[..] == *::whirlpool::state::FixedTickArray::DISCRIMINATOR;
        let dynamic = disc[..] == *::whirlpool::state::DynamicTickArray::DISCRIMINATOR;
        let back = if fixed { rd32(p, HDR + FIXED_TA_WHIRLPOOL) } else { rd32(p, HDR + DYN_TA_WHIRLPOOL) };
        let spec = (writable || !$needs_writable) && owner == WHIRLPOOL_PROGRAM_ID && len >= 8 && (fixed || dynamic) && back == pool;
        kani::cover!(ok && fixed, "fixed tick array loads");
        kani::cover!(ok && dynamic, "dynamic tick array loads");
        assert!(ok == spec);
        if !ok && (writable || !$needs_writable) && owner == WHIRLPOOL_PROGRAM_ID && len >= 8 && (fixed || dynamic) {
            assert!(code == ecode(::whirlpool::errors::ErrorCode::DifferentWhirlpoolTickArrayAccount));
        }
        if !ok && (writable || !$needs_writable) && owner != WHIRLPOOL_PROGRAM_ID {
            assert!(code == AE::AccountOwnedByWrongProgram as u32);
        }
    }};
}

/// load_tick_array_mut on a fully symbolic full-size account (10004 data bytes, symbolic data length) and a symbolic pool key: Ok exactly when writable, owned by the whirlpool program, discriminator is FixedTickArray / DynamicTickArray and the layout's back-reference equals the pool key
// @verif prop=C15 tier=quick timeout=300
#[kani::proof]
#[kani::unwind(40)]
#[kani::stub(alloc::fmt::format, stub_format)]
#[kani::stub(<anchor_lang::error::Error as core::convert::From<::whirlpool::errors::ErrorCode>>::from, stub_err_from_code)]
#[kani::stub(<anchor_lang::error::Error as core::convert::From<anchor_lang::error::ErrorCode>>::from, stub_err_from_anchor_code)]
fn c04p_load_tick_array_mut() {
    tick_array_loader_body!(load_tick_array_mut, true);
}

/// load_tick_array (read-only loader) on a fully symbolic full-size account: Ok exactly when owned by the whirlpool program, tick-array discriminator, back-reference equals the pool key
// @verif prop=C15 tier=thorough timeout=900
#[kani::proof]
#[kani::unwind(40)]
#[kani::stub(alloc::fmt::format, stub_format)]
#[kani::stub(<anchor_lang::error::Error as core::convert::From<::whirlpool::errors::ErrorCode>>::from, stub_err_from_code)]
#[kani::stub(<anchor_lang::error::Error as core::convert::From<anchor_lang::error::ErrorCode>>::from, stub_err_from_anchor_code)]
fn c04p_load_tick_array() {
    tick_array_loader_body!(load_tick_array, false);
}

/// vacuity twin: must FAIL (a wrong signer being accepted by the same machinery would be reported)
// @verif prop=C04,C15 tier=quick timeout=300 twin
#[kani::proof]
#[kani::unwind(40)]
#[kani::stub(alloc::fmt::format, stub_format)]
#[kani::stub(<anchor_lang::error::Error as core::convert::From<::whirlpool::errors::ErrorCode>>::from, stub_err_from_code)]
#[kani::stub(<anchor_lang::error::Error as core::convert::From<anchor_lang::error::ErrorCode>>::from, stub_err_from_anchor_code)]
fn c04p_twin_must_fail() {
    use ::whirlpool::pinocchio::ported::util_shared::pino_verify_position_authority;
    let tok = raw::<A_TOK>();
    let mut auth = raw::<A0>();
    let p_auth = unsafe { ai(&mut auth) };
    let view = unsafe { &*(tok.data.as_ptr() as *const MemoryMappedTokenAccount) };
    let p = pino_verify_position_authority(view, &p_auth);
    let ok = p.is_ok();
    core::mem::forget(p);
    // deliberately wrong claim: "a delegate is never accepted"
    assert!(!(ok && tok.dkey(32) != auth.key()), "twin: a one-token delegate is accepted and must be reported here");
}
