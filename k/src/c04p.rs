//! c04p harnesses (Engine K)
