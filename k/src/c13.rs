//! C13 harnesses (Engine K)
