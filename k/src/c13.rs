//! C13 — a dynamic tick array behaves exactly like a fixed one (Engine K).
//!
//! L1 (fully symbolic): slot -> byte offset map, used length, bitmap sync, `get_tick` vs the encoding.
//! L2 (positions concrete, contents symbolic): two single-implementation scenarios that were measured to finish; the
//! three-way scenario driver `l2_scenario` below is kept as NOT-RUN work in progress (symex > 600 s, see props/c13.py OUTSIDE).
use crate::common::*;
use anchor_lang::Discriminator;
use ::whirlpool::errors::ErrorCode;
use ::whirlpool::manager::tick_array_manager::{calculate_modify_tick_array, TickArraySizeUpdate};
use ::whirlpool::pinocchio::ported::manager_liquidity_manager::verif_pino_calculate_modify_tick_array;
use ::whirlpool::pinocchio::state::whirlpool::tick_array::dynamic_tick_array::MemoryMappedDynamicTickArray;
use ::whirlpool::pinocchio::state::whirlpool::tick_array::TickArray as PTickArray;
use ::whirlpool::pinocchio::state::whirlpool::tick_array::TickUpdate as PTickUpdate;
use ::whirlpool::pinocchio::state::whirlpool::{MemoryMappedPosition, MemoryMappedTick};
use ::whirlpool::state::*;

// ---------------------------------------------------------------------------------------------
// §0 helpers

/// account image of a full-size dynamic tick array (discriminator + 4 + 32 + 16 + 88·113)
const DTA_LEN: usize = 10004;
/// Anchor's loader maps `[u8; MAX_LEN]` at data[8..], i.e. it claims 8 bytes beyond a MAX_LEN account (on chain: the
/// runtime's realloc padding). Every harness allocates the whole claimed range.
const BUF_LEN: usize = DTA_LEN + 8;
/// offset of the tick data in the account image
const TICKS: usize = 60;
const BITMAP: usize = 44;

fn pino(b: &[u8; BUF_LEN]) -> &MemoryMappedDynamicTickArray {
    assert!(core::mem::size_of::<MemoryMappedDynamicTickArray>() == DTA_LEN && DynamicTickArray::MAX_LEN == DTA_LEN);
    unsafe { &*(b.as_ptr() as *const MemoryMappedDynamicTickArray) }
}
fn pino_mut(b: &mut [u8; BUF_LEN]) -> &mut MemoryMappedDynamicTickArray {
    unsafe { &mut *(b.as_mut_ptr() as *mut MemoryMappedDynamicTickArray) }
}
fn anchor(b: &[u8; BUF_LEN]) -> &DynamicTickArrayLoader {
    DynamicTickArrayLoader::load(&b[8..])
}
fn anchor_mut(b: &mut [u8; BUF_LEN]) -> &mut DynamicTickArrayLoader {
    DynamicTickArrayLoader::load_mut(&mut b[8..])
}

/// reference popcount of the bits below `slot`, one bit at a time (no `count_ones`, no mask arithmetic)
fn ref_prefix_count(bitmap: u128, slot: usize) -> usize {
    let mut n = 0usize;
    let mut i = 0usize;
    while i < 88 {
        if i < slot && (bitmap >> i) & 1 == 1 {
            n += 1;
        }
        i += 1;
    }
    n
}
/// the encoding's slot -> byte offset map: every earlier initialised slot takes 113 bytes, every other one 1
fn ref_byte_offset(bitmap: u128, slot: usize) -> usize {
    let n = ref_prefix_count(bitmap, slot);
    113 * n + (slot - n)
}

fn any_tick_updates() -> (TickUpdate, PTickUpdate) {
    let a = TickUpdate {
        initialized: kani::any(),
        liquidity_net: kani::any(),
        liquidity_gross: kani::any(),
        fee_growth_outside_a: kani::any(),
        fee_growth_outside_b: kani::any(),
        reward_growths_outside: [kani::any(), kani::any(), kani::any()],
    };
    let p = PTickUpdate {
        initialized: a.initialized,
        liquidity_net: a.liquidity_net,
        liquidity_gross: a.liquidity_gross,
        fee_growth_outside_a: a.fee_growth_outside_a,
        fee_growth_outside_b: a.fee_growth_outside_b,
        reward_growths_outside: a.reward_growths_outside,
    };
    (a, p)
}

fn set_bitmap(b: &mut [u8; BUF_LEN], bitmap: u128) {
    let x = bitmap.to_le_bytes();
    let mut i = 0;
    while i < 16 {
        b[BITMAP + i] = x[i];
        i += 1;
    }
}

// ---------------------------------------------------------------------------------------------
// §1 L1 — offset arithmetic, fully symbolic

/// L1 byte_offset: for EVERY 128-bit bitmap and every slot 0..=88, Anchor `byte_offset` == Pinocchio `byte_offset`
/// == 113·popcount(bits below slot) + (slot − popcount) computed by a bit-by-bit reference; slot 88 gives the end of
/// the encoding, i.e. used length == 148 + 112·popcount(bitmap) for bitmaps < 2^88; a negative slot is TickNotFound (Anchor)
// @verif prop=C13 tier=quick timeout=300
#[kani::proof]
#[kani::unwind(90)]
#[kani::stub(alloc::fmt::format, stub_format)]
#[kani::stub(<anchor_lang::error::Error as core::convert::From<::whirlpool::errors::ErrorCode>>::from, stub_err_from_code)]
#[kani::stub(<::whirlpool::pinocchio::errors::UnifiedError as core::convert::From<::whirlpool::errors::ErrorCode>>::from, stub_unified_from_code)]
fn c13_l1_byte_offset() {
    let bitmap: u128 = kani::any();
    let slot: usize = kani::any();
    let neg: isize = kani::any();
    kani::assume(slot <= 88);
    kani::assume(neg < 0);
    let mut b: Box<[u8; BUF_LEN]> = Box::new([0u8; BUF_LEN]);
    set_bitmap(&mut b, bitmap);
    let a = anchor(&b);
    let p = pino(&b);
    assert!(a.verif_tick_bitmap() == bitmap && p.verif_tick_bitmap() == bitmap, "bitmap accessors read bytes 44..60");
    let ao = a.verif_byte_offset(slot as isize);
    let po = p.verif_byte_offset(slot);
    let e = ref_byte_offset(bitmap, slot);
    match (&ao, &po) {
        (Ok(x), Ok(y)) => {
            assert!(*x == e, "Anchor byte_offset == 113*popcount + rest");
            assert!(*y == e, "Pinocchio byte_offset == 113*popcount + rest");
        }
        _ => assert!(false, "byte_offset is infallible for 0 <= slot <= 88"),
    }
    if slot == 88 && bitmap >> 88 == 0 {
        // used length of the account = header (8 + 52) + end of the encoding
        let pc = ref_prefix_count(bitmap, 88);
        assert!(TICKS + e == 148 + 112 * pc, "used length == 148 + 112*popcount");
        assert!(148 + 112 * pc <= DynamicTickArray::MAX_LEN && DynamicTickArray::MIN_LEN == 148);
        kani::cover!(pc == 88, "all slots initialised: MAX_LEN");
        kani::cover!(pc == 0, "empty array: MIN_LEN");
    }
    let an = a.verif_byte_offset(neg);
    assert!(matches!(&an, Err(x) if acode(x) == ecode(ErrorCode::TickNotFound)), "negative slot");
    kani::cover!(slot == 87 && e == 87 * 113, "all earlier slots initialised");
    kani::cover!(slot == 65 && e == 65 + 112 * 2 && (bitmap >> 63) & 3 == 3, "popcount across the 64-bit word boundary");
    core::mem::forget(ao);
    core::mem::forget(po);
    core::mem::forget(an);
}

// ---------------------------------------------------------------------------------------------
// §2 L2 — data movement: positions concrete, contents symbolic

/// Account image as a struct whose first member is the 60-byte header. CBMC splits small array members into one SSA
/// symbol per element (field sensitivity, <= 64 elements), so the bitmap stays a constant during symbolic execution
/// and every byte offset the code computes from it is a constant too. (With a flat `[u8; 10012]` the bitmap read back
/// from the buffer is symbolic for the symbolic executor: 118 M clauses / 15 GB for ONE initialisation; with this
/// layout 0.2 M clauses.) Same bytes, same addresses: only the harness-side type of the allocation differs.
#[repr(C)]
struct Img {
    hdr: [u8; TICKS],
    ticks: [u8; BUF_LEN - TICKS],
}
fn tk(b: &Img) -> &[u8] {
    unsafe { core::slice::from_raw_parts((b as *const Img as *const u8).add(TICKS), BUF_LEN - TICKS) }
}
fn img_new(start: i32, key: &[u8; 32]) -> Img {
    assert!(core::mem::size_of::<Img>() >= BUF_LEN);
    let mut b = Img { hdr: [0u8; TICKS], ticks: [0u8; BUF_LEN - TICKS] };
    let d = DynamicTickArray::DISCRIMINATOR;
    let st = start.to_le_bytes();
    let mut i = 0;
    while i < 8 { b.hdr[i] = d[i]; i += 1; }
    let mut i = 0;
    while i < 4 { b.hdr[8 + i] = st[i]; i += 1; }
    let mut i = 0;
    while i < 32 { b.hdr[12 + i] = key[i]; i += 1; }
    b
}
fn img_anchor(b: &Img) -> &DynamicTickArrayLoader {
    unsafe { &*((b as *const Img as *const u8).add(8) as *const DynamicTickArrayLoader) }
}
fn img_anchor_mut(b: &mut Img) -> &mut DynamicTickArrayLoader {
    unsafe { &mut *((b as *mut Img as *mut u8).add(8) as *mut DynamicTickArrayLoader) }
}
fn img_pino(b: &Img) -> &MemoryMappedDynamicTickArray {
    unsafe { &*(b as *const Img as *const MemoryMappedDynamicTickArray) }
}
fn img_pino_mut(b: &mut Img) -> &mut MemoryMappedDynamicTickArray {
    unsafe { &mut *(b as *mut Img as *mut MemoryMappedDynamicTickArray) }
}

/// symbolic contents, concrete `initialized` flag
fn any_update(flag: bool) -> (TickUpdate, PTickUpdate) {
    let (mut a, mut p) = any_tick_updates();
    a.initialized = flag;
    p.initialized = flag;
    (a, p)
}
fn expect_of(u: &TickUpdate) -> Tick {
    // what a slot holds after `update_tick(u)`: the update itself if it initialises, the default tick otherwise
    // (a dynamic array cannot store anything for an uninitialised slot)
    if u.initialized {
        Tick {
            initialized: true,
            liquidity_net: u.liquidity_net,
            liquidity_gross: u.liquidity_gross,
            fee_growth_outside_a: u.fee_growth_outside_a,
            fee_growth_outside_b: u.fee_growth_outside_b,
            reward_growths_outside: u.reward_growths_outside,
        }
    } else {
        Tick::default()
    }
}
fn same3(a: &Tick, p: &MemoryMappedTick, f: &Tick) -> bool {
    let pr = p.reward_growths_outside();
    let (ar, fr) = ({ a.reward_growths_outside }, { f.reward_growths_outside });
    a.initialized == f.initialized
        && p.initialized() == f.initialized
        && { a.liquidity_net } == { f.liquidity_net }
        && p.liquidity_net() == { f.liquidity_net }
        && { a.liquidity_gross } == { f.liquidity_gross }
        && p.liquidity_gross() == { f.liquidity_gross }
        && { a.fee_growth_outside_a } == { f.fee_growth_outside_a }
        && p.fee_growth_outside_a() == { f.fee_growth_outside_a }
        && { a.fee_growth_outside_b } == { f.fee_growth_outside_b }
        && p.fee_growth_outside_b() == { f.fee_growth_outside_b }
        && ar[0] == fr[0] && ar[1] == fr[1] && ar[2] == fr[2]
        && pr[0] == fr[0] && pr[1] == fr[1] && pr[2] == fr[2]
}
fn same_tick(a: &Tick, f: &Tick) -> bool {
    let (ar, fr) = ({ a.reward_growths_outside }, { f.reward_growths_outside });
    a.initialized == f.initialized
        && { a.liquidity_net } == { f.liquidity_net }
        && { a.liquidity_gross } == { f.liquidity_gross }
        && { a.fee_growth_outside_a } == { f.fee_growth_outside_a }
        && { a.fee_growth_outside_b } == { f.fee_growth_outside_b }
        && ar[0] == fr[0] && ar[1] == fr[1] && ar[2] == fr[2]
}

/// `<&[u8] as io::Read>::read_exact` without the short-read error: that the input is long enough is ASSERTED
fn stub_slice_read_exact<'a>(this: &mut &'a [u8], buf: &mut [u8]) -> std::io::Result<()>
where
    'a: 'a,
{
    let n = buf.len();
    assert!(n <= this.len(), "read_exact model: enough input");
    let (a, b) = this.split_at(n);
    let mut i = 0;
    while i < n {
        buf[i] = a[i];
        i += 1;
    }
    *this = b;
    Ok(())
}

/// all bytes of b[from..to] are zero (16 bytes per step: the loop is unrolled by the symbolic executor)
fn assert_zero(b: &[u8], from: usize, to: usize) {
    assert!(from <= to && to <= b.len());
    let p = b.as_ptr();
    let mut i = from;
    while i + 16 <= to {
        let w = unsafe { core::ptr::read_unaligned(p.add(i) as *const u128) };
        assert!(w == 0, "zero tail");
        i += 16;
    }
    while i < to {
        assert!(b[i] == 0, "zero tail");
        i += 1;
    }
}

// Reduced model of `<[u8]>::rotate_right / rotate_left` (std's rotate is not the code under test; what it is applied to —
// the slice start, its length and the distance — comes from the code under test and is honoured). The model is exact under
// its precondition, which it ASSERTS on every call: every byte of the slice from index MODEL_USED on is zero. MODEL_USED is
// set by the harness before each `update_tick` (used length of the account minus the offset of the slot); a wrong value can
// only make the assertion fail, never hide a difference.
//   rotate_right(k): [x_0 .. x_{u-1}, 0 ...] -> [0 (k times), x_0 .. x_{u-1}, 0 ...]          (needs u + k <= n)
//   rotate_left(k):  [x_0 .. x_{u-1}, 0 ...] -> [x_k .. x_{u-1}, 0 ..., x_0 .. x_{k-1}]       (needs k <= u, u <= n - k)
static mut MODEL_USED: usize = 0;
fn model_rotate_right<T>(s: &mut [T], k: usize) {
    assert!(core::mem::size_of::<T>() == 1);
    let n = s.len();
    let used = unsafe { MODEL_USED };
    assert!(k <= n && used + k <= n, "rotate model: bounds");
    let b: &mut [u8] = unsafe { core::slice::from_raw_parts_mut(s.as_mut_ptr() as *mut u8, n) };
    assert_zero(b, used, n);
    let mut i = used;
    while i > 0 {
        i -= 1;
        b[i + k] = b[i];
    }
    let mut i = 0;
    while i < k && i < used {
        b[i] = 0;
        i += 1;
    }
}
fn model_rotate_left<T>(s: &mut [T], k: usize) {
    assert!(core::mem::size_of::<T>() == 1);
    let n = s.len();
    let used = unsafe { MODEL_USED };
    assert!(k <= used && used + k <= n && k <= 128, "rotate model: bounds");
    let b: &mut [u8] = unsafe { core::slice::from_raw_parts_mut(s.as_mut_ptr() as *mut u8, n) };
    assert_zero(b, used, n);
    let mut tmp = [0u8; 128];
    let mut i = 0;
    while i < k {
        tmp[i] = b[i];
        i += 1;
    }
    let mut i = k;
    while i < used {
        b[i - k] = b[i];
        i += 1;
    }
    let mut i = used - k;
    while i < used {
        b[i] = 0;
        i += 1;
    }
    let mut i = 0;
    while i < k {
        b[n - k + i] = tmp[i];
        i += 1;
    }
}
/// used length of the tick area for an initialised set
fn ref_used(set: u128) -> usize {
    ref_byte_offset(set, 88)
}

/// representative slots: first, second, around the 64-bit bitmap word boundary, last two
const REP: [usize; 7] = [0, 1, 63, 64, 65, 86, 87];
const MAX_PRE: usize = 4;

/// One scenario. `pre`: slots initialised (in this order) by real `update_tick` calls on the three arrays;
/// then ONE `update_tick(slot)` whose `initialized` flag is `flag` (so: initialise / modify / de-initialise / no-op
/// according to `slot in pre` and `flag`), all tick contents symbolic. Afterwards: results agree (Ok / same error code),
/// `get_tick` agrees three-way and with the abstract map on every representative slot, both bitmaps == initialised set,
/// header untouched, encoding well formed, Anchor image == Pinocchio image byte for byte.
fn l2_scenario(pre: &[usize], slot: usize, flag: bool, start: i32, ts: u16) {
    // ---- inputs
    let key: [u8; 32] = kani::any();
    let mut ups_a: [TickUpdate; MAX_PRE] = [TickUpdate::default(), TickUpdate::default(), TickUpdate::default(), TickUpdate::default()];
    let mut ups_p: [PTickUpdate; MAX_PRE] = [PTickUpdate::default(), PTickUpdate::default(), PTickUpdate::default(), PTickUpdate::default()];
    assert!(pre.len() <= MAX_PRE);
    let mut k = 0;
    while k < pre.len() {
        let (a, p) = any_update(true);
        ups_a[k] = a;
        ups_p[k] = p;
        k += 1;
    }
    let (op_a, op_p) = any_update(flag);
    let tsi = ts as i32;
    let idx = |s: usize| start + (s as i32) * tsi;

    // ---- the three arrays
    let mut ia = img_new(start, &key);
    let mut ip = img_new(start, &key);
    let mut fx: Box<FixedTickArray> = Box::new(FixedTickArray::default());
    fx.start_tick_index = start;

    // ---- pre-state by real calls
    let mut cur: u128 = 0;
    let mut k = 0;
    while k < pre.len() {
        let t = idx(pre[k]);
        unsafe { MODEL_USED = ref_used(cur) - ref_byte_offset(cur, pre[k]); }
        cur |= 1u128 << pre[k];
        let ra = img_anchor_mut(&mut ia).update_tick(t, ts, &ups_a[k]);
        let rp = img_pino_mut(&mut ip).update_tick(t, ts, &ups_p[k]);
        let rf = fx.update_tick(t, ts, &ups_a[k]);
        assert!(ra.is_ok() && rp.is_ok() && rf.is_ok(), "pre-state: every slot of `pre` is usable");
        core::mem::forget(ra);
        core::mem::forget(rp);
        core::mem::forget(rf);
        k += 1;
    }

    // ---- the operation
    let t = idx(slot);
    unsafe { MODEL_USED = ref_used(cur) - ref_byte_offset(cur, slot); }
    let ra = img_anchor_mut(&mut ia).update_tick(t, ts, &op_a);
    let rp = img_pino_mut(&mut ip).update_tick(t, ts, &op_p);
    let rf = fx.update_tick(t, ts, &op_a);
    let usable = t >= MIN_TICK_INDEX && t <= MAX_TICK_INDEX;
    match (&ra, &rp, &rf) {
        (Ok(()), Ok(()), Ok(())) => assert!(usable, "update accepted only for a usable tick"),
        (Err(x), Err(y), Err(z)) => {
            assert!(acode(x) == acode(z) && ucode(y) == acode(z), "same error code");
            assert!(!usable && acode(z) == ecode(ErrorCode::TickNotFound));
        }
        _ => assert!(false, "outcome kind differs (Anchor dynamic / Pinocchio dynamic / fixed)"),
    }
    let applied = ra.is_ok();
    kani::cover!(applied, "operation applied");

    // ---- expected initialised set and abstract map
    let mut set: u128 = 0;
    let mut k = 0;
    while k < pre.len() {
        set |= 1u128 << pre[k];
        k += 1;
    }
    if applied {
        if flag { set |= 1u128 << slot; } else { set &= !(1u128 << slot); }
    }

    // ---- queries on the representative slots
    let mut q = 0;
    while q < REP.len() {
        let s = REP[q];
        let ti = idx(s);
        let ga = img_anchor(&ia).get_tick(ti, ts);
        let gp = img_pino(&ip).get_tick(ti, ts);
        let gf = fx.get_tick(ti, ts);
        match (&ga, &gp, &gf) {
            (Ok(a), Ok(p), Ok(f)) => {
                assert!(same3(a, p, f), "get_tick: Anchor dynamic == Pinocchio dynamic == fixed");
                // abstract map
                let mut e = Tick::default();
                let mut k = 0;
                while k < pre.len() {
                    if pre[k] == s { e = expect_of(&ups_a[k]); }
                    k += 1;
                }
                if applied && s == slot { e = expect_of(&op_a); }
                // a fixed array keeps the payload of an update with initialized == false, a dynamic one cannot:
                // the (de-)initialising updates the program produces carry the default payload (see OUTSIDE)
                assert!(same_tick(a, &e), "get_tick == abstract map");
                assert!(a.initialized == ((set >> s) & 1 == 1));
            }
            (Err(x), Err(y), Err(z)) => {
                assert!(acode(x) == acode(z) && ucode(y) == acode(z), "get_tick: same error code");
                assert!(ti < MIN_TICK_INDEX || ti > MAX_TICK_INDEX);
            }
            _ => assert!(false, "get_tick outcome kind differs"),
        }
        core::mem::forget(ga);
        core::mem::forget(gp);
        core::mem::forget(gf);
        q += 1;
    }

    // ---- header: bitmap == initialised set (both accessors), start index and key untouched
    assert!(img_anchor(&ia).verif_tick_bitmap() == set, "Anchor bitmap == initialised set");
    assert!(img_pino(&ip).verif_tick_bitmap() == set, "Pinocchio bitmap == initialised set");
    assert!(TickArrayType::start_tick_index(img_anchor(&ia)) == start && PTickArray::start_tick_index(img_pino(&ip)) == start);
    let mut i = 0;
    while i < 44 {
        assert!(ia.hdr[i] == ip.hdr[i] && (i < 12 || ia.hdr[i] == key[i - 12]), "header bytes 0..44 untouched");
        i += 1;
    }

    // ---- encoding: tag 1 + 112 bytes per initialised slot, a single 0 byte otherwise, in slot order
    let mut o = 0usize;
    let mut s = 0usize;
    while s < 88 {
        if (set >> s) & 1 == 1 {
            assert!(tk(&ia)[o] == 1 && tk(&ip)[o] == 1, "tag byte of an initialised slot");
            o += 113;
        } else {
            assert!(tk(&ia)[o] == 0 && tk(&ip)[o] == 0, "an uninitialised slot is a single zero byte");
            o += 1;
        }
        s += 1;
    }
    let used = TICKS + o;
    assert!(used == 148 + 112 * (set.count_ones() as usize), "used length");
    // ---- Anchor image == Pinocchio image on the used part; everything behind it is zero. After a de-initialisation
    // `rotate_left` parks the removed 112 bytes at the very end of the 9 952-byte tick area of the loader type
    // (bytes 9 900..10 012 of the image, behind the account's data unless the array was nearly full): excluded.
    let deinit = applied && !flag && pre.contains(&slot);
    let end = if deinit { BUF_LEN - 112 } else { BUF_LEN };
    let mut i = 0;
    while i < o {
        assert!(tk(&ia)[i] == tk(&ip)[i], "Anchor image == Pinocchio image (used part)");
        i += 1;
    }
    assert_zero(tk(&ia), o, end - TICKS);
    assert_zero(tk(&ip), o, end - TICKS);
    core::mem::forget(ra);
    core::mem::forget(rp);
    core::mem::forget(rf);
}


fn rd_u128(b: &[u8], o: usize) -> u128 {
    let mut x = [0u8; 16];
    let mut i = 0;
    while i < 16 {
        x[i] = b[o + i];
        i += 1;
    }
    u128::from_le_bytes(x)
}

/// L1 codec: Borsh `DynamicTick::deserialize` on ALL 113-byte inputs == the encoding (tag 0: default tick, 1 byte consumed;
/// tag 1: seven little-endian 16-byte fields, 113 bytes consumed; any other tag: error)
// @verif prop=C13 tier=quick timeout=300
#[kani::proof]
#[kani::unwind(20)]
#[kani::stub(alloc::fmt::format, stub_format)]
#[kani::stub(<anchor_lang::error::Error as core::convert::From<std::io::Error>>::from, stub_err_from_io)]
#[kani::stub(<anchor_lang::error::Error as core::convert::From<::whirlpool::errors::ErrorCode>>::from, stub_err_from_code)]
fn c13_l1_codec() {
    use anchor_lang::AnchorDeserialize;
    let b: [u8; 113] = kani::any();
    let mut sl: &[u8] = &b[..];
    let r = DynamicTick::deserialize(&mut sl);
    kani::cover!(matches!(&r, Ok(DynamicTick::Initialized(_))), "initialised tick decoded");
    match &r {
        Ok(DynamicTick::Uninitialized) => assert!(b[0] == 0 && sl.len() == 112),
        Ok(DynamicTick::Initialized(d)) => {
            assert!(b[0] == 1 && sl.len() == 0);
            assert!(d.liquidity_net == rd_u128(&b, 1) as i128);
            assert!(d.liquidity_gross == rd_u128(&b, 17));
            assert!(d.fee_growth_outside_a == rd_u128(&b, 33));
            assert!(d.fee_growth_outside_b == rd_u128(&b, 49));
            assert!(d.reward_growths_outside[0] == rd_u128(&b, 65));
            assert!(d.reward_growths_outside[1] == rd_u128(&b, 81));
            assert!(d.reward_growths_outside[2] == rd_u128(&b, 97));
        }
        Err(_) => assert!(b[0] > 1),
    }
    core::mem::forget(r);
}

/// L2 (Anchor dynamic, reduced rotate model): empty array, initialise slot 63 with symbolic contents, then `get_tick(63)`
/// returns exactly the update and the bitmap is {63}
// @verif prop=C13 tier=quick timeout=300
#[kani::proof]
#[kani::unwind(800)]
#[kani::stub(<[u8]>::rotate_right, model_rotate_right)]
#[kani::stub(<[u8]>::rotate_left, model_rotate_left)]
#[kani::stub(alloc::fmt::format, stub_format)]
#[kani::stub(<anchor_lang::error::Error as core::convert::From<std::io::Error>>::from, stub_err_from_io)]
#[kani::stub(<anchor_lang::error::Error as core::convert::From<::whirlpool::errors::ErrorCode>>::from, stub_err_from_code)]
fn c13_l2_anchor_init_slot63() {
    let (u, _pu) = any_update(true);
    let key = [0u8; 32];
    let mut b = img_new(0, &key);
    unsafe { MODEL_USED = 88 - 63; }
    let r = img_anchor_mut(&mut b).update_tick(63, 1, &u);
    assert!(r.is_ok());
    let g = img_anchor(&b).get_tick(63, 1);
    kani::cover!(g.is_ok(), "tick read back");
    assert!(matches!(&g, Ok(t) if same_tick(t, &expect_of(&u))), "get_tick returns the update");
    assert!(img_anchor(&b).verif_tick_bitmap() == 1u128 << 63, "bitmap == {{63}}");
    core::mem::forget(r);
    core::mem::forget(g);
}

/// L2 (Pinocchio dynamic, reduced rotate model): empty array, one `update_tick(63)` with symbolic contents and symbolic
/// `initialized` flag; `get_tick(63)` returns the update (or the zero tick), slot 64 stays uninitialised
// @verif prop=C13 tier=quick timeout=300
#[kani::proof]
#[kani::unwind(800)]
#[kani::stub(<[u8]>::rotate_right, model_rotate_right)]
#[kani::stub(<[u8]>::rotate_left, model_rotate_left)]
#[kani::stub(alloc::fmt::format, stub_format)]
#[kani::stub(<::whirlpool::pinocchio::errors::UnifiedError as core::convert::From<::whirlpool::errors::ErrorCode>>::from, stub_unified_from_code)]
fn c13_l2_pino_update_slot63() {
    let (_u, u) = any_tick_updates();
    let key = [0u8; 32];
    let mut b = img_new(0, &key);
    unsafe { MODEL_USED = 88 - 63; }
    let r = img_pino_mut(&mut b).update_tick(63, 1, &u);
    assert!(r.is_ok());
    let p = img_pino(&b);
    match p.get_tick(63, 1) {
        Ok(t) => {
            kani::cover!(t.initialized(), "initialised");
            assert!(t.initialized() == u.initialized);
            assert!(t.liquidity_net() == if u.initialized { u.liquidity_net } else { 0 });
            assert!(t.liquidity_gross() == if u.initialized { u.liquidity_gross } else { 0 });
            assert!(t.reward_growths_outside()[2] == if u.initialized { u.reward_growths_outside[2] } else { 0 });
        }
        Err(_) => assert!(false, "slot 63 readable"),
    }
    match p.get_tick(64, 1) {
        Ok(t) => assert!(!t.initialized()),
        Err(_) => assert!(false, "slot 64 readable"),
    }
    assert!(p.verif_tick_bitmap() == if u.initialized { 1u128 << 63 } else { 0 });
    core::mem::forget(r);
}

fn pino_tick_is(t: &MemoryMappedTick, u: &PTickUpdate) -> bool {
    let r = t.reward_growths_outside();
    t.initialized() == u.initialized
        && t.liquidity_net() == u.liquidity_net
        && t.liquidity_gross() == u.liquidity_gross
        && t.fee_growth_outside_a() == u.fee_growth_outside_a
        && t.fee_growth_outside_b() == u.fee_growth_outside_b
        && r[0] == u.reward_growths_outside[0] && r[1] == u.reward_growths_outside[1] && r[2] == u.reward_growths_outside[2]
}
fn pino_tick_is_empty(t: &MemoryMappedTick) -> bool {
    let r = t.reward_growths_outside();
    !t.initialized() && t.liquidity_net() == 0 && t.liquidity_gross() == 0 && t.fee_growth_outside_a() == 0
        && t.fee_growth_outside_b() == 0 && r[0] == 0 && r[1] == 0 && r[2] == 0
}

/// tag bytes at the well-formed offsets of the given slots for the initialised set `set`
fn check_tags(t: &[u8], set: u128, slots: &[usize]) {
    let mut i = 0;
    while i < slots.len() {
        let o = ref_byte_offset(set, slots[i]);
        let want = if (set >> slots[i]) & 1 == 1 { 1u8 } else { 0u8 };
        assert!(t[o] == want, "tag byte at the well-formed offset of the slot");
        i += 1;
    }
}

/// Two-operation history on the Anchor dynamic array (start 0, spacing 1; positions concrete, all contents symbolic):
/// initialise `first`, then initialise `second`. Afterwards `get_tick` of both slots returns its own update, a neighbour
/// stays uninitialised, the bitmap is {first, second} and the tag bytes sit at the well-formed offsets
/// (113 bytes per initialised slot, 1 otherwise, in slot order). With `second < first` the insertion has to move the
/// bytes of an initialised slot by exactly 112 (rotate_right), which is where a wrong shift distance shows.
/// (Three operations — adding the de-initialisation — ran out of 40 GB / 900 s; see props/c13.py OUTSIDE.)
fn seq_anchor(first: usize, second: usize) {
    let (u1, _) = any_update(true);
    let (u2, _) = any_update(true);
    let key = [0u8; 32];
    let mut b = img_new(0, &key);
    let mut cur: u128 = 0;
    unsafe { MODEL_USED = ref_used(cur) - ref_byte_offset(cur, first); }
    let r1 = img_anchor_mut(&mut b).update_tick(first as i32, 1, &u1);
    assert!(r1.is_ok());
    cur |= 1u128 << first;
    unsafe { MODEL_USED = ref_used(cur) - ref_byte_offset(cur, second); }
    let r2 = img_anchor_mut(&mut b).update_tick(second as i32, 1, &u2);
    assert!(r2.is_ok());
    cur |= 1u128 << second;
    let a = img_anchor(&b);
    let (g1, g2) = (a.get_tick(first as i32, 1), a.get_tick(second as i32, 1));
    kani::cover!(g1.is_ok() && g2.is_ok(), "both ticks read back");
    assert!(matches!(&g1, Ok(t) if same_tick(t, &expect_of(&u1))), "earlier slot keeps its contents after the insertion");
    assert!(matches!(&g2, Ok(t) if same_tick(t, &expect_of(&u2))), "inserted slot holds the update");
    assert!(a.verif_tick_bitmap() == cur, "bitmap == initialised set");
    check_tags(tk(&b), cur, &[first, second, first.max(second) + 1, 87]);
    core::mem::forget(g1); core::mem::forget(g2); core::mem::forget(r1); core::mem::forget(r2);
}

/// the same history through the Pinocchio accessor
fn seq_pino(first: usize, second: usize) {
    let (_, u1) = any_update(true);
    let (_, u2) = any_update(true);
    let key = [0u8; 32];
    let mut b = img_new(0, &key);
    let mut cur: u128 = 0;
    unsafe { MODEL_USED = ref_used(cur) - ref_byte_offset(cur, first); }
    let r1 = img_pino_mut(&mut b).update_tick(first as i32, 1, &u1);
    assert!(r1.is_ok());
    cur |= 1u128 << first;
    unsafe { MODEL_USED = ref_used(cur) - ref_byte_offset(cur, second); }
    let r2 = img_pino_mut(&mut b).update_tick(second as i32, 1, &u2);
    assert!(r2.is_ok());
    cur |= 1u128 << second;
    let p = img_pino(&b);
    let ok1 = matches!(p.get_tick(first as i32, 1), Ok(t) if pino_tick_is(t, &u1));
    let ok2 = matches!(p.get_tick(second as i32, 1), Ok(t) if pino_tick_is(t, &u2));
    kani::cover!(ok1 && ok2, "both ticks read back");
    assert!(ok1, "earlier slot keeps its contents after the insertion");
    assert!(ok2, "inserted slot holds the update");
    assert!(p.verif_tick_bitmap() == cur, "bitmap == initialised set");
    check_tags(tk(&b), cur, &[first, second, first.max(second) + 1, 87]);
    core::mem::forget(r1); core::mem::forget(r2);
}

/// L2 history, Anchor: initialise 70, then initialise 63 BELOW it (rotate_right moves slot 70's bytes)
/// (thorough tier: two of these 20 GB harnesses side by side exceed the 900 s cap; the quick tier keeps the Pinocchio twin, which is the live path)
// @verif prop=C13 tier=thorough timeout=1800 large
#[kani::proof]
#[kani::unwind(800)]
#[kani::stub(<[u8]>::rotate_right, model_rotate_right)]
#[kani::stub(<[u8]>::rotate_left, model_rotate_left)]
#[kani::stub(alloc::fmt::format, stub_format)]
#[kani::stub(<anchor_lang::error::Error as core::convert::From<std::io::Error>>::from, stub_err_from_io)]
#[kani::stub(<anchor_lang::error::Error as core::convert::From<::whirlpool::errors::ErrorCode>>::from, stub_err_from_code)]
fn c13_l2_anchor_insert_below() {
    seq_anchor(70, 63)
}

/// L2 history, Anchor: initialise 63, then initialise 70 ABOVE it
// @verif prop=C13 tier=thorough timeout=900 large
#[kani::proof]
#[kani::unwind(800)]
#[kani::stub(<[u8]>::rotate_right, model_rotate_right)]
#[kani::stub(<[u8]>::rotate_left, model_rotate_left)]
#[kani::stub(alloc::fmt::format, stub_format)]
#[kani::stub(<anchor_lang::error::Error as core::convert::From<std::io::Error>>::from, stub_err_from_io)]
#[kani::stub(<anchor_lang::error::Error as core::convert::From<::whirlpool::errors::ErrorCode>>::from, stub_err_from_code)]
fn c13_l2_anchor_insert_above() {
    seq_anchor(63, 70)
}

/// L2 history, Pinocchio: initialise 70, then initialise 63 BELOW it
// @verif prop=C13,C12,C05 tier=thorough timeout=1800 large
#[kani::proof]
#[kani::unwind(800)]
#[kani::stub(<[u8]>::rotate_right, model_rotate_right)]
#[kani::stub(<[u8]>::rotate_left, model_rotate_left)]
#[kani::stub(alloc::fmt::format, stub_format)]
#[kani::stub(<::whirlpool::pinocchio::errors::UnifiedError as core::convert::From<::whirlpool::errors::ErrorCode>>::from, stub_unified_from_code)]
fn c13_l2_pino_insert_below() {
    seq_pino(70, 63)
}

/// L2 history core (quick tier), Pinocchio: initialise 70, then initialise 63 BELOW it; afterwards slot 70 still holds its own update
/// (the one assertion that a wrong shift distance of the insertion breaks). The full version with both read-backs, bitmap and tag bytes is
/// `c13_l2_pino_insert_below` (thorough tier: it exceeds the 900 s budget of a quick check).
// @verif prop=C13 tier=quick timeout=700 large
#[kani::proof]
#[kani::unwind(800)]
#[kani::stub(<[u8]>::rotate_right, model_rotate_right)]
#[kani::stub(<[u8]>::rotate_left, model_rotate_left)]
#[kani::stub(alloc::fmt::format, stub_format)]
#[kani::stub(<::whirlpool::pinocchio::errors::UnifiedError as core::convert::From<::whirlpool::errors::ErrorCode>>::from, stub_unified_from_code)]
fn c13_l2_pino_insert_below_core() {
    let (_, u1) = any_update(true);
    let (_, u2) = any_update(true);
    let key = [0u8; 32];
    let mut b = img_new(0, &key);
    unsafe { MODEL_USED = 88 - 70; }
    let r1 = img_pino_mut(&mut b).update_tick(70, 1, &u1);
    assert!(r1.is_ok());
    unsafe { MODEL_USED = (88 + 112) - 63; }
    let r2 = img_pino_mut(&mut b).update_tick(63, 1, &u2);
    assert!(r2.is_ok());
    let p = img_pino(&b);
    let ok = matches!(p.get_tick(70, 1), Ok(t) if pino_tick_is(t, &u1));
    kani::cover!(ok, "tick read back");
    assert!(ok, "earlier slot keeps its contents after the insertion");
    core::mem::forget(r1);
    core::mem::forget(r2);
}

/// L2 history, Pinocchio: initialise 63, then initialise 70 ABOVE it
// @verif prop=C13 tier=thorough timeout=900 large
#[kani::proof]
#[kani::unwind(800)]
#[kani::stub(<[u8]>::rotate_right, model_rotate_right)]
#[kani::stub(<[u8]>::rotate_left, model_rotate_left)]
#[kani::stub(alloc::fmt::format, stub_format)]
#[kani::stub(<::whirlpool::pinocchio::errors::UnifiedError as core::convert::From<::whirlpool::errors::ErrorCode>>::from, stub_unified_from_code)]
fn c13_l2_pino_insert_above() {
    seq_pino(63, 70)
}

/// L2 history, Anchor: initialise 1, then 0 below it (first slots)
// @verif prop=C13 tier=thorough timeout=900 large
#[kani::proof]
#[kani::unwind(800)]
#[kani::stub(<[u8]>::rotate_right, model_rotate_right)]
#[kani::stub(<[u8]>::rotate_left, model_rotate_left)]
#[kani::stub(alloc::fmt::format, stub_format)]
#[kani::stub(<anchor_lang::error::Error as core::convert::From<std::io::Error>>::from, stub_err_from_io)]
#[kani::stub(<anchor_lang::error::Error as core::convert::From<::whirlpool::errors::ErrorCode>>::from, stub_err_from_code)]
fn c13_l2_anchor_insert_below_first_slots() {
    seq_anchor(1, 0)
}

/// L2 history, Anchor: initialise 64, then 63 below it (across the 64-bit bitmap word boundary)
// @verif prop=C13 tier=thorough timeout=900 large
#[kani::proof]
#[kani::unwind(800)]
#[kani::stub(<[u8]>::rotate_right, model_rotate_right)]
#[kani::stub(<[u8]>::rotate_left, model_rotate_left)]
#[kani::stub(alloc::fmt::format, stub_format)]
#[kani::stub(<anchor_lang::error::Error as core::convert::From<std::io::Error>>::from, stub_err_from_io)]
#[kani::stub(<anchor_lang::error::Error as core::convert::From<::whirlpool::errors::ErrorCode>>::from, stub_err_from_code)]
fn c13_l2_anchor_insert_below_word_boundary() {
    seq_anchor(64, 63)
}

/// L2 history, Anchor: initialise 87, then 86 below it (last two slots)
// @verif prop=C13 tier=thorough timeout=900 large
#[kani::proof]
#[kani::unwind(800)]
#[kani::stub(<[u8]>::rotate_right, model_rotate_right)]
#[kani::stub(<[u8]>::rotate_left, model_rotate_left)]
#[kani::stub(alloc::fmt::format, stub_format)]
#[kani::stub(<anchor_lang::error::Error as core::convert::From<std::io::Error>>::from, stub_err_from_io)]
#[kani::stub(<anchor_lang::error::Error as core::convert::From<::whirlpool::errors::ErrorCode>>::from, stub_err_from_code)]
fn c13_l2_anchor_insert_below_last_slots() {
    seq_anchor(87, 86)
}

/// L2 history, Pinocchio: initialise 1, then 0 below it (first slots)
// @verif prop=C13 tier=thorough timeout=900 large
#[kani::proof]
#[kani::unwind(800)]
#[kani::stub(<[u8]>::rotate_right, model_rotate_right)]
#[kani::stub(<[u8]>::rotate_left, model_rotate_left)]
#[kani::stub(alloc::fmt::format, stub_format)]
#[kani::stub(<::whirlpool::pinocchio::errors::UnifiedError as core::convert::From<::whirlpool::errors::ErrorCode>>::from, stub_unified_from_code)]
fn c13_l2_pino_insert_below_first_slots() {
    seq_pino(1, 0)
}

/// L2 history, Pinocchio: initialise 64, then 63 below it (across the 64-bit bitmap word boundary)
// @verif prop=C13 tier=thorough timeout=900 large
#[kani::proof]
#[kani::unwind(800)]
#[kani::stub(<[u8]>::rotate_right, model_rotate_right)]
#[kani::stub(<[u8]>::rotate_left, model_rotate_left)]
#[kani::stub(alloc::fmt::format, stub_format)]
#[kani::stub(<::whirlpool::pinocchio::errors::UnifiedError as core::convert::From<::whirlpool::errors::ErrorCode>>::from, stub_unified_from_code)]
fn c13_l2_pino_insert_below_word_boundary() {
    seq_pino(64, 63)
}

/// L2 history, Pinocchio: initialise 87, then 86 below it (last two slots)
// @verif prop=C13 tier=thorough timeout=900 large
#[kani::proof]
#[kani::unwind(800)]
#[kani::stub(<[u8]>::rotate_right, model_rotate_right)]
#[kani::stub(<[u8]>::rotate_left, model_rotate_left)]
#[kani::stub(alloc::fmt::format, stub_format)]
#[kani::stub(<::whirlpool::pinocchio::errors::UnifiedError as core::convert::From<::whirlpool::errors::ErrorCode>>::from, stub_unified_from_code)]
fn c13_l2_pino_insert_below_last_slots() {
    seq_pino(87, 86)
}

/// twin: the false claim "byte_offset(slot) == slot for every bitmap" must be refuted (an initialised earlier slot adds 112)
// @verif prop=C13 tier=quick timeout=300 twin
#[kani::proof]
#[kani::unwind(90)]
#[kani::stub(alloc::fmt::format, stub_format)]
#[kani::stub(<anchor_lang::error::Error as core::convert::From<::whirlpool::errors::ErrorCode>>::from, stub_err_from_code)]
fn c13_twin_byte_offset_is_not_the_slot() {
    let bitmap: u128 = kani::any();
    let mut b: Box<[u8; BUF_LEN]> = Box::new([0u8; BUF_LEN]);
    set_bitmap(&mut b, bitmap);
    let ao = anchor(&b).verif_byte_offset(5);
    let ok = matches!(&ao, Ok(x) if *x == 5);
    core::mem::forget(ao);
    assert!(ok, "twin: byte_offset(5) == 5 for every bitmap");
}
