//! C10 — a swap crosses exactly the initialised ticks in its path, however packaged (Engine K parts a, b, d, e).
//!
//! (a) `get_next_init_tick_index` of FixedTickArray / DynamicTickArrayLoader / ZeroedTickArray vs a reference
//!     scan written here (no offset arithmetic: it compares `start + slot*spacing` with the search tick).
//! (b) `SwapTickSequence::get_next_initialized_tick_index` vs a flat reference scan across the arrays.
//! (d) `get_start_tick_indexes` vs a reference (consecutive arrays from the one holding the (shifted) tick).
//! (e) `SparseSwapTickSequenceBuilder::new/try_build` vs a reference defined on the *set* of supplied accounts.
use crate::common::*;
use anchor_lang::prelude::{Account, AccountInfo, Pubkey};
use anchor_lang::Discriminator;
use core::cell::RefCell;
use std::cell::RefMut;
use ::whirlpool::errors::ErrorCode;
use ::whirlpool::state::*;
use ::whirlpool::util::{SparseSwapTickSequenceBuilder, SwapTickSequence};

const TA: i32 = TICK_ARRAY_SIZE; // 88 slots

/// valid start index of a tick array (the predicate `initialize_tick_array` enforces)
fn any_valid_start(ts: u16) -> i32 {
    let s: i32 = kani::any();
    kani::assume(Tick::check_is_valid_start_tick(s, ts));
    s
}

// ---------------------------------------------------------------------------------------------
// Offset space. The private `tick_array::get_offset(tick, start, spacing)` = floor((tick-start)/spacing) is the only
// place where the search divides. Bit-blasting the 88-step scan *together with* that division over a symbolic
// start index does not terminate (measured: > 900 s, all SAT back-ends), so (a)/(b) are decided in two layers:
//   L1 `c10_a_offset_lemma_*`  (real get_offset, no stub): for every valid start, search tick in the (shifted or
//       unshifted) range and slot s: -1 <= o <= 87 and (s <= o  <=>  start + s*spacing <= tick), i.e. the offset
//       classifies every slot correctly as "at or left of" / "right of" the search tick.
//   L2 scan harnesses (annotation `contract`): get_offset replaced by "returns an arbitrary o in [-1, 87]"
//       (over-approximation justified by L1); the code must return the nearest initialised slot relative to o
//       (<= o leftwards, > o rightwards), as tick `start + slot*spacing`, or None; errors as in the code.
// L1 + L2 give: nearest initialised tick <= search tick (a_to_b, inclusive) / > search tick (b_to_a, exclusive).

static mut STUB_O: i32 = 0; // offset returned by the first get_offset call (symbolic, drawn by the harness)
static mut STUB_EDGE: i32 = 0; // offset asserted + returned for hand-over calls (87 leftwards, -1 rightwards)
static mut STUB_CALLS: u32 = 0;

/// L2 stub for single-array harnesses
fn stub_get_offset_any(_tick_index: i32, _start_tick_index: i32, _tick_spacing: u16) -> isize {
    unsafe { STUB_O as isize }
}

/// L2 stub for sequence harnesses: first call as above; on later calls (array hand-over) the search tick is
/// `prev.start - 1` (leftwards) or `prev.start + 88*spacing - 1` (rightwards); the stub ASSERTS that this is
/// offset 87 / -1 of the array being entered (what L1 says get_offset returns there) and returns that constant.
fn stub_get_offset_seq(tick_index: i32, start_tick_index: i32, tick_spacing: u16) -> isize {
    let ts = tick_spacing as i32;
    let d = tick_index - start_tick_index;
    unsafe {
        if STUB_CALLS == 0 {
            STUB_CALLS = 1;
            STUB_O as isize
        } else {
            let e = STUB_EDGE;
            assert!(e * ts <= d && d < (e + 1) * ts, "hand-over search tick is the edge slot of the next array");
            e as isize
        }
    }
}

/// `update_tick` of a dynamic array rotates its 10 KB tail. The search never calls it, but CBMC cannot resolve the
/// `dyn TickArrayType` call targets inside `SwapTickSequence` and symbolically enters every trait method (under an
/// unsatisfiable guard); this stub keeps that cheap and *asserts* that the rotation is unreachable.
fn stub_rotate_unreachable<T>(_s: &mut [T], _k: usize) {
    assert!(false, "slice rotation (update_tick) reached from a tick search");
}

/// In the (b) harnesses every array is dynamic; the fixed-array methods and get_tick/update_tick are entered by
/// CBMC only through unresolved `dyn` call targets. These stubs keep that cheap and ASSERT unreachability.
fn stub_fixed_search_unreachable(_s: &FixedTickArray, _t: i32, _ts: u16, _a: bool) -> anchor_lang::Result<Option<i32>> {
    assert!(false, "fixed-array search reached although every supplied array is dynamic");
    Ok(None)
}
fn stub_fixed_get_tick_unreachable(_s: &FixedTickArray, _t: i32, _ts: u16) -> anchor_lang::Result<Tick> {
    assert!(false, "get_tick reached from a tick search");
    Ok(Tick::default())
}
fn stub_dyn_get_tick_unreachable(_s: &DynamicTickArrayLoader, _t: i32, _ts: u16) -> anchor_lang::Result<Tick> {
    assert!(false, "get_tick reached from a tick search");
    Ok(Tick::default())
}
fn stub_fixed_update_unreachable(_s: &mut FixedTickArray, _t: i32, _ts: u16, _u: &TickUpdate) -> anchor_lang::Result<()> {
    assert!(false, "update_tick reached from a tick search");
    Ok(())
}
fn stub_dyn_update_unreachable(_s: &mut DynamicTickArrayLoader, _t: i32, _ts: u16, _u: &TickUpdate) -> anchor_lang::Result<()> {
    assert!(false, "update_tick reached from a tick search");
    Ok(())
}

/// (b)/(e) replace the dynamic-array search by ITS REFERENCE as decided in (a): range error, else the nearest
/// initialised slot relative to the REAL `tick_offset` (get_offset is not stubbed here), loop-free form.
fn stub_dyn_search_by_reference(s: &DynamicTickArrayLoader, ti: i32, ts: u16, a_to_b: bool) -> anchor_lang::Result<Option<i32>> {
    let start = s.start_tick_index();
    let tsi = ts as i32;
    if !in_range(start, ti, tsi, a_to_b) {
        return Err(ErrorCode::InvalidTickArraySequence.into());
    }
    let o = s.tick_offset(ti, ts)? as i32;
    Ok(ref_nearest_closed(s.verif_tick_bitmap(), o, a_to_b).map(|c| start + c * tsi))
}

/// Reference for the slot search in offset space, written without a loop: the nearest set bit of the 88-slot
/// set relative to offset `o` in [-1, 87]: the largest s <= o (leftwards) / the smallest s > o (rightwards).
fn ref_nearest_closed(bitmap: u128, o: i32, a_to_b: bool) -> Option<i32> {
    let slots: u128 = (1u128 << 88) - 1;
    let upto_o: u128 = (1u128 << ((o + 1) as u32)) - 1; // slots 0..=o (empty for o = -1)
    if a_to_b {
        let m = bitmap & slots & upto_o;
        if m == 0 { None } else { Some(127 - m.leading_zeros() as i32) }
    } else {
        let m = bitmap & slots & !upto_o;
        if m == 0 { None } else { Some(m.trailing_zeros() as i32) }
    }
}

/// Reference scan for the slot search in offset space: the nearest set bit of the 88-slot set relative to offset
/// `o`: the largest s <= o (leftwards) / the smallest s > o (rightwards).
fn ref_nearest(bitmap: u128, o: i32, a_to_b: bool) -> Option<i32> {
    let mut best: Option<i32> = None;
    let mut s: i32 = 0;
    while s < TA {
        if (bitmap >> s) & 1 == 1 {
            if a_to_b {
                if s <= o {
                    best = Some(s);
                }
            } else if s > o && best.is_none() {
                best = Some(s);
            }
        }
        s += 1;
    }
    best
}

/// the loop-free form of the reference (used where a harness must keep its unwind bound small) == the reference scan
// @verif prop=C10 tier=quick timeout=600
#[kani::proof]
#[kani::unwind(90)]
fn c10_ref_closed_form_eq_scan() {
    let bitmap: u128 = kani::any();
    let o: i32 = kani::any();
    kani::assume(o >= -1 && o <= 87);
    let a_to_b: bool = kani::any();
    let x = ref_nearest(bitmap, o, a_to_b);
    let y = ref_nearest_closed(bitmap, o, a_to_b);
    kani::cover!(x.is_none(), "none");
    kani::cover!(x == Some(87), "slot 87");
    assert!(x == y, "closed form == scan");
}

fn in_range(start: i32, ti: i32, ts: i32, a_to_b: bool) -> bool {
    let (lo, hi) = if a_to_b { (start, start + TA * ts) } else { (start - ts, start + (TA - 1) * ts) };
    ti >= lo && ti < hi
}

/// reference for one array in offset space (see the layer comment above)
fn ref_search(bitmap: u128, start: i32, ti: i32, o: i32, ts: i32, a_to_b: bool) -> Result<Option<i32>, u32> {
    if !in_range(start, ti, ts, a_to_b) {
        return Err(ecode(ErrorCode::InvalidTickArraySequence));
    }
    Ok(ref_nearest(bitmap, o, a_to_b).map(|s| start + s * ts))
}

fn same_search(r: &anchor_lang::Result<Option<i32>>, e: &Result<Option<i32>, u32>) -> bool {
    match (r, e) {
        (Ok(x), Ok(y)) => x == y,
        (Err(x), Err(y)) => acode(x) == *y,
        _ => false,
    }
}

/// image of a dynamic tick array without discriminator (the loader type is MAX_LEN bytes; the search reads the
/// start index and the bitmap only)
fn dyn_image(start: i32, bitmap: u128) -> [u8; DynamicTickArray::MAX_LEN] {
    let mut buf = [0u8; DynamicTickArray::MAX_LEN];
    buf[0..4].copy_from_slice(&start.to_le_bytes());
    buf[36..52].copy_from_slice(&bitmap.to_le_bytes());
    buf
}

const FIXED_SZ: usize = 4 + 113 * 88 + 32;
/// image of a fixed tick array without discriminator: only the `initialized` byte of each slot is non-zero
fn fixed_image(start: i32, bitmap: u128) -> [u8; FIXED_SZ] {
    let mut b = [0u8; FIXED_SZ];
    b[0..4].copy_from_slice(&start.to_le_bytes());
    let mut s = 0usize;
    while s < TICK_ARRAY_SIZE_USIZE {
        b[4 + 113 * s] = ((bitmap >> s) & 1) as u8;
        s += 1;
    }
    b
}

// ---- L1 ----
fn offset_lemma(ts: u16, start: i32, ti: i32, s: i32) {
    let tsi = ts as i32;
    kani::assume(Tick::check_is_valid_start_tick(start, ts));
    kani::assume(ti >= start - tsi && ti < start + TA * tsi); // union of the shifted and unshifted search ranges
    kani::assume(s >= 0 && s < TA);
    let buf = dyn_image(start, 0);
    let arr = DynamicTickArrayLoader::load(&buf);
    let o = arr.tick_offset(ti, ts).unwrap();
    kani::cover!(o == -1 && start < MIN_TICK_INDEX, "shifted search below the MIN array");
    kani::cover!(o == 87, "last slot");
    assert!(o >= -1 && o <= 87, "offset window");
    assert!((s as isize <= o) == (start + s * tsi <= ti), "slot s is at or left of the search tick iff s <= offset");
    // the two hand-over positions used by SwapTickSequence
    if ti == start + TA * tsi - 1 {
        assert!(o == 87);
    }
    if ti == start - 1 {
        assert!(o == -1);
    }
}

/// (a) L1: real tick_offset/get_offset classifies every slot correctly; symbolic valid start (incl. MIN array), search tick in range, slot; spacings 1, 8, 64, 32896
// @verif prop=C10 tier=quick timeout=300
#[kani::proof]
#[kani::unwind(5)]
#[kani::stub(alloc::fmt::format, stub_format)]
#[kani::stub(<anchor_lang::error::Error as core::convert::From<::whirlpool::errors::ErrorCode>>::from, stub_err_from_code)]
fn c10_a_offset_lemma_quick() {
    let start: [i32; 4] = kani::any();
    let ti: [i32; 4] = kani::any();
    let s: [i32; 4] = kani::any();
    offset_lemma(1, start[0], ti[0], s[0]);
    offset_lemma(8, start[1], ti[1], s[1]);
    offset_lemma(64, start[2], ti[2], s[2]);
    offset_lemma(32896, start[3], ti[3], s[3]);
}

/// (a) L1 for spacings 2, 128, 256, 32768
// @verif prop=C10 tier=thorough timeout=300
#[kani::proof]
#[kani::unwind(5)]
#[kani::stub(alloc::fmt::format, stub_format)]
#[kani::stub(<anchor_lang::error::Error as core::convert::From<::whirlpool::errors::ErrorCode>>::from, stub_err_from_code)]
fn c10_a_offset_lemma_thorough() {
    let start: [i32; 4] = kani::any();
    let ti: [i32; 4] = kani::any();
    let s: [i32; 4] = kani::any();
    offset_lemma(2, start[0], ti[0], s[0]);
    offset_lemma(128, start[1], ti[1], s[1]);
    offset_lemma(256, start[2], ti[2], s[2]);
    offset_lemma(32768, start[3], ti[3], s[3]);
}

// ---- L2, dynamic array ----
fn dyn_scan(ts: u16) {
    let bitmap: u128 = kani::any();
    let start = any_valid_start(ts);
    let ti: i32 = kani::any();
    let a_to_b: bool = kani::any();
    let o: i32 = kani::any();
    kani::assume(o >= -1 && o <= 87);
    unsafe { STUB_O = o };
    let buf = dyn_image(start, bitmap);
    let arr = DynamicTickArrayLoader::load(&buf);
    let r = arr.get_next_init_tick_index(ti, ts, a_to_b);
    let e = ref_search(bitmap, start, ti, o, ts as i32, a_to_b);
    kani::cover!(matches!(r, Ok(Some(t)) if t == start), "found in slot 0");
    kani::cover!(matches!(r, Ok(None)), "none");
    kani::cover!(r.is_err(), "outside the search range");
    kani::cover!(matches!(r, Ok(Some(_))) && !a_to_b && ti < start && start < MIN_TICK_INDEX, "shifted search into the MIN array");
    kani::cover!(matches!(r, Ok(Some(t)) if t == start) && !a_to_b && o == -1 && ti < start, "b_to_a from the one-spacing window below the start (offset -1) finds slot 0");
    assert!(same_search(&r, &e), "dynamic array search == reference scan");
    core::mem::forget(r);
}

/// (a) L2: DynamicTickArrayLoader::get_next_init_tick_index == reference scan; symbolic 128-bit bitmap, valid start (incl. MIN array), search tick (all i32), direction, offset in [-1,87]; spacing 1
// @verif prop=C10 tier=quick timeout=600 contract
#[kani::proof]
#[kani::unwind(90)]
#[kani::stub(alloc::fmt::format, stub_format)]
#[kani::stub(<anchor_lang::error::Error as core::convert::From<::whirlpool::errors::ErrorCode>>::from, stub_err_from_code)]
#[kani::stub(::whirlpool::state::tick_array::get_offset, stub_get_offset_any)]
fn c10_a_dyn_scan_ts1() {
    dyn_scan(1);
}

/// (a) L2: DynamicTickArrayLoader::get_next_init_tick_index == reference scan; symbolic 128-bit bitmap, valid start (incl. MIN array), search tick (all i32), direction, offset in [-1,87]; spacing 8
// @verif prop=C10,C13 tier=quick timeout=600 contract
#[kani::proof]
#[kani::unwind(90)]
#[kani::stub(alloc::fmt::format, stub_format)]
#[kani::stub(<anchor_lang::error::Error as core::convert::From<::whirlpool::errors::ErrorCode>>::from, stub_err_from_code)]
#[kani::stub(::whirlpool::state::tick_array::get_offset, stub_get_offset_any)]
fn c10_a_dyn_scan_ts8() {
    dyn_scan(8);
}

/// (a) L2: DynamicTickArrayLoader::get_next_init_tick_index == reference scan; symbolic 128-bit bitmap, valid start (incl. MIN array), search tick (all i32), direction, offset in [-1,87]; spacing 64
// @verif prop=C10 tier=quick timeout=600 contract
#[kani::proof]
#[kani::unwind(90)]
#[kani::stub(alloc::fmt::format, stub_format)]
#[kani::stub(<anchor_lang::error::Error as core::convert::From<::whirlpool::errors::ErrorCode>>::from, stub_err_from_code)]
#[kani::stub(::whirlpool::state::tick_array::get_offset, stub_get_offset_any)]
fn c10_a_dyn_scan_ts64() {
    dyn_scan(64);
}

/// (a) L2: DynamicTickArrayLoader::get_next_init_tick_index == reference scan; symbolic 128-bit bitmap, valid start (incl. MIN array), search tick (all i32), direction, offset in [-1,87]; spacing 32896
// @verif prop=C10 tier=quick timeout=600 contract
#[kani::proof]
#[kani::unwind(90)]
#[kani::stub(alloc::fmt::format, stub_format)]
#[kani::stub(<anchor_lang::error::Error as core::convert::From<::whirlpool::errors::ErrorCode>>::from, stub_err_from_code)]
#[kani::stub(::whirlpool::state::tick_array::get_offset, stub_get_offset_any)]
fn c10_a_dyn_scan_ts32896() {
    dyn_scan(32896);
}

/// (a) L2: DynamicTickArrayLoader::get_next_init_tick_index == reference scan; symbolic 128-bit bitmap, valid start (incl. MIN array), search tick (all i32), direction, offset in [-1,87]; spacing 2
// @verif prop=C10 tier=thorough timeout=600 contract
#[kani::proof]
#[kani::unwind(90)]
#[kani::stub(alloc::fmt::format, stub_format)]
#[kani::stub(<anchor_lang::error::Error as core::convert::From<::whirlpool::errors::ErrorCode>>::from, stub_err_from_code)]
#[kani::stub(::whirlpool::state::tick_array::get_offset, stub_get_offset_any)]
fn c10_a_dyn_scan_ts2() {
    dyn_scan(2);
}

/// (a) L2: DynamicTickArrayLoader::get_next_init_tick_index == reference scan; symbolic 128-bit bitmap, valid start (incl. MIN array), search tick (all i32), direction, offset in [-1,87]; spacing 128
// @verif prop=C10 tier=thorough timeout=600 contract
#[kani::proof]
#[kani::unwind(90)]
#[kani::stub(alloc::fmt::format, stub_format)]
#[kani::stub(<anchor_lang::error::Error as core::convert::From<::whirlpool::errors::ErrorCode>>::from, stub_err_from_code)]
#[kani::stub(::whirlpool::state::tick_array::get_offset, stub_get_offset_any)]
fn c10_a_dyn_scan_ts128() {
    dyn_scan(128);
}

/// (a) L2: DynamicTickArrayLoader::get_next_init_tick_index == reference scan; symbolic 128-bit bitmap, valid start (incl. MIN array), search tick (all i32), direction, offset in [-1,87]; spacing 256
// @verif prop=C10 tier=thorough timeout=600 contract
#[kani::proof]
#[kani::unwind(90)]
#[kani::stub(alloc::fmt::format, stub_format)]
#[kani::stub(<anchor_lang::error::Error as core::convert::From<::whirlpool::errors::ErrorCode>>::from, stub_err_from_code)]
#[kani::stub(::whirlpool::state::tick_array::get_offset, stub_get_offset_any)]
fn c10_a_dyn_scan_ts256() {
    dyn_scan(256);
}

/// (a) L2: DynamicTickArrayLoader::get_next_init_tick_index == reference scan; symbolic 128-bit bitmap, valid start (incl. MIN array), search tick (all i32), direction, offset in [-1,87]; spacing 32768
// @verif prop=C10 tier=thorough timeout=600 contract
#[kani::proof]
#[kani::unwind(90)]
#[kani::stub(alloc::fmt::format, stub_format)]
#[kani::stub(<anchor_lang::error::Error as core::convert::From<::whirlpool::errors::ErrorCode>>::from, stub_err_from_code)]
#[kani::stub(::whirlpool::state::tick_array::get_offset, stub_get_offset_any)]
fn c10_a_dyn_scan_ts32768() {
    dyn_scan(32768);
}

// ---- L2, fixed array (REDUCED) ----
// A fixed-array search with a symbolic slot index reads a 113-byte packed `Tick` at a symbolic offset of the
// 9956-byte account in each of the 88 loop iterations; that did not finish (900 s, three SAT back-ends, and 13 GB
// with the byte-image encoding). The fixed array is therefore decided only for CONCRETE offsets: the two
// full-length hand-over searches (offset 87 leftwards, -1 rightwards: every slot is visited) and the searches
// starting within 6 slots of the array edge in search direction; bitmap, start index and search tick stay symbolic.
// Interior start offsets of fixed arrays are outside the K claim (the loop body is the code the full-length cases run).
const FIXED_CASES: [(i32, bool); 14] = [
    (87, true), (0, true), (1, true), (2, true), (3, true), (4, true), (5, true),
    (-1, false), (81, false), (82, false), (83, false), (84, false), (85, false), (86, false),
];

fn fixed_scan_cases(ts: u16, first: usize, last: usize) {
    let bitmap: u128 = kani::any();
    let start = any_valid_start(ts);
    let ti: i32 = kani::any();
    let case: usize = kani::any();
    kani::assume(case >= first && case <= last);
    let img = fixed_image(start, bitmap);
    let arr: &FixedTickArray = bytemuck::from_bytes(&img); // the cast load_tick_array performs on the account data
    let mut k = first;
    while k <= last {
        if case == k {
            let (o, a_to_b) = FIXED_CASES[k];
            unsafe { STUB_O = o };
            let r = arr.get_next_init_tick_index(ti, ts, a_to_b);
            let e = ref_search(bitmap, start, ti, o, ts as i32, a_to_b);
            kani::cover!(matches!(r, Ok(Some(_))), "found");
            assert!(same_search(&r, &e), "fixed array search == reference scan");
            core::mem::forget(r);
        }
        k += 1;
    }
}

/// (a) L2, fixed array, reduced to 14 concrete offsets (see comment): FixedTickArray::get_next_init_tick_index == reference scan; symbolic `initialized` byte of all 88 slots, valid start, search tick; spacing 8
// @verif prop=C10 tier=thorough timeout=900 contract
#[kani::proof]
#[kani::unwind(90)]
#[kani::stub(alloc::fmt::format, stub_format)]
#[kani::stub(<anchor_lang::error::Error as core::convert::From<::whirlpool::errors::ErrorCode>>::from, stub_err_from_code)]
#[kani::stub(::whirlpool::state::tick_array::get_offset, stub_get_offset_any)]
fn c10_a_fixed_scan_cases_ts8() {
    fixed_scan_cases(8, 0, 13);
}

/// (a) as c10_a_fixed_scan_cases_ts8; spacing 128
// @verif prop=C10 tier=thorough timeout=900 contract
#[kani::proof]
#[kani::unwind(90)]
#[kani::stub(alloc::fmt::format, stub_format)]
#[kani::stub(<anchor_lang::error::Error as core::convert::From<::whirlpool::errors::ErrorCode>>::from, stub_err_from_code)]
#[kani::stub(::whirlpool::state::tick_array::get_offset, stub_get_offset_any)]
fn c10_a_fixed_scan_cases_ts128() {
    fixed_scan_cases(128, 0, 13);
}

/// (a) L2, fixed array, quick subset: offsets 0..2 leftwards and 84..86 rightwards (first / last slots); spacing 8
// @verif prop=C10,C13 tier=quick timeout=600 contract
#[kani::proof]
#[kani::unwind(90)]
#[kani::stub(alloc::fmt::format, stub_format)]
#[kani::stub(<anchor_lang::error::Error as core::convert::From<::whirlpool::errors::ErrorCode>>::from, stub_err_from_code)]
#[kani::stub(::whirlpool::state::tick_array::get_offset, stub_get_offset_any)]
fn c10_a_fixed_scan_edges_ts8() {
    if kani::any() {
        fixed_scan_cases(8, 1, 3);
    } else {
        fixed_scan_cases(8, 11, 13);
    }
}

/// vacuity twin: must FAIL (the dynamic search can return an initialised tick)
// @verif prop=C10 tier=quick timeout=600 twin contract
#[kani::proof]
#[kani::unwind(90)]
#[kani::stub(alloc::fmt::format, stub_format)]
#[kani::stub(<anchor_lang::error::Error as core::convert::From<::whirlpool::errors::ErrorCode>>::from, stub_err_from_code)]
#[kani::stub(::whirlpool::state::tick_array::get_offset, stub_get_offset_any)]
fn c10_twin_must_fail() {
    let bitmap: u128 = kani::any();
    let ti: i32 = kani::any();
    let o: i32 = kani::any();
    kani::assume(o >= -1 && o <= 87);
    unsafe { STUB_O = o };
    let buf = dyn_image(0, bitmap);
    let arr = DynamicTickArrayLoader::load(&buf);
    let r = arr.get_next_init_tick_index(ti, 8, true);
    let found = matches!(r, Ok(Some(_)));
    core::mem::forget(r);
    assert!(!found, "twin: a reachable found-tick outcome must be reported");
}

// ---------------------------------------------------------------------------------------------
// (b) SwapTickSequence::get_next_initialized_tick_index over <= 3 dynamic arrays

/// Reference: walk the supplied arrays from `start_idx`; in the first one the nearest initialised slot relative to
/// the offset `o` of the search tick, in every later one (which must be the *adjacent* array in direction) the
/// nearest one from its edge; else MIN/MAX at the protocol-edge array, else the edge tick of the last array.
fn ref_seq(n: usize, starts: &[i32; 3], bm: &[u128; 3], ti: i32, o: i32, ts: i32, a_to_b: bool, start_idx: usize) -> Result<(usize, i32), u32> {
    if start_idx >= n {
        return Err(ecode(ErrorCode::TickArraySequenceInvalidIndex));
    }
    let tia = TA * ts;
    if !in_range(starts[start_idx], ti, ts, a_to_b) {
        return Err(ecode(ErrorCode::InvalidTickArraySequence));
    }
    let mut i = start_idx;
    while i < 3 {
        let lim = if i == start_idx { o } else if a_to_b { TA - 1 } else { -1 };
        if let Some(c) = ref_nearest_closed(bm[i], lim, a_to_b) {
            return Ok((i, starts[i] + c * ts));
        }
        if a_to_b && starts[i] <= MIN_TICK_INDEX {
            return Ok((i, MIN_TICK_INDEX));
        }
        if !a_to_b && starts[i] + tia > MAX_TICK_INDEX {
            return Ok((i, MAX_TICK_INDEX));
        }
        if i + 1 == n {
            return Ok((i, if a_to_b { starts[i] } else { starts[i] + tia - 1 }));
        }
        let adjacent = if a_to_b { starts[i] - tia } else { starts[i] + tia };
        if starts[i + 1] != adjacent {
            return Err(ecode(ErrorCode::InvalidTickArraySequence));
        }
        i += 1;
    }
    Err(0) // not reached: n <= 3
}

/// full-size, zero-initialised account images (the loader type is MAX_LEN bytes; Kani checks that the cast target
/// is backed by memory); only the header (start index, whirlpool, bitmap) is written
static mut IMG0: [u8; DynamicTickArray::MAX_LEN] = [0u8; DynamicTickArray::MAX_LEN];
static mut IMG1: [u8; DynamicTickArray::MAX_LEN] = [0u8; DynamicTickArray::MAX_LEN];
static mut IMG2: [u8; DynamicTickArray::MAX_LEN] = [0u8; DynamicTickArray::MAX_LEN];
fn write_dyn_header(img: &mut [u8], start: i32, bitmap: u128) {
    img[0..4].copy_from_slice(&start.to_le_bytes());
    img[36..52].copy_from_slice(&bitmap.to_le_bytes());
}
fn dyn_refmut<'a>(cell: &'a RefCell<&'static mut [u8]>) -> LoadedTickArrayMut<'a> {
    RefMut::map(cell.borrow_mut(), |d| {
        let t: &mut dyn TickArrayType = DynamicTickArrayLoader::load_mut(&mut d[..]);
        t
    })
}

/// body of the (b) harnesses: `a_to_b` is a constant of the harness (the hand-over offset is then a constant and
/// the scans of the 2nd/3rd array run over concrete slot indices), everything else symbolic
fn seq_vs_ref(ts: u16, a_to_b: bool, max_n: usize, fixed_start_idx: usize) -> u8 {
    let tsi = ts as i32;
    let tia = TA * tsi;
    let n: usize = kani::any();
    kani::assume(n == max_n); // concrete per harness (a symbolic count did not finish in 1200 s)
    let n = max_n;
    let start_idx: usize = kani::any();
    kani::assume(start_idx == fixed_start_idx); // concrete per harness (a symbolic index ran out of memory)
    let start_idx = fixed_start_idx;
    let k: [i16; 3] = kani::any();
    let bm: [u128; 3] = kani::any();
    let ti: i32 = kani::any();
    let mut starts = [0i32; 3];
    let mut j = 0;
    while j < 3 {
        // valid start indexes are the multiples of 88*spacing accepted by check_is_valid_start_tick
        starts[j] = if j < n { k[j] as i32 * tia } else { 0 };
        kani::assume(Tick::check_is_valid_start_tick(starts[j], ts));
        j += 1;
    }
    let (i0, i1, i2): (&'static mut [u8], &'static mut [u8], &'static mut [u8]) =
        unsafe { (&mut *core::ptr::addr_of_mut!(IMG0), &mut *core::ptr::addr_of_mut!(IMG1), &mut *core::ptr::addr_of_mut!(IMG2)) };
    write_dyn_header(i0, starts[0], bm[0]);
    write_dyn_header(i1, starts[1], bm[1]);
    write_dyn_header(i2, starts[2], bm[2]);
    let c0 = RefCell::new(i0);
    let c1 = RefCell::new(i1);
    let c2 = RefCell::new(i2);
    let seq = SwapTickSequence::new(
        dyn_refmut(&c0),
        if n >= 2 { Some(dyn_refmut(&c1)) } else { None },
        if n >= 3 { Some(dyn_refmut(&c2)) } else { None },
    );
    let r = seq.get_next_initialized_tick_index(ti, ts, a_to_b, start_idx);
    // offset of the search tick in the first array: floor((ti - start) / spacing)
    let o = if start_idx < n && in_range(starts[start_idx], ti, tsi, a_to_b) { (ti - starts[start_idx]).div_euclid(tsi) } else { 0 };
    let e = ref_seq(n, &starts, &bm, ti, o, tsi, a_to_b, start_idx);
    let mut seen: u8 = 0;
    if matches!(&r, Err(x) if acode(x) == ecode(ErrorCode::TickArraySequenceInvalidIndex)) { seen |= 32; }
    if start_idx < n {
        if matches!(r, Ok((i, _)) if i == start_idx + 1) { seen |= 1; }
        if matches!(r, Ok((i, t)) if i == start_idx + 1 && i < 3 && (a_to_b || t == starts[i]) && (!a_to_b || t == starts[i] + 87 * tsi)) { seen |= 2; }
        if matches!(r, Ok((i, t)) if i + 1 == n && (t == starts[i] || t == starts[i] + tia - 1) && bm[i] == 0) { seen |= 4; }
        if matches!(r, Ok((_, t)) if t == MIN_TICK_INDEX || t == MAX_TICK_INDEX) { seen |= 8; }
        if matches!(&r, Err(x) if acode(x) == ecode(ErrorCode::InvalidTickArraySequence)) && in_range(starts[start_idx], ti, tsi, a_to_b) { seen |= 16; }
    }
    match (&r, &e) {
        (Ok(x), Ok(y)) => assert!(x == y, "sequence search == reference"),
        (Err(x), Err(y)) => assert!(acode(x) == *y, "sequence search error == reference"),
        _ => assert!(false, "sequence search outcome kind == reference"),
    }
    // next_array_index only advances past arrays that hold no initialised tick in direction, and the returned
    // tick lies inside the returned array
    if let Ok((i, t)) = &r {
        assert!(*i >= start_idx && *i < n);
        assert!(*t >= starts[*i] && *t < starts[*i] + tia);
    }
    core::mem::forget(r);
    seen
}

fn seq_covers(seen: u8) {
    kani::cover!(seen & 1 != 0, "found in the next array");
    kani::cover!(seen & 2 != 0, "roll-over finds the first slot of the next array (slot 0 rightwards / slot 87 leftwards)");
    kani::cover!(seen & 4 != 0, "edge tick of the last supplied array");
    kani::cover!(seen & 8 != 0, "protocol bound");
    kani::cover!(seen & 16 != 0, "non-adjacent next array => InvalidTickArraySequence");
}

/// (b) SwapTickSequence::get_next_initialized_tick_index == reference; 2 dynamic array(s), start_array_index 0 (both concrete: symbolic ones ran out of memory / time), symbolic valid start indexes, 128-bit bitmaps, search tick; direction a2b; spacing 64; the per-array search is replaced by its reference from (a)
// @verif prop=C10,C05 tier=quick timeout=900 contract
#[kani::proof]
#[kani::unwind(5)]
#[kani::stub(alloc::fmt::format, stub_format)]
#[kani::stub(<anchor_lang::error::Error as core::convert::From<::whirlpool::errors::ErrorCode>>::from, stub_err_from_code)]
#[kani::stub(<::whirlpool::state::DynamicTickArrayLoader as ::whirlpool::state::TickArrayType>::get_next_init_tick_index, stub_dyn_search_by_reference)]
#[kani::stub(<::whirlpool::state::TickArray as ::whirlpool::state::TickArrayType>::get_next_init_tick_index, stub_fixed_search_unreachable)]
#[kani::stub(<::whirlpool::state::TickArray as ::whirlpool::state::TickArrayType>::get_tick, stub_fixed_get_tick_unreachable)]
#[kani::stub(<::whirlpool::state::TickArray as ::whirlpool::state::TickArrayType>::update_tick, stub_fixed_update_unreachable)]
#[kani::stub(<::whirlpool::state::DynamicTickArrayLoader as ::whirlpool::state::TickArrayType>::get_tick, stub_dyn_get_tick_unreachable)]
#[kani::stub(<::whirlpool::state::DynamicTickArrayLoader as ::whirlpool::state::TickArrayType>::update_tick, stub_dyn_update_unreachable)]
fn c10_b_seq_n2_idx0_a2b_ts64() {
    seq_covers(seq_vs_ref(64, true, 2, 0));
}

/// (b) SwapTickSequence::get_next_initialized_tick_index == reference; 2 dynamic array(s), start_array_index 0 (both concrete: symbolic ones ran out of memory / time), symbolic valid start indexes, 128-bit bitmaps, search tick; direction b2a; spacing 64; the per-array search is replaced by its reference from (a)
// @verif prop=C10,C05 tier=quick timeout=900 contract
#[kani::proof]
#[kani::unwind(5)]
#[kani::stub(alloc::fmt::format, stub_format)]
#[kani::stub(<anchor_lang::error::Error as core::convert::From<::whirlpool::errors::ErrorCode>>::from, stub_err_from_code)]
#[kani::stub(<::whirlpool::state::DynamicTickArrayLoader as ::whirlpool::state::TickArrayType>::get_next_init_tick_index, stub_dyn_search_by_reference)]
#[kani::stub(<::whirlpool::state::TickArray as ::whirlpool::state::TickArrayType>::get_next_init_tick_index, stub_fixed_search_unreachable)]
#[kani::stub(<::whirlpool::state::TickArray as ::whirlpool::state::TickArrayType>::get_tick, stub_fixed_get_tick_unreachable)]
#[kani::stub(<::whirlpool::state::TickArray as ::whirlpool::state::TickArrayType>::update_tick, stub_fixed_update_unreachable)]
#[kani::stub(<::whirlpool::state::DynamicTickArrayLoader as ::whirlpool::state::TickArrayType>::get_tick, stub_dyn_get_tick_unreachable)]
#[kani::stub(<::whirlpool::state::DynamicTickArrayLoader as ::whirlpool::state::TickArrayType>::update_tick, stub_dyn_update_unreachable)]
fn c10_b_seq_n2_idx0_b2a_ts64() {
    seq_covers(seq_vs_ref(64, false, 2, 0));
}

/// (b) start_array_index beyond the supplied arrays => TickArraySequenceInvalidIndex (2 arrays, index 2), direction symbolic
// @verif prop=C10 tier=quick timeout=900 contract
#[kani::proof]
#[kani::unwind(5)]
#[kani::stub(alloc::fmt::format, stub_format)]
#[kani::stub(<anchor_lang::error::Error as core::convert::From<::whirlpool::errors::ErrorCode>>::from, stub_err_from_code)]
#[kani::stub(<::whirlpool::state::DynamicTickArrayLoader as ::whirlpool::state::TickArrayType>::get_next_init_tick_index, stub_dyn_search_by_reference)]
#[kani::stub(<::whirlpool::state::TickArray as ::whirlpool::state::TickArrayType>::get_next_init_tick_index, stub_fixed_search_unreachable)]
#[kani::stub(<::whirlpool::state::TickArray as ::whirlpool::state::TickArrayType>::get_tick, stub_fixed_get_tick_unreachable)]
#[kani::stub(<::whirlpool::state::TickArray as ::whirlpool::state::TickArrayType>::update_tick, stub_fixed_update_unreachable)]
#[kani::stub(<::whirlpool::state::DynamicTickArrayLoader as ::whirlpool::state::TickArrayType>::get_tick, stub_dyn_get_tick_unreachable)]
#[kani::stub(<::whirlpool::state::DynamicTickArrayLoader as ::whirlpool::state::TickArrayType>::update_tick, stub_dyn_update_unreachable)]
fn c10_b_seq_n2_idx2_ts64() {
    let seen = if kani::any() { seq_vs_ref(64, true, 2, 2) } else { seq_vs_ref(64, false, 2, 2) };
    kani::cover!(seen & 32 != 0, "ran off the supplied arrays");
    assert!(seen & 32 != 0, "start_array_index beyond the supplied arrays => TickArraySequenceInvalidIndex");
}

// ---------------------------------------------------------------------------------------------
// (d) get_start_tick_indexes

/// `Account<Whirlpool>` without running `Account::try_from` (its 32-byte key compares force unwind >= 33, and
/// with that bound the `filter_map().collect()` inside `get_start_tick_indexes` unrolls 34 x 34 times).
/// `Account` has two private fields `{ account: T, info: &AccountInfo }`; the value is built through a struct of
/// the same shape. The layout assumption is CHECKED by every harness that uses it (`check_fake_account`).
struct AccountShape<'a, 'info> {
    account: Whirlpool,
    info: &'a AccountInfo<'info>,
}
fn fake_wp_account<'info>(wp: Whirlpool, info: &'info AccountInfo<'info>) -> Account<'info, Whirlpool> {
    unsafe { core::mem::transmute::<AccountShape<'info, 'info>, Account<'info, Whirlpool>>(AccountShape { account: wp, info }) }
}
fn check_fake_account(a: &Account<Whirlpool>, key: &Pubkey, ts: u16, tc: i32) {
    use anchor_lang::Key;
    assert!(a.tick_spacing == ts && a.tick_current_index == tc, "Account<Whirlpool> layout assumption");
    assert!(a.key().to_bytes()[0] == key.to_bytes()[0] && a.key().to_bytes()[31] == key.to_bytes()[31], "Account<Whirlpool> layout assumption (info)");
}

fn start_indexes_vs_ref(ts: u16) {
    let tc: i32 = kani::any();
    // tick_current_index range: [MIN-1, MAX] (MIN-1 is the shifted state after an a_to_b swap down to MIN_SQRT_PRICE)
    kani::assume(tc >= MIN_TICK_INDEX - 1 && tc <= MAX_TICK_INDEX);
    let a_to_b: bool = kani::any();
    let q: i32 = kani::any(); // reference witness: index of the first array
    let key = Pubkey::new_from_array([7u8; 32]);
    let mut lamports = 1u64;
    let mut data = [0u8; 0];
    let owner = ::whirlpool::ID;
    let ai = AccountInfo::new(&key, false, true, &mut lamports, &mut data[..], &owner, false, 0);
    let mut w = Whirlpool::default();
    w.tick_spacing = ts;
    w.tick_current_index = tc;
    let wp = fake_wp_account(w, &ai);
    check_fake_account(&wp, &key, ts, tc);
    let v = ::whirlpool::util::verif_get_start_tick_indexes(&wp, a_to_b);

    // reference: first = start of the array holding x, x = tick_current (a_to_b) or tick_current + spacing
    // (b_to_a: the first tick the rightward search can return is > tick_current, and an array's search range is
    // shifted by one spacing); then the next two arrays in direction; arrays not overlapping [MIN, MAX] dropped.
    let tsi = ts as i32;
    let tia = TA * tsi;
    let x = if a_to_b { tc } else { tc + tsi };
    let qmax = MAX_TICK_INDEX / tia + 2; // |q * tia| stays far below i32::MAX
    kani::assume(q >= -qmax && q <= qmax);
    let e0 = q * tia;
    kani::assume(e0 <= x && x < e0 + tia); // unique multiple of tia
    let step = if a_to_b { -tia } else { tia };
    let mut exp = [0i32; 3];
    let mut n = 0usize;
    let mut k = 0;
    while k < 3 {
        let e = e0 + k * step;
        if e + tia > MIN_TICK_INDEX && e <= MAX_TICK_INDEX {
            exp[n] = e;
            n += 1;
        }
        k += 1;
    }
    kani::cover!(v.len() == 3 || (tia > MAX_TICK_INDEX && v.len() == 2), "maximal number of arrays (3; 2 for full-range-only spacings)");
    kani::cover!(v.len() == 1, "clipped to one array");
    kani::cover!(!a_to_b && e0 > tc, "shifted: current tick one spacing below the next array");
    kani::cover!(v.len() > 0 && v[0] < MIN_TICK_INDEX, "starts in the MIN array");
    assert!(v.len() == n, "number of start indexes");
    let mut i = 0;
    while i < n {
        assert!(v[i] == exp[i], "start index");
        i += 1;
    }
}

/// (d) get_start_tick_indexes == reference (consecutive arrays from the one holding the (shifted) current tick, clipped at the protocol bounds); symbolic tick_current_index in [MIN-1, MAX], direction; spacing 1
// @verif prop=C10 tier=quick timeout=300
#[kani::proof]
#[kani::unwind(5)]
#[kani::stub(alloc::fmt::format, stub_format)]
#[kani::stub(<anchor_lang::error::Error as core::convert::From<::whirlpool::errors::ErrorCode>>::from, stub_err_from_code)]
fn c10_d_start_indexes_ts1() {
    start_indexes_vs_ref(1);
}

/// (d) get_start_tick_indexes == reference (consecutive arrays from the one holding the (shifted) current tick, clipped at the protocol bounds); symbolic tick_current_index in [MIN-1, MAX], direction; spacing 8
// @verif prop=C10 tier=quick timeout=300
#[kani::proof]
#[kani::unwind(5)]
#[kani::stub(alloc::fmt::format, stub_format)]
#[kani::stub(<anchor_lang::error::Error as core::convert::From<::whirlpool::errors::ErrorCode>>::from, stub_err_from_code)]
fn c10_d_start_indexes_ts8() {
    start_indexes_vs_ref(8);
}

/// (d) get_start_tick_indexes == reference (consecutive arrays from the one holding the (shifted) current tick, clipped at the protocol bounds); symbolic tick_current_index in [MIN-1, MAX], direction; spacing 64
// @verif prop=C10 tier=quick timeout=300
#[kani::proof]
#[kani::unwind(5)]
#[kani::stub(alloc::fmt::format, stub_format)]
#[kani::stub(<anchor_lang::error::Error as core::convert::From<::whirlpool::errors::ErrorCode>>::from, stub_err_from_code)]
fn c10_d_start_indexes_ts64() {
    start_indexes_vs_ref(64);
}

/// (d) get_start_tick_indexes == reference (consecutive arrays from the one holding the (shifted) current tick, clipped at the protocol bounds); symbolic tick_current_index in [MIN-1, MAX], direction; spacing 32896
// @verif prop=C10 tier=quick timeout=300
#[kani::proof]
#[kani::unwind(5)]
#[kani::stub(alloc::fmt::format, stub_format)]
#[kani::stub(<anchor_lang::error::Error as core::convert::From<::whirlpool::errors::ErrorCode>>::from, stub_err_from_code)]
fn c10_d_start_indexes_ts32896() {
    start_indexes_vs_ref(32896);
}

/// (d) get_start_tick_indexes == reference (consecutive arrays from the one holding the (shifted) current tick, clipped at the protocol bounds); symbolic tick_current_index in [MIN-1, MAX], direction; spacing 2
// @verif prop=C10 tier=thorough timeout=300
#[kani::proof]
#[kani::unwind(5)]
#[kani::stub(alloc::fmt::format, stub_format)]
#[kani::stub(<anchor_lang::error::Error as core::convert::From<::whirlpool::errors::ErrorCode>>::from, stub_err_from_code)]
fn c10_d_start_indexes_ts2() {
    start_indexes_vs_ref(2);
}

/// (d) get_start_tick_indexes == reference (consecutive arrays from the one holding the (shifted) current tick, clipped at the protocol bounds); symbolic tick_current_index in [MIN-1, MAX], direction; spacing 128
// @verif prop=C10 tier=thorough timeout=300
#[kani::proof]
#[kani::unwind(5)]
#[kani::stub(alloc::fmt::format, stub_format)]
#[kani::stub(<anchor_lang::error::Error as core::convert::From<::whirlpool::errors::ErrorCode>>::from, stub_err_from_code)]
fn c10_d_start_indexes_ts128() {
    start_indexes_vs_ref(128);
}

/// (d) get_start_tick_indexes == reference (consecutive arrays from the one holding the (shifted) current tick, clipped at the protocol bounds); symbolic tick_current_index in [MIN-1, MAX], direction; spacing 256
// @verif prop=C10 tier=thorough timeout=300
#[kani::proof]
#[kani::unwind(5)]
#[kani::stub(alloc::fmt::format, stub_format)]
#[kani::stub(<anchor_lang::error::Error as core::convert::From<::whirlpool::errors::ErrorCode>>::from, stub_err_from_code)]
fn c10_d_start_indexes_ts256() {
    start_indexes_vs_ref(256);
}

/// (d) get_start_tick_indexes == reference (consecutive arrays from the one holding the (shifted) current tick, clipped at the protocol bounds); symbolic tick_current_index in [MIN-1, MAX], direction; spacing 32768
// @verif prop=C10 tier=thorough timeout=300
#[kani::proof]
#[kani::unwind(5)]
#[kani::stub(alloc::fmt::format, stub_format)]
#[kani::stub(<anchor_lang::error::Error as core::convert::From<::whirlpool::errors::ErrorCode>>::from, stub_err_from_code)]
fn c10_d_start_indexes_ts32768() {
    start_indexes_vs_ref(32768);
}

