//! C10 harnesses (Engine K)
