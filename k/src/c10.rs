//! C10 — a swap crosses exactly the initialised ticks in its path, however packaged (Engine K parts a, b, d, e).
//!
//! (a) `get_next_init_tick_index` of FixedTickArray / DynamicTickArrayLoader / ZeroedTickArray vs a reference
//!     scan written here (no offset arithmetic: it compares `start + slot*spacing` with the search tick).
//! (b) `SwapTickSequence::get_next_initialized_tick_index` vs a flat reference scan across the arrays.
//! (d) `get_start_tick_indexes` vs a reference (consecutive arrays from the one holding the (shifted) tick).
//! (e) `SparseSwapTickSequenceBuilder::new/try_build` vs a reference defined on the *set* of supplied accounts.
use crate::common::*;
use anchor_lang::prelude::{Account, AccountInfo, Pubkey};
use anchor_lang::Discriminator;
use core::cell::RefCell;
use std::cell::RefMut;
use ::whirlpool::errors::ErrorCode;
use ::whirlpool::state::*;
use ::whirlpool::util::{SparseSwapTickSequenceBuilder, SwapTickSequence};

const TA: i32 = TICK_ARRAY_SIZE; // 88 slots

/// valid start index of a tick array (the predicate `initialize_tick_array` enforces)
fn any_valid_start(ts: u16) -> i32 {
    let s: i32 = kani::any();
    kani::assume(Tick::check_is_valid_start_tick(s, ts));
    s
}

/// Reference for one array: Err(code) if the search tick is outside the (shifted) search range, else the
/// nearest initialised slot in direction (inclusive leftwards, exclusive rightwards) or None.
fn ref_search(bitmap: u128, start: i32, ti: i32, ts: i32, a_to_b: bool) -> Result<Option<i32>, u32> {
    let (lo, hi) = if a_to_b {
        (start, start + TA * ts)
    } else {
        (start - ts, start + (TA - 1) * ts)
    };
    if ti < lo || ti >= hi {
        return Err(ecode(ErrorCode::InvalidTickArraySequence));
    }
    let mut best: Option<i32> = None;
    let mut s: i32 = 0;
    while s < TA {
        let t = start + s * ts;
        if (bitmap >> s) & 1 == 1 {
            if a_to_b {
                if t <= ti {
                    best = Some(t); // the last qualifying slot is the largest one
                }
            } else if t > ti && best.is_none() {
                best = Some(t); // the first qualifying slot is the smallest one
            }
        }
        s += 1;
    }
    Ok(best)
}

fn same_search(r: &anchor_lang::Result<Option<i32>>, e: &Result<Option<i32>, u32>) -> bool {
    match (r, e) {
        (Ok(x), Ok(y)) => x == y,
        (Err(x), Err(y)) => acode(x) == *y,
        _ => false,
    }
}

/// header of a dynamic tick array (without discriminator): start index, whirlpool, bitmap; the search
/// reads nothing else
fn dyn_header(start: i32, bitmap: u128) -> [u8; 64] {
    let mut buf = [0u8; 64];
    buf[0..4].copy_from_slice(&start.to_le_bytes());
    buf[36..52].copy_from_slice(&bitmap.to_le_bytes());
    buf
}

fn fixed_from_bitmap(start: i32, bitmap: u128) -> FixedTickArray {
    let mut arr = FixedTickArray::default();
    arr.start_tick_index = start;
    let mut s = 0usize;
    while s < TICK_ARRAY_SIZE_USIZE {
        arr.ticks[s].initialized = (bitmap >> s) & 1 == 1;
        s += 1;
    }
    arr
}

fn search_covers(r: &anchor_lang::Result<Option<i32>>, start: i32, ti: i32, ts: u16, a_to_b: bool) {
    let tsi = ts as i32;
    kani::cover!(matches!(r, Ok(Some(t)) if *t == start), "found in slot 0");
    kani::cover!(matches!(r, Ok(Some(t)) if *t == start + 87 * tsi), "found in slot 87");
    kani::cover!(matches!(r, Ok(None)), "none");
    kani::cover!(r.is_err(), "outside the search range");
    kani::cover!(r.is_ok() && !a_to_b && ti < start, "shifted search from below the array start");
    kani::cover!(r.is_ok() && start < MIN_TICK_INDEX, "array straddling MIN_TICK_INDEX");
}

fn dyn_search_vs_ref(ts: u16) {
    let bitmap: u128 = kani::any();
    let start = any_valid_start(ts);
    let ti: i32 = kani::any();
    let a_to_b: bool = kani::any();
    let buf = dyn_header(start, bitmap);
    let arr = DynamicTickArrayLoader::load(&buf);
    let r = arr.get_next_init_tick_index(ti, ts, a_to_b);
    let e = ref_search(bitmap, start, ti, ts as i32, a_to_b);
    search_covers(&r, start, ti, ts, a_to_b);
    assert!(same_search(&r, &e), "dynamic array search == reference scan");
    core::mem::forget(r);
}

fn fixed_search_vs_ref(ts: u16) {
    let bitmap: u128 = kani::any();
    let start = any_valid_start(ts);
    let ti: i32 = kani::any();
    let a_to_b: bool = kani::any();
    let arr = fixed_from_bitmap(start, bitmap);
    let r = arr.get_next_init_tick_index(ti, ts, a_to_b);
    let e = ref_search(bitmap, start, ti, ts as i32, a_to_b);
    search_covers(&r, start, ti, ts, a_to_b);
    assert!(same_search(&r, &e), "fixed array search == reference scan");
    core::mem::forget(r);
}

// ---------------------------------------------------------------------------------------------
// (a) dynamic array, per spacing

/// (a) DynamicTickArrayLoader::get_next_init_tick_index == reference scan; symbolic 128-bit bitmap, valid start (incl. MIN array), search tick (all i32), direction; spacing 1
// @verif prop=C10 tier=quick timeout=300
#[kani::proof]
#[kani::unwind(90)]
#[kani::stub(alloc::fmt::format, stub_format)]
#[kani::stub(<anchor_lang::error::Error as core::convert::From<::whirlpool::errors::ErrorCode>>::from, stub_err_from_code)]
fn c10_a_dyn_ts1() {
    dyn_search_vs_ref(1);
}

/// (a) as c10_a_dyn_ts1, spacing 8
// @verif prop=C10 tier=quick timeout=300
#[kani::proof]
#[kani::unwind(90)]
#[kani::stub(alloc::fmt::format, stub_format)]
#[kani::stub(<anchor_lang::error::Error as core::convert::From<::whirlpool::errors::ErrorCode>>::from, stub_err_from_code)]
fn c10_a_dyn_ts8() {
    dyn_search_vs_ref(8);
}

/// (a) FixedTickArray::get_next_init_tick_index == reference scan; symbolic `initialized` flag of all 88 slots, valid start, search tick, direction; spacing 8
// @verif prop=C10 tier=quick timeout=300
#[kani::proof]
#[kani::unwind(90)]
#[kani::stub(alloc::fmt::format, stub_format)]
#[kani::stub(<anchor_lang::error::Error as core::convert::From<::whirlpool::errors::ErrorCode>>::from, stub_err_from_code)]
fn c10_a_fixed_ts8() {
    fixed_search_vs_ref(8);
}

// ---------------------------------------------------------------------------------------------
// (d) get_start_tick_indexes

/// Anchor `Account<Whirlpool>` over a 653-byte image in which only key, tick_spacing and tick_current_index matter
fn wp_data(ts: u16, tc: i32) -> [u8; 653] {
    let mut d = [0u8; 653];
    d[..8].copy_from_slice(Whirlpool::DISCRIMINATOR);
    d[41..43].copy_from_slice(&ts.to_le_bytes());
    d[81..85].copy_from_slice(&tc.to_le_bytes());
    d
}

fn start_indexes_vs_ref(ts: u16) {
    let tc: i32 = kani::any();
    // tick_current_index range: [MIN-1, MAX] (MIN-1 is the shifted state after an a_to_b swap down to MIN_SQRT_PRICE)
    kani::assume(tc >= MIN_TICK_INDEX - 1 && tc <= MAX_TICK_INDEX);
    let a_to_b: bool = kani::any();
    let q: i32 = kani::any(); // reference witness: index of the first array
    let key = Pubkey::new_from_array([7u8; 32]);
    let mut lamports = 1u64;
    let mut data = wp_data(ts, tc);
    let owner = ::whirlpool::ID;
    let ai = AccountInfo::new(&key, false, true, &mut lamports, &mut data[..], &owner, false, 0);
    let wp: Account<Whirlpool> = Account::try_from(&ai).unwrap();
    let v = ::whirlpool::util::verif_get_start_tick_indexes(&wp, a_to_b);

    // reference: first = start of the array holding x, x = tick_current (a_to_b) or tick_current + spacing
    // (b_to_a: the first tick the rightward search can return is > tick_current, and an array's search range is
    // shifted by one spacing); then the next two arrays in direction; arrays not overlapping [MIN, MAX] dropped.
    let tsi = ts as i32;
    let tia = TA * tsi;
    let x = if a_to_b { tc } else { tc + tsi };
    kani::assume(q >= -6000 && q <= 6000);
    let e0 = q * tia;
    kani::assume(e0 <= x && x < e0 + tia); // unique multiple of tia
    let step = if a_to_b { -tia } else { tia };
    let mut exp = [0i32; 3];
    let mut n = 0usize;
    let mut k = 0;
    while k < 3 {
        let e = e0 + k * step;
        if e + tia > MIN_TICK_INDEX && e <= MAX_TICK_INDEX {
            exp[n] = e;
            n += 1;
        }
        k += 1;
    }
    kani::cover!(v.len() == 3, "three arrays");
    kani::cover!(v.len() == 1, "clipped to one array");
    kani::cover!(!a_to_b && e0 > tc, "shifted: current tick one spacing below the next array");
    kani::cover!(v.len() > 0 && v[0] < MIN_TICK_INDEX, "starts in the MIN array");
    assert!(v.len() == n, "number of start indexes");
    let mut i = 0;
    while i < n {
        assert!(v[i] == exp[i], "start index");
        i += 1;
    }
}

/// (d) get_start_tick_indexes == reference; symbolic tick_current_index in [MIN-1, MAX], direction; spacing 64
// @verif prop=C10 tier=quick timeout=300
#[kani::proof]
#[kani::unwind(34)]
#[kani::stub(alloc::fmt::format, stub_format)]
#[kani::stub(<anchor_lang::error::Error as core::convert::From<::whirlpool::errors::ErrorCode>>::from, stub_err_from_code)]
#[kani::stub(<anchor_lang::error::Error as core::convert::From<anchor_lang::error::ErrorCode>>::from, stub_err_from_anchor_code)]
fn c10_d_start_indexes_ts64() {
    start_indexes_vs_ref(64);
}

/// (d) get_start_tick_indexes == reference; symbolic tick_current_index, direction and tick spacing (all u16 >= 1)
// @verif prop=C10 tier=quick timeout=300
#[kani::proof]
#[kani::unwind(34)]
#[kani::stub(alloc::fmt::format, stub_format)]
#[kani::stub(<anchor_lang::error::Error as core::convert::From<::whirlpool::errors::ErrorCode>>::from, stub_err_from_code)]
#[kani::stub(<anchor_lang::error::Error as core::convert::From<anchor_lang::error::ErrorCode>>::from, stub_err_from_anchor_code)]
fn c10_d_start_indexes_symbolic_spacing() {
    let ts: u16 = kani::any();
    kani::assume(ts >= 1);
    start_indexes_vs_ref(ts);
}
