//! Kani harnesses over the real `whirlpool` crate (path dependency on /repo).
//! Every harness is a `#[kani::proof]`; the same bodies are callable natively
//! for replay through `replay::*` (see bin/check).
#![allow(dead_code, unused_imports, clippy::all)]
#![recursion_limit = "256"]
extern crate alloc;

pub mod common;

#[cfg(kani)]
mod c12;
#[cfg(kani)]
mod c01;
#[cfg(kani)]
mod c02;
#[cfg(kani)]
mod c03;
#[cfg(kani)]
mod c04;
#[cfg(kani)]
mod c05;
#[cfg(kani)]
mod c06;
#[cfg(kani)]
mod c07;
#[cfg(kani)]
mod c08;
#[cfg(kani)]
mod c09;
#[cfg(kani)]
mod c10;
#[cfg(kani)]
mod c11;
#[cfg(kani)]
mod c13;
#[cfg(kani)]
mod c14;
#[cfg(kani)]
mod c15;
#[cfg(kani)]
mod c16;
#[cfg(kani)]
mod c17;
#[cfg(kani)]
mod c18;
#[cfg(kani)]
mod c19;
#[cfg(kani)]
mod c20;
#[cfg(kani)]
mod c04p;
