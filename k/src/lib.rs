//! Kani harnesses over the real `whirlpool` crate (path dependency on /repo).
//! Every harness is a `#[kani::proof]`; the same bodies are callable natively
//! for replay through `replay::*` (see bin/check).
#![allow(dead_code, unused_imports, clippy::all)]
extern crate alloc;

pub mod common;

#[cfg(kani)]
mod c12;
