//! C16 harnesses (Engine K)
