//! C16 (transfer-fee tokens), clause "epoch choice" — Engine K.
//!
//! Which of the two scheduled fees of a Token-2022 `TransferFeeConfig` extension the program applies:
//! `newer_transfer_fee` once the cluster epoch has reached `newer_transfer_fee.epoch` (>=), `older_transfer_fee`
//! before. The Anchor side (`util::v2::token::get_epoch_transfer_fee`) unpacks the mint with spl-token-2022 and calls
//! `TransferFeeConfig::get_epoch_fee`; the Pinocchio side (`pinocchio::ported::util_token::pino_get_epoch_transfer_fee`,
//! private) has its own TLV parser (`pinocchio::state::token::extensions::parse_token_extensions`) and an open-coded
//! epoch comparison. Both run here on the *same* mint account bytes: a real Token-2022 mint image (82-byte base,
//! padding, account type, one TLV entry of 108 value bytes) whose entry type number, both authorities, withheld amount
//! and both (epoch, maximum_fee, basis points) triples are symbolic, under a symbolic clock epoch.
//!
//! Sizes are concrete (one TLV entry, length field pinned to 108), so no loop bound depends on a symbolic value.
//! The conversions that consume the selected fee (fee-included / fee-excluded amounts) are decided by Engine M.
use crate::common::*;
use anchor_lang::prelude::*;
use anchor_spl::token_2022::spl_token_2022;
use anchor_spl::token_2022::spl_token_2022::extension::transfer_fee::TransferFee;
use anchor_spl::token_interface::Mint as IMint;

/// offset of the TLV area in a Token-2022 mint account: 82-byte base, zero padding up to 165, account-type byte
const MINT_TLV_START: usize = 166;
/// `size_of::<TransferFeeConfig>()`: two authorities, withheld amount, two TransferFee (8 + 8 + 2)
const TFC_LEN: usize = 32 + 32 + 8 + 18 + 18;
const MINT_LEN: usize = MINT_TLV_START + 4 + TFC_LEN;
const X_TRANSFER_FEE_CONFIG: u16 = 1;
const X_MEMO_TRANSFER: u16 = 8;
const X_TRANSFER_HOOK: u16 = 14;

/// (epoch, maximum_fee, transfer_fee_basis_points) as stored in the extension (little endian, unaligned)
#[repr(C)]
#[derive(Clone, Copy)]
struct FeeBytes {
    epoch: [u8; 8],
    maximum_fee: [u8; 8],
    bps: [u8; 2],
}
#[derive(Clone, Copy, PartialEq, Eq)]
struct Fee {
    epoch: u64,
    maximum_fee: u64,
    bps: u16,
}
impl FeeBytes {
    fn any() -> Self {
        FeeBytes { epoch: kani::any(), maximum_fee: kani::any(), bps: kani::any() }
    }
    fn fee(&self) -> Fee {
        Fee {
            epoch: u64::from_le_bytes(self.epoch),
            maximum_fee: u64::from_le_bytes(self.maximum_fee),
            bps: u16::from_le_bytes(self.bps),
        }
    }
}
fn fee_of(f: &TransferFee) -> Fee {
    Fee { epoch: u64::from(f.epoch), maximum_fee: u64::from(f.maximum_fee), bps: u16::from(f.transfer_fee_basis_points) }
}

/// a Token-2022 mint account image with exactly one TLV entry of `TFC_LEN` value bytes. A struct of small byte arrays
/// (every byte keeps its own SSA symbol); the program sees one contiguous `[u8; MINT_LEN]`.
#[repr(C)]
#[derive(Clone, Copy)]
struct MintImage {
    mint_authority_tag: [u8; 4],
    mint_authority: [u8; 32],
    supply: [u8; 8],
    decimals: u8,
    is_initialized: u8,
    freeze_authority_tag: [u8; 4],
    freeze_authority: [u8; 32],
    pad_a: [u8; 42],
    pad_b: [u8; 41],
    account_type: u8,
    tlv_type: [u8; 2],
    tlv_len: [u8; 2],
    transfer_fee_config_authority: [u8; 32],
    withdraw_withheld_authority: [u8; 32],
    withheld_amount: [u8; 8],
    older: FeeBytes,
    newer: FeeBytes,
}
impl MintImage {
    /// base fields, entry type number and the whole extension value symbolic. Validity predicates (needed for Anchor to
    /// deserialize `InterfaceAccount<Mint>` at all, as every v2 instruction does before the fee code runs):
    /// is_initialized = 1, COption tags in {0,1} (fixed to "present"), zero padding, account type = Mint. The entry
    /// length is pinned to `TFC_LEN` (Token-2022 allocates exactly that for type 1; keeps the TLV walk concrete).
    fn any() -> Self {
        assert!(core::mem::size_of::<Self>() == MINT_LEN);
        MintImage {
            mint_authority_tag: [1, 0, 0, 0],
            mint_authority: kani::any(),
            supply: kani::any(),
            decimals: kani::any(),
            is_initialized: 1,
            freeze_authority_tag: [1, 0, 0, 0],
            freeze_authority: kani::any(),
            pad_a: [0; 42],
            pad_b: [0; 41],
            account_type: 1,
            tlv_type: kani::any(),
            tlv_len: (TFC_LEN as u16).to_le_bytes(),
            transfer_fee_config_authority: kani::any(),
            withdraw_withheld_authority: kani::any(),
            withheld_amount: kani::any(),
            older: FeeBytes::any(),
            newer: FeeBytes::any(),
        }
    }
    fn entry_type(&self) -> u16 {
        u16::from_le_bytes(self.tlv_type)
    }
    fn bytes_mut(&mut self) -> &mut [u8] {
        unsafe { core::slice::from_raw_parts_mut(self as *mut Self as *mut u8, MINT_LEN) }
    }
}

/// the rule of the property ("older/newer epoch schedule"): the newer fee applies from its epoch on
fn ref_epoch_fee(clock_epoch: u64, older: Fee, newer: Fee) -> Fee {
    if clock_epoch >= newer.epoch {
        newer
    } else {
        older
    }
}

// ---------------------------------------------------------------------------------------------
// stubs: the cluster clock. The epoch is drawn by the harness (before the code under test) and handed out here.
static mut CLOCK_EPOCH: u64 = 0;
static mut CLOCK_CALLS: u8 = 0;

/// `<solana Clock as Sysvar>::get` (a syscall on chain): succeeds with epoch = `CLOCK_EPOCH`; the other fields are not
/// read by the code under test
fn stub_anchor_clock_get() -> core::result::Result<Clock, ProgramError> {
    unsafe {
        CLOCK_CALLS += 1;
        Ok(Clock { slot: 0, epoch_start_timestamp: 0, epoch: CLOCK_EPOCH, leader_schedule_epoch: 0, unix_timestamp: 0 })
    }
}

fn stub_pino_clock_get() -> core::result::Result<pinocchio::sysvars::clock::Clock, pinocchio::program_error::ProgramError> {
    unsafe {
        CLOCK_CALLS += 1;
        Ok(pinocchio::sysvars::clock::Clock {
            slot: 0,
            epoch_start_timestamp: 0,
            epoch: CLOCK_EPOCH,
            leader_schedule_epoch: 0,
            unix_timestamp: 0,
        })
    }
}

/// observation point for the Pinocchio side: `pino_get_epoch_transfer_fee` is private; its only consumer in
/// `pino_calculate_transfer_fee_excluded_amount` is `epoch_transfer_fee.calculate_fee(amount)`. This replacement
/// records the `TransferFee` it is called on and charges no fee (the fee arithmetic is Engine M's part).
static mut PINO_FEE_SEEN: u8 = 0;
static mut PINO_FEE: (u64, u64, u16) = (0, 0, 0);
fn stub_record_calculate_fee(this: &TransferFee, _pre_fee_amount: u64) -> Option<u64> {
    unsafe {
        PINO_FEE_SEEN += 1;
        PINO_FEE = (u64::from(this.epoch), u64::from(this.maximum_fee), u16::from(this.transfer_fee_basis_points));
    }
    Some(0)
}

// ---------------------------------------------------------------------------------------------
/// outcome of get_epoch_transfer_fee on an image: 0 = Err, 1 = Ok(None), 2 = Ok(Some(fee))
fn anchor_epoch_fee(img: &mut MintImage, key: &Pubkey, owner: &Pubkey) -> (u8, Fee) {
    let mut lamports = 1u64;
    let ai = AccountInfo::new(key, false, false, &mut lamports, img.bytes_mut(), owner, false, 0);
    let mint = match InterfaceAccount::<IMint>::try_from(&ai) {
        Ok(m) => m,
        Err(e) => {
            core::mem::forget(e);
            panic!("mint image must deserialize");
        }
    };
    let r = ::whirlpool::util::v2::token::get_epoch_transfer_fee(&mint);
    let out = match &r {
        Ok(Some(f)) => (2, fee_of(f)),
        Ok(None) => (1, Fee { epoch: 0, maximum_fee: 0, bps: 0 }),
        Err(_) => (0, Fee { epoch: 0, maximum_fee: 0, bps: 0 }),
    };
    core::mem::forget(r);
    out
}

/// raw account memory as the runtime lays it out for Pinocchio (88-byte header, then the data)
#[repr(C)]
struct RawMint {
    borrow_state: u8,
    is_signer: u8,
    is_writable: u8,
    executable: u8,
    resize_delta: i32,
    key: [u8; 32],
    owner: [u8; 32],
    lamports: u64,
    data_len: u64,
    data: MintImage,
}
unsafe fn pino_ai(r: *mut RawMint) -> pinocchio::account_info::AccountInfo {
    let mut slot = core::mem::MaybeUninit::<pinocchio::account_info::AccountInfo>::uninit();
    (slot.as_mut_ptr() as *mut *mut RawMint).write(r);
    slot.assume_init()
}

/// outcome of the Pinocchio selection on an image of `data_len` bytes, observed through
/// pino_calculate_transfer_fee_excluded_amount(mint, amount) with the recording calculate_fee:
/// 0 = Err, 1 = no fee selected (amount passes through), 2 = fee selected (recorded)
fn pino_epoch_fee(img: &MintImage, key: [u8; 32], owner: [u8; 32], data_len: usize, amount: u64) -> (u8, Fee) {
    let mut raw = RawMint {
        borrow_state: 0xff,
        is_signer: 0,
        is_writable: 0,
        executable: 0,
        resize_delta: 0,
        key,
        owner,
        lamports: 1,
        data_len: data_len as u64,
        data: *img,
    };
    let info = unsafe { pino_ai(&mut raw as *mut RawMint) };
    unsafe {
        PINO_FEE_SEEN = 0;
    }
    let r = ::whirlpool::pinocchio::ported::util_token::pino_calculate_transfer_fee_excluded_amount(&info, amount);
    let seen = unsafe { PINO_FEE_SEEN };
    let rec = unsafe { PINO_FEE };
    let out = match &r {
        Ok(x) => {
            // stub charges nothing: the amount passes through on both paths
            assert!(x.amount == amount && x.transfer_fee == 0);
            assert!(seen <= 1);
            if seen == 1 {
                (2, Fee { epoch: rec.0, maximum_fee: rec.1, bps: rec.2 })
            } else {
                (1, Fee { epoch: 0, maximum_fee: 0, bps: 0 })
            }
        }
        Err(_) => (0, Fee { epoch: 0, maximum_fee: 0, bps: 0 }),
    };
    core::mem::forget(r);
    out
}

/// get_epoch_transfer_fee(&InterfaceAccount<Mint>) on a real mint image with one 108-byte TLV entry (entry type number, both authorities, withheld amount, older and newer (epoch, maximum_fee, basis points) all symbolic; mint key, base fields symbolic), owner symbolic in {SPL Token, Token-2022}, Clock::get stubbed to a symbolic epoch: SPL-owned => Ok(None) without reading the clock; Token-2022 with a TransferFeeConfig entry => Ok(Some(f)), f = newer if clock.epoch >= newer.epoch else older (all three fields); Token-2022 whose entry is any other type number (incl. uninitialized / unknown) => Ok(None)
// @verif prop=C16 tier=quick timeout=300 unwindset=memcmp.0:85
#[kani::proof]
#[kani::unwind(4)]
#[kani::stub(alloc::fmt::format, stub_format)]
#[kani::stub(<anchor_lang::error::Error as core::convert::From<::whirlpool::errors::ErrorCode>>::from, stub_err_from_code)]
#[kani::stub(<anchor_lang::error::Error as core::convert::From<anchor_lang::error::ErrorCode>>::from, stub_err_from_anchor_code)]
#[kani::stub(<anchor_lang::prelude::Clock as anchor_lang::solana_program::sysvar::Sysvar>::get, stub_anchor_clock_get)]
fn c16_epoch_transfer_fee_choice() {
    let mut img = MintImage::any();
    let key: [u8; 32] = kani::any();
    let owner_is_token: bool = kani::any();
    let clock_epoch: u64 = kani::any();
    unsafe {
        CLOCK_EPOCH = clock_epoch;
    }
    let older = img.older.fee();
    let newer = img.newer.fee();
    let ty = img.entry_type();
    let key_pk = Pubkey::new_from_array(key);
    let owner = if owner_is_token { anchor_spl::token::ID } else { anchor_spl::token_2022::ID };

    let (kind, f) = anchor_epoch_fee(&mut img, &key_pk, &owner);
    let clock_calls = unsafe { CLOCK_CALLS };

    if owner_is_token {
        assert!(kind == 1, "SPL Token mint: no transfer fee");
        assert!(clock_calls == 0);
    } else if ty == X_TRANSFER_FEE_CONFIG {
        assert!(kind == 2, "Token-2022 mint with TransferFeeConfig: a fee is selected");
        assert!(clock_calls == 1);
        let want = ref_epoch_fee(clock_epoch, older, newer);
        assert!(f.epoch == want.epoch && f.maximum_fee == want.maximum_fee && f.bps == want.bps, "epoch rule");
    } else {
        assert!(kind == 1, "Token-2022 mint without TransferFeeConfig: no transfer fee");
    }
    kani::cover!(kind == 2 && clock_epoch >= newer.epoch && newer != older, "newer fee selected");
    kani::cover!(kind == 2 && clock_epoch < newer.epoch && newer != older, "older fee selected");
    kani::cover!(kind == 2 && clock_epoch == newer.epoch && newer != older, "boundary epoch selects newer");
    kani::cover!(kind == 1 && owner_is_token && ty == X_TRANSFER_FEE_CONFIG, "SPL-owned: None");
    kani::cover!(kind == 1 && !owner_is_token && ty == 3, "Token-2022 with another extension: None");
    kani::cover!(kind == 1 && !owner_is_token && ty == 0, "Token-2022 with uninitialized TLV: None");
}

/// Token-2022 mint of exactly 82 bytes (no TLV area at all), base fields symbolic: Ok(None), clock not read
// @verif prop=C16 tier=quick timeout=300 unwindset=memcmp.0:85
#[kani::proof]
#[kani::unwind(4)]
#[kani::stub(alloc::fmt::format, stub_format)]
#[kani::stub(<anchor_lang::error::Error as core::convert::From<::whirlpool::errors::ErrorCode>>::from, stub_err_from_code)]
#[kani::stub(<anchor_lang::error::Error as core::convert::From<anchor_lang::error::ErrorCode>>::from, stub_err_from_anchor_code)]
#[kani::stub(<anchor_lang::prelude::Clock as anchor_lang::solana_program::sysvar::Sysvar>::get, stub_anchor_clock_get)]
fn c16_epoch_transfer_fee_plain_2022_mint() {
    let mut img = MintImage::any();
    let key: [u8; 32] = kani::any();
    let clock_epoch: u64 = kani::any();
    unsafe {
        CLOCK_EPOCH = clock_epoch;
    }
    let key_pk = Pubkey::new_from_array(key);
    let owner = anchor_spl::token_2022::ID;
    let mut lamports = 1u64;
    let ai = AccountInfo::new(&key_pk, false, false, &mut lamports, &mut img.bytes_mut()[..82], &owner, false, 0);
    let mint = match InterfaceAccount::<IMint>::try_from(&ai) {
        Ok(m) => m,
        Err(e) => {
            core::mem::forget(e);
            panic!("mint image must deserialize");
        }
    };
    let r = ::whirlpool::util::v2::token::get_epoch_transfer_fee(&mint);
    let none = matches!(&r, Ok(None));
    core::mem::forget(r);
    assert!(none, "82-byte Token-2022 mint: no transfer fee");
    assert!(unsafe { CLOCK_CALLS } == 0);
    kani::cover!(none, "Ok(None)");
}

/// same bytes through both implementations: Pinocchio (load_token_program_account_unchecked + parse_token_extensions + private pino_get_epoch_transfer_fee, observed at the TransferFee handed to calculate_fee inside pino_calculate_transfer_fee_excluded_amount) selects the fee by the same rule, and Anchor get_epoch_transfer_fee selects the same fee / None. Token-2022-owned 278-byte image as in c16_epoch_transfer_fee_choice (entry type symbolic), symbolic clock epoch and amount; plus SPL-Token-owned 82-byte mint (the only size an SPL mint has) => no fee on both sides
// @verif prop=C16 tier=quick timeout=300 unwindset=memcmp.0:85
#[kani::proof]
#[kani::unwind(4)]
#[kani::stub(alloc::fmt::format, stub_format)]
#[kani::stub(<anchor_lang::error::Error as core::convert::From<::whirlpool::errors::ErrorCode>>::from, stub_err_from_code)]
#[kani::stub(<anchor_lang::error::Error as core::convert::From<anchor_lang::error::ErrorCode>>::from, stub_err_from_anchor_code)]
#[kani::stub(<::whirlpool::pinocchio::errors::UnifiedError as core::convert::From<::whirlpool::errors::ErrorCode>>::from, stub_unified_from_code)]
#[kani::stub(<anchor_lang::prelude::Clock as anchor_lang::solana_program::sysvar::Sysvar>::get, stub_anchor_clock_get)]
#[kani::stub(<pinocchio::sysvars::clock::Clock as pinocchio::sysvars::Sysvar>::get, stub_pino_clock_get)]
#[kani::stub(anchor_spl::token_2022::spl_token_2022::extension::transfer_fee::TransferFee::calculate_fee, stub_record_calculate_fee)]
fn c16_pino_epoch_transfer_fee_choice() {
    let mut img = MintImage::any();
    let key: [u8; 32] = kani::any();
    let clock_epoch: u64 = kani::any();
    let amount: u64 = kani::any();
    unsafe {
        CLOCK_EPOCH = clock_epoch;
    }
    let older = img.older.fee();
    let newer = img.newer.fee();
    let ty = img.entry_type();
    let key_pk = Pubkey::new_from_array(key);

    // Token-2022-owned, full image
    let (pk, pf) = pino_epoch_fee(&img, key, anchor_spl::token_2022::ID.to_bytes(), MINT_LEN, amount);
    let pino_clock_calls = unsafe { CLOCK_CALLS };
    let (ak, af) = anchor_epoch_fee(&mut img, &key_pk, &anchor_spl::token_2022::ID);

    // The entry length is pinned to 108 bytes. Token-2022 gives TransferHook (14) and MemoTransfer (8) entries their
    // own fixed lengths (64 / 1), so an entry of one of these two types with 108 value bytes is a malformed image that
    // no Token-2022 instruction produces. On it the two parsers differ (Pinocchio checks the length of every entry it
    // knows and returns InvalidAccountData, spl-token-2022 only looks at the entry it searches for): only "no fee is
    // selected" is asserted there, not agreement.
    let malformed = ty == X_TRANSFER_HOOK || ty == X_MEMO_TRANSFER;
    if ty == X_TRANSFER_FEE_CONFIG {
        assert!(pk == 2, "pino: a fee is selected");
        assert!(pino_clock_calls == 1);
        let want = ref_epoch_fee(clock_epoch, older, newer);
        assert!(pf.epoch == want.epoch && pf.maximum_fee == want.maximum_fee && pf.bps == want.bps, "pino epoch rule");
    } else if malformed {
        assert!(pk != 2, "pino: no TransferFeeConfig entry, no fee selected");
    } else {
        assert!(pk == 1, "pino: no TransferFeeConfig entry, no fee");
        assert!(pino_clock_calls == 0);
    }
    if !malformed {
        assert!(ak == pk, "Anchor and Pinocchio agree on whether a fee applies");
        assert!(af.epoch == pf.epoch && af.maximum_fee == pf.maximum_fee && af.bps == pf.bps, "Anchor and Pinocchio select the same fee");
    }

    // SPL-Token-owned mint: 82 bytes
    let (sk, _) = pino_epoch_fee(&img, key, anchor_spl::token::ID.to_bytes(), 82, amount);
    assert!(sk == 1, "pino: SPL Token mint has no transfer fee");

    kani::cover!(pk == 2 && clock_epoch >= newer.epoch && newer != older, "pino: newer fee selected");
    kani::cover!(pk == 2 && clock_epoch < newer.epoch && newer != older, "pino: older fee selected");
    kani::cover!(pk == 1 && ak == 1 && ty == 3, "both: another extension, no fee");
    kani::cover!(pk == 2 && ak == 2 && clock_epoch == newer.epoch && newer != older, "both: boundary epoch selects newer");
}

/// twin: the wrong rule (newer only when clock.epoch > newer.epoch) must be refuted (boundary epoch)
// @verif prop=C16 tier=quick timeout=300 twin unwindset=memcmp.0:85
#[kani::proof]
#[kani::unwind(4)]
#[kani::stub(alloc::fmt::format, stub_format)]
#[kani::stub(<anchor_lang::error::Error as core::convert::From<::whirlpool::errors::ErrorCode>>::from, stub_err_from_code)]
#[kani::stub(<anchor_lang::error::Error as core::convert::From<anchor_lang::error::ErrorCode>>::from, stub_err_from_anchor_code)]
#[kani::stub(<anchor_lang::prelude::Clock as anchor_lang::solana_program::sysvar::Sysvar>::get, stub_anchor_clock_get)]
fn c16_twin_must_fail() {
    let mut img = MintImage::any();
    let key: [u8; 32] = kani::any();
    let clock_epoch: u64 = kani::any();
    unsafe {
        CLOCK_EPOCH = clock_epoch;
    }
    img.tlv_type = X_TRANSFER_FEE_CONFIG.to_le_bytes();
    let older = img.older.fee();
    let newer = img.newer.fee();
    let key_pk = Pubkey::new_from_array(key);
    let (kind, f) = anchor_epoch_fee(&mut img, &key_pk, &anchor_spl::token_2022::ID);
    kani::cover!(kind == 2, "fee selected");
    let wrong = if clock_epoch > newer.epoch { newer } else { older };
    assert!(kind != 2 || f == wrong, "twin: strict > epoch rule");
}
