//! C07 harnesses (Engine K)
