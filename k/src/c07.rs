//! C07 — a position earns fees only while the price is inside its range (Engine K part).
//!
//! Inductive-step lemmas over the wrapping u128 bookkeeping (`fee_growth_outside_a/b`, `fee_growth_global_a/b`,
//! position checkpoints), each decided for the Anchor functions of `manager::tick_manager` /
//! `manager::position_manager` and for their Pinocchio ports on the *same symbolic bytes*:
//!  L1  global += x while the current tick does not move  =>  inside' - inside == x iff lower <= cur < upper
//!  L2  crossing an initialised tick (outside := global - outside) with the swap loop's tick shift leaves `inside`
//!      of every range unchanged
//!  L3  (re)initialisation convention of `next_tick_modify_liquidity_update`
//!  L4  position credit: owed' = owed + mul_shift_right(L, inside - checkpoint) or + 0 on overflow; checkpoint := inside
//! Composition of these steps over unbounded histories / position sets is a written argument (DESIGN §4).
use crate::common::*;
use ::whirlpool::manager::position_manager::next_position_modify_liquidity_update;
use ::whirlpool::manager::tick_manager::*;
use ::whirlpool::pinocchio::ported::manager_liquidity_manager::*;
use ::whirlpool::pinocchio::state::whirlpool::tick_array::TickUpdate as PTickUpdate;
use ::whirlpool::pinocchio::state::whirlpool::{
    MemoryMappedPosition, MemoryMappedTick, MemoryMappedWhirlpoolRewardInfo,
};
use ::whirlpool::state::*;
use anchor_lang::prelude::Pubkey;

// ------------------------------------------------------------------------------------------------
// shared byte-level views (also used by c05.rs / c11.rs)

/// a tick as stored in a tick-array account (113 bytes, packed)
pub(crate) type TB = [u8; 113];

pub(crate) fn any_tick() -> TB {
    let b: TB = kani::any();
    kani::assume(b[0] <= 1); // `initialized` is a bool in every account the program writes
    b
}
/// Anchor zero-copy view
pub(crate) fn tick_of(b: &TB) -> Tick {
    assert!(b[0] <= 1);
    unsafe { core::ptr::read_unaligned(b.as_ptr() as *const Tick) }
}
pub(crate) fn tick_bytes(t: &Tick) -> TB {
    let mut b = [0u8; 113];
    unsafe { core::ptr::write_unaligned(b.as_mut_ptr() as *mut Tick, *t) };
    b
}
/// Pinocchio memory-mapped view
pub(crate) fn mtick(b: &TB) -> &MemoryMappedTick {
    unsafe { &*(b.as_ptr() as *const MemoryMappedTick) }
}
pub(crate) fn mtick_mut(b: &mut TB) -> &mut MemoryMappedTick {
    unsafe { &mut *(b.as_mut_ptr() as *mut MemoryMappedTick) }
}
pub(crate) fn t_init(b: &TB) -> bool {
    b[0] != 0
}
pub(crate) fn rd128(b: &[u8], o: usize) -> u128 {
    let mut x = [0u8; 16];
    x.copy_from_slice(&b[o..o + 16]);
    u128::from_le_bytes(x)
}
pub(crate) fn rd64(b: &[u8], o: usize) -> u64 {
    let mut x = [0u8; 8];
    x.copy_from_slice(&b[o..o + 8]);
    u64::from_le_bytes(x)
}
pub(crate) fn rd32(b: &[u8], o: usize) -> i32 {
    let mut x = [0u8; 4];
    x.copy_from_slice(&b[o..o + 4]);
    i32::from_le_bytes(x)
}
pub(crate) fn rd_key(b: &[u8], o: usize) -> [u8; 32] {
    let mut x = [0u8; 32];
    x.copy_from_slice(&b[o..o + 32]);
    x
}
pub(crate) fn t_net(b: &TB) -> i128 {
    rd128(b, 1) as i128
}
pub(crate) fn t_gross(b: &TB) -> u128 {
    rd128(b, 17)
}
pub(crate) fn t_out_a(b: &TB) -> u128 {
    rd128(b, 33)
}
pub(crate) fn t_out_b(b: &TB) -> u128 {
    rd128(b, 49)
}
pub(crate) fn t_out_r(b: &TB, i: usize) -> u128 {
    rd128(b, 65 + 16 * i)
}
/// field-wise equality of two stored ticks (all 113 bytes are covered by the fields)
pub(crate) fn same_tick(a: &TB, b: &TB) -> bool {
    a[0] == b[0]
        && t_net(a) == t_net(b)
        && t_gross(a) == t_gross(b)
        && t_out_a(a) == t_out_a(b)
        && t_out_b(a) == t_out_b(b)
        && t_out_r(a, 0) == t_out_r(b, 0)
        && t_out_r(a, 1) == t_out_r(b, 1)
        && t_out_r(a, 2) == t_out_r(b, 2)
}

/// the three `WhirlpoolRewardInfo` records as stored in the whirlpool account (3 x 128 bytes:
/// mint, vault, extension, emissions_per_second_x64, growth_global_x64)
pub(crate) struct Rw {
    pub b: [u8; 384],
}
impl Rw {
    pub fn any() -> Rw {
        Rw { b: kani::any() }
    }
    pub fn initialized(&self, i: usize) -> bool {
        rd_key(&self.b, 128 * i) != [0u8; 32]
    }
    pub fn emissions(&self, i: usize) -> u128 {
        rd128(&self.b, 128 * i + 96)
    }
    pub fn growth(&self, i: usize) -> u128 {
        rd128(&self.b, 128 * i + 112)
    }
    pub fn growths(&self) -> [u128; 3] {
        [self.growth(0), self.growth(1), self.growth(2)]
    }
    pub fn with_growths(&self, g: &[u128; 3]) -> Rw {
        let mut b = self.b;
        for i in 0..3 {
            b[128 * i + 112..128 * i + 128].copy_from_slice(&g[i].to_le_bytes());
        }
        Rw { b }
    }
    /// Anchor (borsh-deserialised) view
    pub fn anchor(&self) -> [WhirlpoolRewardInfo; 3] {
        let mut r = [WhirlpoolRewardInfo::default(); 3];
        for i in 0..3 {
            let o = 128 * i;
            r[i].mint = Pubkey::new_from_array(rd_key(&self.b, o));
            r[i].vault = Pubkey::new_from_array(rd_key(&self.b, o + 32));
            r[i].extension = rd_key(&self.b, o + 64);
            r[i].emissions_per_second_x64 = rd128(&self.b, o + 96);
            r[i].growth_global_x64 = rd128(&self.b, o + 112);
        }
        r
    }
    /// Pinocchio memory-mapped view
    pub fn pino(&self) -> &[MemoryMappedWhirlpoolRewardInfo; 3] {
        unsafe { &*(self.b.as_ptr() as *const [MemoryMappedWhirlpoolRewardInfo; 3]) }
    }
}

/// a position account (216 bytes incl. discriminator)
pub(crate) type PB = [u8; 216];
pub(crate) fn mpos(b: &PB) -> &MemoryMappedPosition {
    unsafe { &*(b.as_ptr() as *const MemoryMappedPosition) }
}
/// Anchor (borsh-deserialised) view: field order of `state::Position` after the 8-byte discriminator
pub(crate) fn pos_of(b: &PB) -> Position {
    let mut p = Position::default();
    p.whirlpool = Pubkey::new_from_array(rd_key(b, 8));
    p.position_mint = Pubkey::new_from_array(rd_key(b, 40));
    p.liquidity = rd128(b, 72);
    p.tick_lower_index = rd32(b, 88);
    p.tick_upper_index = rd32(b, 92);
    p.fee_growth_checkpoint_a = rd128(b, 96);
    p.fee_owed_a = rd64(b, 112);
    p.fee_growth_checkpoint_b = rd128(b, 120);
    p.fee_owed_b = rd64(b, 136);
    for i in 0..3 {
        p.reward_infos[i].growth_inside_checkpoint = rd128(b, 144 + 24 * i);
        p.reward_infos[i].amount_owed = rd64(b, 160 + 24 * i);
    }
    p
}

/// The two implementations under one interface; ticks / rewards / positions are the same bytes for both.
pub(crate) trait Eng {
    fn fee_inside(cur: i32, lo: &TB, tl: i32, up: &TB, tu: i32, ga: u128, gb: u128) -> (u128, u128);
    fn reward_inside(cur: i32, lo: &TB, tl: i32, up: &TB, tu: i32, rw: &Rw) -> [u128; 3];
    /// `next_tick_modify_liquidity_update`; Ok = the tick bytes after applying the update, Err = error code
    fn modify(t: &TB, idx: i32, cur: i32, ga: u128, gb: u128, rw: &Rw, delta: i128, upper: bool) -> Result<TB, u32>;
    /// `next_position_modify_liquidity_update`
    fn pos_update(p: &PB, delta: i128, ia: u128, ib: u128, ri: &[u128; 3]) -> Result<PositionUpdate, u32>;
}

pub(crate) struct Anchor;
pub(crate) struct Pino;

impl Eng for Anchor {
    fn fee_inside(cur: i32, lo: &TB, tl: i32, up: &TB, tu: i32, ga: u128, gb: u128) -> (u128, u128) {
        next_fee_growths_inside(cur, &tick_of(lo), tl, &tick_of(up), tu, ga, gb)
    }
    fn reward_inside(cur: i32, lo: &TB, tl: i32, up: &TB, tu: i32, rw: &Rw) -> [u128; 3] {
        next_reward_growths_inside(cur, &tick_of(lo), tl, &tick_of(up), tu, &rw.anchor())
    }
    fn modify(t: &TB, idx: i32, cur: i32, ga: u128, gb: u128, rw: &Rw, delta: i128, upper: bool) -> Result<TB, u32> {
        match next_tick_modify_liquidity_update(&tick_of(t), idx, cur, ga, gb, &rw.anchor(), delta, upper) {
            Ok(u) => {
                let mut n = tick_of(t);
                n.update(&u);
                Ok(tick_bytes(&n))
            }
            Err(e) => Err(ecode(e)),
        }
    }
    fn pos_update(p: &PB, delta: i128, ia: u128, ib: u128, ri: &[u128; 3]) -> Result<PositionUpdate, u32> {
        next_position_modify_liquidity_update(&pos_of(p), delta, ia, ib, ri).map_err(ecode)
    }
}

impl Eng for Pino {
    fn fee_inside(cur: i32, lo: &TB, tl: i32, up: &TB, tu: i32, ga: u128, gb: u128) -> (u128, u128) {
        pino_next_fee_growths_inside(cur, mtick(lo), tl, mtick(up), tu, ga, gb)
    }
    fn reward_inside(cur: i32, lo: &TB, tl: i32, up: &TB, tu: i32, rw: &Rw) -> [u128; 3] {
        pino_next_reward_growths_inside(cur, mtick(lo), tl, mtick(up), tu, rw.pino(), &rw.growths())
    }
    fn modify(t: &TB, idx: i32, cur: i32, ga: u128, gb: u128, rw: &Rw, delta: i128, upper: bool) -> Result<TB, u32> {
        match pino_next_tick_modify_liquidity_update(mtick(t), idx, cur, ga, gb, &rw.growths(), delta, upper) {
            Ok(u) => {
                let mut n = *t;
                mtick_mut(&mut n).update(&u);
                Ok(n)
            }
            Err(e) => {
                let c = ucode(&e);
                core::mem::forget(e);
                Err(c)
            }
        }
    }
    fn pos_update(p: &PB, delta: i128, ia: u128, ib: u128, ri: &[u128; 3]) -> Result<PositionUpdate, u32> {
        match verif_pino_next_position_modify_liquidity_update(mpos(p), delta, ia, ib, ri) {
            Ok(u) => Ok(u),
            Err(e) => {
                let c = ucode(&e);
                core::mem::forget(e);
                Err(c)
            }
        }
    }
}

/// tick crossing as done by the swap loop (Anchor only: swap has no Pinocchio port): bytes after `next_tick_cross_update`
pub(crate) fn cross(t: &TB, ga: u128, gb: u128, rw: &Rw) -> TB {
    let mut n = tick_of(t);
    match next_tick_cross_update(&n, ga, gb, &rw.anchor()) {
        Ok(u) => n.update(&u),
        Err(_) => assert!(false, "next_tick_cross_update never fails"),
    }
    tick_bytes(&n)
}

/// C05's invariant on a stored tick, as far as these lemmas need it: initialized <=> gross != 0, and a tick that
/// bounds no position has net == 0.
pub(crate) fn assume_tick_inv(t: &TB) {
    kani::assume(t_init(t) == (t_gross(t) != 0));
    if !t_init(t) {
        kani::assume(t_net(t) == 0);
    }
}

/// The tick a bound stands for: itself if initialised, otherwise what `next_tick_modify_liquidity_update` stores when
/// the first liquidity `d > 0` is added at (cur, ga, gb, rw) — "the convention applied by the code".
pub(crate) fn effective<E: Eng>(t: &TB, idx: i32, cur: i32, ga: u128, gb: u128, rw: &Rw, d: i128, upper: bool) -> TB {
    if t_init(t) {
        *t
    } else {
        match E::modify(t, idx, cur, ga, gb, rw, d, upper) {
            Ok(n) => {
                assert!(t_init(&n));
                n
            }
            Err(_) => {
                assert!(false, "first deposit on an empty tick cannot fail");
                *t
            }
        }
    }
}

// ------------------------------------------------------------------------------------------------
// Case splitting. CaDiCaL needs 10x longer for one instance that mixes the placements of the current tick than for
// the separate instances (measured: 8 s + 10 s + 35 s separately, 569 s together), so every lemma is decided per
// placement in its own harness; the placements partition all i32 triples (cur, lower < upper):
pub(crate) const BELOW: u8 = 0; // cur < lower
pub(crate) const INSIDE: u8 = 1; // lower <= cur < upper (incl. cur == lower)
pub(crate) const ABOVE: u8 = 2; // cur >= upper (incl. cur == upper)
pub(crate) fn assume_place(place: u8, cur: i32, tl: i32, tu: i32) {
    match place {
        BELOW => kani::assume(cur < tl),
        INSIDE => kani::assume(tl <= cur && cur < tu),
        _ => kani::assume(cur >= tu),
    }
}
/// a proved intermediate fact: asserted (so it is a verification condition like any other), then available to the
/// following conditions. Sound by construction; only shortens the SAT proofs.
pub(crate) fn hint(c: bool) {
    assert!(c);
    kani::assume(c);
}
/// closed form of `inside` (wrapping), used only inside `hint`s:
/// below = initialised ? (cur < lower ? g - ol : ol) : g;  above = initialised ? (cur < upper ? ou : g - ou) : 0
pub(crate) fn closed(below_lower: bool, below_upper: bool, li: bool, ol: u128, ui: bool, ou: u128, g: u128) -> u128 {
    match (li, ui) {
        (true, true) => {
            if below_lower {
                ol.wrapping_sub(ou)
            } else if below_upper {
                g.wrapping_sub(ol).wrapping_sub(ou)
            } else {
                ou.wrapping_sub(ol)
            }
        }
        (false, true) => {
            if below_upper {
                0u128.wrapping_sub(ou)
            } else {
                ou.wrapping_sub(g)
            }
        }
        (true, false) => {
            if below_lower {
                ol
            } else {
                g.wrapping_sub(ol)
            }
        }
        (false, false) => 0,
    }
}
/// `E::fee_inside` together with the hint that it equals the closed form
pub(crate) fn fee_inside_h<E: Eng>(cur: i32, lo: &TB, tl: i32, up: &TB, tu: i32, ga: u128, gb: u128) -> (u128, u128) {
    let i = E::fee_inside(cur, lo, tl, up, tu, ga, gb);
    hint(i.0 == closed(cur < tl, cur < tu, t_init(lo), t_out_a(lo), t_init(up), t_out_a(up), ga));
    hint(i.1 == closed(cur < tl, cur < tu, t_init(lo), t_out_b(lo), t_init(up), t_out_b(up), gb));
    i
}

// ------------------------------------------------------------------------------------------------
// L1

/// L1 for a range whose bounds are both initialised (arbitrary `outside` values — this includes ticks freshly
/// initialised by the convention, see `conv`): after global_a/b += xa/xb with the current tick fixed,
/// inside' - inside == x iff lower <= cur < upper, else 0.
fn l1<E: Eng>(place: u8) {
    let lo = any_tick();
    let up = any_tick();
    let tl: i32 = kani::any();
    let tu: i32 = kani::any();
    let cur: i32 = kani::any();
    let ga: u128 = kani::any();
    let gb: u128 = kani::any();
    let xa: u128 = kani::any();
    let xb: u128 = kani::any();
    kani::assume(tl < tu);
    kani::assume(t_init(&lo) && t_init(&up));
    assume_place(place, cur, tl, tu);

    let i0 = fee_inside_h::<E>(cur, &lo, tl, &up, tu, ga, gb);
    let i1 = fee_inside_h::<E>(cur, &lo, tl, &up, tu, ga.wrapping_add(xa), gb.wrapping_add(xb));
    let in_range = tl <= cur && cur < tu;
    assert!(i1.0.wrapping_sub(i0.0) == if in_range { xa } else { 0 });
    assert!(i1.1.wrapping_sub(i0.1) == if in_range { xb } else { 0 });

    kani::cover!(xa != 0 && xb != 0, "growth");
    kani::cover!(ga.checked_add(xa).is_none(), "accumulator wraps");
    if place != BELOW {
        kani::cover!(cur == tl || cur == tu, "current tick on a bound");
    }
}

/// Convention for uninitialised bounds, every initialised/uninitialised combination: `inside` computed by the code on
/// the stored ticks equals `inside` on the effective ticks (an uninitialised bound replaced by the tick that
/// `next_tick_modify_liquidity_update` creates for a first deposit at the same (cur, global)). Hence the checkpoint
/// a position takes when it first adds liquidity is the `inside` of its freshly initialised range, to which L1/L2
/// (both bounds initialised) apply from then on: growth before the deposit and growth out of range are excluded.
fn conv<E: Eng>(place: u8) {
    let lo = any_tick();
    let up = any_tick();
    let tl: i32 = kani::any();
    let tu: i32 = kani::any();
    let cur: i32 = kani::any();
    let ga: u128 = kani::any();
    let gb: u128 = kani::any();
    let rw = Rw::any();
    let dl: i128 = kani::any();
    let du: i128 = kani::any();
    kani::assume(tl < tu);
    kani::assume(dl > 0 && du > 0);
    kani::assume(!t_init(&lo) || !t_init(&up));
    assume_tick_inv(&lo);
    assume_tick_inv(&up);
    assume_place(place, cur, tl, tu);

    let elo = effective::<E>(&lo, tl, cur, ga, gb, &rw, dl, false);
    let eup = effective::<E>(&up, tu, cur, ga, gb, &rw, du, true);
    let i0 = fee_inside_h::<E>(cur, &lo, tl, &up, tu, ga, gb);
    let ie = fee_inside_h::<E>(cur, &elo, tl, &eup, tu, ga, gb);
    assert!(i0 == ie, "uninitialised-bound convention == freshly initialised tick");

    kani::cover!(!t_init(&lo) && !t_init(&up), "both fresh");
    kani::cover!(t_init(&lo) && !t_init(&up), "upper fresh");
    kani::cover!(!t_init(&lo) && t_init(&up), "lower fresh");
}

// ------------------------------------------------------------------------------------------------
// L2

pub(crate) const LOWER: u8 = 0; // the crossed tick is the lower bound
pub(crate) const UPPER: u8 = 1; // ... the upper bound
pub(crate) const OTHER: u8 = 2; // ... neither bound (below, above or strictly inside the range)

/// symbolic crossing scenario shared with c11.rs: returns (cur1, lo', up') after crossing tick `t`
/// (a bound equal to `t` is flipped by `next_tick_cross_update`, others are untouched), having assumed what the swap
/// loop guarantees: the crossed tick is initialised; it is the *next initialised* tick from cur0 in the direction of
/// travel (C10), so no other initialised bound of the range lies in the jumped interval; and
/// a_to_b: cur0 >= t, cur1 = t - 1;  b_to_a: cur0 < t, cur1 = t  (swap_manager.rs, "shift the index by 1").
pub(crate) fn crossing(
    which: u8, lo: &TB, tl: i32, up: &TB, tu: i32, t: i32, cur0: i32, a_to_b: bool, ga: u128, gb: u128, rw: &Rw,
) -> (i32, TB, TB) {
    kani::assume(t > i32::MIN);
    match which {
        LOWER => kani::assume(t == tl),
        UPPER => kani::assume(t == tu),
        _ => kani::assume(t != tl && t != tu),
    }
    let cur1 = if a_to_b {
        kani::assume(cur0 >= t);
        t - 1
    } else {
        kani::assume(cur0 < t);
        t
    };
    let mut nlo = *lo;
    let mut nup = *up;
    if tl == t {
        kani::assume(t_init(lo));
        nlo = cross(lo, ga, gb, rw);
    } else if t_init(lo) {
        kani::assume(if a_to_b { !(t < tl && tl <= cur0) } else { !(cur0 < tl && tl < t) });
    }
    if tu == t {
        kani::assume(t_init(up));
        nup = cross(up, ga, gb, rw);
    } else if t_init(up) {
        kani::assume(if a_to_b { !(t < tu && tu <= cur0) } else { !(cur0 < tu && tu < t) });
    }
    (cur1, nlo, nup)
}

/// L2: crossing tick t in the given direction, with the loop's new current tick, leaves fee `inside` (A and B) of every
/// range [tl, tu) unchanged. The bound that is not crossed may be initialised or not.
fn l2<E: Eng>(which: u8, a_to_b: bool) {
    let lo = any_tick();
    let up = any_tick();
    let tl: i32 = kani::any();
    let tu: i32 = kani::any();
    let t: i32 = kani::any();
    let cur0: i32 = kani::any();
    let ga: u128 = kani::any();
    let gb: u128 = kani::any();
    let rw = Rw::any();
    kani::assume(tl < tu);
    let (cur1, nlo, nup) = crossing(which, &lo, tl, &up, tu, t, cur0, a_to_b, ga, gb, &rw);

    let i0 = fee_inside_h::<E>(cur0, &lo, tl, &up, tu, ga, gb);
    let i1 = fee_inside_h::<E>(cur1, &nlo, tl, &nup, tu, ga, gb);
    assert!(i0 == i1, "crossing leaves inside unchanged");

    kani::cover!(t_init(&lo) && t_init(&up), "both bounds initialised");
    if a_to_b {
        kani::cover!(cur0 == t, "starting exactly on the tick");
    }
    if which == OTHER {
        kani::cover!(t < tl && t_init(&lo), "crossed tick below the range");
        kani::cover!(t > tu && t_init(&up), "crossed tick above the range");
        kani::cover!(tl < t && t < tu && t_init(&lo) && t_init(&up), "crossed tick strictly inside the range");
    } else {
        kani::cover!(!t_init(&lo) || !t_init(&up), "other bound uninitialised");
    }
}

// ------------------------------------------------------------------------------------------------
// L3

/// L3: `next_tick_modify_liquidity_update` on any stored tick: delta == 0 keeps the tick; first liquidity on an empty
/// tick sets outside := global if tick_index <= cur else 0; a tick that stays in use (gross != 0 before and after)
/// keeps `initialized` and both `outside` values, hence `inside` of every other range bounded by it (as lower or as
/// upper bound, any second tick) is unchanged; removing the last liquidity resets the tick to the zero tick.
fn l3<E: Eng>() {
    let t = any_tick();
    let o = any_tick();
    let idx: i32 = kani::any();
    let oidx: i32 = kani::any();
    let cur: i32 = kani::any();
    let ga: u128 = kani::any();
    let gb: u128 = kani::any();
    let rw = Rw::any();
    let delta: i128 = kani::any();
    let upper: bool = kani::any();
    assume_tick_inv(&t);
    kani::assume(idx != oidx);

    let r = E::modify(&t, idx, cur, ga, gb, &rw, delta, upper);
    kani::cover!(r.is_ok() && delta > 0 && !t_init(&t), "fresh initialisation");
    kani::cover!(r.is_ok() && delta < 0 && t_init(&t), "decrease");
    if let Ok(n) = r {
        if delta == 0 {
            assert!(same_tick(&n, &t));
        } else if t_gross(&t) == 0 {
            assert!(delta > 0);
            assert!(t_init(&n) && t_gross(&n) != 0);
            assert!(t_out_a(&n) == if idx <= cur { ga } else { 0 });
            assert!(t_out_b(&n) == if idx <= cur { gb } else { 0 });
            kani::cover!(idx == cur, "tick_index == current");
        } else if t_gross(&n) != 0 {
            assert!(t_init(&n));
            assert!(t_out_a(&n) == t_out_a(&t) && t_out_b(&n) == t_out_b(&t));
            // other ranges sharing this bound
            let (a0, a1) = if idx < oidx {
                (E::fee_inside(cur, &t, idx, &o, oidx, ga, gb), E::fee_inside(cur, &n, idx, &o, oidx, ga, gb))
            } else {
                (E::fee_inside(cur, &o, oidx, &t, idx, ga, gb), E::fee_inside(cur, &o, oidx, &n, idx, ga, gb))
            };
            assert!(a0 == a1, "inside of other ranges bounded by this tick unchanged");
            kani::cover!(idx < oidx, "shared as lower bound");
            kani::cover!(idx > oidx, "shared as upper bound");
        } else {
            assert!(same_tick(&n, &[0u8; 113]), "last liquidity removed: zero tick");
            kani::cover!(true, "de-initialisation");
        }
    }
}

// ------------------------------------------------------------------------------------------------
// L4

pub(crate) fn any_pos() -> PB {
    kani::any()
}

/// L4 (structure; the multiply itself is contract A1, Engine M): with `checked_mul_shift_right` an uninterpreted
/// function F, fee_owed_x' == fee_owed_x + (F(L, inside_x - checkpoint_x mod 2^128) or 0 if F overflows)  (wrapping u64),
/// checkpoint_x' == inside_x, liquidity' == L + delta, Err iff L + delta leaves u128.
fn l4<E: Eng>() {
    let p = any_pos();
    let delta: i128 = kani::any();
    let ia: u128 = kani::any();
    let ib: u128 = kani::any();
    let ri: [u128; 3] = kani::any();
    let l = rd128(&p, 72);
    let (ca, oa, cb, ob) = (rd128(&p, 96), rd64(&p, 112), rd128(&p, 120), rd64(&p, 136));

    let r = E::pos_update(&p, delta, ia, ib, &ri);

    // F on the arguments the property names; the memo table makes equal arguments give the value the code saw
    let fa = memo::stub_checked_mul_shift_right(l, ia.wrapping_sub(ca));
    let fb = memo::stub_checked_mul_shift_right(l, ib.wrapping_sub(cb));
    let lnext = if delta >= 0 { l.checked_add(delta as u128) } else { l.checked_sub(delta.unsigned_abs()) };
    kani::cover!(r.is_ok() && fa.is_err(), "overflowing credit A");
    kani::cover!(r.is_ok() && matches!(fb, Ok(v) if v != 0), "non-zero credit B");
    kani::cover!(r.is_err(), "liquidity error");
    match r {
        Ok(u) => {
            assert!(u.fee_growth_checkpoint_a == ia && u.fee_growth_checkpoint_b == ib);
            assert!(u.fee_owed_a == oa.wrapping_add(fa.unwrap_or(0)), "credit A = F(L, inside - checkpoint), 0 on overflow");
            assert!(u.fee_owed_b == ob.wrapping_add(fb.unwrap_or(0)), "credit B = F(L, inside - checkpoint), 0 on overflow");
            assert!(lnext == Some(u.liquidity));
            if l == 0 {
                assert!(u.fee_owed_a == oa && u.fee_owed_b == ob); // nothing earned before liquidity was added
            }
        }
        Err(c) => {
            assert!(lnext.is_none());
            assert!(c == ecode(::whirlpool::errors::ErrorCode::LiquidityOverflow) || c == ecode(::whirlpool::errors::ErrorCode::LiquidityUnderflow));
        }
    }
}

// ------------------------------------------------------------------------------------------------
// harnesses (Anchor functions, then their Pinocchio ports on the same bytes)

/// L1 `next_fee_growths_inside` (tokens A, B), global += x at fixed current tick, cur < lower: inside unchanged; both bounds initialised, all u128 values incl. wrap-around
// @verif prop=C07 tier=quick timeout=300
#[kani::proof]
#[kani::unwind(34)]
#[kani::stub(alloc::fmt::format, stub_format)]
#[kani::stub(<anchor_lang::error::Error as core::convert::From<::whirlpool::errors::ErrorCode>>::from, stub_err_from_code)]
#[kani::stub(<::whirlpool::pinocchio::errors::UnifiedError as core::convert::From<::whirlpool::errors::ErrorCode>>::from, stub_unified_from_code)]
fn c07_l1_below_anchor() {
    l1::<Anchor>(BELOW);
}

/// L1 `next_fee_growths_inside` (tokens A, B), global += x at fixed current tick, lower <= cur < upper: inside grows by exactly x; both bounds initialised, all u128 values incl. wrap-around
// @verif prop=C07 tier=quick timeout=300
#[kani::proof]
#[kani::unwind(34)]
#[kani::stub(alloc::fmt::format, stub_format)]
#[kani::stub(<anchor_lang::error::Error as core::convert::From<::whirlpool::errors::ErrorCode>>::from, stub_err_from_code)]
#[kani::stub(<::whirlpool::pinocchio::errors::UnifiedError as core::convert::From<::whirlpool::errors::ErrorCode>>::from, stub_unified_from_code)]
fn c07_l1_inside_anchor() {
    l1::<Anchor>(INSIDE);
}

/// L1 `next_fee_growths_inside` (tokens A, B), global += x at fixed current tick, cur >= upper: inside unchanged; both bounds initialised, all u128 values incl. wrap-around
// @verif prop=C07 tier=quick timeout=300
#[kani::proof]
#[kani::unwind(34)]
#[kani::stub(alloc::fmt::format, stub_format)]
#[kani::stub(<anchor_lang::error::Error as core::convert::From<::whirlpool::errors::ErrorCode>>::from, stub_err_from_code)]
#[kani::stub(<::whirlpool::pinocchio::errors::UnifiedError as core::convert::From<::whirlpool::errors::ErrorCode>>::from, stub_unified_from_code)]
fn c07_l1_above_anchor() {
    l1::<Anchor>(ABOVE);
}

/// L1/L3 `next_fee_growths_inside` + `next_tick_modify_liquidity_update`: an uninitialised bound counts exactly like the tick the first deposit creates (all 3 combinations with an uninitialised bound), current tick below
// @verif prop=C07 tier=quick timeout=300
#[kani::proof]
#[kani::unwind(34)]
#[kani::stub(alloc::fmt::format, stub_format)]
#[kani::stub(<anchor_lang::error::Error as core::convert::From<::whirlpool::errors::ErrorCode>>::from, stub_err_from_code)]
#[kani::stub(<::whirlpool::pinocchio::errors::UnifiedError as core::convert::From<::whirlpool::errors::ErrorCode>>::from, stub_unified_from_code)]
fn c07_conv_below_anchor() {
    conv::<Anchor>(BELOW);
}

/// L1/L3 `next_fee_growths_inside` + `next_tick_modify_liquidity_update`: an uninitialised bound counts exactly like the tick the first deposit creates (all 3 combinations with an uninitialised bound), current tick inside
// @verif prop=C07 tier=quick timeout=300
#[kani::proof]
#[kani::unwind(34)]
#[kani::stub(alloc::fmt::format, stub_format)]
#[kani::stub(<anchor_lang::error::Error as core::convert::From<::whirlpool::errors::ErrorCode>>::from, stub_err_from_code)]
#[kani::stub(<::whirlpool::pinocchio::errors::UnifiedError as core::convert::From<::whirlpool::errors::ErrorCode>>::from, stub_unified_from_code)]
fn c07_conv_inside_anchor() {
    conv::<Anchor>(INSIDE);
}

/// L1/L3 `next_fee_growths_inside` + `next_tick_modify_liquidity_update`: an uninitialised bound counts exactly like the tick the first deposit creates (all 3 combinations with an uninitialised bound), current tick above
// @verif prop=C07 tier=quick timeout=300
#[kani::proof]
#[kani::unwind(34)]
#[kani::stub(alloc::fmt::format, stub_format)]
#[kani::stub(<anchor_lang::error::Error as core::convert::From<::whirlpool::errors::ErrorCode>>::from, stub_err_from_code)]
#[kani::stub(<::whirlpool::pinocchio::errors::UnifiedError as core::convert::From<::whirlpool::errors::ErrorCode>>::from, stub_unified_from_code)]
fn c07_conv_above_anchor() {
    conv::<Anchor>(ABOVE);
}

/// L2 `next_tick_cross_update` + `next_fee_growths_inside`: crossing initialised tick t leaves `inside` (A, B) of range [lower, upper) unchanged; t == lower, a_to_b (cur >= t before, t - 1 after)
// @verif prop=C07 tier=quick timeout=300
#[kani::proof]
#[kani::unwind(34)]
#[kani::stub(alloc::fmt::format, stub_format)]
#[kani::stub(<anchor_lang::error::Error as core::convert::From<::whirlpool::errors::ErrorCode>>::from, stub_err_from_code)]
#[kani::stub(<::whirlpool::pinocchio::errors::UnifiedError as core::convert::From<::whirlpool::errors::ErrorCode>>::from, stub_unified_from_code)]
fn c07_l2_lower_down_anchor() {
    l2::<Anchor>(LOWER, true);
}

/// L2 `next_tick_cross_update` + `next_fee_growths_inside`: crossing initialised tick t leaves `inside` (A, B) of range [lower, upper) unchanged; t == lower, b_to_a (cur < t before, t after)
// @verif prop=C07 tier=quick timeout=300
#[kani::proof]
#[kani::unwind(34)]
#[kani::stub(alloc::fmt::format, stub_format)]
#[kani::stub(<anchor_lang::error::Error as core::convert::From<::whirlpool::errors::ErrorCode>>::from, stub_err_from_code)]
#[kani::stub(<::whirlpool::pinocchio::errors::UnifiedError as core::convert::From<::whirlpool::errors::ErrorCode>>::from, stub_unified_from_code)]
fn c07_l2_lower_up_anchor() {
    l2::<Anchor>(LOWER, false);
}

/// L2 `next_tick_cross_update` + `next_fee_growths_inside`: crossing initialised tick t leaves `inside` (A, B) of range [lower, upper) unchanged; t == upper, a_to_b (cur >= t before, t - 1 after)
// @verif prop=C07 tier=quick timeout=300
#[kani::proof]
#[kani::unwind(34)]
#[kani::stub(alloc::fmt::format, stub_format)]
#[kani::stub(<anchor_lang::error::Error as core::convert::From<::whirlpool::errors::ErrorCode>>::from, stub_err_from_code)]
#[kani::stub(<::whirlpool::pinocchio::errors::UnifiedError as core::convert::From<::whirlpool::errors::ErrorCode>>::from, stub_unified_from_code)]
fn c07_l2_upper_down_anchor() {
    l2::<Anchor>(UPPER, true);
}

/// L2 `next_tick_cross_update` + `next_fee_growths_inside`: crossing initialised tick t leaves `inside` (A, B) of range [lower, upper) unchanged; t == upper, b_to_a (cur < t before, t after)
// @verif prop=C07 tier=quick timeout=300
#[kani::proof]
#[kani::unwind(34)]
#[kani::stub(alloc::fmt::format, stub_format)]
#[kani::stub(<anchor_lang::error::Error as core::convert::From<::whirlpool::errors::ErrorCode>>::from, stub_err_from_code)]
#[kani::stub(<::whirlpool::pinocchio::errors::UnifiedError as core::convert::From<::whirlpool::errors::ErrorCode>>::from, stub_unified_from_code)]
fn c07_l2_upper_up_anchor() {
    l2::<Anchor>(UPPER, false);
}

/// L2 `next_tick_cross_update` + `next_fee_growths_inside`: crossing initialised tick t leaves `inside` (A, B) of range [lower, upper) unchanged; t is neither bound (below / above / strictly inside the range), a_to_b (cur >= t before, t - 1 after)
// @verif prop=C07 tier=quick timeout=300
#[kani::proof]
#[kani::unwind(34)]
#[kani::stub(alloc::fmt::format, stub_format)]
#[kani::stub(<anchor_lang::error::Error as core::convert::From<::whirlpool::errors::ErrorCode>>::from, stub_err_from_code)]
#[kani::stub(<::whirlpool::pinocchio::errors::UnifiedError as core::convert::From<::whirlpool::errors::ErrorCode>>::from, stub_unified_from_code)]
fn c07_l2_other_down_anchor() {
    l2::<Anchor>(OTHER, true);
}

/// L2 `next_tick_cross_update` + `next_fee_growths_inside`: crossing initialised tick t leaves `inside` (A, B) of range [lower, upper) unchanged; t is neither bound (below / above / strictly inside the range), b_to_a (cur < t before, t after)
// @verif prop=C07 tier=quick timeout=300
#[kani::proof]
#[kani::unwind(34)]
#[kani::stub(alloc::fmt::format, stub_format)]
#[kani::stub(<anchor_lang::error::Error as core::convert::From<::whirlpool::errors::ErrorCode>>::from, stub_err_from_code)]
#[kani::stub(<::whirlpool::pinocchio::errors::UnifiedError as core::convert::From<::whirlpool::errors::ErrorCode>>::from, stub_unified_from_code)]
fn c07_l2_other_up_anchor() {
    l2::<Anchor>(OTHER, false);
}

/// L3 `next_tick_modify_liquidity_update`: initialisation convention outside := global iff tick_index <= cur; outside untouched while gross != 0 (so `inside` of ranges sharing the bound is unchanged); zero tick on de-initialisation
// @verif prop=C07 tier=quick timeout=300
#[kani::proof]
#[kani::unwind(34)]
#[kani::stub(alloc::fmt::format, stub_format)]
#[kani::stub(<anchor_lang::error::Error as core::convert::From<::whirlpool::errors::ErrorCode>>::from, stub_err_from_code)]
#[kani::stub(<::whirlpool::pinocchio::errors::UnifiedError as core::convert::From<::whirlpool::errors::ErrorCode>>::from, stub_unified_from_code)]
fn c07_l3_modify_anchor() {
    l3::<Anchor>();
}

/// L4 `next_position_modify_liquidity_update` (tokens A, B): credit structure with `checked_mul_shift_right` uninterpreted: owed += F(L, inside - checkpoint mod 2^128), +0 when F overflows; checkpoint := inside; liquidity += delta or error
// @verif prop=C07 tier=quick timeout=300
#[kani::proof]
#[kani::unwind(34)]
#[kani::stub(alloc::fmt::format, stub_format)]
#[kani::stub(<anchor_lang::error::Error as core::convert::From<::whirlpool::errors::ErrorCode>>::from, stub_err_from_code)]
#[kani::stub(<::whirlpool::pinocchio::errors::UnifiedError as core::convert::From<::whirlpool::errors::ErrorCode>>::from, stub_unified_from_code)]
#[kani::stub(::whirlpool::math::bit_math::checked_mul_shift_right, memo::stub_checked_mul_shift_right)]
fn c07_l4_credit_anchor() {
    l4::<Anchor>();
}

/// L1 `pino_next_fee_growths_inside` (tokens A, B), global += x at fixed current tick, cur < lower: inside unchanged; both bounds initialised, all u128 values incl. wrap-around
// @verif prop=C07 tier=quick timeout=300
#[kani::proof]
#[kani::unwind(34)]
#[kani::stub(alloc::fmt::format, stub_format)]
#[kani::stub(<anchor_lang::error::Error as core::convert::From<::whirlpool::errors::ErrorCode>>::from, stub_err_from_code)]
#[kani::stub(<::whirlpool::pinocchio::errors::UnifiedError as core::convert::From<::whirlpool::errors::ErrorCode>>::from, stub_unified_from_code)]
fn c07_l1_below_pino() {
    l1::<Pino>(BELOW);
}

/// L1 `pino_next_fee_growths_inside` (tokens A, B), global += x at fixed current tick, lower <= cur < upper: inside grows by exactly x; both bounds initialised, all u128 values incl. wrap-around
// @verif prop=C07 tier=quick timeout=300
#[kani::proof]
#[kani::unwind(34)]
#[kani::stub(alloc::fmt::format, stub_format)]
#[kani::stub(<anchor_lang::error::Error as core::convert::From<::whirlpool::errors::ErrorCode>>::from, stub_err_from_code)]
#[kani::stub(<::whirlpool::pinocchio::errors::UnifiedError as core::convert::From<::whirlpool::errors::ErrorCode>>::from, stub_unified_from_code)]
fn c07_l1_inside_pino() {
    l1::<Pino>(INSIDE);
}

/// L1 `pino_next_fee_growths_inside` (tokens A, B), global += x at fixed current tick, cur >= upper: inside unchanged; both bounds initialised, all u128 values incl. wrap-around
// @verif prop=C07 tier=quick timeout=300
#[kani::proof]
#[kani::unwind(34)]
#[kani::stub(alloc::fmt::format, stub_format)]
#[kani::stub(<anchor_lang::error::Error as core::convert::From<::whirlpool::errors::ErrorCode>>::from, stub_err_from_code)]
#[kani::stub(<::whirlpool::pinocchio::errors::UnifiedError as core::convert::From<::whirlpool::errors::ErrorCode>>::from, stub_unified_from_code)]
fn c07_l1_above_pino() {
    l1::<Pino>(ABOVE);
}

/// L1/L3 `pino_next_fee_growths_inside` + `pino_next_tick_modify_liquidity_update`: an uninitialised bound counts exactly like the tick the first deposit creates (all 3 combinations with an uninitialised bound), current tick below
// @verif prop=C07 tier=quick timeout=300
#[kani::proof]
#[kani::unwind(34)]
#[kani::stub(alloc::fmt::format, stub_format)]
#[kani::stub(<anchor_lang::error::Error as core::convert::From<::whirlpool::errors::ErrorCode>>::from, stub_err_from_code)]
#[kani::stub(<::whirlpool::pinocchio::errors::UnifiedError as core::convert::From<::whirlpool::errors::ErrorCode>>::from, stub_unified_from_code)]
fn c07_conv_below_pino() {
    conv::<Pino>(BELOW);
}

/// L1/L3 `pino_next_fee_growths_inside` + `pino_next_tick_modify_liquidity_update`: an uninitialised bound counts exactly like the tick the first deposit creates (all 3 combinations with an uninitialised bound), current tick inside
// @verif prop=C07 tier=quick timeout=300
#[kani::proof]
#[kani::unwind(34)]
#[kani::stub(alloc::fmt::format, stub_format)]
#[kani::stub(<anchor_lang::error::Error as core::convert::From<::whirlpool::errors::ErrorCode>>::from, stub_err_from_code)]
#[kani::stub(<::whirlpool::pinocchio::errors::UnifiedError as core::convert::From<::whirlpool::errors::ErrorCode>>::from, stub_unified_from_code)]
fn c07_conv_inside_pino() {
    conv::<Pino>(INSIDE);
}

/// L1/L3 `pino_next_fee_growths_inside` + `pino_next_tick_modify_liquidity_update`: an uninitialised bound counts exactly like the tick the first deposit creates (all 3 combinations with an uninitialised bound), current tick above
// @verif prop=C07 tier=quick timeout=300
#[kani::proof]
#[kani::unwind(34)]
#[kani::stub(alloc::fmt::format, stub_format)]
#[kani::stub(<anchor_lang::error::Error as core::convert::From<::whirlpool::errors::ErrorCode>>::from, stub_err_from_code)]
#[kani::stub(<::whirlpool::pinocchio::errors::UnifiedError as core::convert::From<::whirlpool::errors::ErrorCode>>::from, stub_unified_from_code)]
fn c07_conv_above_pino() {
    conv::<Pino>(ABOVE);
}

/// L2 `next_tick_cross_update` + `pino_next_fee_growths_inside`: crossing initialised tick t leaves `inside` (A, B) of range [lower, upper) unchanged; t == lower, a_to_b (cur >= t before, t - 1 after)
// @verif prop=C07 tier=quick timeout=300
#[kani::proof]
#[kani::unwind(34)]
#[kani::stub(alloc::fmt::format, stub_format)]
#[kani::stub(<anchor_lang::error::Error as core::convert::From<::whirlpool::errors::ErrorCode>>::from, stub_err_from_code)]
#[kani::stub(<::whirlpool::pinocchio::errors::UnifiedError as core::convert::From<::whirlpool::errors::ErrorCode>>::from, stub_unified_from_code)]
fn c07_l2_lower_down_pino() {
    l2::<Pino>(LOWER, true);
}

/// L2 `next_tick_cross_update` + `pino_next_fee_growths_inside`: crossing initialised tick t leaves `inside` (A, B) of range [lower, upper) unchanged; t == lower, b_to_a (cur < t before, t after)
// @verif prop=C07 tier=quick timeout=300
#[kani::proof]
#[kani::unwind(34)]
#[kani::stub(alloc::fmt::format, stub_format)]
#[kani::stub(<anchor_lang::error::Error as core::convert::From<::whirlpool::errors::ErrorCode>>::from, stub_err_from_code)]
#[kani::stub(<::whirlpool::pinocchio::errors::UnifiedError as core::convert::From<::whirlpool::errors::ErrorCode>>::from, stub_unified_from_code)]
fn c07_l2_lower_up_pino() {
    l2::<Pino>(LOWER, false);
}

/// L2 `next_tick_cross_update` + `pino_next_fee_growths_inside`: crossing initialised tick t leaves `inside` (A, B) of range [lower, upper) unchanged; t == upper, a_to_b (cur >= t before, t - 1 after)
// @verif prop=C07 tier=quick timeout=300
#[kani::proof]
#[kani::unwind(34)]
#[kani::stub(alloc::fmt::format, stub_format)]
#[kani::stub(<anchor_lang::error::Error as core::convert::From<::whirlpool::errors::ErrorCode>>::from, stub_err_from_code)]
#[kani::stub(<::whirlpool::pinocchio::errors::UnifiedError as core::convert::From<::whirlpool::errors::ErrorCode>>::from, stub_unified_from_code)]
fn c07_l2_upper_down_pino() {
    l2::<Pino>(UPPER, true);
}

/// L2 `next_tick_cross_update` + `pino_next_fee_growths_inside`: crossing initialised tick t leaves `inside` (A, B) of range [lower, upper) unchanged; t == upper, b_to_a (cur < t before, t after)
// @verif prop=C07 tier=quick timeout=300
#[kani::proof]
#[kani::unwind(34)]
#[kani::stub(alloc::fmt::format, stub_format)]
#[kani::stub(<anchor_lang::error::Error as core::convert::From<::whirlpool::errors::ErrorCode>>::from, stub_err_from_code)]
#[kani::stub(<::whirlpool::pinocchio::errors::UnifiedError as core::convert::From<::whirlpool::errors::ErrorCode>>::from, stub_unified_from_code)]
fn c07_l2_upper_up_pino() {
    l2::<Pino>(UPPER, false);
}

/// L2 `next_tick_cross_update` + `pino_next_fee_growths_inside`: crossing initialised tick t leaves `inside` (A, B) of range [lower, upper) unchanged; t is neither bound (below / above / strictly inside the range), a_to_b (cur >= t before, t - 1 after)
// @verif prop=C07 tier=quick timeout=300
#[kani::proof]
#[kani::unwind(34)]
#[kani::stub(alloc::fmt::format, stub_format)]
#[kani::stub(<anchor_lang::error::Error as core::convert::From<::whirlpool::errors::ErrorCode>>::from, stub_err_from_code)]
#[kani::stub(<::whirlpool::pinocchio::errors::UnifiedError as core::convert::From<::whirlpool::errors::ErrorCode>>::from, stub_unified_from_code)]
fn c07_l2_other_down_pino() {
    l2::<Pino>(OTHER, true);
}

/// L2 `next_tick_cross_update` + `pino_next_fee_growths_inside`: crossing initialised tick t leaves `inside` (A, B) of range [lower, upper) unchanged; t is neither bound (below / above / strictly inside the range), b_to_a (cur < t before, t after)
// @verif prop=C07 tier=quick timeout=300
#[kani::proof]
#[kani::unwind(34)]
#[kani::stub(alloc::fmt::format, stub_format)]
#[kani::stub(<anchor_lang::error::Error as core::convert::From<::whirlpool::errors::ErrorCode>>::from, stub_err_from_code)]
#[kani::stub(<::whirlpool::pinocchio::errors::UnifiedError as core::convert::From<::whirlpool::errors::ErrorCode>>::from, stub_unified_from_code)]
fn c07_l2_other_up_pino() {
    l2::<Pino>(OTHER, false);
}

/// L3 `pino_next_tick_modify_liquidity_update`: initialisation convention outside := global iff tick_index <= cur; outside untouched while gross != 0 (so `inside` of ranges sharing the bound is unchanged); zero tick on de-initialisation
// @verif prop=C07 tier=quick timeout=300
#[kani::proof]
#[kani::unwind(34)]
#[kani::stub(alloc::fmt::format, stub_format)]
#[kani::stub(<anchor_lang::error::Error as core::convert::From<::whirlpool::errors::ErrorCode>>::from, stub_err_from_code)]
#[kani::stub(<::whirlpool::pinocchio::errors::UnifiedError as core::convert::From<::whirlpool::errors::ErrorCode>>::from, stub_unified_from_code)]
fn c07_l3_modify_pino() {
    l3::<Pino>();
}

/// L4 `pino_next_position_modify_liquidity_update` (tokens A, B): credit structure with `checked_mul_shift_right` uninterpreted: owed += F(L, inside - checkpoint mod 2^128), +0 when F overflows; checkpoint := inside; liquidity += delta or error
// @verif prop=C07 tier=quick timeout=300
#[kani::proof]
#[kani::unwind(34)]
#[kani::stub(alloc::fmt::format, stub_format)]
#[kani::stub(<anchor_lang::error::Error as core::convert::From<::whirlpool::errors::ErrorCode>>::from, stub_err_from_code)]
#[kani::stub(<::whirlpool::pinocchio::errors::UnifiedError as core::convert::From<::whirlpool::errors::ErrorCode>>::from, stub_unified_from_code)]
#[kani::stub(::whirlpool::math::bit_math::checked_mul_shift_right, memo::stub_checked_mul_shift_right)]
fn c07_l4_credit_pino() {
    l4::<Pino>();
}

/// vacuity twin: flipping the lower bound WITHOUT the loop's tick shift changes `inside` — must FAIL
// @verif prop=C07 tier=quick timeout=300 twin
#[kani::proof]
#[kani::unwind(34)]
#[kani::stub(alloc::fmt::format, stub_format)]
#[kani::stub(<anchor_lang::error::Error as core::convert::From<::whirlpool::errors::ErrorCode>>::from, stub_err_from_code)]
#[kani::stub(<::whirlpool::pinocchio::errors::UnifiedError as core::convert::From<::whirlpool::errors::ErrorCode>>::from, stub_unified_from_code)]
fn c07_twin_must_fail() {
    let lo = any_tick();
    let up = any_tick();
    let tl: i32 = kani::any();
    let tu: i32 = kani::any();
    let cur: i32 = kani::any();
    let ga: u128 = kani::any();
    let gb: u128 = kani::any();
    let rw = Rw::any();
    kani::assume(tl < tu && t_init(&lo) && t_init(&up));
    kani::assume(tl <= cur && cur < tu);
    let nlo = cross(&lo, ga, gb, &rw);
    let i0 = Anchor::fee_inside(cur, &lo, tl, &up, tu, ga, gb);
    let i1 = Anchor::fee_inside(cur, &nlo, tl, &up, tu, ga, gb);
    assert!(i0 == i1, "twin: flipping a bound without moving the current tick must change inside");
}
