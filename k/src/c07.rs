//! C07 — a position earns fees only while the price is inside its range (Engine K part).
//!
//! Inductive-step lemmas over the wrapping u128 bookkeeping (`fee_growth_outside_a/b`, `fee_growth_global_a/b`,
//! position checkpoints), each decided for the Anchor functions of `manager::tick_manager` /
//! `manager::position_manager` and for their Pinocchio ports on the *same symbolic bytes*:
//!  L1  global += x while the current tick does not move  =>  inside' - inside == x iff lower <= cur < upper
//!  L2  crossing an initialised tick (outside := global - outside) with the swap loop's tick shift leaves `inside`
//!      of every range unchanged
//!  L3  (re)initialisation convention of `next_tick_modify_liquidity_update`
//!  L4  position credit: owed' = owed + mul_shift_right(L, inside - checkpoint) or + 0 on overflow; checkpoint := inside
//! Composition of these steps over unbounded histories / position sets is a written argument (DESIGN §4).
use crate::common::*;
use ::whirlpool::manager::position_manager::next_position_modify_liquidity_update;
use ::whirlpool::manager::tick_manager::*;
use ::whirlpool::pinocchio::ported::manager_liquidity_manager::*;
use ::whirlpool::pinocchio::state::whirlpool::tick_array::TickUpdate as PTickUpdate;
use ::whirlpool::pinocchio::state::whirlpool::{
    MemoryMappedPosition, MemoryMappedTick, MemoryMappedWhirlpoolRewardInfo,
};
use ::whirlpool::state::*;
use anchor_lang::prelude::Pubkey;

// ------------------------------------------------------------------------------------------------
// shared byte-level views (also used by c05.rs / c11.rs)

/// a tick as stored in a tick-array account (113 bytes, packed)
pub(crate) type TB = [u8; 113];

/// N symbolic bytes, drawn as 16-byte words (a `kani::any::<[u8; N]>()` costs one symbolic-execution loop iteration
/// per byte, which dominated the run time of these harnesses); W must be >= N / 16 rounded up
pub(crate) fn any_bytes<const N: usize, const W: usize>() -> [u8; N] {
    assert!(W * 16 >= N);
    let w: [u128; W] = kani::any();
    let mut b = [0u8; N];
    unsafe { core::ptr::copy_nonoverlapping(w.as_ptr() as *const u8, b.as_mut_ptr(), N) };
    b
}
pub(crate) fn any_tick() -> TB {
    let b: TB = any_bytes::<113, 8>();
    kani::assume(b[0] <= 1); // `initialized` is a bool in every account the program writes
    b
}
/// Anchor zero-copy view
pub(crate) fn tick_of(b: &TB) -> Tick {
    assert!(b[0] <= 1);
    unsafe { core::ptr::read_unaligned(b.as_ptr() as *const Tick) }
}
pub(crate) fn tick_bytes(t: &Tick) -> TB {
    let mut b = [0u8; 113];
    unsafe { core::ptr::write_unaligned(b.as_mut_ptr() as *mut Tick, *t) };
    b
}
/// Pinocchio memory-mapped view
pub(crate) fn mtick(b: &TB) -> &MemoryMappedTick {
    unsafe { &*(b.as_ptr() as *const MemoryMappedTick) }
}
pub(crate) fn mtick_mut(b: &mut TB) -> &mut MemoryMappedTick {
    unsafe { &mut *(b.as_mut_ptr() as *mut MemoryMappedTick) }
}
pub(crate) fn t_init(b: &TB) -> bool {
    b[0] != 0
}
// little-endian field reads at fixed offsets (unaligned pointer reads: a slice + copy_from_slice costs ~50
// symbolic-execution steps and several bounds checks per read, which add up in Kani's per-check traces)
pub(crate) fn rd128(b: &[u8], o: usize) -> u128 {
    assert!(o + 16 <= b.len());
    u128::from_le(unsafe { core::ptr::read_unaligned(b.as_ptr().add(o) as *const u128) })
}
pub(crate) fn rd64(b: &[u8], o: usize) -> u64 {
    assert!(o + 8 <= b.len());
    u64::from_le(unsafe { core::ptr::read_unaligned(b.as_ptr().add(o) as *const u64) })
}
pub(crate) fn rd32(b: &[u8], o: usize) -> i32 {
    assert!(o + 4 <= b.len());
    i32::from_le(unsafe { core::ptr::read_unaligned(b.as_ptr().add(o) as *const i32) })
}
pub(crate) fn rd_key(b: &[u8], o: usize) -> [u8; 32] {
    assert!(o + 32 <= b.len());
    unsafe { core::ptr::read_unaligned(b.as_ptr().add(o) as *const [u8; 32]) }
}
pub(crate) fn wr128(b: &mut [u8], o: usize, v: u128) {
    assert!(o + 16 <= b.len());
    unsafe { core::ptr::write_unaligned(b.as_mut_ptr().add(o) as *mut u128, v.to_le()) }
}
pub(crate) fn wr32(b: &mut [u8], o: usize, v: i32) {
    assert!(o + 4 <= b.len());
    unsafe { core::ptr::write_unaligned(b.as_mut_ptr().add(o) as *mut i32, v.to_le()) }
}
/// 32-byte equality without a byte loop
pub(crate) fn key_eq(a: &[u8; 32], b: &[u8; 32]) -> bool {
    rd128(a, 0) == rd128(b, 0) && rd128(a, 16) == rd128(b, 16)
}
pub(crate) fn key_zero(b: &[u8], o: usize) -> bool {
    rd128(b, o) == 0 && rd128(b, o + 16) == 0
}
pub(crate) fn t_net(b: &TB) -> i128 {
    rd128(b, 1) as i128
}
pub(crate) fn t_gross(b: &TB) -> u128 {
    rd128(b, 17)
}
pub(crate) fn t_out_a(b: &TB) -> u128 {
    rd128(b, 33)
}
pub(crate) fn t_out_b(b: &TB) -> u128 {
    rd128(b, 49)
}
pub(crate) fn t_out_r(b: &TB, i: usize) -> u128 {
    rd128(b, 65 + 16 * i)
}
/// field-wise equality of two stored ticks (all 113 bytes are covered by the fields)
pub(crate) fn same_tick(a: &TB, b: &TB) -> bool {
    a[0] == b[0]
        && t_net(a) == t_net(b)
        && t_gross(a) == t_gross(b)
        && t_out_a(a) == t_out_a(b)
        && t_out_b(a) == t_out_b(b)
        && t_out_r(a, 0) == t_out_r(b, 0)
        && t_out_r(a, 1) == t_out_r(b, 1)
        && t_out_r(a, 2) == t_out_r(b, 2)
}

/// the three `WhirlpoolRewardInfo` records as stored in the whirlpool account (3 x 128 bytes:
/// mint, vault, extension, emissions_per_second_x64, growth_global_x64)
pub(crate) struct Rw {
    pub b: [u8; 384],
}
impl Rw {
    pub fn any() -> Rw {
        Rw { b: any_bytes::<384, 24>() }
    }
    pub fn initialized(&self, i: usize) -> bool {
        !key_zero(&self.b, 128 * i)
    }
    pub fn emissions(&self, i: usize) -> u128 {
        rd128(&self.b, 128 * i + 96)
    }
    pub fn growth(&self, i: usize) -> u128 {
        rd128(&self.b, 128 * i + 112)
    }
    pub fn growths(&self) -> [u128; 3] {
        [self.growth(0), self.growth(1), self.growth(2)]
    }
    pub fn with_growths(&self, g: &[u128; 3]) -> Rw {
        let mut b = self.b;
        wr128(&mut b, 112, g[0]);
        wr128(&mut b, 128 + 112, g[1]);
        wr128(&mut b, 256 + 112, g[2]);
        Rw { b }
    }
    /// Anchor (borsh-deserialised) view
    pub fn anchor(&self) -> [WhirlpoolRewardInfo; 3] {
        [self.anchor1(0), self.anchor1(1), self.anchor1(2)]
    }
    fn anchor1(&self, i: usize) -> WhirlpoolRewardInfo {
        let o = 128 * i;
        WhirlpoolRewardInfo {
            mint: Pubkey::new_from_array(rd_key(&self.b, o)),
            vault: Pubkey::new_from_array(rd_key(&self.b, o + 32)),
            extension: rd_key(&self.b, o + 64),
            emissions_per_second_x64: rd128(&self.b, o + 96),
            growth_global_x64: rd128(&self.b, o + 112),
        }
    }
    /// Pinocchio memory-mapped view
    pub fn pino(&self) -> &[MemoryMappedWhirlpoolRewardInfo; 3] {
        unsafe { &*(self.b.as_ptr() as *const [MemoryMappedWhirlpoolRewardInfo; 3]) }
    }
}

/// a position account (216 bytes incl. discriminator)
pub(crate) type PB = [u8; 216];
pub(crate) fn mpos(b: &PB) -> &MemoryMappedPosition {
    unsafe { &*(b.as_ptr() as *const MemoryMappedPosition) }
}
/// Anchor (borsh-deserialised) view: field order of `state::Position` after the 8-byte discriminator
pub(crate) fn pos_of(b: &PB) -> Position {
    let ri = |i: usize| PositionRewardInfo { growth_inside_checkpoint: rd128(b, 144 + 24 * i), amount_owed: rd64(b, 160 + 24 * i) };
    Position {
        whirlpool: Pubkey::new_from_array(rd_key(b, 8)),
        position_mint: Pubkey::new_from_array(rd_key(b, 40)),
        liquidity: rd128(b, 72),
        tick_lower_index: rd32(b, 88),
        tick_upper_index: rd32(b, 92),
        fee_growth_checkpoint_a: rd128(b, 96),
        fee_owed_a: rd64(b, 112),
        fee_growth_checkpoint_b: rd128(b, 120),
        fee_owed_b: rd64(b, 136),
        reward_infos: [ri(0), ri(1), ri(2)],
    }
}

/// a whirlpool account (653 bytes incl. discriminator)
pub(crate) type WB = [u8; 653];
pub(crate) const W_TICK_SPACING: usize = 41;
pub(crate) const W_LIQUIDITY: usize = 49;
pub(crate) const W_SQRT_PRICE: usize = 65;
pub(crate) const W_TICK_CURRENT: usize = 81;
pub(crate) const W_FEE_GROWTH_A: usize = 165;
pub(crate) const W_FEE_GROWTH_B: usize = 245;
pub(crate) const W_REWARD_TS: usize = 261;
pub(crate) const W_REWARDS: usize = 269;
pub(crate) fn mwp(b: &WB) -> &::whirlpool::pinocchio::state::whirlpool::MemoryMappedWhirlpool {
    unsafe { &*(b.as_ptr() as *const ::whirlpool::pinocchio::state::whirlpool::MemoryMappedWhirlpool) }
}
pub(crate) fn mwp_mut(b: &mut WB) -> &mut ::whirlpool::pinocchio::state::whirlpool::MemoryMappedWhirlpool {
    unsafe { &mut *(b.as_mut_ptr() as *mut ::whirlpool::pinocchio::state::whirlpool::MemoryMappedWhirlpool) }
}
pub(crate) fn w_rw(b: &WB) -> Rw {
    Rw { b: unsafe { core::ptr::read_unaligned(b.as_ptr().add(W_REWARDS) as *const [u8; 384]) } }
}
/// Anchor (borsh-deserialised) view: field order of `state::Whirlpool` after the 8-byte discriminator
pub(crate) fn wp_of(b: &WB) -> Whirlpool {
    Whirlpool {
        whirlpools_config: Pubkey::new_from_array(rd_key(b, 8)),
        whirlpool_bump: [b[40]],
        tick_spacing: u16::from_le_bytes([b[41], b[42]]),
        fee_tier_index_seed: [b[43], b[44]],
        fee_rate: u16::from_le_bytes([b[45], b[46]]),
        protocol_fee_rate: u16::from_le_bytes([b[47], b[48]]),
        liquidity: rd128(b, W_LIQUIDITY),
        sqrt_price: rd128(b, W_SQRT_PRICE),
        tick_current_index: rd32(b, W_TICK_CURRENT),
        protocol_fee_owed_a: rd64(b, 85),
        protocol_fee_owed_b: rd64(b, 93),
        token_mint_a: Pubkey::new_from_array(rd_key(b, 101)),
        token_vault_a: Pubkey::new_from_array(rd_key(b, 133)),
        fee_growth_global_a: rd128(b, W_FEE_GROWTH_A),
        token_mint_b: Pubkey::new_from_array(rd_key(b, 181)),
        token_vault_b: Pubkey::new_from_array(rd_key(b, 213)),
        fee_growth_global_b: rd128(b, W_FEE_GROWTH_B),
        reward_last_updated_timestamp: rd64(b, W_REWARD_TS),
        reward_infos: w_rw(b).anchor(),
    }
}

/// The two implementations under one interface; ticks / rewards / positions are the same bytes for both.
pub(crate) trait Eng {
    fn fee_inside(cur: i32, lo: &TB, tl: i32, up: &TB, tu: i32, ga: u128, gb: u128) -> (u128, u128);
    fn reward_inside(cur: i32, lo: &TB, tl: i32, up: &TB, tu: i32, rw: &Rw) -> [u128; 3];
    /// `next_tick_modify_liquidity_update`; Ok = the tick bytes after applying the update, Err = error code
    fn modify(t: &TB, idx: i32, cur: i32, ga: u128, gb: u128, rw: &Rw, delta: i128, upper: bool) -> Result<TB, u32>;
    /// `next_position_modify_liquidity_update`
    fn pos_update(p: &PB, delta: i128, ia: u128, ib: u128, ri: &[u128; 3]) -> Result<PositionUpdate, u32>;
}

pub(crate) struct Anchor;
pub(crate) struct Pino;

impl Eng for Anchor {
    fn fee_inside(cur: i32, lo: &TB, tl: i32, up: &TB, tu: i32, ga: u128, gb: u128) -> (u128, u128) {
        next_fee_growths_inside(cur, &tick_of(lo), tl, &tick_of(up), tu, ga, gb)
    }
    fn reward_inside(cur: i32, lo: &TB, tl: i32, up: &TB, tu: i32, rw: &Rw) -> [u128; 3] {
        next_reward_growths_inside(cur, &tick_of(lo), tl, &tick_of(up), tu, &rw.anchor())
    }
    fn modify(t: &TB, idx: i32, cur: i32, ga: u128, gb: u128, rw: &Rw, delta: i128, upper: bool) -> Result<TB, u32> {
        match next_tick_modify_liquidity_update(&tick_of(t), idx, cur, ga, gb, &rw.anchor(), delta, upper) {
            Ok(u) => {
                let mut n = tick_of(t);
                n.update(&u);
                Ok(tick_bytes(&n))
            }
            Err(e) => Err(ecode(e)),
        }
    }
    fn pos_update(p: &PB, delta: i128, ia: u128, ib: u128, ri: &[u128; 3]) -> Result<PositionUpdate, u32> {
        next_position_modify_liquidity_update(&pos_of(p), delta, ia, ib, ri).map_err(ecode)
    }
}

impl Eng for Pino {
    fn fee_inside(cur: i32, lo: &TB, tl: i32, up: &TB, tu: i32, ga: u128, gb: u128) -> (u128, u128) {
        pino_next_fee_growths_inside(cur, mtick(lo), tl, mtick(up), tu, ga, gb)
    }
    fn reward_inside(cur: i32, lo: &TB, tl: i32, up: &TB, tu: i32, rw: &Rw) -> [u128; 3] {
        pino_next_reward_growths_inside(cur, mtick(lo), tl, mtick(up), tu, rw.pino(), &rw.growths())
    }
    fn modify(t: &TB, idx: i32, cur: i32, ga: u128, gb: u128, rw: &Rw, delta: i128, upper: bool) -> Result<TB, u32> {
        match pino_next_tick_modify_liquidity_update(mtick(t), idx, cur, ga, gb, &rw.growths(), delta, upper) {
            Ok(u) => {
                let mut n = *t;
                mtick_mut(&mut n).update(&u);
                Ok(n)
            }
            Err(e) => {
                let c = ucode(&e);
                core::mem::forget(e);
                Err(c)
            }
        }
    }
    fn pos_update(p: &PB, delta: i128, ia: u128, ib: u128, ri: &[u128; 3]) -> Result<PositionUpdate, u32> {
        match verif_pino_next_position_modify_liquidity_update(mpos(p), delta, ia, ib, ri) {
            Ok(u) => Ok(u),
            Err(e) => {
                let c = ucode(&e);
                core::mem::forget(e);
                Err(c)
            }
        }
    }
}

/// tick crossing as done by the swap loop (Anchor only: swap has no Pinocchio port): bytes after `next_tick_cross_update`
pub(crate) fn cross(t: &TB, ga: u128, gb: u128, rw: &Rw) -> TB {
    let mut n = tick_of(t);
    match next_tick_cross_update(&n, ga, gb, &rw.anchor()) {
        Ok(u) => n.update(&u),
        Err(_) => assert!(false, "next_tick_cross_update never fails"),
    }
    tick_bytes(&n)
}

/// C05's invariant on a stored tick, as far as these lemmas need it: initialized <=> gross != 0, and a tick that
/// bounds no position has net == 0.
pub(crate) fn assume_tick_inv(t: &TB) {
    kani::assume(t_init(t) == (t_gross(t) != 0));
    if !t_init(t) {
        kani::assume(t_net(t) == 0);
    }
}

/// The tick a bound stands for: itself if initialised, otherwise what `next_tick_modify_liquidity_update` stores when
/// the first liquidity `d > 0` is added at (cur, ga, gb, rw) — "the convention applied by the code".
pub(crate) fn effective<E: Eng>(t: &TB, idx: i32, cur: i32, ga: u128, gb: u128, rw: &Rw, d: i128, upper: bool) -> TB {
    if t_init(t) {
        *t
    } else {
        match E::modify(t, idx, cur, ga, gb, rw, d, upper) {
            Ok(n) => {
                assert!(t_init(&n));
                n
            }
            Err(_) => {
                assert!(false, "first deposit on an empty tick cannot fail");
                *t
            }
        }
    }
}

// ------------------------------------------------------------------------------------------------
// Case splitting. CaDiCaL needs 10x longer for one instance that mixes the placements of the current tick than for
// the separate instances (measured: 8 s + 10 s + 35 s separately, 569 s together), so every lemma is decided per
// placement in its own harness; the placements partition all i32 triples (cur, lower < upper):
pub(crate) const BELOW: u8 = 0; // cur < lower
pub(crate) const INSIDE: u8 = 1; // lower <= cur < upper (incl. cur == lower)
pub(crate) const ABOVE: u8 = 2; // cur >= upper (incl. cur == upper)
pub(crate) fn assume_place(place: u8, cur: i32, tl: i32, tu: i32) {
    match place {
        BELOW => kani::assume(cur < tl),
        INSIDE => kani::assume(tl <= cur && cur < tu),
        _ => kani::assume(cur >= tu),
    }
}
/// a proved intermediate fact: asserted (so it is a verification condition like any other), then available to the
/// following conditions. Sound by construction; only shortens the SAT proofs.
pub(crate) fn hint(c: bool) {
    assert!(c);
    kani::assume(c);
}
/// closed form of `inside` (wrapping), used only inside `hint`s:
/// below = initialised ? (cur < lower ? g - ol : ol) : g;  above = initialised ? (cur < upper ? ou : g - ou) : 0
pub(crate) fn closed(below_lower: bool, below_upper: bool, li: bool, ol: u128, ui: bool, ou: u128, g: u128) -> u128 {
    match (li, ui) {
        (true, true) => {
            if below_lower {
                ol.wrapping_sub(ou)
            } else if below_upper {
                g.wrapping_sub(ol).wrapping_sub(ou)
            } else {
                ou.wrapping_sub(ol)
            }
        }
        (false, true) => {
            if below_upper {
                0u128.wrapping_sub(ou)
            } else {
                ou.wrapping_sub(g)
            }
        }
        (true, false) => {
            if below_lower {
                ol
            } else {
                g.wrapping_sub(ol)
            }
        }
        (false, false) => 0,
    }
}
pub(crate) const TOKEN_A: u8 = 0;
pub(crate) const TOKEN_B: u8 = 1;
/// `inside` of one token (the two tokens are separate goals; each harness decides one, like the placements), with
/// the proved hint that it equals the closed form unless `plain`
pub(crate) fn fee_inside_h<E: Eng>(tok: u8, plain: bool, cur: i32, lo: &TB, tl: i32, up: &TB, tu: i32, ga: u128, gb: u128) -> u128 {
    let i = E::fee_inside(cur, lo, tl, up, tu, ga, gb);
    if tok == TOKEN_A {
        if !plain {
            hint(i.0 == closed(cur < tl, cur < tu, t_init(lo), t_out_a(lo), t_init(up), t_out_a(up), ga));
        }
        i.0
    } else {
        if !plain {
            hint(i.1 == closed(cur < tl, cur < tu, t_init(lo), t_out_b(lo), t_init(up), t_out_b(up), gb));
        }
        i.1
    }
}

// ------------------------------------------------------------------------------------------------
// L1

/// L1 for a range whose bounds are both initialised (arbitrary `outside` values — this includes ticks freshly
/// initialised by the convention, see `conv`): after global_a/b += xa/xb with the current tick fixed,
/// inside' - inside == x iff lower <= cur < upper, else 0.
fn l1<E: Eng>(tok: u8, place: u8) {
    let lo = any_tick();
    let up = any_tick();
    let tl: i32 = kani::any();
    let tu: i32 = kani::any();
    let cur: i32 = kani::any();
    let ga: u128 = kani::any();
    let gb: u128 = kani::any();
    let xa: u128 = kani::any();
    let xb: u128 = kani::any();
    kani::assume(tl < tu);
    kani::assume(t_init(&lo) && t_init(&up));
    assume_place(place, cur, tl, tu);

    let i0 = fee_inside_h::<E>(tok, place == INSIDE, cur, &lo, tl, &up, tu, ga, gb);
    let i1 = fee_inside_h::<E>(tok, place == INSIDE, cur, &lo, tl, &up, tu, ga.wrapping_add(xa), gb.wrapping_add(xb));
    let in_range = tl <= cur && cur < tu;
    let x = if tok == TOKEN_A { xa } else { xb };
    assert!(i1.wrapping_sub(i0) == if in_range { x } else { 0 });

    kani::cover!(xa != 0 && xb != 0 && xa != xb, "growth");
    kani::cover!(if tok == TOKEN_A { ga.checked_add(xa).is_none() } else { gb.checked_add(xb).is_none() }, "accumulator wraps");
    kani::cover!(if place == BELOW { cur == tl - 1 } else { cur == tl || cur == tu }, "current tick on / next to a bound");
}

/// Convention for uninitialised bounds, every initialised/uninitialised combination: `inside` computed by the code on
/// the stored ticks equals `inside` on the effective ticks (an uninitialised bound replaced by the tick that
/// `next_tick_modify_liquidity_update` creates for a first deposit at the same (cur, global)). Hence the checkpoint
/// a position takes when it first adds liquidity is the `inside` of its freshly initialised range, to which L1/L2
/// (both bounds initialised) apply from then on: growth before the deposit and growth out of range are excluded.
fn conv<E: Eng>(tok: u8, place: u8) {
    let lo = any_tick();
    let up = any_tick();
    let tl: i32 = kani::any();
    let tu: i32 = kani::any();
    let cur: i32 = kani::any();
    let ga: u128 = kani::any();
    let gb: u128 = kani::any();
    let rw = Rw::any();
    let dl: i128 = kani::any();
    let du: i128 = kani::any();
    kani::assume(tl < tu);
    kani::assume(dl > 0 && du > 0);
    kani::assume(!t_init(&lo) || !t_init(&up));
    assume_tick_inv(&lo);
    assume_tick_inv(&up);
    assume_place(place, cur, tl, tu);

    let elo = effective::<E>(&lo, tl, cur, ga, gb, &rw, dl, false);
    let eup = effective::<E>(&up, tu, cur, ga, gb, &rw, du, true);
    let i0 = fee_inside_h::<E>(tok, false, cur, &lo, tl, &up, tu, ga, gb);
    let ie = fee_inside_h::<E>(tok, false, cur, &elo, tl, &eup, tu, ga, gb);
    assert!(i0 == ie, "uninitialised-bound convention == freshly initialised tick");

    kani::cover!(!t_init(&lo) && !t_init(&up), "both fresh");
    kani::cover!(t_init(&lo) && !t_init(&up), "upper fresh");
    kani::cover!(!t_init(&lo) && t_init(&up), "lower fresh");
}

// ------------------------------------------------------------------------------------------------
// L2

pub(crate) const LOWER: u8 = 0; // the crossed tick is the lower bound
pub(crate) const UPPER: u8 = 1; // ... the upper bound
pub(crate) const OTHER: u8 = 2; // ... neither bound (below, above or strictly inside the range)

/// symbolic crossing scenario shared with c11.rs: returns (cur1, lo', up') after crossing tick `t`
/// (a bound equal to `t` is flipped by `next_tick_cross_update`, others are untouched), having assumed what the swap
/// loop guarantees: the crossed tick is initialised; it is the *next initialised* tick from cur0 in the direction of
/// travel (C10), so no other initialised bound of the range lies in the jumped interval; and
/// a_to_b: cur0 >= t, cur1 = t - 1;  b_to_a: cur0 < t, cur1 = t  (swap_manager.rs, "shift the index by 1").
pub(crate) fn crossing(
    which: u8, lo: &TB, tl: i32, up: &TB, tu: i32, t: i32, cur0: i32, a_to_b: bool, ga: u128, gb: u128, rw: &Rw,
) -> (i32, TB, TB) {
    kani::assume(t > i32::MIN);
    match which {
        LOWER => kani::assume(t == tl),
        UPPER => kani::assume(t == tu),
        _ => kani::assume(t != tl && t != tu),
    }
    let cur1 = if a_to_b {
        kani::assume(cur0 >= t);
        t - 1
    } else {
        kani::assume(cur0 < t);
        t
    };
    let mut nlo = *lo;
    let mut nup = *up;
    if tl == t {
        kani::assume(t_init(lo));
        nlo = cross(lo, ga, gb, rw);
    } else if t_init(lo) {
        kani::assume(if a_to_b { !(t < tl && tl <= cur0) } else { !(cur0 < tl && tl < t) });
    }
    if tu == t {
        kani::assume(t_init(up));
        nup = cross(up, ga, gb, rw);
    } else if t_init(up) {
        kani::assume(if a_to_b { !(t < tu && tu <= cur0) } else { !(cur0 < tu && tu < t) });
    }
    (cur1, nlo, nup)
}

/// for a crossed tick that is not a bound: every initialised bound stays on the same side of the current tick
/// (follows from the `crossing` assumptions; 32-bit comparisons only)
pub(crate) fn same_side_hints(lo: &TB, tl: i32, up: &TB, tu: i32, cur0: i32, cur1: i32) {
    hint(!t_init(lo) || (cur0 < tl) == (cur1 < tl));
    hint(!t_init(up) || (cur0 < tu) == (cur1 < tu));
}

/// L2: crossing tick t in the given direction, with the loop's new current tick, leaves fee `inside` (A and B) of every
/// range [tl, tu) unchanged. The bound that is not crossed may be initialised or not.
fn l2<E: Eng>(tok: u8, which: u8, a_to_b: bool) {
    let lo = any_tick();
    let up = any_tick();
    let tl: i32 = kani::any();
    let tu: i32 = kani::any();
    let t: i32 = kani::any();
    let cur0: i32 = kani::any();
    let ga: u128 = kani::any();
    let gb: u128 = kani::any();
    let rw = Rw::any();
    kani::assume(tl < tu);
    let (cur1, nlo, nup) = crossing(which, &lo, tl, &up, tu, t, cur0, a_to_b, ga, gb, &rw);

    if which == OTHER {
        // same ticks, same side of every initialised bound: the two evaluations are the same circuit
        same_side_hints(&lo, tl, &up, tu, cur0, cur1);
    }
    let i0 = fee_inside_h::<E>(tok, which == OTHER, cur0, &lo, tl, &up, tu, ga, gb);
    let i1 = fee_inside_h::<E>(tok, which == OTHER, cur1, &nlo, tl, &nup, tu, ga, gb);
    assert!(i0 == i1, "crossing leaves inside unchanged");

    // witnesses (conditions depend on the case so that none is vacuous by construction)
    let both = t_init(&lo) && t_init(&up);
    kani::cover!(if which == OTHER { t < tl && t_init(&lo) } else { both }, "OTHER: crossed tick below the range / bound: both bounds initialised");
    kani::cover!(if which == OTHER { t > tu && t_init(&up) } else { !both }, "OTHER: crossed tick above the range / bound: other bound uninitialised");
    kani::cover!(if which == OTHER { tl < t && t < tu && both } else { cur0 == if a_to_b { t } else { t - 1 } }, "OTHER: crossed tick strictly inside / bound: start next to the tick");
}

// ------------------------------------------------------------------------------------------------
// L3

/// L3: `next_tick_modify_liquidity_update` on any stored tick: delta == 0 keeps the tick; first liquidity on an empty
/// tick sets outside := global if tick_index <= cur else 0; a tick that stays in use (gross != 0 before and after)
/// keeps `initialized` and both `outside` values, hence `inside` of every other range bounded by it (as lower or as
/// upper bound, any second tick) is unchanged; removing the last liquidity resets the tick to the zero tick.
fn l3<E: Eng>() {
    let t = any_tick();
    let idx: i32 = kani::any();
    let cur: i32 = kani::any();
    let ga: u128 = kani::any();
    let gb: u128 = kani::any();
    let rw = Rw::any();
    let delta: i128 = kani::any();
    let upper: bool = kani::any();
    assume_tick_inv(&t);

    let r = E::modify(&t, idx, cur, ga, gb, &rw, delta, upper);
    kani::cover!(r.is_ok() && delta > 0 && !t_init(&t) && idx == cur, "fresh initialisation, tick_index == current");
    kani::cover!(r.is_ok() && delta < 0 && t_init(&t), "decrease");
    if let Ok(n) = r {
        if delta == 0 {
            assert!(same_tick(&n, &t));
        } else if t_gross(&t) == 0 {
            assert!(delta > 0);
            assert!(t_init(&n) && t_gross(&n) != 0);
            assert!(t_out_a(&n) == if idx <= cur { ga } else { 0 });
            assert!(t_out_b(&n) == if idx <= cur { gb } else { 0 });
        } else if t_gross(&n) != 0 {
            // everything `next_fee_growths_inside` reads of this tick (see `frame`) is untouched
            assert!(t_init(&n));
            assert!(t_out_a(&n) == t_out_a(&t) && t_out_b(&n) == t_out_b(&t));
        } else {
            assert!(same_tick(&n, &[0u8; 113]), "last liquidity removed: zero tick");
            kani::cover!(true, "de-initialisation");
        }
    }
}

/// frame: fee `inside` reads nothing of a tick but `initialized` and `fee_growth_outside_a/b` — two ticks that agree on
/// these give the same result whatever their liquidity / reward fields. With L3 ("outside untouched while
/// gross != 0") this is: a liquidity change at a shared bound does not change `inside` of the other ranges, and
/// ticks that are not bounds of a range (initialised or removed in between) never enter its `inside`.
fn frame<E: Eng>() {
    let lo = any_tick();
    let up = any_tick();
    let lo2 = any_tick();
    let up2 = any_tick();
    let tl: i32 = kani::any();
    let tu: i32 = kani::any();
    let cur: i32 = kani::any();
    let ga: u128 = kani::any();
    let gb: u128 = kani::any();
    kani::assume(tl < tu);
    kani::assume(t_init(&lo) == t_init(&lo2) && t_init(&up) == t_init(&up2));
    kani::assume(t_out_a(&lo) == t_out_a(&lo2) && t_out_b(&lo) == t_out_b(&lo2));
    kani::assume(t_out_a(&up) == t_out_a(&up2) && t_out_b(&up) == t_out_b(&up2));
    let a = E::fee_inside(cur, &lo, tl, &up, tu, ga, gb);
    let b = E::fee_inside(cur, &lo2, tl, &up2, tu, ga, gb);
    assert!(a == b);
    kani::cover!(t_gross(&lo) != t_gross(&lo2) && t_net(&up) != t_net(&up2) && t_out_r(&lo, 0) != t_out_r(&lo2, 0), "other fields differ");
}

// ------------------------------------------------------------------------------------------------
// L4

pub(crate) fn any_pos() -> PB {
    any_bytes::<216, 14>()
}
pub(crate) fn any_whirlpool() -> WB {
    any_bytes::<653, 41>()
}

// `checked_mul_shift_right` as an uninterpreted function F, Ackermann style: `next_position_modify_liquidity_update` can
// only ask about (L, inside_x - checkpoint_x) for x in {fee A, fee B, reward 0..2}, so the five outcomes are drawn up
// front, constrained to be functionally consistent (equal arguments => equal outcome) and exact where that is free
// (a zero factor gives Ok(0), as in the real function). A call with any other argument sets MS_BAD, which the
// harness asserts to be false — that is the "which arguments are passed" part of the lemma.
// (common::memo::stub_checked_mul_shift_right is the same idea with a dynamic table; its symbolic length made
// these harnesses 2-3x slower and unstable.)
static mut MS_L: u128 = 0;
static mut MS_D: [u128; 5] = [0; 5];
static mut MS_OK: [bool; 5] = [true; 5];
static mut MS_V: [u64; 5] = [0; 5];
static mut MS_BAD: bool = false;

pub(crate) fn stub_mul_shift(n0: u128, n1: u128) -> Result<u64, ::whirlpool::errors::ErrorCode> {
    if n0 == 0 || n1 == 0 {
        return Ok(0);
    }
    unsafe {
        if n0 != MS_L {
            MS_BAD = true;
            return Ok(0);
        }
        let mut k = 0;
        while k < 5 {
            if MS_D[k] == n1 {
                return if MS_OK[k] { Ok(MS_V[k]) } else { Err(::whirlpool::errors::ErrorCode::MultiplicationShiftRightOverflow) };
            }
            k += 1;
        }
        MS_BAD = true;
        Ok(0)
    }
}
pub(crate) fn mul_shift_bad() -> bool {
    unsafe { MS_BAD }
}

/// symbolic position + update arguments + F; returns (position bytes, delta, inside A, inside B, reward insides,
/// credit[5] = F(L, delta_x) or 0 when F fails, failed[5])
pub(crate) fn l4_setup() -> (PB, i128, u128, u128, [u128; 3], [u64; 5], [bool; 5]) {
    let p = any_pos();
    let delta: i128 = kani::any();
    let ia: u128 = kani::any();
    let ib: u128 = kani::any();
    let ri: [u128; 3] = kani::any();
    let ok: [bool; 5] = kani::any();
    let v: [u64; 5] = kani::any();
    let l = rd128(&p, 72);
    let d = [
        ia.wrapping_sub(rd128(&p, 96)),
        ib.wrapping_sub(rd128(&p, 120)),
        ri[0].wrapping_sub(rd128(&p, 144)),
        ri[1].wrapping_sub(rd128(&p, 168)),
        ri[2].wrapping_sub(rd128(&p, 192)),
    ];
    let mut credit = [0u64; 5];
    let mut failed = [false; 5];
    for k in 0..5 {
        if l == 0 || d[k] == 0 {
            kani::assume(ok[k] && v[k] == 0);
        }
        for j in 0..k {
            if d[j] == d[k] {
                kani::assume(ok[j] == ok[k] && v[j] == v[k]);
            }
        }
        credit[k] = if ok[k] { v[k] } else { 0 };
        failed[k] = !ok[k];
    }
    unsafe {
        MS_L = l;
        MS_D = d;
        MS_OK = ok;
        MS_V = v;
    }
    (p, delta, ia, ib, ri, credit, failed)
}

/// L4 (structure; the multiply itself is contract A1, Engine M): with `checked_mul_shift_right` an uninterpreted
/// function F, fee_owed_x' == fee_owed_x + (F(L, inside_x - checkpoint_x mod 2^128) or 0 if F overflows)  (wrapping u64),
/// checkpoint_x' == inside_x, liquidity' == L + delta, Err iff L + delta leaves u128.
fn l4<E: Eng>() {
    let (p, delta, ia, ib, ri, credit, failed) = l4_setup();
    let l = rd128(&p, 72);
    let (oa, ob) = (rd64(&p, 112), rd64(&p, 136));

    let r = E::pos_update(&p, delta, ia, ib, &ri);

    assert!(!mul_shift_bad(), "F is only applied to (L, inside_x - checkpoint_x)");
    let lnext = if delta >= 0 { l.checked_add(delta as u128) } else { l.checked_sub(delta.unsigned_abs()) };
    kani::cover!(r.is_ok() && failed[0] && oa != 0, "overflowing credit A dropped");
    kani::cover!(r.is_ok() && credit[1] != 0, "non-zero credit B");
    kani::cover!(r.is_err(), "liquidity error");
    match r {
        Ok(u) => {
            assert!(u.fee_growth_checkpoint_a == ia && u.fee_growth_checkpoint_b == ib);
            assert!(u.fee_owed_a == oa.wrapping_add(credit[0]), "credit A = F(L, inside - checkpoint), 0 on overflow");
            assert!(u.fee_owed_b == ob.wrapping_add(credit[1]), "credit B = F(L, inside - checkpoint), 0 on overflow");
            assert!(lnext == Some(u.liquidity));
            if l == 0 {
                assert!(u.fee_owed_a == oa && u.fee_owed_b == ob); // nothing earned before liquidity was added
            }
        }
        Err(c) => {
            assert!(lnext.is_none());
            assert!(c == ecode(::whirlpool::errors::ErrorCode::LiquidityOverflow) || c == ecode(::whirlpool::errors::ErrorCode::LiquidityUnderflow));
        }
    }
}

// ------------------------------------------------------------------------------------------------
// harnesses: one per (implementation, token, case). Anchor functions first, then their Pinocchio ports on the same bytes.

/// L1 `next_fee_growths_inside` token A: global += x at fixed current tick, cur < lower: inside unchanged; both bounds initialised, all u128 values incl. wrap-around
// @verif prop=C07 tier=quick timeout=300
#[kani::proof]
#[kani::unwind(34)]
#[kani::stub(alloc::fmt::format, stub_format)]
#[kani::stub(<anchor_lang::error::Error as core::convert::From<::whirlpool::errors::ErrorCode>>::from, stub_err_from_code)]
#[kani::stub(<::whirlpool::pinocchio::errors::UnifiedError as core::convert::From<::whirlpool::errors::ErrorCode>>::from, stub_unified_from_code)]
fn c07_l1_a_below_anchor() {
    l1::<Anchor>(TOKEN_A, BELOW);
}

/// L1 `next_fee_growths_inside` token A: global += x at fixed current tick, lower <= cur < upper: inside grows by exactly x; both bounds initialised, all u128 values incl. wrap-around
// @verif prop=C07 tier=quick timeout=300
#[kani::proof]
#[kani::unwind(34)]
#[kani::stub(alloc::fmt::format, stub_format)]
#[kani::stub(<anchor_lang::error::Error as core::convert::From<::whirlpool::errors::ErrorCode>>::from, stub_err_from_code)]
#[kani::stub(<::whirlpool::pinocchio::errors::UnifiedError as core::convert::From<::whirlpool::errors::ErrorCode>>::from, stub_unified_from_code)]
fn c07_l1_a_inside_anchor() {
    l1::<Anchor>(TOKEN_A, INSIDE);
}

/// L1 `next_fee_growths_inside` token A: global += x at fixed current tick, cur >= upper: inside unchanged; both bounds initialised, all u128 values incl. wrap-around
// @verif prop=C07 tier=quick timeout=300
#[kani::proof]
#[kani::unwind(34)]
#[kani::stub(alloc::fmt::format, stub_format)]
#[kani::stub(<anchor_lang::error::Error as core::convert::From<::whirlpool::errors::ErrorCode>>::from, stub_err_from_code)]
#[kani::stub(<::whirlpool::pinocchio::errors::UnifiedError as core::convert::From<::whirlpool::errors::ErrorCode>>::from, stub_unified_from_code)]
fn c07_l1_a_above_anchor() {
    l1::<Anchor>(TOKEN_A, ABOVE);
}

/// L1 `next_fee_growths_inside` token B: global += x at fixed current tick, cur < lower: inside unchanged; both bounds initialised, all u128 values incl. wrap-around
// @verif prop=C07 tier=quick timeout=300
#[kani::proof]
#[kani::unwind(34)]
#[kani::stub(alloc::fmt::format, stub_format)]
#[kani::stub(<anchor_lang::error::Error as core::convert::From<::whirlpool::errors::ErrorCode>>::from, stub_err_from_code)]
#[kani::stub(<::whirlpool::pinocchio::errors::UnifiedError as core::convert::From<::whirlpool::errors::ErrorCode>>::from, stub_unified_from_code)]
fn c07_l1_b_below_anchor() {
    l1::<Anchor>(TOKEN_B, BELOW);
}

/// L1 `next_fee_growths_inside` token B: global += x at fixed current tick, lower <= cur < upper: inside grows by exactly x; both bounds initialised, all u128 values incl. wrap-around
// @verif prop=C07 tier=quick timeout=300
#[kani::proof]
#[kani::unwind(34)]
#[kani::stub(alloc::fmt::format, stub_format)]
#[kani::stub(<anchor_lang::error::Error as core::convert::From<::whirlpool::errors::ErrorCode>>::from, stub_err_from_code)]
#[kani::stub(<::whirlpool::pinocchio::errors::UnifiedError as core::convert::From<::whirlpool::errors::ErrorCode>>::from, stub_unified_from_code)]
fn c07_l1_b_inside_anchor() {
    l1::<Anchor>(TOKEN_B, INSIDE);
}

/// L1 `next_fee_growths_inside` token B: global += x at fixed current tick, cur >= upper: inside unchanged; both bounds initialised, all u128 values incl. wrap-around
// @verif prop=C07 tier=quick timeout=300
#[kani::proof]
#[kani::unwind(34)]
#[kani::stub(alloc::fmt::format, stub_format)]
#[kani::stub(<anchor_lang::error::Error as core::convert::From<::whirlpool::errors::ErrorCode>>::from, stub_err_from_code)]
#[kani::stub(<::whirlpool::pinocchio::errors::UnifiedError as core::convert::From<::whirlpool::errors::ErrorCode>>::from, stub_unified_from_code)]
fn c07_l1_b_above_anchor() {
    l1::<Anchor>(TOKEN_B, ABOVE);
}

/// L1/L3 `next_fee_growths_inside` + `next_tick_modify_liquidity_update` token A: an uninitialised bound counts exactly like the tick the first deposit creates (all 3 combinations with an uninitialised bound), current tick below
// @verif prop=C07 tier=quick timeout=300
#[kani::proof]
#[kani::unwind(34)]
#[kani::stub(alloc::fmt::format, stub_format)]
#[kani::stub(<anchor_lang::error::Error as core::convert::From<::whirlpool::errors::ErrorCode>>::from, stub_err_from_code)]
#[kani::stub(<::whirlpool::pinocchio::errors::UnifiedError as core::convert::From<::whirlpool::errors::ErrorCode>>::from, stub_unified_from_code)]
fn c07_conv_a_below_anchor() {
    conv::<Anchor>(TOKEN_A, BELOW);
}

/// L1/L3 `next_fee_growths_inside` + `next_tick_modify_liquidity_update` token A: an uninitialised bound counts exactly like the tick the first deposit creates (all 3 combinations with an uninitialised bound), current tick inside
// @verif prop=C07 tier=quick timeout=300
#[kani::proof]
#[kani::unwind(34)]
#[kani::stub(alloc::fmt::format, stub_format)]
#[kani::stub(<anchor_lang::error::Error as core::convert::From<::whirlpool::errors::ErrorCode>>::from, stub_err_from_code)]
#[kani::stub(<::whirlpool::pinocchio::errors::UnifiedError as core::convert::From<::whirlpool::errors::ErrorCode>>::from, stub_unified_from_code)]
fn c07_conv_a_inside_anchor() {
    conv::<Anchor>(TOKEN_A, INSIDE);
}

/// L1/L3 `next_fee_growths_inside` + `next_tick_modify_liquidity_update` token A: an uninitialised bound counts exactly like the tick the first deposit creates (all 3 combinations with an uninitialised bound), current tick above
// @verif prop=C07 tier=quick timeout=300
#[kani::proof]
#[kani::unwind(34)]
#[kani::stub(alloc::fmt::format, stub_format)]
#[kani::stub(<anchor_lang::error::Error as core::convert::From<::whirlpool::errors::ErrorCode>>::from, stub_err_from_code)]
#[kani::stub(<::whirlpool::pinocchio::errors::UnifiedError as core::convert::From<::whirlpool::errors::ErrorCode>>::from, stub_unified_from_code)]
fn c07_conv_a_above_anchor() {
    conv::<Anchor>(TOKEN_A, ABOVE);
}

/// L1/L3 `next_fee_growths_inside` + `next_tick_modify_liquidity_update` token B: an uninitialised bound counts exactly like the tick the first deposit creates (all 3 combinations with an uninitialised bound), current tick below
// @verif prop=C07 tier=quick timeout=300
#[kani::proof]
#[kani::unwind(34)]
#[kani::stub(alloc::fmt::format, stub_format)]
#[kani::stub(<anchor_lang::error::Error as core::convert::From<::whirlpool::errors::ErrorCode>>::from, stub_err_from_code)]
#[kani::stub(<::whirlpool::pinocchio::errors::UnifiedError as core::convert::From<::whirlpool::errors::ErrorCode>>::from, stub_unified_from_code)]
fn c07_conv_b_below_anchor() {
    conv::<Anchor>(TOKEN_B, BELOW);
}

/// L1/L3 `next_fee_growths_inside` + `next_tick_modify_liquidity_update` token B: an uninitialised bound counts exactly like the tick the first deposit creates (all 3 combinations with an uninitialised bound), current tick inside
// @verif prop=C07 tier=quick timeout=300
#[kani::proof]
#[kani::unwind(34)]
#[kani::stub(alloc::fmt::format, stub_format)]
#[kani::stub(<anchor_lang::error::Error as core::convert::From<::whirlpool::errors::ErrorCode>>::from, stub_err_from_code)]
#[kani::stub(<::whirlpool::pinocchio::errors::UnifiedError as core::convert::From<::whirlpool::errors::ErrorCode>>::from, stub_unified_from_code)]
fn c07_conv_b_inside_anchor() {
    conv::<Anchor>(TOKEN_B, INSIDE);
}

/// L1/L3 `next_fee_growths_inside` + `next_tick_modify_liquidity_update` token B: an uninitialised bound counts exactly like the tick the first deposit creates (all 3 combinations with an uninitialised bound), current tick above
// @verif prop=C07 tier=quick timeout=300
#[kani::proof]
#[kani::unwind(34)]
#[kani::stub(alloc::fmt::format, stub_format)]
#[kani::stub(<anchor_lang::error::Error as core::convert::From<::whirlpool::errors::ErrorCode>>::from, stub_err_from_code)]
#[kani::stub(<::whirlpool::pinocchio::errors::UnifiedError as core::convert::From<::whirlpool::errors::ErrorCode>>::from, stub_unified_from_code)]
fn c07_conv_b_above_anchor() {
    conv::<Anchor>(TOKEN_B, ABOVE);
}

/// L2 `next_tick_cross_update` + `next_fee_growths_inside` token A: crossing initialised tick t leaves `inside` of range [lower, upper) unchanged; t == lower, a_to_b (cur >= t before, t - 1 after)
// @verif prop=C07 tier=quick timeout=300
#[kani::proof]
#[kani::unwind(34)]
#[kani::stub(alloc::fmt::format, stub_format)]
#[kani::stub(<anchor_lang::error::Error as core::convert::From<::whirlpool::errors::ErrorCode>>::from, stub_err_from_code)]
#[kani::stub(<::whirlpool::pinocchio::errors::UnifiedError as core::convert::From<::whirlpool::errors::ErrorCode>>::from, stub_unified_from_code)]
fn c07_l2_a_lower_down_anchor() {
    l2::<Anchor>(TOKEN_A, LOWER, true);
}

/// L2 `next_tick_cross_update` + `next_fee_growths_inside` token A: crossing initialised tick t leaves `inside` of range [lower, upper) unchanged; t == lower, b_to_a (cur < t before, t after)
// @verif prop=C07 tier=quick timeout=300
#[kani::proof]
#[kani::unwind(34)]
#[kani::stub(alloc::fmt::format, stub_format)]
#[kani::stub(<anchor_lang::error::Error as core::convert::From<::whirlpool::errors::ErrorCode>>::from, stub_err_from_code)]
#[kani::stub(<::whirlpool::pinocchio::errors::UnifiedError as core::convert::From<::whirlpool::errors::ErrorCode>>::from, stub_unified_from_code)]
fn c07_l2_a_lower_up_anchor() {
    l2::<Anchor>(TOKEN_A, LOWER, false);
}

/// L2 `next_tick_cross_update` + `next_fee_growths_inside` token A: crossing initialised tick t leaves `inside` of range [lower, upper) unchanged; t == upper, a_to_b (cur >= t before, t - 1 after)
// @verif prop=C07 tier=quick timeout=300
#[kani::proof]
#[kani::unwind(34)]
#[kani::stub(alloc::fmt::format, stub_format)]
#[kani::stub(<anchor_lang::error::Error as core::convert::From<::whirlpool::errors::ErrorCode>>::from, stub_err_from_code)]
#[kani::stub(<::whirlpool::pinocchio::errors::UnifiedError as core::convert::From<::whirlpool::errors::ErrorCode>>::from, stub_unified_from_code)]
fn c07_l2_a_upper_down_anchor() {
    l2::<Anchor>(TOKEN_A, UPPER, true);
}

/// L2 `next_tick_cross_update` + `next_fee_growths_inside` token A: crossing initialised tick t leaves `inside` of range [lower, upper) unchanged; t == upper, b_to_a (cur < t before, t after)
// @verif prop=C07 tier=quick timeout=300
#[kani::proof]
#[kani::unwind(34)]
#[kani::stub(alloc::fmt::format, stub_format)]
#[kani::stub(<anchor_lang::error::Error as core::convert::From<::whirlpool::errors::ErrorCode>>::from, stub_err_from_code)]
#[kani::stub(<::whirlpool::pinocchio::errors::UnifiedError as core::convert::From<::whirlpool::errors::ErrorCode>>::from, stub_unified_from_code)]
fn c07_l2_a_upper_up_anchor() {
    l2::<Anchor>(TOKEN_A, UPPER, false);
}

/// L2 `next_tick_cross_update` + `next_fee_growths_inside` token A: crossing initialised tick t leaves `inside` of range [lower, upper) unchanged; t is neither bound (below / above / strictly inside the range), a_to_b (cur >= t before, t - 1 after)
// @verif prop=C07 tier=quick timeout=300
#[kani::proof]
#[kani::unwind(34)]
#[kani::stub(alloc::fmt::format, stub_format)]
#[kani::stub(<anchor_lang::error::Error as core::convert::From<::whirlpool::errors::ErrorCode>>::from, stub_err_from_code)]
#[kani::stub(<::whirlpool::pinocchio::errors::UnifiedError as core::convert::From<::whirlpool::errors::ErrorCode>>::from, stub_unified_from_code)]
fn c07_l2_a_other_down_anchor() {
    l2::<Anchor>(TOKEN_A, OTHER, true);
}

/// L2 `next_tick_cross_update` + `next_fee_growths_inside` token A: crossing initialised tick t leaves `inside` of range [lower, upper) unchanged; t is neither bound (below / above / strictly inside the range), b_to_a (cur < t before, t after)
// @verif prop=C07 tier=quick timeout=300
#[kani::proof]
#[kani::unwind(34)]
#[kani::stub(alloc::fmt::format, stub_format)]
#[kani::stub(<anchor_lang::error::Error as core::convert::From<::whirlpool::errors::ErrorCode>>::from, stub_err_from_code)]
#[kani::stub(<::whirlpool::pinocchio::errors::UnifiedError as core::convert::From<::whirlpool::errors::ErrorCode>>::from, stub_unified_from_code)]
fn c07_l2_a_other_up_anchor() {
    l2::<Anchor>(TOKEN_A, OTHER, false);
}

/// L2 `next_tick_cross_update` + `next_fee_growths_inside` token B: crossing initialised tick t leaves `inside` of range [lower, upper) unchanged; t == lower, a_to_b (cur >= t before, t - 1 after)
// @verif prop=C07 tier=quick timeout=300
#[kani::proof]
#[kani::unwind(34)]
#[kani::stub(alloc::fmt::format, stub_format)]
#[kani::stub(<anchor_lang::error::Error as core::convert::From<::whirlpool::errors::ErrorCode>>::from, stub_err_from_code)]
#[kani::stub(<::whirlpool::pinocchio::errors::UnifiedError as core::convert::From<::whirlpool::errors::ErrorCode>>::from, stub_unified_from_code)]
fn c07_l2_b_lower_down_anchor() {
    l2::<Anchor>(TOKEN_B, LOWER, true);
}

/// L2 `next_tick_cross_update` + `next_fee_growths_inside` token B: crossing initialised tick t leaves `inside` of range [lower, upper) unchanged; t == lower, b_to_a (cur < t before, t after)
// @verif prop=C07 tier=quick timeout=300
#[kani::proof]
#[kani::unwind(34)]
#[kani::stub(alloc::fmt::format, stub_format)]
#[kani::stub(<anchor_lang::error::Error as core::convert::From<::whirlpool::errors::ErrorCode>>::from, stub_err_from_code)]
#[kani::stub(<::whirlpool::pinocchio::errors::UnifiedError as core::convert::From<::whirlpool::errors::ErrorCode>>::from, stub_unified_from_code)]
fn c07_l2_b_lower_up_anchor() {
    l2::<Anchor>(TOKEN_B, LOWER, false);
}

/// L2 `next_tick_cross_update` + `next_fee_growths_inside` token B: crossing initialised tick t leaves `inside` of range [lower, upper) unchanged; t == upper, a_to_b (cur >= t before, t - 1 after)
// @verif prop=C07 tier=quick timeout=300
#[kani::proof]
#[kani::unwind(34)]
#[kani::stub(alloc::fmt::format, stub_format)]
#[kani::stub(<anchor_lang::error::Error as core::convert::From<::whirlpool::errors::ErrorCode>>::from, stub_err_from_code)]
#[kani::stub(<::whirlpool::pinocchio::errors::UnifiedError as core::convert::From<::whirlpool::errors::ErrorCode>>::from, stub_unified_from_code)]
fn c07_l2_b_upper_down_anchor() {
    l2::<Anchor>(TOKEN_B, UPPER, true);
}

/// L2 `next_tick_cross_update` + `next_fee_growths_inside` token B: crossing initialised tick t leaves `inside` of range [lower, upper) unchanged; t == upper, b_to_a (cur < t before, t after)
// @verif prop=C07 tier=quick timeout=300
#[kani::proof]
#[kani::unwind(34)]
#[kani::stub(alloc::fmt::format, stub_format)]
#[kani::stub(<anchor_lang::error::Error as core::convert::From<::whirlpool::errors::ErrorCode>>::from, stub_err_from_code)]
#[kani::stub(<::whirlpool::pinocchio::errors::UnifiedError as core::convert::From<::whirlpool::errors::ErrorCode>>::from, stub_unified_from_code)]
fn c07_l2_b_upper_up_anchor() {
    l2::<Anchor>(TOKEN_B, UPPER, false);
}

/// L2 `next_tick_cross_update` + `next_fee_growths_inside` token B: crossing initialised tick t leaves `inside` of range [lower, upper) unchanged; t is neither bound (below / above / strictly inside the range), a_to_b (cur >= t before, t - 1 after)
// @verif prop=C07 tier=quick timeout=300
#[kani::proof]
#[kani::unwind(34)]
#[kani::stub(alloc::fmt::format, stub_format)]
#[kani::stub(<anchor_lang::error::Error as core::convert::From<::whirlpool::errors::ErrorCode>>::from, stub_err_from_code)]
#[kani::stub(<::whirlpool::pinocchio::errors::UnifiedError as core::convert::From<::whirlpool::errors::ErrorCode>>::from, stub_unified_from_code)]
fn c07_l2_b_other_down_anchor() {
    l2::<Anchor>(TOKEN_B, OTHER, true);
}

/// L2 `next_tick_cross_update` + `next_fee_growths_inside` token B: crossing initialised tick t leaves `inside` of range [lower, upper) unchanged; t is neither bound (below / above / strictly inside the range), b_to_a (cur < t before, t after)
// @verif prop=C07 tier=quick timeout=300
#[kani::proof]
#[kani::unwind(34)]
#[kani::stub(alloc::fmt::format, stub_format)]
#[kani::stub(<anchor_lang::error::Error as core::convert::From<::whirlpool::errors::ErrorCode>>::from, stub_err_from_code)]
#[kani::stub(<::whirlpool::pinocchio::errors::UnifiedError as core::convert::From<::whirlpool::errors::ErrorCode>>::from, stub_unified_from_code)]
fn c07_l2_b_other_up_anchor() {
    l2::<Anchor>(TOKEN_B, OTHER, false);
}

/// L3 `next_tick_modify_liquidity_update`: initialisation convention outside := global iff tick_index <= cur (A and B); outside and `initialized` untouched while gross != 0; zero tick on de-initialisation
// @verif prop=C07 tier=quick timeout=300
#[kani::proof]
#[kani::unwind(34)]
#[kani::stub(alloc::fmt::format, stub_format)]
#[kani::stub(<anchor_lang::error::Error as core::convert::From<::whirlpool::errors::ErrorCode>>::from, stub_err_from_code)]
#[kani::stub(<::whirlpool::pinocchio::errors::UnifiedError as core::convert::From<::whirlpool::errors::ErrorCode>>::from, stub_unified_from_code)]
fn c07_l3_modify_anchor() {
    l3::<Anchor>();
}

/// frame `next_fee_growths_inside`: depends on a bound tick only through `initialized` and `fee_growth_outside_a/b` (other ranges sharing a bound, other ticks: no influence)
// @verif prop=C07 tier=quick timeout=300
#[kani::proof]
#[kani::unwind(34)]
#[kani::stub(alloc::fmt::format, stub_format)]
#[kani::stub(<anchor_lang::error::Error as core::convert::From<::whirlpool::errors::ErrorCode>>::from, stub_err_from_code)]
#[kani::stub(<::whirlpool::pinocchio::errors::UnifiedError as core::convert::From<::whirlpool::errors::ErrorCode>>::from, stub_unified_from_code)]
fn c07_frame_inside_anchor() {
    frame::<Anchor>();
}

/// L4 `next_position_modify_liquidity_update` (tokens A, B): credit structure with `checked_mul_shift_right` uninterpreted: owed += F(L, inside - checkpoint mod 2^128), +0 when F overflows; checkpoint := inside; liquidity += delta or error
// @verif prop=C07 tier=quick timeout=300
#[kani::proof]
#[kani::unwind(34)]
#[kani::stub(alloc::fmt::format, stub_format)]
#[kani::stub(<anchor_lang::error::Error as core::convert::From<::whirlpool::errors::ErrorCode>>::from, stub_err_from_code)]
#[kani::stub(<::whirlpool::pinocchio::errors::UnifiedError as core::convert::From<::whirlpool::errors::ErrorCode>>::from, stub_unified_from_code)]
#[kani::stub(::whirlpool::math::bit_math::checked_mul_shift_right, stub_mul_shift)]
fn c07_l4_credit_anchor() {
    l4::<Anchor>();
}

/// L1 `pino_next_fee_growths_inside` token A: global += x at fixed current tick, cur < lower: inside unchanged; both bounds initialised, all u128 values incl. wrap-around
// @verif prop=C07 tier=quick timeout=300
#[kani::proof]
#[kani::unwind(34)]
#[kani::stub(alloc::fmt::format, stub_format)]
#[kani::stub(<anchor_lang::error::Error as core::convert::From<::whirlpool::errors::ErrorCode>>::from, stub_err_from_code)]
#[kani::stub(<::whirlpool::pinocchio::errors::UnifiedError as core::convert::From<::whirlpool::errors::ErrorCode>>::from, stub_unified_from_code)]
fn c07_l1_a_below_pino() {
    l1::<Pino>(TOKEN_A, BELOW);
}

/// L1 `pino_next_fee_growths_inside` token A: global += x at fixed current tick, lower <= cur < upper: inside grows by exactly x; both bounds initialised, all u128 values incl. wrap-around
// @verif prop=C07 tier=quick timeout=300
#[kani::proof]
#[kani::unwind(34)]
#[kani::stub(alloc::fmt::format, stub_format)]
#[kani::stub(<anchor_lang::error::Error as core::convert::From<::whirlpool::errors::ErrorCode>>::from, stub_err_from_code)]
#[kani::stub(<::whirlpool::pinocchio::errors::UnifiedError as core::convert::From<::whirlpool::errors::ErrorCode>>::from, stub_unified_from_code)]
fn c07_l1_a_inside_pino() {
    l1::<Pino>(TOKEN_A, INSIDE);
}

/// L1 `pino_next_fee_growths_inside` token A: global += x at fixed current tick, cur >= upper: inside unchanged; both bounds initialised, all u128 values incl. wrap-around
// @verif prop=C07 tier=quick timeout=300
#[kani::proof]
#[kani::unwind(34)]
#[kani::stub(alloc::fmt::format, stub_format)]
#[kani::stub(<anchor_lang::error::Error as core::convert::From<::whirlpool::errors::ErrorCode>>::from, stub_err_from_code)]
#[kani::stub(<::whirlpool::pinocchio::errors::UnifiedError as core::convert::From<::whirlpool::errors::ErrorCode>>::from, stub_unified_from_code)]
fn c07_l1_a_above_pino() {
    l1::<Pino>(TOKEN_A, ABOVE);
}

/// L1 `pino_next_fee_growths_inside` token B: global += x at fixed current tick, cur < lower: inside unchanged; both bounds initialised, all u128 values incl. wrap-around
// @verif prop=C07 tier=quick timeout=300
#[kani::proof]
#[kani::unwind(34)]
#[kani::stub(alloc::fmt::format, stub_format)]
#[kani::stub(<anchor_lang::error::Error as core::convert::From<::whirlpool::errors::ErrorCode>>::from, stub_err_from_code)]
#[kani::stub(<::whirlpool::pinocchio::errors::UnifiedError as core::convert::From<::whirlpool::errors::ErrorCode>>::from, stub_unified_from_code)]
fn c07_l1_b_below_pino() {
    l1::<Pino>(TOKEN_B, BELOW);
}

/// L1 `pino_next_fee_growths_inside` token B: global += x at fixed current tick, lower <= cur < upper: inside grows by exactly x; both bounds initialised, all u128 values incl. wrap-around
// @verif prop=C07 tier=quick timeout=300
#[kani::proof]
#[kani::unwind(34)]
#[kani::stub(alloc::fmt::format, stub_format)]
#[kani::stub(<anchor_lang::error::Error as core::convert::From<::whirlpool::errors::ErrorCode>>::from, stub_err_from_code)]
#[kani::stub(<::whirlpool::pinocchio::errors::UnifiedError as core::convert::From<::whirlpool::errors::ErrorCode>>::from, stub_unified_from_code)]
fn c07_l1_b_inside_pino() {
    l1::<Pino>(TOKEN_B, INSIDE);
}

/// L1 `pino_next_fee_growths_inside` token B: global += x at fixed current tick, cur >= upper: inside unchanged; both bounds initialised, all u128 values incl. wrap-around
// @verif prop=C07 tier=quick timeout=300
#[kani::proof]
#[kani::unwind(34)]
#[kani::stub(alloc::fmt::format, stub_format)]
#[kani::stub(<anchor_lang::error::Error as core::convert::From<::whirlpool::errors::ErrorCode>>::from, stub_err_from_code)]
#[kani::stub(<::whirlpool::pinocchio::errors::UnifiedError as core::convert::From<::whirlpool::errors::ErrorCode>>::from, stub_unified_from_code)]
fn c07_l1_b_above_pino() {
    l1::<Pino>(TOKEN_B, ABOVE);
}

/// L1/L3 `pino_next_fee_growths_inside` + `pino_next_tick_modify_liquidity_update` token A: an uninitialised bound counts exactly like the tick the first deposit creates (all 3 combinations with an uninitialised bound), current tick below
// @verif prop=C07 tier=quick timeout=300
#[kani::proof]
#[kani::unwind(34)]
#[kani::stub(alloc::fmt::format, stub_format)]
#[kani::stub(<anchor_lang::error::Error as core::convert::From<::whirlpool::errors::ErrorCode>>::from, stub_err_from_code)]
#[kani::stub(<::whirlpool::pinocchio::errors::UnifiedError as core::convert::From<::whirlpool::errors::ErrorCode>>::from, stub_unified_from_code)]
fn c07_conv_a_below_pino() {
    conv::<Pino>(TOKEN_A, BELOW);
}

/// L1/L3 `pino_next_fee_growths_inside` + `pino_next_tick_modify_liquidity_update` token A: an uninitialised bound counts exactly like the tick the first deposit creates (all 3 combinations with an uninitialised bound), current tick inside
// @verif prop=C07 tier=quick timeout=300
#[kani::proof]
#[kani::unwind(34)]
#[kani::stub(alloc::fmt::format, stub_format)]
#[kani::stub(<anchor_lang::error::Error as core::convert::From<::whirlpool::errors::ErrorCode>>::from, stub_err_from_code)]
#[kani::stub(<::whirlpool::pinocchio::errors::UnifiedError as core::convert::From<::whirlpool::errors::ErrorCode>>::from, stub_unified_from_code)]
fn c07_conv_a_inside_pino() {
    conv::<Pino>(TOKEN_A, INSIDE);
}

/// L1/L3 `pino_next_fee_growths_inside` + `pino_next_tick_modify_liquidity_update` token A: an uninitialised bound counts exactly like the tick the first deposit creates (all 3 combinations with an uninitialised bound), current tick above
// @verif prop=C07 tier=quick timeout=300
#[kani::proof]
#[kani::unwind(34)]
#[kani::stub(alloc::fmt::format, stub_format)]
#[kani::stub(<anchor_lang::error::Error as core::convert::From<::whirlpool::errors::ErrorCode>>::from, stub_err_from_code)]
#[kani::stub(<::whirlpool::pinocchio::errors::UnifiedError as core::convert::From<::whirlpool::errors::ErrorCode>>::from, stub_unified_from_code)]
fn c07_conv_a_above_pino() {
    conv::<Pino>(TOKEN_A, ABOVE);
}

/// L1/L3 `pino_next_fee_growths_inside` + `pino_next_tick_modify_liquidity_update` token B: an uninitialised bound counts exactly like the tick the first deposit creates (all 3 combinations with an uninitialised bound), current tick below
// @verif prop=C07 tier=quick timeout=300
#[kani::proof]
#[kani::unwind(34)]
#[kani::stub(alloc::fmt::format, stub_format)]
#[kani::stub(<anchor_lang::error::Error as core::convert::From<::whirlpool::errors::ErrorCode>>::from, stub_err_from_code)]
#[kani::stub(<::whirlpool::pinocchio::errors::UnifiedError as core::convert::From<::whirlpool::errors::ErrorCode>>::from, stub_unified_from_code)]
fn c07_conv_b_below_pino() {
    conv::<Pino>(TOKEN_B, BELOW);
}

/// L1/L3 `pino_next_fee_growths_inside` + `pino_next_tick_modify_liquidity_update` token B: an uninitialised bound counts exactly like the tick the first deposit creates (all 3 combinations with an uninitialised bound), current tick inside
// @verif prop=C07 tier=quick timeout=300
#[kani::proof]
#[kani::unwind(34)]
#[kani::stub(alloc::fmt::format, stub_format)]
#[kani::stub(<anchor_lang::error::Error as core::convert::From<::whirlpool::errors::ErrorCode>>::from, stub_err_from_code)]
#[kani::stub(<::whirlpool::pinocchio::errors::UnifiedError as core::convert::From<::whirlpool::errors::ErrorCode>>::from, stub_unified_from_code)]
fn c07_conv_b_inside_pino() {
    conv::<Pino>(TOKEN_B, INSIDE);
}

/// L1/L3 `pino_next_fee_growths_inside` + `pino_next_tick_modify_liquidity_update` token B: an uninitialised bound counts exactly like the tick the first deposit creates (all 3 combinations with an uninitialised bound), current tick above
// @verif prop=C07 tier=quick timeout=300
#[kani::proof]
#[kani::unwind(34)]
#[kani::stub(alloc::fmt::format, stub_format)]
#[kani::stub(<anchor_lang::error::Error as core::convert::From<::whirlpool::errors::ErrorCode>>::from, stub_err_from_code)]
#[kani::stub(<::whirlpool::pinocchio::errors::UnifiedError as core::convert::From<::whirlpool::errors::ErrorCode>>::from, stub_unified_from_code)]
fn c07_conv_b_above_pino() {
    conv::<Pino>(TOKEN_B, ABOVE);
}

/// L2 `next_tick_cross_update` + `pino_next_fee_growths_inside` token A: crossing initialised tick t leaves `inside` of range [lower, upper) unchanged; t == lower, a_to_b (cur >= t before, t - 1 after)
// @verif prop=C07 tier=quick timeout=300
#[kani::proof]
#[kani::unwind(34)]
#[kani::stub(alloc::fmt::format, stub_format)]
#[kani::stub(<anchor_lang::error::Error as core::convert::From<::whirlpool::errors::ErrorCode>>::from, stub_err_from_code)]
#[kani::stub(<::whirlpool::pinocchio::errors::UnifiedError as core::convert::From<::whirlpool::errors::ErrorCode>>::from, stub_unified_from_code)]
fn c07_l2_a_lower_down_pino() {
    l2::<Pino>(TOKEN_A, LOWER, true);
}

/// L2 `next_tick_cross_update` + `pino_next_fee_growths_inside` token A: crossing initialised tick t leaves `inside` of range [lower, upper) unchanged; t == lower, b_to_a (cur < t before, t after)
// @verif prop=C07 tier=quick timeout=300
#[kani::proof]
#[kani::unwind(34)]
#[kani::stub(alloc::fmt::format, stub_format)]
#[kani::stub(<anchor_lang::error::Error as core::convert::From<::whirlpool::errors::ErrorCode>>::from, stub_err_from_code)]
#[kani::stub(<::whirlpool::pinocchio::errors::UnifiedError as core::convert::From<::whirlpool::errors::ErrorCode>>::from, stub_unified_from_code)]
fn c07_l2_a_lower_up_pino() {
    l2::<Pino>(TOKEN_A, LOWER, false);
}

/// L2 `next_tick_cross_update` + `pino_next_fee_growths_inside` token A: crossing initialised tick t leaves `inside` of range [lower, upper) unchanged; t == upper, a_to_b (cur >= t before, t - 1 after)
// @verif prop=C07 tier=quick timeout=300
#[kani::proof]
#[kani::unwind(34)]
#[kani::stub(alloc::fmt::format, stub_format)]
#[kani::stub(<anchor_lang::error::Error as core::convert::From<::whirlpool::errors::ErrorCode>>::from, stub_err_from_code)]
#[kani::stub(<::whirlpool::pinocchio::errors::UnifiedError as core::convert::From<::whirlpool::errors::ErrorCode>>::from, stub_unified_from_code)]
fn c07_l2_a_upper_down_pino() {
    l2::<Pino>(TOKEN_A, UPPER, true);
}

/// L2 `next_tick_cross_update` + `pino_next_fee_growths_inside` token A: crossing initialised tick t leaves `inside` of range [lower, upper) unchanged; t == upper, b_to_a (cur < t before, t after)
// @verif prop=C07 tier=quick timeout=300
#[kani::proof]
#[kani::unwind(34)]
#[kani::stub(alloc::fmt::format, stub_format)]
#[kani::stub(<anchor_lang::error::Error as core::convert::From<::whirlpool::errors::ErrorCode>>::from, stub_err_from_code)]
#[kani::stub(<::whirlpool::pinocchio::errors::UnifiedError as core::convert::From<::whirlpool::errors::ErrorCode>>::from, stub_unified_from_code)]
fn c07_l2_a_upper_up_pino() {
    l2::<Pino>(TOKEN_A, UPPER, false);
}

/// L2 `next_tick_cross_update` + `pino_next_fee_growths_inside` token A: crossing initialised tick t leaves `inside` of range [lower, upper) unchanged; t is neither bound (below / above / strictly inside the range), a_to_b (cur >= t before, t - 1 after)
// @verif prop=C07 tier=quick timeout=300
#[kani::proof]
#[kani::unwind(34)]
#[kani::stub(alloc::fmt::format, stub_format)]
#[kani::stub(<anchor_lang::error::Error as core::convert::From<::whirlpool::errors::ErrorCode>>::from, stub_err_from_code)]
#[kani::stub(<::whirlpool::pinocchio::errors::UnifiedError as core::convert::From<::whirlpool::errors::ErrorCode>>::from, stub_unified_from_code)]
fn c07_l2_a_other_down_pino() {
    l2::<Pino>(TOKEN_A, OTHER, true);
}

/// L2 `next_tick_cross_update` + `pino_next_fee_growths_inside` token A: crossing initialised tick t leaves `inside` of range [lower, upper) unchanged; t is neither bound (below / above / strictly inside the range), b_to_a (cur < t before, t after)
// @verif prop=C07 tier=quick timeout=300
#[kani::proof]
#[kani::unwind(34)]
#[kani::stub(alloc::fmt::format, stub_format)]
#[kani::stub(<anchor_lang::error::Error as core::convert::From<::whirlpool::errors::ErrorCode>>::from, stub_err_from_code)]
#[kani::stub(<::whirlpool::pinocchio::errors::UnifiedError as core::convert::From<::whirlpool::errors::ErrorCode>>::from, stub_unified_from_code)]
fn c07_l2_a_other_up_pino() {
    l2::<Pino>(TOKEN_A, OTHER, false);
}

/// L2 `next_tick_cross_update` + `pino_next_fee_growths_inside` token B: crossing initialised tick t leaves `inside` of range [lower, upper) unchanged; t == lower, a_to_b (cur >= t before, t - 1 after)
// @verif prop=C07 tier=quick timeout=300
#[kani::proof]
#[kani::unwind(34)]
#[kani::stub(alloc::fmt::format, stub_format)]
#[kani::stub(<anchor_lang::error::Error as core::convert::From<::whirlpool::errors::ErrorCode>>::from, stub_err_from_code)]
#[kani::stub(<::whirlpool::pinocchio::errors::UnifiedError as core::convert::From<::whirlpool::errors::ErrorCode>>::from, stub_unified_from_code)]
fn c07_l2_b_lower_down_pino() {
    l2::<Pino>(TOKEN_B, LOWER, true);
}

/// L2 `next_tick_cross_update` + `pino_next_fee_growths_inside` token B: crossing initialised tick t leaves `inside` of range [lower, upper) unchanged; t == lower, b_to_a (cur < t before, t after)
// @verif prop=C07 tier=quick timeout=300
#[kani::proof]
#[kani::unwind(34)]
#[kani::stub(alloc::fmt::format, stub_format)]
#[kani::stub(<anchor_lang::error::Error as core::convert::From<::whirlpool::errors::ErrorCode>>::from, stub_err_from_code)]
#[kani::stub(<::whirlpool::pinocchio::errors::UnifiedError as core::convert::From<::whirlpool::errors::ErrorCode>>::from, stub_unified_from_code)]
fn c07_l2_b_lower_up_pino() {
    l2::<Pino>(TOKEN_B, LOWER, false);
}

/// L2 `next_tick_cross_update` + `pino_next_fee_growths_inside` token B: crossing initialised tick t leaves `inside` of range [lower, upper) unchanged; t == upper, a_to_b (cur >= t before, t - 1 after)
// @verif prop=C07 tier=quick timeout=300
#[kani::proof]
#[kani::unwind(34)]
#[kani::stub(alloc::fmt::format, stub_format)]
#[kani::stub(<anchor_lang::error::Error as core::convert::From<::whirlpool::errors::ErrorCode>>::from, stub_err_from_code)]
#[kani::stub(<::whirlpool::pinocchio::errors::UnifiedError as core::convert::From<::whirlpool::errors::ErrorCode>>::from, stub_unified_from_code)]
fn c07_l2_b_upper_down_pino() {
    l2::<Pino>(TOKEN_B, UPPER, true);
}

/// L2 `next_tick_cross_update` + `pino_next_fee_growths_inside` token B: crossing initialised tick t leaves `inside` of range [lower, upper) unchanged; t == upper, b_to_a (cur < t before, t after)
// @verif prop=C07 tier=quick timeout=300
#[kani::proof]
#[kani::unwind(34)]
#[kani::stub(alloc::fmt::format, stub_format)]
#[kani::stub(<anchor_lang::error::Error as core::convert::From<::whirlpool::errors::ErrorCode>>::from, stub_err_from_code)]
#[kani::stub(<::whirlpool::pinocchio::errors::UnifiedError as core::convert::From<::whirlpool::errors::ErrorCode>>::from, stub_unified_from_code)]
fn c07_l2_b_upper_up_pino() {
    l2::<Pino>(TOKEN_B, UPPER, false);
}

/// L2 `next_tick_cross_update` + `pino_next_fee_growths_inside` token B: crossing initialised tick t leaves `inside` of range [lower, upper) unchanged; t is neither bound (below / above / strictly inside the range), a_to_b (cur >= t before, t - 1 after)
// @verif prop=C07 tier=quick timeout=300
#[kani::proof]
#[kani::unwind(34)]
#[kani::stub(alloc::fmt::format, stub_format)]
#[kani::stub(<anchor_lang::error::Error as core::convert::From<::whirlpool::errors::ErrorCode>>::from, stub_err_from_code)]
#[kani::stub(<::whirlpool::pinocchio::errors::UnifiedError as core::convert::From<::whirlpool::errors::ErrorCode>>::from, stub_unified_from_code)]
fn c07_l2_b_other_down_pino() {
    l2::<Pino>(TOKEN_B, OTHER, true);
}

/// L2 `next_tick_cross_update` + `pino_next_fee_growths_inside` token B: crossing initialised tick t leaves `inside` of range [lower, upper) unchanged; t is neither bound (below / above / strictly inside the range), b_to_a (cur < t before, t after)
// @verif prop=C07 tier=quick timeout=300
#[kani::proof]
#[kani::unwind(34)]
#[kani::stub(alloc::fmt::format, stub_format)]
#[kani::stub(<anchor_lang::error::Error as core::convert::From<::whirlpool::errors::ErrorCode>>::from, stub_err_from_code)]
#[kani::stub(<::whirlpool::pinocchio::errors::UnifiedError as core::convert::From<::whirlpool::errors::ErrorCode>>::from, stub_unified_from_code)]
fn c07_l2_b_other_up_pino() {
    l2::<Pino>(TOKEN_B, OTHER, false);
}

/// L3 `pino_next_tick_modify_liquidity_update`: initialisation convention outside := global iff tick_index <= cur (A and B); outside and `initialized` untouched while gross != 0; zero tick on de-initialisation
// @verif prop=C07 tier=quick timeout=300
#[kani::proof]
#[kani::unwind(34)]
#[kani::stub(alloc::fmt::format, stub_format)]
#[kani::stub(<anchor_lang::error::Error as core::convert::From<::whirlpool::errors::ErrorCode>>::from, stub_err_from_code)]
#[kani::stub(<::whirlpool::pinocchio::errors::UnifiedError as core::convert::From<::whirlpool::errors::ErrorCode>>::from, stub_unified_from_code)]
fn c07_l3_modify_pino() {
    l3::<Pino>();
}

/// frame `pino_next_fee_growths_inside`: depends on a bound tick only through `initialized` and `fee_growth_outside_a/b` (other ranges sharing a bound, other ticks: no influence)
// @verif prop=C07 tier=quick timeout=300
#[kani::proof]
#[kani::unwind(34)]
#[kani::stub(alloc::fmt::format, stub_format)]
#[kani::stub(<anchor_lang::error::Error as core::convert::From<::whirlpool::errors::ErrorCode>>::from, stub_err_from_code)]
#[kani::stub(<::whirlpool::pinocchio::errors::UnifiedError as core::convert::From<::whirlpool::errors::ErrorCode>>::from, stub_unified_from_code)]
fn c07_frame_inside_pino() {
    frame::<Pino>();
}

/// L4 `pino_next_position_modify_liquidity_update` (tokens A, B): credit structure with `checked_mul_shift_right` uninterpreted: owed += F(L, inside - checkpoint mod 2^128), +0 when F overflows; checkpoint := inside; liquidity += delta or error
// @verif prop=C07 tier=quick timeout=300
#[kani::proof]
#[kani::unwind(34)]
#[kani::stub(alloc::fmt::format, stub_format)]
#[kani::stub(<anchor_lang::error::Error as core::convert::From<::whirlpool::errors::ErrorCode>>::from, stub_err_from_code)]
#[kani::stub(<::whirlpool::pinocchio::errors::UnifiedError as core::convert::From<::whirlpool::errors::ErrorCode>>::from, stub_unified_from_code)]
#[kani::stub(::whirlpool::math::bit_math::checked_mul_shift_right, stub_mul_shift)]
fn c07_l4_credit_pino() {
    l4::<Pino>();
}

/// vacuity twin: flipping the lower bound WITHOUT the loop's tick shift changes `inside` — must FAIL
// @verif prop=C07 tier=quick timeout=300 twin
#[kani::proof]
#[kani::unwind(34)]
#[kani::stub(alloc::fmt::format, stub_format)]
#[kani::stub(<anchor_lang::error::Error as core::convert::From<::whirlpool::errors::ErrorCode>>::from, stub_err_from_code)]
#[kani::stub(<::whirlpool::pinocchio::errors::UnifiedError as core::convert::From<::whirlpool::errors::ErrorCode>>::from, stub_unified_from_code)]
fn c07_twin_must_fail() {
    let lo = any_tick();
    let up = any_tick();
    let tl: i32 = kani::any();
    let tu: i32 = kani::any();
    let cur: i32 = kani::any();
    let ga: u128 = kani::any();
    let gb: u128 = kani::any();
    let rw = Rw::any();
    kani::assume(tl < tu && t_init(&lo) && t_init(&up));
    kani::assume(tl <= cur && cur < tu);
    let nlo = cross(&lo, ga, gb, &rw);
    let i0 = Anchor::fee_inside(cur, &lo, tl, &up, tu, ga, gb);
    let i1 = Anchor::fee_inside(cur, &nlo, tl, &up, tu, ga, gb);
    assert!(i0.0 == i1.0, "twin: flipping a bound without moving the current tick must change inside");
}
