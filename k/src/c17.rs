//! C17 harnesses (Engine K)
