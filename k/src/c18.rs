//! C18 — positions are opened, closed, re-ranged, locked and bundled only consistently (Engine K).
//!
//! Function level (quick tier): tick-range validation (Anchor + Pinocchio), `open_position`,
//! `reset_position_range` (both runtimes, differential), `is_position_empty`, one-sided tick
//! resolution (tick math = contract stubs T1/T2), `PositionBundle` bitmap, lock predicates.
//! Handler level (thorough tier): close / lock / reset handlers up to the first CPI, Pinocchio
//! decrease/increase prefixes, CPI log of `mint_position_token_and_remove_authority`.
use crate::common::*;
use anchor_lang::prelude::{Account, AccountInfo, Pubkey};
use anchor_lang::Discriminator;
use ::whirlpool::errors::ErrorCode;
use ::whirlpool::pinocchio::state::whirlpool::{MemoryMappedPosition, MemoryMappedWhirlpool};
use ::whirlpool::state::{
    Position, PositionBundle, PositionRewardInfo, Whirlpool, MAX_TICK_INDEX, MIN_TICK_INDEX,
};

const WP_LEN: usize = 653;
const POS_LEN: usize = 216;
/// byte offset of `tick_spacing` in a Whirlpool account (disc 8 + config 32 + bump 1)
const WP_TICK_SPACING: usize = 41;
const FULL_RANGE_ONLY: u16 = 32768;

// ------------------------------------------------------------------------------------------------
// specification side (written independently of the code under test)

/// "usable tick": inside the protocol bounds and a multiple of the spacing
fn spec_usable(t: i32, s: u16) -> bool {
    let s = s as i32;
    t >= MIN_TICK_INDEX && t <= MAX_TICK_INDEX && (t / s) * s == t
}
/// the full range for a spacing = from the smallest usable tick to the largest usable tick
fn spec_is_full_range(lo: i32, hi: i32, s: u16) -> bool {
    spec_usable(lo, s)
        && spec_usable(hi, s)
        && lo - (s as i32) < MIN_TICK_INDEX
        && hi + (s as i32) > MAX_TICK_INDEX
}
/// validity of a range given the usability of its two bounds
fn spec_valid_from(u_lo: bool, u_hi: bool, lo: i32, hi: i32, s: u16) -> bool {
    u_lo && u_hi && lo < hi && (s < FULL_RANGE_ONLY || spec_is_full_range(lo, hi, s))
}
fn spec_valid_range(lo: i32, hi: i32, s: u16) -> bool {
    spec_valid_from(spec_usable(lo, s), spec_usable(hi, s), lo, hi, s)
}
/// error code demanded for an invalid range (usable/ordering is reported before full-range-only)
fn spec_error_from(u_lo: bool, u_hi: bool, lo: i32, hi: i32) -> u32 {
    if !(u_lo && u_hi && lo < hi) {
        ecode(ErrorCode::InvalidTickIndex)
    } else {
        ecode(ErrorCode::FullRangeOnlyPool)
    }
}
fn spec_range_error(lo: i32, hi: i32, s: u16) -> u32 {
    spec_error_from(spec_usable(lo, s), spec_usable(hi, s), lo, hi)
}

/// Uninterpreted replacement of `Tick::check_is_usable_tick(t, s)` for the harness that quantifies over
/// every u16 spacing: two bit-blasted 32-bit remainders by the same symbolic divisor cannot be related
/// by the SAT back end (measured: > 600 s even for spacing <= 255). Exact on the bounds part, an arbitrary
/// but fixed answer per (t, s) otherwise; the definition itself (in bounds ∧ t % s == 0) is
/// `c18_usable_tick_definition`, and the real function runs unstubbed in the spacing-set harnesses.
mod usable_memo {
    use super::{MAX_TICK_INDEX, MIN_TICK_INDEX};
    const N: usize = 4;
    static mut K: [(i32, u16); N] = [(0, 0); N];
    static mut V: [bool; N] = [false; N];
    static mut CNT: usize = 0;
    pub fn stub_check_is_usable_tick(t: i32, s: u16) -> bool {
        if t < MIN_TICK_INDEX || t > MAX_TICK_INDEX {
            return false;
        }
        unsafe {
            let mut i = 0;
            while i < CNT {
                if K[i] == (t, s) {
                    return V[i];
                }
                i += 1;
            }
            assert!(CNT < N, "memo table bound (check_is_usable_tick)");
            let v: bool = kani::any();
            K[CNT] = (t, s);
            V[CNT] = v;
            CNT += 1;
            v
        }
    }
}

// ------------------------------------------------------------------------------------------------
// builders

/// Whirlpool account bytes: discriminator + the given tick spacing, everything else zero (no other
/// field is read by the functions checked at this level)
fn wp_bytes(tick_spacing: u16) -> [u8; WP_LEN] {
    let mut d = [0u8; WP_LEN];
    d[..8].copy_from_slice(Whirlpool::DISCRIMINATOR);
    d[WP_TICK_SPACING..WP_TICK_SPACING + 2].copy_from_slice(&tick_spacing.to_le_bytes());
    d
}
fn mwp(b: &[u8; WP_LEN]) -> &MemoryMappedWhirlpool {
    unsafe { &*(b.as_ptr() as *const MemoryMappedWhirlpool) }
}
fn mpos(b: &mut [u8; POS_LEN]) -> &mut MemoryMappedPosition {
    unsafe { &mut *(b.as_mut_ptr() as *mut MemoryMappedPosition) }
}

#[derive(Clone, Copy)]
struct PosFields {
    whirlpool: [u8; 32],
    mint: [u8; 32],
    liquidity: u128,
    lo: i32,
    hi: i32,
    cp_a: u128,
    owed_a: u64,
    cp_b: u128,
    owed_b: u64,
    r_cp: [u128; 3],
    r_owed: [u64; 3],
}
fn any_pos_fields() -> PosFields {
    PosFields {
        whirlpool: kani::any(),
        mint: kani::any(),
        liquidity: kani::any(),
        lo: kani::any(),
        hi: kani::any(),
        cp_a: kani::any(),
        owed_a: kani::any(),
        cp_b: kani::any(),
        owed_b: kani::any(),
        r_cp: kani::any(),
        r_owed: kani::any(),
    }
}
impl PosFields {
    fn empty(&self) -> bool {
        self.liquidity == 0
            && self.owed_a == 0
            && self.owed_b == 0
            && self.r_owed[0] == 0
            && self.r_owed[1] == 0
            && self.r_owed[2] == 0
    }
    fn anchor(&self) -> Position {
        Position {
            whirlpool: Pubkey::new_from_array(self.whirlpool),
            position_mint: Pubkey::new_from_array(self.mint),
            liquidity: self.liquidity,
            tick_lower_index: self.lo,
            tick_upper_index: self.hi,
            fee_growth_checkpoint_a: self.cp_a,
            fee_owed_a: self.owed_a,
            fee_growth_checkpoint_b: self.cp_b,
            fee_owed_b: self.owed_b,
            reward_infos: [
                PositionRewardInfo { growth_inside_checkpoint: self.r_cp[0], amount_owed: self.r_owed[0] },
                PositionRewardInfo { growth_inside_checkpoint: self.r_cp[1], amount_owed: self.r_owed[1] },
                PositionRewardInfo { growth_inside_checkpoint: self.r_cp[2], amount_owed: self.r_owed[2] },
            ],
        }
    }
    /// account bytes in the layout of `state/position.rs` (borsh = packed little endian)
    fn bytes(&self) -> [u8; POS_LEN] {
        let mut d = [0u8; POS_LEN];
        d[..8].copy_from_slice(Position::DISCRIMINATOR);
        d[8..40].copy_from_slice(&self.whirlpool);
        d[40..72].copy_from_slice(&self.mint);
        d[72..88].copy_from_slice(&self.liquidity.to_le_bytes());
        d[88..92].copy_from_slice(&self.lo.to_le_bytes());
        d[92..96].copy_from_slice(&self.hi.to_le_bytes());
        d[96..112].copy_from_slice(&self.cp_a.to_le_bytes());
        d[112..120].copy_from_slice(&self.owed_a.to_le_bytes());
        d[120..136].copy_from_slice(&self.cp_b.to_le_bytes());
        d[136..144].copy_from_slice(&self.owed_b.to_le_bytes());
        let mut i = 0;
        while i < 3 {
            let o = 144 + 24 * i;
            d[o..o + 16].copy_from_slice(&self.r_cp[i].to_le_bytes());
            d[o + 16..o + 24].copy_from_slice(&self.r_owed[i].to_le_bytes());
            i += 1;
        }
        d
    }
}
fn rd16(d: &[u8; POS_LEN], o: usize) -> u128 {
    let mut b = [0u8; 16];
    let mut i = 0;
    while i < 16 {
        b[i] = d[o + i];
        i += 1;
    }
    u128::from_le_bytes(b)
}
fn rd8(d: &[u8; POS_LEN], o: usize) -> u64 {
    let mut b = [0u8; 8];
    let mut i = 0;
    while i < 8 {
        b[i] = d[o + i];
        i += 1;
    }
    u64::from_le_bytes(b)
}
/// byte-exact comparison of account bytes with the expected field values (no memcmp loop)
fn bytes_are(d: &[u8; POS_LEN], f: &PosFields) -> bool {
    let mut ok = rd8(d, 0) == u64::from_le_bytes(Position::DISCRIMINATOR.try_into().unwrap());
    ok = ok && rd16(d, 8) == rd16_32(&f.whirlpool, 0) && rd16(d, 24) == rd16_32(&f.whirlpool, 16);
    ok = ok && rd16(d, 40) == rd16_32(&f.mint, 0) && rd16(d, 56) == rd16_32(&f.mint, 16);
    ok = ok && rd16(d, 72) == f.liquidity;
    ok = ok && (rd8(d, 88) as u32) as i32 == f.lo && ((rd8(d, 88) >> 32) as u32) as i32 == f.hi;
    ok = ok && rd16(d, 96) == f.cp_a && rd8(d, 112) == f.owed_a;
    ok = ok && rd16(d, 120) == f.cp_b && rd8(d, 136) == f.owed_b;
    let mut i = 0;
    while i < 3 {
        let o = 144 + 24 * i;
        ok = ok && rd16(d, o) == f.r_cp[i] && rd8(d, o + 16) == f.r_owed[i];
        i += 1;
    }
    ok
}
fn rd16_32(d: &[u8; 32], o: usize) -> u128 {
    let mut b = [0u8; 16];
    let mut i = 0;
    while i < 16 {
        b[i] = d[o + i];
        i += 1;
    }
    u128::from_le_bytes(b)
}
fn same_as_fields(p: &Position, f: &PosFields) -> bool {
    p.whirlpool.to_bytes() == f.whirlpool
        && p.position_mint.to_bytes() == f.mint
        && p.liquidity == f.liquidity
        && p.tick_lower_index == f.lo
        && p.tick_upper_index == f.hi
        && p.fee_growth_checkpoint_a == f.cp_a
        && p.fee_owed_a == f.owed_a
        && p.fee_growth_checkpoint_b == f.cp_b
        && p.fee_owed_b == f.owed_b
        && p.reward_infos[0].growth_inside_checkpoint == f.r_cp[0]
        && p.reward_infos[1].growth_inside_checkpoint == f.r_cp[1]
        && p.reward_infos[2].growth_inside_checkpoint == f.r_cp[2]
        && p.reward_infos[0].amount_owed == f.r_owed[0]
        && p.reward_infos[1].amount_owed == f.r_owed[1]
        && p.reward_infos[2].amount_owed == f.r_owed[2]
}

/// Both `validate_tick_range_for_whirlpool` are private: the Anchor one is reached through
/// `Position::open_position` (which does nothing else before it), the Pinocchio one through
/// `MemoryMappedPosition::reset_position_range` on an empty position holding a different range.
fn anchor_validate(wp_data: &mut [u8; WP_LEN], wp_key: &Pubkey, lo: i32, hi: i32) -> (Result<(), u32>, Position) {
    let program_id = ::whirlpool::ID;
    let mut lamports = 1u64;
    let ai = AccountInfo::new(wp_key, false, false, &mut lamports, &mut wp_data[..], &program_id, false, 0);
    let wp: Account<Whirlpool> = Account::try_from(&ai).unwrap();
    let mut pos = Position::default();
    let mint = Pubkey::new_from_array([7u8; 32]);
    let r = pos.open_position(&wp, mint, lo, hi);
    let out = match &r {
        Ok(()) => Ok(()),
        Err(e) => Err(acode(e)),
    };
    core::mem::forget(r);
    core::mem::forget(wp);
    (out, pos)
}
fn pino_validate(wp_data: &[u8; WP_LEN], old: (i32, i32), lo: i32, hi: i32) -> Result<(), u32> {
    let mut f = PosFields {
        whirlpool: [0; 32], mint: [0; 32], liquidity: 0, lo: old.0, hi: old.1, cp_a: 0, owed_a: 0,
        cp_b: 0, owed_b: 0, r_cp: [0; 3], r_owed: [0; 3],
    };
    f.lo = old.0;
    let mut pb = f.bytes();
    let r = mpos(&mut pb).reset_position_range(mwp(wp_data), lo, hi, true);
    let out = match &r {
        Ok(()) => Ok(()),
        Err(e) => Err(ucode(e)),
    };
    core::mem::forget(r);
    out
}

/// spacing drawn from {1, 8, 64, 128, 32896}: smallest, two deployed ones, the largest ordinary one used by
/// the splash-pool tier boundary, and a full-range-only one
fn any_spacing_from_set() -> u16 {
    let which: u8 = kani::any();
    match which {
        0 => 1,
        1 => 8,
        2 => 64,
        3 => 128,
        _ => 32896,
    }
}

fn check_validate(s: u16, abstract_usable: bool) {
    let lo: i32 = kani::any();
    let hi: i32 = kani::any();
    let old_lo: i32 = kani::any();
    let old_hi: i32 = kani::any();
    let key: [u8; 32] = kani::any();
    kani::assume(s >= 1); // documented validity predicate: every pool has tick_spacing >= 1
    kani::assume(old_lo != lo || old_hi != hi);
    let mut wd = wp_bytes(s);
    let wp_key = Pubkey::new_from_array(key);
    let p = pino_validate(&wd, (old_lo, old_hi), lo, hi);
    let (a, pos) = anchor_validate(&mut wd, &wp_key, lo, hi);
    let (u_lo, u_hi) = if abstract_usable {
        (usable_memo::stub_check_is_usable_tick(lo, s), usable_memo::stub_check_is_usable_tick(hi, s))
    } else {
        (spec_usable(lo, s), spec_usable(hi, s))
    };
    let valid = spec_valid_from(u_lo, u_hi, lo, hi, s);
    kani::cover!(a.is_ok() && s < FULL_RANGE_ONLY, "ordinary range accepted");
    kani::cover!(a.is_ok() && s >= FULL_RANGE_ONLY, "full range accepted on a full-range-only pool");
    kani::cover!(a == Err(ecode(ErrorCode::FullRangeOnlyPool)), "partial range refused on a full-range-only pool");
    assert!(a.is_ok() == valid, "anchor: Ok <=> valid range");
    assert!(p.is_ok() == valid, "pinocchio: Ok <=> valid range");
    assert!(a == p, "both runtimes agree, including the error code");
    if let Err(c) = a {
        assert!(c == spec_error_from(u_lo, u_hi, lo, hi));
    } else {
        // open_position on the zeroed (init) account: range set, identity set, nothing else
        assert!(pos.tick_lower_index == lo && pos.tick_upper_index == hi);
        assert!(pos.whirlpool == wp_key);
    }
}

/// validate_tick_range_for_whirlpool (Anchor via open_position, Pinocchio via reset_position_range): Ok <=> usable ∧ lower<upper ∧ (full-range-only ⇒ full range); same error codes. Symbolic lower/upper, spacing ∈ {1, 8, 64, 128, 32896}
// @verif prop=C18 tier=quick timeout=300
#[kani::proof]
#[kani::unwind(34)]
#[kani::stub(alloc::fmt::format, stub_format)]
#[kani::stub(<anchor_lang::error::Error as core::convert::From<::whirlpool::errors::ErrorCode>>::from, stub_err_from_code)]
#[kani::stub(<anchor_lang::error::Error as core::convert::From<anchor_lang::error::ErrorCode>>::from, stub_err_from_anchor_code)]
#[kani::stub(<::whirlpool::pinocchio::errors::UnifiedError as core::convert::From<::whirlpool::errors::ErrorCode>>::from, stub_unified_from_code)]
fn c18_validate_tick_range_spacing_set() {
    let s = any_spacing_from_set();
    check_validate(s, false);
}

/// the same for EVERY u16 spacing >= 1, with `Tick::check_is_usable_tick` abstracted to an uninterpreted predicate U(t, s) (false outside the tick bounds): Ok ⇔ U(lower) ∧ U(upper) ∧ lower<upper ∧ (spacing >= 2^15 ⇒ lower/upper are the smallest/largest multiples of the spacing inside the bounds); both runtimes agree incl. error codes
// @verif prop=C18 tier=quick timeout=300
#[kani::proof]
#[kani::unwind(34)]
#[kani::stub(alloc::fmt::format, stub_format)]
#[kani::stub(<anchor_lang::error::Error as core::convert::From<::whirlpool::errors::ErrorCode>>::from, stub_err_from_code)]
#[kani::stub(<anchor_lang::error::Error as core::convert::From<anchor_lang::error::ErrorCode>>::from, stub_err_from_anchor_code)]
#[kani::stub(<::whirlpool::pinocchio::errors::UnifiedError as core::convert::From<::whirlpool::errors::ErrorCode>>::from, stub_unified_from_code)]
#[kani::stub(::whirlpool::state::Tick::check_is_usable_tick, usable_memo::stub_check_is_usable_tick)]
fn c18_validate_tick_range_any_spacing() {
    let s: u16 = kani::any();
    check_validate(s, true);
}

/// definition of U: Tick::check_is_usable_tick(t, s) ⇔ MIN_TICK_INDEX <= t <= MAX_TICK_INDEX ∧ t % s == 0, all i32 t and all u16 s >= 1 (SMT back end: the two remainders are one term)
// @verif prop=C18 tier=quick timeout=300
#[kani::proof]
#[kani::solver(z3)]
fn c18_usable_tick_definition() {
    let s: u16 = kani::any();
    let t: i32 = kani::any();
    kani::assume(s >= 1);
    let u = ::whirlpool::state::Tick::check_is_usable_tick(t, s);
    kani::cover!(u, "usable");
    assert!(u == (t >= MIN_TICK_INDEX && t <= MAX_TICK_INDEX && t % (s as i32) == 0));
}

/// Position::is_position_empty <=> liquidity == 0 ∧ fee_owed_a == fee_owed_b == 0 ∧ all three reward amount_owed == 0 (all Position fields symbolic)
// @verif prop=C18 tier=quick timeout=300
#[kani::proof]
#[kani::unwind(5)]
fn c18_is_position_empty() {
    let f = any_pos_fields();
    let p = f.anchor();
    let e = Position::is_position_empty(&p);
    kani::cover!(e, "empty");
    kani::cover!(!e && f.liquidity == 0 && f.owed_a == 0 && f.owed_b == 0, "rewards alone make it non-empty");
    assert!(e == f.empty());
}

/// reset_position_range, Anchor and Pinocchio on the same position bytes: Ok ⇒ (was empty ∧ new range ≠ old ∧ new range valid) and afterwards range = new, all five growth checkpoints 0, liquidity/owed/identity untouched; Ok ⇐ those three; refusals carry the documented codes; both runtimes agree on outcome and resulting state. Symbolic position and range; spacing ∈ {1, 8, 64, 128, 32896} (range validation for every spacing is c18_validate_tick_range_any_spacing).
// @verif prop=C18 tier=quick timeout=300
#[kani::proof]
#[kani::unwind(34)]
#[kani::stub(alloc::fmt::format, stub_format)]
#[kani::stub(<anchor_lang::error::Error as core::convert::From<::whirlpool::errors::ErrorCode>>::from, stub_err_from_code)]
#[kani::stub(<anchor_lang::error::Error as core::convert::From<anchor_lang::error::ErrorCode>>::from, stub_err_from_anchor_code)]
#[kani::stub(<::whirlpool::pinocchio::errors::UnifiedError as core::convert::From<::whirlpool::errors::ErrorCode>>::from, stub_unified_from_code)]
fn c18_reset_position_range() {
    let f = any_pos_fields();
    let s = any_spacing_from_set();
    let lo: i32 = kani::any();
    let hi: i32 = kani::any();
    let key: [u8; 32] = kani::any();
    kani::assume(s >= 1); // documented validity predicate
    let mut wd = wp_bytes(s);
    let wp_key = Pubkey::new_from_array(key);

    // Pinocchio (keep_owed = false is the Anchor-equivalent mode)
    let mut pb = f.bytes();
    let pr = mpos(&mut pb).reset_position_range(mwp(&wd), lo, hi, false);
    let p = match &pr { Ok(()) => Ok(()), Err(e) => Err(ucode(e)) };
    core::mem::forget(pr);

    // Anchor
    let program_id = ::whirlpool::ID;
    let mut lamports = 1u64;
    let ai = AccountInfo::new(&wp_key, false, false, &mut lamports, &mut wd[..], &program_id, false, 0);
    let wp: Account<Whirlpool> = Account::try_from(&ai).unwrap();
    let mut pos = f.anchor();
    let ar = pos.reset_position_range(&wp, lo, hi);
    let a = match &ar { Ok(()) => Ok(()), Err(e) => Err(acode(e)) };
    core::mem::forget(ar);
    core::mem::forget(wp);

    let same = lo == f.lo && hi == f.hi;
    let valid = spec_valid_range(lo, hi, s);
    kani::cover!(a.is_ok(), "reset accepted");
    kani::cover!(a == Err(ecode(ErrorCode::SameTickRangeNotAllowed)), "same range refused");
    kani::cover!(a == Err(ecode(ErrorCode::ClosePositionNotEmpty)) && f.liquidity == 0, "owed amounts alone refuse");
    assert!(a == p, "both runtimes agree, including the error code");
    assert!(a.is_ok() == (f.empty() && !same && valid));
    let mut expect = f;
    if a.is_ok() {
        expect.lo = lo;
        expect.hi = hi;
        expect.cp_a = 0;
        expect.cp_b = 0;
        expect.r_cp = [0; 3];
    } else {
        let c = a.unwrap_err();
        if !f.empty() {
            assert!(c == ecode(ErrorCode::ClosePositionNotEmpty));
        } else if same {
            assert!(c == ecode(ErrorCode::SameTickRangeNotAllowed));
        } else {
            assert!(c == spec_range_error(lo, hi, s));
        }
    }
    assert!(same_as_fields(&pos, &expect), "anchor post-state");
    assert!(bytes_are(&pb, &expect), "pinocchio post-state");
}

/// Pinocchio reset_position_range with keep_owed = true (reposition): Ok ⇒ liquidity == 0 ∧ different ∧ valid range; checkpoints reset; owed amounts kept. Symbolic position and range; spacing ∈ {1, 8, 64, 128, 32896}.
// @verif prop=C18 tier=quick timeout=300
#[kani::proof]
#[kani::unwind(34)]
#[kani::stub(alloc::fmt::format, stub_format)]
#[kani::stub(<::whirlpool::pinocchio::errors::UnifiedError as core::convert::From<::whirlpool::errors::ErrorCode>>::from, stub_unified_from_code)]
fn c18_pino_reset_keep_owed() {
    let f = any_pos_fields();
    let s = any_spacing_from_set();
    let lo: i32 = kani::any();
    let hi: i32 = kani::any();
    kani::assume(s >= 1);
    let wd = wp_bytes(s);
    let mut pb = f.bytes();
    let pr = mpos(&mut pb).reset_position_range(mwp(&wd), lo, hi, true);
    let ok = pr.is_ok();
    core::mem::forget(pr);
    kani::cover!(ok && f.owed_a != 0, "accepted while fees are owed");
    let mut expect = f;
    if ok {
        assert!(f.liquidity == 0);
        assert!(!(lo == f.lo && hi == f.hi));
        assert!(spec_valid_range(lo, hi, s));
        expect.lo = lo;
        expect.hi = hi;
        expect.cp_a = 0;
        expect.cp_b = 0;
        expect.r_cp = [0; 3];
    }
    assert!(bytes_are(&pb, &expect));
}

// ------------------------------------------------------------------------------------------------
// PositionBundle bitmap

fn popcount_diff(a: &[u8; 32], b: &[u8; 32]) -> u32 {
    let mut n = 0;
    let mut i = 0;
    while i < 32 {
        n += (a[i] ^ b[i]).count_ones();
        i += 1;
    }
    n
}
fn bit(bm: &[u8; 32], i: u16) -> bool {
    // reference numbering: bundle index i is the i-th bit of the little-endian 256-bit bitmap
    let mut k = 0u16;
    let mut j = 0usize;
    while j < 32 {
        let mut b = 0u8;
        while b < 8 {
            if k == i {
                return (bm[j] >> b) & 1 == 1;
            }
            k += 1;
            b += 1;
        }
        j += 1;
    }
    false
}

/// open_bundled_position(i) / close_bundled_position(i) on a symbolic 32-byte bitmap and symbolic u16 index: Ok ⇔ i < 256 ∧ bit i was clear (open) / set (close); Ok flips exactly bit i; Err leaves the bitmap untouched and carries the documented code
// @verif prop=C18 tier=quick timeout=300
#[kani::proof]
#[kani::unwind(34)]
#[kani::stub(alloc::fmt::format, stub_format)]
#[kani::stub(<anchor_lang::error::Error as core::convert::From<::whirlpool::errors::ErrorCode>>::from, stub_err_from_code)]
fn c18_bundle_bitmap_flip() {
    let bm: [u8; 32] = kani::any();
    let mint: [u8; 32] = kani::any();
    let i: u16 = kani::any();
    let open: bool = kani::any();
    let mut b = PositionBundle { position_bundle_mint: Pubkey::new_from_array(mint), position_bitmap: bm };
    let r = if open { b.open_bundled_position(i) } else { b.close_bundled_position(i) };
    let out = match &r { Ok(()) => Ok(()), Err(e) => Err(acode(e)) };
    core::mem::forget(r);
    kani::cover!(out.is_ok() && open, "open ok");
    kani::cover!(out.is_ok() && !open, "close ok");
    kani::cover!(out == Err(ecode(ErrorCode::BundledPositionAlreadyOpened)), "double open");
    kani::cover!(out == Err(ecode(ErrorCode::BundledPositionAlreadyClosed)), "double close");
    assert!(b.position_bundle_mint.to_bytes() == mint);
    if i >= 256 {
        assert!(out == Err(ecode(ErrorCode::InvalidBundleIndex)));
        assert!(b.position_bitmap == bm);
        return;
    }
    let was = bit(&bm, i);
    if open == was {
        let code = if open { ErrorCode::BundledPositionAlreadyOpened } else { ErrorCode::BundledPositionAlreadyClosed };
        assert!(out == Err(ecode(code)));
        assert!(b.position_bitmap == bm);
    } else {
        assert!(out.is_ok());
        assert!(bit(&b.position_bitmap, i) == open, "bit i now reflects the operation");
        assert!(popcount_diff(&b.position_bitmap, &bm) == 1, "exactly one bit changed");
    }
}

/// PositionBundle::is_deletable ⇔ all 256 bits are zero (symbolic bitmap)
// @verif prop=C18 tier=quick timeout=300
#[kani::proof]
#[kani::unwind(34)]
fn c18_bundle_is_deletable() {
    let bm: [u8; 32] = kani::any();
    let b = PositionBundle { position_bundle_mint: Pubkey::default(), position_bitmap: bm };
    let d = b.is_deletable();
    let j: u16 = kani::any();
    kani::assume(j < 256);
    kani::cover!(d, "deletable");
    kani::cover!(!d, "not deletable");
    // ⇒ : no open position whatever the index; ⇐ : if not deletable some byte is non-zero
    if d {
        assert!(!bit(&bm, j));
    } else {
        assert!(bm != [0u8; 32]);
    }
}

/// vacuity twin: must FAIL (an accepted reset exists)
// @verif prop=C18 tier=quick timeout=300 twin
#[kani::proof]
#[kani::unwind(34)]
#[kani::stub(alloc::fmt::format, stub_format)]
#[kani::stub(<::whirlpool::pinocchio::errors::UnifiedError as core::convert::From<::whirlpool::errors::ErrorCode>>::from, stub_unified_from_code)]
fn c18_twin_must_fail() {
    let f = any_pos_fields();
    let s = any_spacing_from_set();
    let lo: i32 = kani::any();
    let hi: i32 = kani::any();
    kani::assume(s >= 1);
    let wd = wp_bytes(s);
    let mut pb = f.bytes();
    let pr = mpos(&mut pb).reset_position_range(mwp(&wd), lo, hi, false);
    let ok = pr.is_ok();
    core::mem::forget(pr);
    assert!(!ok, "twin: reachable Ok must be reported");
}

// ------------------------------------------------------------------------------------------------
// one-sided positions: a sentinel bound is derived from the current price

fn check_resolve(lo: i32, hi: i32, s: u16, price: u128) {
    use crate::common::memo::price_of;
    let r = ::whirlpool::util::resolve_one_sided_position_ticks(lo, hi, s, price);
    let out = match &r {
        Ok(v) => Ok(*v),
        Err(e) => Err(acode(e)),
    };
    core::mem::forget(r);
    let lo_s = lo == i32::MIN;
    let hi_s = hi == i32::MAX;
    let si = s as i32;
    kani::cover!(out.is_ok() && lo_s && s < FULL_RANGE_ONLY, "lower bound derived");
    kani::cover!(out.is_ok() && hi_s && s < FULL_RANGE_ONLY, "upper bound derived");
    kani::cover!(out.is_err() && lo_s && !hi_s, "no usable tick above the price");
    match out {
        Ok((l, u)) => {
            if s >= FULL_RANGE_ONLY || (!lo_s && !hi_s) {
                // nothing is derived (on full-range-only pools the sentinel is then refused by range validation)
                assert!(l == lo && u == hi);
            } else {
                assert!(!(lo_s && hi_s));
                if lo_s {
                    assert!(u == hi, "the given bound is kept");
                    assert!(spec_usable(l, s), "derived lower bound is a usable tick");
                    assert!(price_of(l) >= price, "position entirely above the current price");
                    if l - si >= MIN_TICK_INDEX {
                        assert!(price_of(l - si) < price, "nearest: the next usable tick below is under the price");
                    }
                } else {
                    assert!(l == lo, "the given bound is kept");
                    assert!(spec_usable(u, s), "derived upper bound is a usable tick");
                    assert!(price_of(u) <= price, "position entirely below the current price");
                    if u + si <= MAX_TICK_INDEX {
                        assert!(price_of(u + si) > price, "nearest: the next usable tick above is over the price");
                    }
                }
            }
        }
        Err(c) => {
            assert!(c == ecode(ErrorCode::InvalidTickIndex));
            assert!(s < FULL_RANGE_ONLY && (lo_s || hi_s));
            if lo_s && hi_s {
                // both bounds left open: refused
            } else if lo_s {
                // refused only if no usable tick at or above the price exists
                assert!(price_of(MAX_TICK_INDEX / si * si) < price);
            } else {
                assert!(price_of(MIN_TICK_INDEX / si * si) > price);
            }
        }
    }
}

/// resolve_one_sided_position_ticks with tick math replaced by the monotone price contract (T1/T2): a sentinel bound becomes a usable tick with the whole position on one side of the current price and no usable tick closer to it; the other bound is kept; Err only for two sentinels or when no such tick exists. Symbolic bounds and sqrt price; spacing ∈ {1, 8, 64, 128, 32896}
// @verif prop=C18 tier=quick timeout=300 contract
#[kani::proof]
#[kani::unwind(10)]
#[kani::stub(alloc::fmt::format, stub_format)]
#[kani::stub(<anchor_lang::error::Error as core::convert::From<::whirlpool::errors::ErrorCode>>::from, stub_err_from_code)]
#[kani::stub(::whirlpool::math::tick_math::sqrt_price_from_tick_index, crate::common::memo::stub_sqrt_price_from_tick_index)]
#[kani::stub(::whirlpool::math::tick_math::tick_index_from_sqrt_price, crate::common::memo::stub_tick_index_from_sqrt_price)]
fn c18_resolve_one_sided_ticks() {
    let which: u8 = kani::any();
    let lo: i32 = kani::any();
    let hi: i32 = kani::any();
    let price: u128 = kani::any();
    // documented validity predicate: a pool's sqrt_price is inside the price bounds
    kani::assume(price >= ::whirlpool::math::MIN_SQRT_PRICE_X64 && price <= ::whirlpool::math::MAX_SQRT_PRICE_X64);
    match which {
        0 => check_resolve(lo, hi, 1, price),
        1 => check_resolve(lo, hi, 8, price),
        2 => check_resolve(lo, hi, 64, price),
        3 => check_resolve(lo, hi, 128, price),
        _ => check_resolve(lo, hi, 32896, price),
    }
}

// ------------------------------------------------------------------------------------------------
// CPI recording (position token minting)

/// `solana_program::program::invoke_signed` (which `invoke` forwards to) replaced by a recorder: the callee program is outside
/// the claim; what is checked is which instructions the whirlpool program asks for, in which order.
/// Each recorded CPI succeeds or fails according to a flag drawn by the harness up front.
mod cpi_log {
    use anchor_lang::prelude::AccountInfo;
    use anchor_lang::solana_program::entrypoint::ProgramResult;
    use anchor_lang::solana_program::instruction::Instruction;
    use anchor_lang::solana_program::program_error::ProgramError;
    pub const MAXLOG: usize = 4;
    #[derive(Clone, Copy)]
    pub struct Rec {
        pub program: [u8; 32],
        pub len: usize,
        pub d0: u8,
        pub d1: u8,
        pub d2: u8,
        pub amount: u64,
        pub n_accounts: usize,
        pub acc0: [u8; 32],
        pub acc1: [u8; 32],
        pub n_signer_sets: usize,
    }
    const EMPTY: Rec = Rec { program: [0; 32], len: 0, d0: 0, d1: 0, d2: 0, amount: 0, n_accounts: 0, acc0: [0; 32], acc1: [0; 32], n_signer_sets: 0 };
    pub static mut LOG: [Rec; MAXLOG] = [EMPTY; MAXLOG];
    pub static mut N: usize = 0;
    pub static mut FAIL: [bool; MAXLOG] = [false; MAXLOG];

    pub fn stub_invoke_signed(ix: &Instruction, _infos: &[AccountInfo], seeds: &[&[&[u8]]]) -> ProgramResult {
        unsafe {
            assert!(N < MAXLOG, "CPI log bound");
            let mut r = EMPTY;
            r.program = ix.program_id.to_bytes();
            r.len = ix.data.len();
            if r.len > 0 { r.d0 = ix.data[0]; }
            if r.len > 1 { r.d1 = ix.data[1]; }
            if r.len > 2 { r.d2 = ix.data[2]; }
            if r.len >= 9 {
                let mut b = [0u8; 8];
                let mut i = 0;
                while i < 8 {
                    b[i] = ix.data[1 + i];
                    i += 1;
                }
                r.amount = u64::from_le_bytes(b);
            }
            r.n_accounts = ix.accounts.len();
            if r.n_accounts > 0 { r.acc0 = ix.accounts[0].pubkey.to_bytes(); }
            if r.n_accounts > 1 { r.acc1 = ix.accounts[1].pubkey.to_bytes(); }
            r.n_signer_sets = seeds.len();
            LOG[N] = r;
            let fail = FAIL[N];
            N += 1;
            if fail { Err(ProgramError::Custom(0xdead)) } else { Ok(()) }
        }
    }
    pub fn stub_invoke(ix: &Instruction, infos: &[AccountInfo]) -> ProgramResult {
        stub_invoke_signed(ix, infos, &[])
    }
}

const TOKEN_IX_SET_AUTHORITY: u8 = 6;
const TOKEN_IX_MINT_TO: u8 = 7;

fn mint_bytes(authority: Option<[u8; 32]>, supply: u64, decimals: u8) -> [u8; 82] {
    let mut d = [0u8; 82];
    if let Some(a) = authority {
        d[0] = 1;
        d[4..36].copy_from_slice(&a);
    }
    d[36..44].copy_from_slice(&supply.to_le_bytes());
    d[44] = decimals;
    d[45] = 1; // initialized
    d
}
fn token_account_bytes(mint: [u8; 32], owner: [u8; 32], amount: u64, state: u8) -> [u8; 165] {
    let mut d = [0u8; 165];
    d[0..32].copy_from_slice(&mint);
    d[32..64].copy_from_slice(&owner);
    d[64..72].copy_from_slice(&amount.to_le_bytes());
    d[108] = state;
    d
}

/// mint_position_token_and_remove_authority (SPL Token positions) with `invoke_signed` recorded: the CPIs requested are exactly [mint_to(amount = 1) into the position token account, set_authority(MintTokens, None) on the position mint], in that order, both signed by the whirlpool PDA; Ok ⇔ both CPIs succeed; a failed mint_to stops before set_authority. Symbolic whirlpool / mint / token account keys and CPI outcomes.
// @verif prop=C18 tier=thorough timeout=900
#[kani::proof]
#[kani::unwind(40)]
#[kani::stub(alloc::fmt::format, stub_format)]
#[kani::stub(<anchor_lang::error::Error as core::convert::From<::whirlpool::errors::ErrorCode>>::from, stub_err_from_code)]
#[kani::stub(<anchor_lang::error::Error as core::convert::From<anchor_lang::error::ErrorCode>>::from, stub_err_from_anchor_code)]
#[kani::stub(solana_program::program::invoke_signed, cpi_log::stub_invoke_signed)]
fn c18_mint_position_token_cpi_log() {
    use anchor_spl::token::{Mint, Token, TokenAccount};
    let fail0: bool = kani::any();
    let fail1: bool = kani::any();
    let wp_key = Pubkey::new_from_array(kani::any());
    let mint_key = Pubkey::new_from_array(kani::any());
    let ta_key = Pubkey::new_from_array(kani::any());
    // not observed by the function (only forwarded as signer seeds / never read): concrete
    let (cfg, mint_a, mint_b, seed, bump) = ([3u8; 32], [4u8; 32], [5u8; 32], [64u8, 0u8], 254u8);
    let (supply, decimals, ta_owner) = (0u64, 0u8, [6u8; 32]);
    unsafe {
        cpi_log::FAIL[0] = fail0;
        cpi_log::FAIL[1] = fail1;
    }
    let program_id = ::whirlpool::ID;
    let token_pid = anchor_spl::token::ID;
    let bpf = Pubkey::new_from_array([2u8; 32]);

    let mut wd = wp_bytes(64);
    wd[8..40].copy_from_slice(&cfg);
    wd[40] = bump;
    wd[43..45].copy_from_slice(&seed);
    wd[101..133].copy_from_slice(&mint_a);
    wd[181..213].copy_from_slice(&mint_b);
    let mut wl = 1u64;
    let wp_ai = AccountInfo::new(&wp_key, false, true, &mut wl, &mut wd[..], &program_id, false, 0);
    // the freshly initialised position mint: authority = whirlpool
    let mut md = mint_bytes(Some(wp_key.to_bytes()), supply, decimals);
    let mut ml = 1u64;
    let mint_ai = AccountInfo::new(&mint_key, false, true, &mut ml, &mut md[..], &token_pid, false, 0);
    let mut td = token_account_bytes(mint_key.to_bytes(), ta_owner, 0, 1);
    let mut tl = 1u64;
    let ta_ai = AccountInfo::new(&ta_key, false, true, &mut tl, &mut td[..], &token_pid, false, 0);
    let mut pl = 1u64;
    let mut pd = [0u8; 0];
    let tp_ai = AccountInfo::new(&token_pid, false, false, &mut pl, &mut pd[..], &bpf, true, 0);

    let wp: Account<Whirlpool> = Account::try_from(&wp_ai).unwrap();
    let mint: Account<Mint> = Account::try_from(&mint_ai).unwrap();
    let ta: Account<TokenAccount> = Account::try_from(&ta_ai).unwrap();
    let tp: anchor_lang::prelude::Program<Token> = anchor_lang::prelude::Program::try_from(&tp_ai).unwrap();

    let r = ::whirlpool::util::mint_position_token_and_remove_authority(&wp, &mint, &ta, &tp);
    let ok = r.is_ok();
    core::mem::forget(r);
    let n = unsafe { cpi_log::N };
    let log = unsafe { cpi_log::LOG };
    kani::cover!(ok, "both CPIs issued and succeeded");
    kani::cover!(!ok && n == 1, "mint_to failed");
    assert!(ok == (!fail0 && !fail1));
    assert!(n == if fail0 { 1 } else { 2 });
    // 1st: mint exactly one token of the position mint into the position token account
    assert!(log[0].program == token_pid.to_bytes());
    assert!(log[0].d0 == TOKEN_IX_MINT_TO && log[0].len == 9 && log[0].amount == 1);
    assert!(log[0].acc0 == mint_key.to_bytes() && log[0].acc1 == ta_key.to_bytes());
    assert!(log[0].n_signer_sets == 1);
    if n == 2 {
        // 2nd: remove the mint authority for good
        assert!(log[1].program == token_pid.to_bytes());
        assert!(log[1].d0 == TOKEN_IX_SET_AUTHORITY && log[1].len == 3);
        assert!(log[1].d1 == 0, "AuthorityType::MintTokens");
        assert!(log[1].d2 == 0, "new authority = None");
        assert!(log[1].acc0 == mint_key.to_bytes());
        assert!(log[1].n_signer_sets == 1);
    }
    core::mem::forget(wp);
    core::mem::forget(mint);
    core::mem::forget(ta);
}

// ------------------------------------------------------------------------------------------------
// Pinocchio handler prefixes: lock (= frozen position token account) enforcement.
// Own copy of the raw-account scaffolding (same layout as pinocchio::account_info::Account).

mod pino {
    use super::*;
    use pinocchio::account_info::AccountInfo as PAccountInfo;
    use pinocchio::program_error::ProgramError as PProgramError;
    use pinocchio::sysvars::clock::Clock;

    #[repr(C)]
    #[derive(Clone, Copy)]
    pub struct Raw<const N: usize> {
        pub borrow_state: u8,
        pub is_signer: u8,
        pub is_writable: u8,
        pub executable: u8,
        pub resize_delta: i32,
        pub key: [u8; 32],
        pub owner: [u8; 32],
        pub lamports: u64,
        pub data_len: u64,
        pub data: [u8; N],
    }
    pub fn raw<const N: usize>() -> Raw<N> {
        Raw {
            borrow_state: 0xff, // not borrowed
            is_signer: kani::any::<bool>() as u8,
            is_writable: kani::any::<bool>() as u8,
            executable: 0,
            resize_delta: 0,
            key: kani::any(),
            owner: kani::any(),
            lamports: 1,
            data_len: N as u64,
            data: kani::any(),
        }
    }
    pub unsafe fn ai<const N: usize>(r: *mut Raw<N>) -> PAccountInfo {
        let mut slot = core::mem::MaybeUninit::<PAccountInfo>::uninit();
        (slot.as_mut_ptr() as *mut *mut Raw<N>).write(r);
        slot.assume_init()
    }

    pub static mut REACHED: bool = false;
    /// sysvar syscall: marks "every check before the core logic passed" and stops the handler
    pub fn stub_clock_get() -> Result<Clock, PProgramError> {
        unsafe {
            REACHED = true;
        }
        Err(PProgramError::UnsupportedSysvar)
    }

    /// the 11 accounts of increase_liquidity / decrease_liquidity (v1). Accounts whose data is not read
    /// before the Clock call carry no data (token owner accounts, vaults, tick arrays: only key/flags).
    #[derive(Clone, Copy)]
    pub struct V1 {
        pub whirlpool: Raw<WP_LEN>,
        pub token_program: Raw<0>,
        pub authority: Raw<0>,
        pub position: Raw<POS_LEN>,
        pub pos_token: Raw<165>,
        pub owner_a: Raw<0>,
        pub owner_b: Raw<0>,
        pub vault_a: Raw<0>,
        pub vault_b: Raw<0>,
        pub ta_lower: Raw<0>,
        pub ta_upper: Raw<0>,
    }
    pub fn any_v1() -> V1 {
        V1 {
            whirlpool: raw(), token_program: raw(), authority: raw(), position: raw(), pos_token: raw(),
            owner_a: raw(), owner_b: raw(), vault_a: raw(), vault_b: raw(), ta_lower: raw(), ta_upper: raw(),
        }
    }
    pub fn run_v1(a: &mut V1, data: &[u8; 40], decrease: bool) -> bool {
        let accounts = unsafe {
            [
                ai(&mut a.whirlpool), ai(&mut a.token_program), ai(&mut a.authority), ai(&mut a.position),
                ai(&mut a.pos_token), ai(&mut a.owner_a), ai(&mut a.owner_b), ai(&mut a.vault_a),
                ai(&mut a.vault_b), ai(&mut a.ta_lower), ai(&mut a.ta_upper),
            ]
        };
        unsafe {
            REACHED = false;
        }
        let r = if decrease {
            ::whirlpool::pinocchio::instructions::decrease_liquidity::handler(&accounts, data)
        } else {
            ::whirlpool::pinocchio::instructions::increase_liquidity::handler(&accounts, data)
        };
        core::mem::forget(r);
        unsafe { REACHED }
    }
}
const TOKEN_ACCOUNT_STATE: usize = 108;
const FROZEN: u8 = 2;

/// lock predicate, both runtimes on the same 165 token-account bytes (all symbolic): whenever Anchor accepts the account, is_locked_position == pino_is_locked_position == (account state byte is Frozen)
// @verif prop=C18 tier=quick timeout=300
#[kani::proof]
#[kani::unwind(40)]
#[kani::stub(alloc::fmt::format, stub_format)]
#[kani::stub(<anchor_lang::error::Error as core::convert::From<::whirlpool::errors::ErrorCode>>::from, stub_err_from_code)]
#[kani::stub(<anchor_lang::error::Error as core::convert::From<anchor_lang::error::ErrorCode>>::from, stub_err_from_anchor_code)]
fn c18_is_locked_position_equiv() {
    use anchor_lang::prelude::InterfaceAccount;
    use anchor_spl::token_interface::TokenAccount;
    use ::whirlpool::pinocchio::state::token::MemoryMappedTokenAccount;
    let bytes: [u8; 165] = kani::any();
    let mut data = bytes;
    let key = Pubkey::new_from_array([9u8; 32]);
    let t22 = anchor_spl::token_2022::ID;
    let mut lamports = 1u64;
    let ai = AccountInfo::new(&key, false, false, &mut lamports, &mut data[..], &t22, false, 0);
    let r: anchor_lang::Result<InterfaceAccount<TokenAccount>> = InterfaceAccount::try_from(&ai);
    kani::cover!(r.is_ok() && bytes[TOKEN_ACCOUNT_STATE] == FROZEN, "a frozen account loads");
    kani::cover!(r.is_ok() && bytes[TOKEN_ACCOUNT_STATE] != FROZEN, "an unfrozen account loads");
    if let Ok(acc) = &r {
        let a = ::whirlpool::util::is_locked_position(acc);
        let view = unsafe { &*(bytes.as_ptr() as *const MemoryMappedTokenAccount) };
        let p = ::whirlpool::pinocchio::ported::util_shared::pino_is_locked_position(view);
        assert!(a == (bytes[TOKEN_ACCOUNT_STATE] == FROZEN));
        assert!(p == a);
    }
    core::mem::forget(r);
}

/// Pinocchio decrease_liquidity prefix: if the position token account is frozen (locked position) the handler never gets past its checks (the Clock sysvar call that starts the core logic is not reached). All 11 accounts' keys/owners/flags and the whirlpool, position and token account bytes symbolic.
// @verif prop=C18 tier=quick timeout=300
#[kani::proof]
#[kani::unwind(40)]
#[kani::stub(alloc::fmt::format, stub_format)]
#[kani::stub(<pinocchio::sysvars::clock::Clock as pinocchio::sysvars::Sysvar>::get, pino::stub_clock_get)]
#[kani::stub(<::whirlpool::pinocchio::errors::UnifiedError as core::convert::From<::whirlpool::errors::ErrorCode>>::from, stub_unified_from_code)]
#[kani::stub(<::whirlpool::pinocchio::errors::UnifiedError as core::convert::From<anchor_lang::error::ErrorCode>>::from, stub_unified_from_anchor_code)]
fn c18_pino_decrease_refuses_locked() {
    let mut a = pino::any_v1();
    let data: [u8; 40] = kani::any();
    let state = a.pos_token.data[TOKEN_ACCOUNT_STATE];
    let reached = pino::run_v1(&mut a, &data, true);
    kani::cover!(reached, "an unlocked position passes the checks");
    if reached {
        assert!(state != FROZEN, "locked position: liquidity cannot be removed");
    }
}

/// Pinocchio increase_liquidity prefix: locking does not matter — on identical accounts the checks pass with a frozen position token account iff they pass with an unfrozen one (and they can pass). Same symbolic inputs as above.
// @verif prop=C18 tier=quick timeout=300
#[kani::proof]
#[kani::unwind(40)]
#[kani::stub(alloc::fmt::format, stub_format)]
#[kani::stub(<pinocchio::sysvars::clock::Clock as pinocchio::sysvars::Sysvar>::get, pino::stub_clock_get)]
#[kani::stub(<::whirlpool::pinocchio::errors::UnifiedError as core::convert::From<::whirlpool::errors::ErrorCode>>::from, stub_unified_from_code)]
#[kani::stub(<::whirlpool::pinocchio::errors::UnifiedError as core::convert::From<anchor_lang::error::ErrorCode>>::from, stub_unified_from_anchor_code)]
fn c18_pino_increase_allows_locked() {
    let mut a = pino::any_v1();
    let data: [u8; 40] = kani::any();
    let mut b = a;
    a.pos_token.data[TOKEN_ACCOUNT_STATE] = 1; // initialized
    b.pos_token.data[TOKEN_ACCOUNT_STATE] = FROZEN;
    let reached_unlocked = pino::run_v1(&mut a, &data, false);
    let reached_locked = pino::run_v1(&mut b, &data, false);
    kani::cover!(reached_locked, "a locked position can still add liquidity");
    assert!(reached_locked == reached_unlocked);
}

// ------------------------------------------------------------------------------------------------
// Anchor handler level: generated account validation (`try_accounts`) + handler, up to the first CPI.
//
// * `Pubkey::find_program_address` (sha256 + curve check) is replaced by an *unconstrained* result: the
//   `seeds =` comparison may pass or fail for any account key, which over-approximates the real PDA check
//   (every real execution is covered; the assertions are of the form `Ok ⇒ ...`).
// * the CPI helpers are replaced by recorders that return Ok.
mod anchor_h {
    use super::*;
    use anchor_lang::prelude::{Context, Program, Signer, UncheckedAccount};
    use anchor_lang::Result as AResult;
    use anchor_spl::token::{Mint, Token, TokenAccount};

    pub fn stub_find_program_address(_seeds: &[&[u8]], _program_id: &Pubkey) -> (Pubkey, u8) {
        (Pubkey::new_from_array(kani::any()), kani::any())
    }

    /// Rent sysvar syscall: mainnet parameters (3480 lamports/byte-year, threshold 2.0)
    pub fn stub_rent_get() -> core::result::Result<anchor_lang::prelude::Rent, anchor_lang::prelude::ProgramError> {
        Ok(anchor_lang::prelude::Rent::default())
    }
    /// Clock sysvar syscall: arbitrary timestamp
    pub static mut NOW: i64 = 0;
    pub fn stub_clock_get() -> core::result::Result<anchor_lang::prelude::Clock, anchor_lang::prelude::ProgramError> {
        let mut c = anchor_lang::prelude::Clock::default();
        c.unix_timestamp = unsafe { NOW };
        Ok(c)
    }
    pub fn stub_burn_and_close_user_position_token_2022<'info>(
        _token_authority: &Signer<'info>,
        _receiver: &UncheckedAccount<'info>,
        _position_mint: &anchor_lang::prelude::InterfaceAccount<'info, anchor_spl::token_interface::Mint>,
        _position_token_account: &anchor_lang::prelude::InterfaceAccount<'info, anchor_spl::token_interface::TokenAccount>,
        _token_2022_program: &Program<'info, anchor_spl::token_2022::Token2022>,
        _position: &Account<'info, Position>,
        _position_seeds: &[&[u8]],
    ) -> AResult<()> {
        unsafe {
            CPI_REACHED = true;
        }
        Ok(())
    }
    pub fn stub_freeze_user_position_token_2022<'info>(
        _position_mint: &anchor_lang::prelude::InterfaceAccount<'info, anchor_spl::token_interface::Mint>,
        _position_token_account: &anchor_lang::prelude::InterfaceAccount<'info, anchor_spl::token_interface::TokenAccount>,
        _token_2022_program: &Program<'info, anchor_spl::token_2022::Token2022>,
        _position: &Account<'info, Position>,
        _position_seeds: &[&[u8]],
    ) -> AResult<()> {
        unsafe {
            CPI_REACHED = true;
        }
        Ok(())
    }

    pub static mut CPI_REACHED: bool = false;
    pub fn stub_burn_and_close_user_position_token<'info>(
        _token_authority: &Signer<'info>,
        _receiver: &UncheckedAccount<'info>,
        _position_mint: &Account<'info, Mint>,
        _position_token_account: &Account<'info, TokenAccount>,
        _token_program: &Program<'info, Token>,
    ) -> AResult<()> {
        unsafe {
            CPI_REACHED = true;
        }
        Ok(())
    }
}

// Handler-level harnesses: what C18 quantifies over is the position state (liquidity, owed amounts, range,
// checkpoints), the lock state, signer flags, token amounts and bundle indexes. Account *addresses* only
// matter through "equal / not equal" (address-matching is property C04), so each address-valued field is a
// symbolic choice between the expected address and a different one instead of 32 free bytes
// (measured: 32-byte symbolic keys make these harnesses 3.6 M variables / > 15 min).
const K_AUTH: [u8; 32] = [11u8; 32];
const K_OTHER: [u8; 32] = [12u8; 32];
const K_RECV: [u8; 32] = [13u8; 32];
const K_POS: [u8; 32] = [14u8; 32];
const K_MINT: [u8; 32] = [15u8; 32];
const K_TA: [u8; 32] = [16u8; 32];
const K_WP: [u8; 32] = [17u8; 32];
const K_BUNDLE: [u8; 32] = [18u8; 32];
const K_BUNDLE_MINT: [u8; 32] = [19u8; 32];
const K_FUNDER: [u8; 32] = [20u8; 32];
const K_LOCK: [u8; 32] = [21u8; 32];
fn pick(expected: [u8; 32]) -> [u8; 32] {
    if kani::any() { expected } else { K_OTHER }
}
/// all numeric Position fields symbolic; whirlpool / mint = expected address or another one
fn any_pos_fields_for(whirlpool: [u8; 32], mint: [u8; 32]) -> PosFields {
    let mut f = any_pos_fields_numeric();
    f.whirlpool = pick(whirlpool);
    f.mint = pick(mint);
    f
}
fn any_pos_fields_numeric() -> PosFields {
    PosFields {
        whirlpool: [0; 32], mint: [0; 32], liquidity: kani::any(), lo: kani::any(), hi: kani::any(),
        cp_a: kani::any(), owed_a: kani::any(), cp_b: kani::any(), owed_b: kani::any(),
        r_cp: kani::any(), r_owed: kani::any(),
    }
}
/// token account: amount, delegated amount, state byte, delegate flag symbolic; mint/owner/delegate = choice
fn any_tok_fields_for(mint: [u8; 32], authority: [u8; 32]) -> TokFields {
    TokFields {
        mint: pick(mint), owner: pick(authority), amount: kani::any(), has_delegate: kani::any(),
        delegate: pick(authority), delegated: kani::any(), state: kani::any(),
    }
}

/// close_position (SPL Token positions), ClosePosition::try_accounts + handler with the burn/close CPI recorded: Ok ⇒ the position held no liquidity, no owed fees, no owed rewards (and the CPI is issued only then). Symbolic signer flag, all numeric Position fields, token account amount/delegate/delegated amount; address-valued fields: expected address or another one.
// @verif prop=C18 tier=thorough timeout=900
#[kani::proof]
#[kani::unwind(40)]
#[kani::stub(alloc::fmt::format, stub_format)]
#[kani::stub(<anchor_lang::error::Error as core::convert::From<::whirlpool::errors::ErrorCode>>::from, stub_err_from_code)]
#[kani::stub(<anchor_lang::error::Error as core::convert::From<anchor_lang::error::ErrorCode>>::from, stub_err_from_anchor_code)]
#[kani::stub(anchor_lang::prelude::Pubkey::find_program_address, anchor_h::stub_find_program_address)]
#[kani::stub(::whirlpool::util::token::burn_and_close_user_position_token, anchor_h::stub_burn_and_close_user_position_token)]
fn c18_close_position_handler() {
    use anchor_lang::prelude::Context;
    use ::whirlpool::instructions::ClosePosition;
    use std::collections::BTreeSet;
    let f = any_pos_fields_for(K_WP, K_MINT);
    let t = any_tok_fields_for(K_MINT, K_AUTH);
    let auth_signer: bool = kani::any();
    kani::assume(t.state == 1); // SPL Token positions are never frozen by the program (locking is Token-2022 only)
    let auth_key = Pubkey::new_from_array(K_AUTH);
    let recv_key = Pubkey::new_from_array(K_RECV);
    let pos_key = Pubkey::new_from_array(K_POS);
    let mint_key = Pubkey::new_from_array(K_MINT);
    let ta_key = Pubkey::new_from_array(K_TA);
    let (ta_mint, ta_amount) = (t.mint, t.amount);

    let program_id = ::whirlpool::ID;
    let token_pid = anchor_spl::token::ID;
    let sys = Pubkey::default();
    let bpf = Pubkey::new_from_array([2u8; 32]);

    let (mut l0, mut l1, mut l2, mut l3, mut l4, mut l5) = (1u64, 1u64, 1u64, 1u64, 1u64, 1u64);
    let mut d_auth = [0u8; 0];
    let mut d_recv = [0u8; 0];
    let mut d_pos = f.bytes();
    let mut d_mint = mint_bytes(None, 1, 0);
    let mut d_ta = t.bytes();
    let mut d_tp = [0u8; 0];
    let accounts = [
        AccountInfo::new(&auth_key, auth_signer, false, &mut l0, &mut d_auth[..], &sys, false, 0),
        AccountInfo::new(&recv_key, false, true, &mut l1, &mut d_recv[..], &sys, false, 0),
        AccountInfo::new(&pos_key, false, true, &mut l2, &mut d_pos[..], &program_id, false, 0),
        AccountInfo::new(&mint_key, false, true, &mut l3, &mut d_mint[..], &token_pid, false, 0),
        AccountInfo::new(&ta_key, false, true, &mut l4, &mut d_ta[..], &token_pid, false, 0),
        AccountInfo::new(&token_pid, false, false, &mut l5, &mut d_tp[..], &bpf, true, 0),
    ];
    let mut slice: &[AccountInfo] = &accounts;
    let mut bumps = <ClosePosition as anchor_lang::Bumps>::Bumps::default();
    let mut reallocs = BTreeSet::new();
    let r = <ClosePosition as anchor_lang::Accounts<_>>::try_accounts(&program_id, &mut slice, &[], &mut bumps, &mut reallocs);
    let mut ok = false;
    if let Ok(mut accs) = r {
        let ctx = Context::new(&program_id, &mut accs, &[], bumps);
        let h = ::whirlpool::instructions::close_position::handler(ctx);
        ok = h.is_ok();
        core::mem::forget(h);
        core::mem::forget(accs);
    } else {
        core::mem::forget(r);
    }
    let cpi = unsafe { anchor_h::CPI_REACHED };
    kani::cover!(ok, "an empty position can be closed");
    kani::cover!(!ok && f.liquidity == 0 && f.owed_a == 0 && f.owed_b == 0, "owed rewards alone keep it open");
    assert!(ok == cpi, "token burnt/closed exactly in the accepted runs");
    if ok {
        assert!(f.empty(), "closed only when empty");
        assert!(auth_signer);
        assert!(ta_amount == 1 && ta_mint == f.mint && mint_key.to_bytes() == f.mint);
    }
}

/// symbolic SPL token account contents (mint, owner, amount, delegate, state byte)
#[derive(Clone, Copy)]
struct TokFields {
    mint: [u8; 32],
    owner: [u8; 32],
    amount: u64,
    has_delegate: bool,
    delegate: [u8; 32],
    delegated: u64,
    state: u8,
}
fn any_tok_fields() -> TokFields {
    TokFields {
        mint: kani::any(), owner: kani::any(), amount: kani::any(), has_delegate: kani::any(),
        delegate: kani::any(), delegated: kani::any(), state: kani::any(),
    }
}
impl TokFields {
    fn bytes(&self) -> [u8; 165] {
        let mut d = token_account_bytes(self.mint, self.owner, self.amount, self.state);
        if self.has_delegate {
            d[72] = 1;
            d[76..108].copy_from_slice(&self.delegate);
        }
        d[121..129].copy_from_slice(&self.delegated.to_le_bytes());
        d
    }
}

/// close_position_with_token_extensions, try_accounts + handler with the burn/close CPIs recorded: Ok ⇒ position empty ∧ position token account not frozen (not locked); the CPI is issued exactly in the accepted runs. Symbolic signer flag, all numeric Position fields, token account amount/delegate/delegated amount/state byte; address-valued fields: expected address or another one.
// @verif prop=C18 tier=thorough timeout=900
#[kani::proof]
#[kani::unwind(40)]
#[kani::stub(alloc::fmt::format, stub_format)]
#[kani::stub(<anchor_lang::error::Error as core::convert::From<::whirlpool::errors::ErrorCode>>::from, stub_err_from_code)]
#[kani::stub(<anchor_lang::error::Error as core::convert::From<anchor_lang::error::ErrorCode>>::from, stub_err_from_anchor_code)]
#[kani::stub(anchor_lang::prelude::Pubkey::find_program_address, anchor_h::stub_find_program_address)]
#[kani::stub(::whirlpool::util::token_2022::burn_and_close_user_position_token_2022, anchor_h::stub_burn_and_close_user_position_token_2022)]
fn c18_close_position_with_token_extensions_handler() {
    use anchor_lang::prelude::Context;
    use ::whirlpool::instructions::ClosePositionWithTokenExtensions as Accs;
    use std::collections::BTreeSet;
    let f = any_pos_fields_for(K_WP, K_MINT);
    let t = any_tok_fields_for(K_MINT, K_AUTH);
    let auth_signer: bool = kani::any();
    let auth_key = Pubkey::new_from_array(K_AUTH);
    let recv_key = Pubkey::new_from_array(K_RECV);
    let pos_key = Pubkey::new_from_array(K_POS);
    let mint_key = Pubkey::new_from_array(K_MINT);
    let ta_key = Pubkey::new_from_array(K_TA);

    let program_id = ::whirlpool::ID;
    let t22 = anchor_spl::token_2022::ID;
    let sys = Pubkey::default();
    let bpf = Pubkey::new_from_array([2u8; 32]);
    let (mut l0, mut l1, mut l2, mut l3, mut l4, mut l5) = (1u64, 1u64, 1u64, 1u64, 1u64, 1u64);
    let mut d_auth = [0u8; 0];
    let mut d_recv = [0u8; 0];
    let mut d_pos = f.bytes();
    let mut d_mint = mint_bytes(None, 1, 0);
    let mut d_ta = t.bytes();
    let mut d_tp = [0u8; 0];
    let accounts = [
        AccountInfo::new(&auth_key, auth_signer, false, &mut l0, &mut d_auth[..], &sys, false, 0),
        AccountInfo::new(&recv_key, false, true, &mut l1, &mut d_recv[..], &sys, false, 0),
        AccountInfo::new(&pos_key, false, true, &mut l2, &mut d_pos[..], &program_id, false, 0),
        AccountInfo::new(&mint_key, false, true, &mut l3, &mut d_mint[..], &t22, false, 0),
        AccountInfo::new(&ta_key, false, true, &mut l4, &mut d_ta[..], &t22, false, 0),
        AccountInfo::new(&t22, false, false, &mut l5, &mut d_tp[..], &bpf, true, 0),
    ];
    let mut slice: &[AccountInfo] = &accounts;
    let mut bumps = <Accs as anchor_lang::Bumps>::Bumps::default();
    let mut reallocs = BTreeSet::new();
    let r = <Accs as anchor_lang::Accounts<_>>::try_accounts(&program_id, &mut slice, &[], &mut bumps, &mut reallocs);
    let mut ok = false;
    if let Ok(mut accs) = r {
        let ctx = Context::new(&program_id, &mut accs, &[], bumps);
        let h = ::whirlpool::instructions::close_position_with_token_extensions::handler(ctx);
        ok = h.is_ok();
        core::mem::forget(h);
        core::mem::forget(accs);
    } else {
        core::mem::forget(r);
    }
    let cpi = unsafe { anchor_h::CPI_REACHED };
    kani::cover!(ok, "an empty unlocked position can be closed");
    kani::cover!(!ok && f.empty() && t.state == FROZEN && t.amount == 1 && auth_signer, "locked position refused");
    assert!(ok == cpi, "token burnt/closed exactly in the accepted runs");
    if ok {
        assert!(f.empty(), "closed only when empty");
        assert!(t.state != FROZEN, "a locked position cannot be closed");
        assert!(auth_signer);
        assert!(t.amount == 1 && t.mint == f.mint && mint_key.to_bytes() == f.mint);
    }
}

/// close_bundled_position, try_accounts + handler: Ok ⇒ the bundled position was empty ∧ its bitmap bit was set and is now clear, no other bit changed. Symbolic signer flag, all numeric Position fields, 256-bit bitmap, bundle index (instruction data and handler argument), token account amount/delegate; address-valued fields: expected address or another one.
// @verif prop=C18 tier=thorough timeout=900
#[kani::proof]
#[kani::unwind(40)]
#[kani::stub(alloc::fmt::format, stub_format)]
#[kani::stub(<anchor_lang::error::Error as core::convert::From<::whirlpool::errors::ErrorCode>>::from, stub_err_from_code)]
#[kani::stub(<anchor_lang::error::Error as core::convert::From<anchor_lang::error::ErrorCode>>::from, stub_err_from_anchor_code)]
#[kani::stub(anchor_lang::prelude::Pubkey::find_program_address, anchor_h::stub_find_program_address)]
fn c18_close_bundled_position_handler() {
    use anchor_lang::prelude::Context;
    use ::whirlpool::instructions::CloseBundledPosition as Accs;
    use std::collections::BTreeSet;
    let f = any_pos_fields_for(K_WP, K_BUNDLE_MINT);
    let t = any_tok_fields_for(K_BUNDLE_MINT, K_AUTH);
    let bundle_mint: [u8; 32] = pick(K_BUNDLE_MINT);
    let bm: [u8; 32] = kani::any();
    let index: u16 = kani::any();
    let auth_signer: bool = kani::any();
    let auth_key = Pubkey::new_from_array(K_AUTH);
    let recv_key = Pubkey::new_from_array(K_RECV);
    let pos_key = Pubkey::new_from_array(K_POS);
    let bundle_key = Pubkey::new_from_array(K_BUNDLE);
    let ta_key = Pubkey::new_from_array(K_TA);
    kani::assume(t.state == 1); // SPL Token account, initialized (bundle tokens are never frozen by the program)

    let program_id = ::whirlpool::ID;
    let token_pid = anchor_spl::token::ID;
    let sys = Pubkey::default();
    let (mut l0, mut l1, mut l2, mut l3, mut l4) = (1u64, 1u64, 1u64, 1u64, 1u64);
    let mut d_pos = f.bytes();
    let mut d_bundle = [0u8; 136];
    d_bundle[..8].copy_from_slice(PositionBundle::DISCRIMINATOR);
    d_bundle[8..40].copy_from_slice(&bundle_mint);
    d_bundle[40..72].copy_from_slice(&bm);
    let mut d_ta = t.bytes();
    let mut d_auth = [0u8; 0];
    let mut d_recv = [0u8; 0];
    let accounts = [
        AccountInfo::new(&pos_key, false, true, &mut l0, &mut d_pos[..], &program_id, false, 0),
        AccountInfo::new(&bundle_key, false, true, &mut l1, &mut d_bundle[..], &program_id, false, 0),
        AccountInfo::new(&ta_key, false, false, &mut l2, &mut d_ta[..], &token_pid, false, 0),
        AccountInfo::new(&auth_key, auth_signer, false, &mut l3, &mut d_auth[..], &sys, false, 0),
        AccountInfo::new(&recv_key, false, true, &mut l4, &mut d_recv[..], &sys, false, 0),
    ];
    let ix = index.to_le_bytes();
    let mut slice: &[AccountInfo] = &accounts;
    let mut bumps = <Accs as anchor_lang::Bumps>::Bumps::default();
    let mut reallocs = BTreeSet::new();
    let r = <Accs as anchor_lang::Accounts<_>>::try_accounts(&program_id, &mut slice, &ix, &mut bumps, &mut reallocs);
    let mut ok = false;
    let mut after = bm;
    if let Ok(mut accs) = r {
        let ctx = Context::new(&program_id, &mut accs, &[], bumps);
        let h = ::whirlpool::instructions::close_bundled_position::handler(ctx, index);
        ok = h.is_ok();
        after = accs.position_bundle.position_bitmap;
        core::mem::forget(h);
        core::mem::forget(accs);
    } else {
        core::mem::forget(r);
    }
    kani::cover!(ok, "an empty bundled position can be closed");
    if ok {
        assert!(f.empty(), "closed only when empty");
        assert!(index < 256);
        assert!(bit(&bm, index) && !bit(&after, index), "its bit was set and is cleared");
        assert!(popcount_diff(&bm, &after) == 1, "no other bundled position is touched");
        assert!(auth_signer);
        assert!(t.amount == 1 && t.mint == f.mint && t.mint == bundle_mint);
    } else {
        assert!(after == bm || popcount_diff(&bm, &after) <= 1);
    }
}

/// reset_position_range, try_accounts + handler (Rent sysvar = mainnet parameters, top-up transfer CPI recorded): Ok ⇒ position was empty (hence, by the lock rule "only positions with liquidity can be locked", not a locked one) ∧ new range differs ∧ position afterwards holds the new range with zeroed checkpoints. Symbolic signer flags, numeric Position fields, spacing ∈ {64, 32896} (the function-level harness covers the larger set), new range, token account amount/delegate/state (Token-2022 account), address-valued fields: expected or other; position lamports (>= rent exemption of the position itself, a runtime guarantee). Peak memory ~12-16 GB, hence `large`.
// @verif prop=C18 tier=thorough timeout=900 large
#[kani::proof]
#[kani::unwind(40)]
#[kani::stub(alloc::fmt::format, stub_format)]
#[kani::stub(<anchor_lang::error::Error as core::convert::From<::whirlpool::errors::ErrorCode>>::from, stub_err_from_code)]
#[kani::stub(<anchor_lang::error::Error as core::convert::From<anchor_lang::error::ErrorCode>>::from, stub_err_from_anchor_code)]
#[kani::stub(<anchor_lang::prelude::Rent as anchor_lang::prelude::SolanaSysvar>::get, anchor_h::stub_rent_get)]
#[kani::stub(solana_program::program::invoke_signed, cpi_log::stub_invoke_signed)]
fn c18_reset_position_range_handler() {
    use anchor_lang::prelude::Context;
    use ::whirlpool::instructions::ResetPositionRange as Accs;
    use std::collections::BTreeSet;
    let f = any_pos_fields_for(K_WP, K_MINT);
    let t = any_tok_fields_for(K_MINT, K_AUTH);
    let s: u16 = if kani::any() { 64 } else { 32896 };
    let lo: i32 = kani::any();
    let hi: i32 = kani::any();
    let funder_signer: bool = kani::any();
    let auth_signer: bool = kani::any();
    let funder_key = Pubkey::new_from_array(K_FUNDER);
    let auth_key = Pubkey::new_from_array(K_AUTH);
    let wp_key = Pubkey::new_from_array(K_WP);
    let pos_key = Pubkey::new_from_array(K_POS);
    let ta_key = Pubkey::new_from_array(K_TA);
    let pos_lamports: u64 = kani::any();
    // runtime guarantee: an existing account is rent exempt for its own size ((128 + 216) * 3480 * 2)
    kani::assume(pos_lamports >= 2_394_240);

    let program_id = ::whirlpool::ID;
    // position token account owned by Token-2022 (the lockable kind); a symbolic owner program makes symex format
    // public keys (bs58) on the wrong-owner error path
    let tok = anchor_spl::token_2022::ID;
    let sys = Pubkey::default();
    let native = Pubkey::new_from_array([3u8; 32]);
    let (mut l0, mut l1, mut l2, mut l3, mut l4, mut l5) = (10_000_000u64, 1u64, 1u64, pos_lamports, 1u64, 1u64);
    let mut d_funder = [0u8; 0];
    let mut d_auth = [0u8; 0];
    let mut d_wp = wp_bytes(s);
    let mut d_pos = f.bytes();
    let mut d_ta = t.bytes();
    let mut d_sys = [0u8; 0];
    let accounts = [
        AccountInfo::new(&funder_key, funder_signer, true, &mut l0, &mut d_funder[..], &sys, false, 0),
        AccountInfo::new(&auth_key, auth_signer, false, &mut l1, &mut d_auth[..], &sys, false, 0),
        AccountInfo::new(&wp_key, false, false, &mut l2, &mut d_wp[..], &program_id, false, 0),
        AccountInfo::new(&pos_key, false, true, &mut l3, &mut d_pos[..], &program_id, false, 0),
        AccountInfo::new(&ta_key, false, false, &mut l4, &mut d_ta[..], &tok, false, 0),
        AccountInfo::new(&sys, false, false, &mut l5, &mut d_sys[..], &native, true, 0),
    ];
    let mut slice: &[AccountInfo] = &accounts;
    let mut bumps = <Accs as anchor_lang::Bumps>::Bumps::default();
    let mut reallocs = BTreeSet::new();
    let r = <Accs as anchor_lang::Accounts<_>>::try_accounts(&program_id, &mut slice, &[], &mut bumps, &mut reallocs);
    let mut ok = false;
    let mut post = f.anchor();
    if let Ok(mut accs) = r {
        let ctx = Context::new(&program_id, &mut accs, &[], bumps);
        let h = ::whirlpool::instructions::reset_position_range::handler(ctx, lo, hi);
        ok = h.is_ok();
        post = (**accs.position).clone();
        core::mem::forget(h);
        core::mem::forget(accs);
    } else {
        core::mem::forget(r);
    }
    kani::cover!(ok, "an empty position can be re-ranged");
    kani::cover!(ok && unsafe { cpi_log::N } == 1, "with a rent top-up");
    let mut expect = f;
    if ok {
        assert!(f.empty(), "re-ranged only when empty");
        assert!(!(lo == f.lo && hi == f.hi), "to a different range");
        assert!(spec_valid_range(lo, hi, s), "that is valid for the pool");
        assert!(auth_signer && funder_signer);
        assert!(f.whirlpool == wp_key.to_bytes(), "position belongs to the pool whose spacing is used");
        assert!(t.amount == 1 && t.mint == f.mint);
        expect.lo = lo;
        expect.hi = hi;
        expect.cp_a = 0;
        expect.cp_b = 0;
        expect.r_cp = [0; 3];
    }
    assert!(same_as_fields(&post, &expect));
}

/// lock_position handler on a hand-built LockPosition (its `init` + `seeds` constraints call the System program / sha256, so the generated try_accounts is not run; the three `constraint =` attributes of position_token_account — amount == 1, mint == position.position_mint, !is_frozen() — are transcribed as the precondition; signer fields exist only for signers): Ok ⇒ position liquidity > 0 ∧ freeze CPI issued ∧ LockConfig records position, token owner, whirlpool, time; liquidity == 0 ⇒ PositionNotLockable without freezing. Symbolic numeric Position fields, token account owner/delegate choice, delegated amount, timestamp.
// @verif prop=C18 tier=thorough timeout=900
#[kani::proof]
#[kani::unwind(40)]
#[kani::stub(alloc::fmt::format, stub_format)]
#[kani::stub(<anchor_lang::error::Error as core::convert::From<::whirlpool::errors::ErrorCode>>::from, stub_err_from_code)]
#[kani::stub(<anchor_lang::error::Error as core::convert::From<anchor_lang::error::ErrorCode>>::from, stub_err_from_anchor_code)]
#[kani::stub(<anchor_lang::prelude::Clock as anchor_lang::prelude::SolanaSysvar>::get, anchor_h::stub_clock_get)]
#[kani::stub(::whirlpool::util::token_2022::freeze_user_position_token_2022, anchor_h::stub_freeze_user_position_token_2022)]
fn c18_lock_position_handler() {
    use anchor_lang::prelude::{Context, InterfaceAccount, Program, Signer};
    use ::whirlpool::instructions::LockPosition;
    use ::whirlpool::state::{LockConfig, LockType};
    let f = any_pos_fields_for(K_WP, K_MINT);
    let t = any_tok_fields_for(K_MINT, K_AUTH);
    let now: i64 = kani::any();
    // transcribed account constraints of LockPosition.position_token_account / has_one = whirlpool
    kani::assume(t.amount == 1 && t.mint == f.mint && t.state == 1);
    kani::assume(f.whirlpool == K_WP && f.mint == K_MINT);
    unsafe {
        anchor_h::NOW = now;
    }
    let program_id = ::whirlpool::ID;
    let t22 = anchor_spl::token_2022::ID;
    let sys = Pubkey::default();
    let bpf = Pubkey::new_from_array([2u8; 32]);
    let native = Pubkey::new_from_array([3u8; 32]);
    let funder_key = Pubkey::new_from_array(K_FUNDER);
    let auth_key = Pubkey::new_from_array(K_AUTH);
    let pos_key = Pubkey::new_from_array(K_POS);
    let mint_key = Pubkey::new_from_array(K_MINT);
    let ta_key = Pubkey::new_from_array(K_TA);
    let lock_key = Pubkey::new_from_array(K_LOCK);
    let wp_key = Pubkey::new_from_array(K_WP);
    let (mut l0, mut l1, mut l2, mut l3, mut l4, mut l5, mut l6, mut l7, mut l8) = (1u64, 1u64, 1u64, 1u64, 1u64, 1u64, 1u64, 1u64, 1u64);
    let mut d_funder = [0u8; 0];
    let mut d_auth = [0u8; 0];
    let mut d_pos = f.bytes();
    let mut d_mint = mint_bytes(None, 1, 0);
    d_mint[46] = 1; // freeze authority present (position PDA)
    d_mint[50..82].copy_from_slice(&K_POS);
    let mut d_ta = t.bytes();
    let mut d_lock = [0u8; 241]; // LockConfig::LEN, as created by `init`
    let mut d_wp = wp_bytes(64);
    let mut d_t22 = [0u8; 0];
    let mut d_sys = [0u8; 0];
    let funder_ai = AccountInfo::new(&funder_key, true, true, &mut l0, &mut d_funder[..], &sys, false, 0);
    let auth_ai = AccountInfo::new(&auth_key, true, false, &mut l1, &mut d_auth[..], &sys, false, 0);
    let pos_ai = AccountInfo::new(&pos_key, false, false, &mut l2, &mut d_pos[..], &program_id, false, 0);
    let mint_ai = AccountInfo::new(&mint_key, false, false, &mut l3, &mut d_mint[..], &t22, false, 0);
    let ta_ai = AccountInfo::new(&ta_key, false, true, &mut l4, &mut d_ta[..], &t22, false, 0);
    let lock_ai = AccountInfo::new(&lock_key, false, true, &mut l5, &mut d_lock[..], &program_id, false, 0);
    let wp_ai = AccountInfo::new(&wp_key, false, false, &mut l6, &mut d_wp[..], &program_id, false, 0);
    let t22_ai = AccountInfo::new(&t22, false, false, &mut l7, &mut d_t22[..], &bpf, true, 0);
    let sys_ai = AccountInfo::new(&sys, false, false, &mut l8, &mut d_sys[..], &native, true, 0);
    let mut accs = LockPosition {
        funder: Signer::try_from(&funder_ai).unwrap(),
        position_authority: Signer::try_from(&auth_ai).unwrap(),
        position: Account::try_from(&pos_ai).unwrap(),
        position_mint: InterfaceAccount::try_from(&mint_ai).unwrap(),
        position_token_account: InterfaceAccount::try_from(&ta_ai).unwrap(),
        lock_config: Box::new(Account::try_from_unchecked(&lock_ai).unwrap()),
        whirlpool: Account::try_from(&wp_ai).unwrap(),
        token_2022_program: Program::try_from(&t22_ai).unwrap(),
        system_program: Program::try_from(&sys_ai).unwrap(),
    };
    let bumps = <LockPosition as anchor_lang::Bumps>::Bumps::default();
    let ctx = Context::new(&program_id, &mut accs, &[], bumps);
    let h = ::whirlpool::instructions::lock_position::handler(ctx, LockType::Permanent);
    let out = match &h { Ok(()) => Ok(()), Err(e) => Err(acode(e)) };
    core::mem::forget(h);
    let frozen_by_cpi = unsafe { anchor_h::CPI_REACHED };
    let lc_position = accs.lock_config.position;
    let lc_owner = accs.lock_config.position_owner;
    let lc_wp = accs.lock_config.whirlpool;
    let lc_time = accs.lock_config.locked_timestamp;
    core::mem::forget(accs);
    kani::cover!(out.is_ok(), "a position with liquidity can be locked");
    kani::cover!(out == Err(ecode(ErrorCode::PositionNotLockable)), "an empty position cannot");
    assert!(out.is_ok() == frozen_by_cpi, "frozen exactly in the accepted runs");
    if out.is_ok() {
        assert!(f.liquidity > 0, "only positions with liquidity can be locked");
        assert!(lc_position == pos_key && lc_owner.to_bytes() == t.owner && lc_wp == wp_key);
        assert!(lc_time == now as u64);
    }
    if f.liquidity == 0 {
        assert!(out.is_err());
    }
}
