//! C18 harnesses (Engine K)
