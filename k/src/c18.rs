//! C18 — positions are opened, closed, re-ranged, locked and bundled only consistently (Engine K).
//!
//! Function level (quick tier): tick-range validation (Anchor + Pinocchio), `open_position`,
//! `reset_position_range` (both runtimes, differential), `is_position_empty`, one-sided tick
//! resolution (tick math = contract stubs T1/T2), `PositionBundle` bitmap, lock predicates.
//! Handler level (thorough tier): close / lock / reset handlers up to the first CPI, Pinocchio
//! decrease/increase prefixes, CPI log of `mint_position_token_and_remove_authority`.
use crate::common::*;
use anchor_lang::prelude::{Account, AccountInfo, Pubkey};
use anchor_lang::Discriminator;
use ::whirlpool::errors::ErrorCode;
use ::whirlpool::pinocchio::state::whirlpool::{MemoryMappedPosition, MemoryMappedWhirlpool};
use ::whirlpool::state::{
    Position, PositionBundle, PositionRewardInfo, Whirlpool, MAX_TICK_INDEX, MIN_TICK_INDEX,
};

const WP_LEN: usize = 653;
const POS_LEN: usize = 216;
/// byte offset of `tick_spacing` in a Whirlpool account (disc 8 + config 32 + bump 1)
const WP_TICK_SPACING: usize = 41;
const FULL_RANGE_ONLY: u16 = 32768;

// ------------------------------------------------------------------------------------------------
// specification side (written independently of the code under test)

/// "usable tick": inside the protocol bounds and a multiple of the spacing
fn spec_usable(t: i32, s: u16) -> bool {
    let s = s as i32;
    t >= MIN_TICK_INDEX && t <= MAX_TICK_INDEX && (t / s) * s == t
}
/// the full range for a spacing = from the smallest usable tick to the largest usable tick
fn spec_is_full_range(lo: i32, hi: i32, s: u16) -> bool {
    spec_usable(lo, s)
        && spec_usable(hi, s)
        && lo - (s as i32) < MIN_TICK_INDEX
        && hi + (s as i32) > MAX_TICK_INDEX
}
/// validity of a range given the usability of its two bounds
fn spec_valid_from(u_lo: bool, u_hi: bool, lo: i32, hi: i32, s: u16) -> bool {
    u_lo && u_hi && lo < hi && (s < FULL_RANGE_ONLY || spec_is_full_range(lo, hi, s))
}
fn spec_valid_range(lo: i32, hi: i32, s: u16) -> bool {
    spec_valid_from(spec_usable(lo, s), spec_usable(hi, s), lo, hi, s)
}
/// error code demanded for an invalid range (usable/ordering is reported before full-range-only)
fn spec_error_from(u_lo: bool, u_hi: bool, lo: i32, hi: i32) -> u32 {
    if !(u_lo && u_hi && lo < hi) {
        ecode(ErrorCode::InvalidTickIndex)
    } else {
        ecode(ErrorCode::FullRangeOnlyPool)
    }
}
fn spec_range_error(lo: i32, hi: i32, s: u16) -> u32 {
    spec_error_from(spec_usable(lo, s), spec_usable(hi, s), lo, hi)
}

/// Uninterpreted replacement of `Tick::check_is_usable_tick(t, s)` for the harness that quantifies over
/// every u16 spacing: two bit-blasted 32-bit remainders by the same symbolic divisor cannot be related
/// by the SAT back end (measured: > 600 s even for spacing <= 255). Exact on the bounds part, an arbitrary
/// but fixed answer per (t, s) otherwise; the definition itself (in bounds ∧ t % s == 0) is
/// `c18_usable_tick_definition`, and the real function runs unstubbed in the spacing-set harnesses.
mod usable_memo {
    use super::{MAX_TICK_INDEX, MIN_TICK_INDEX};
    const N: usize = 4;
    static mut K: [(i32, u16); N] = [(0, 0); N];
    static mut V: [bool; N] = [false; N];
    static mut CNT: usize = 0;
    pub fn stub_check_is_usable_tick(t: i32, s: u16) -> bool {
        if t < MIN_TICK_INDEX || t > MAX_TICK_INDEX {
            return false;
        }
        unsafe {
            let mut i = 0;
            while i < CNT {
                if K[i] == (t, s) {
                    return V[i];
                }
                i += 1;
            }
            assert!(CNT < N, "memo table bound (check_is_usable_tick)");
            let v: bool = kani::any();
            K[CNT] = (t, s);
            V[CNT] = v;
            CNT += 1;
            v
        }
    }
}

// ------------------------------------------------------------------------------------------------
// builders

/// Whirlpool account bytes: discriminator + the given tick spacing, everything else zero (no other
/// field is read by the functions checked at this level)
fn wp_bytes(tick_spacing: u16) -> [u8; WP_LEN] {
    let mut d = [0u8; WP_LEN];
    d[..8].copy_from_slice(Whirlpool::DISCRIMINATOR);
    d[WP_TICK_SPACING..WP_TICK_SPACING + 2].copy_from_slice(&tick_spacing.to_le_bytes());
    d
}
fn mwp(b: &[u8; WP_LEN]) -> &MemoryMappedWhirlpool {
    unsafe { &*(b.as_ptr() as *const MemoryMappedWhirlpool) }
}
fn mpos(b: &mut [u8; POS_LEN]) -> &mut MemoryMappedPosition {
    unsafe { &mut *(b.as_mut_ptr() as *mut MemoryMappedPosition) }
}

#[derive(Clone, Copy)]
struct PosFields {
    whirlpool: [u8; 32],
    mint: [u8; 32],
    liquidity: u128,
    lo: i32,
    hi: i32,
    cp_a: u128,
    owed_a: u64,
    cp_b: u128,
    owed_b: u64,
    r_cp: [u128; 3],
    r_owed: [u64; 3],
}
fn any_pos_fields() -> PosFields {
    PosFields {
        whirlpool: kani::any(),
        mint: kani::any(),
        liquidity: kani::any(),
        lo: kani::any(),
        hi: kani::any(),
        cp_a: kani::any(),
        owed_a: kani::any(),
        cp_b: kani::any(),
        owed_b: kani::any(),
        r_cp: kani::any(),
        r_owed: kani::any(),
    }
}
impl PosFields {
    fn empty(&self) -> bool {
        self.liquidity == 0
            && self.owed_a == 0
            && self.owed_b == 0
            && self.r_owed[0] == 0
            && self.r_owed[1] == 0
            && self.r_owed[2] == 0
    }
    fn anchor(&self) -> Position {
        Position {
            whirlpool: Pubkey::new_from_array(self.whirlpool),
            position_mint: Pubkey::new_from_array(self.mint),
            liquidity: self.liquidity,
            tick_lower_index: self.lo,
            tick_upper_index: self.hi,
            fee_growth_checkpoint_a: self.cp_a,
            fee_owed_a: self.owed_a,
            fee_growth_checkpoint_b: self.cp_b,
            fee_owed_b: self.owed_b,
            reward_infos: [
                PositionRewardInfo { growth_inside_checkpoint: self.r_cp[0], amount_owed: self.r_owed[0] },
                PositionRewardInfo { growth_inside_checkpoint: self.r_cp[1], amount_owed: self.r_owed[1] },
                PositionRewardInfo { growth_inside_checkpoint: self.r_cp[2], amount_owed: self.r_owed[2] },
            ],
        }
    }
    /// account bytes in the layout of `state/position.rs` (borsh = packed little endian)
    fn bytes(&self) -> [u8; POS_LEN] {
        let mut d = [0u8; POS_LEN];
        d[..8].copy_from_slice(Position::DISCRIMINATOR);
        d[8..40].copy_from_slice(&self.whirlpool);
        d[40..72].copy_from_slice(&self.mint);
        d[72..88].copy_from_slice(&self.liquidity.to_le_bytes());
        d[88..92].copy_from_slice(&self.lo.to_le_bytes());
        d[92..96].copy_from_slice(&self.hi.to_le_bytes());
        d[96..112].copy_from_slice(&self.cp_a.to_le_bytes());
        d[112..120].copy_from_slice(&self.owed_a.to_le_bytes());
        d[120..136].copy_from_slice(&self.cp_b.to_le_bytes());
        d[136..144].copy_from_slice(&self.owed_b.to_le_bytes());
        let mut i = 0;
        while i < 3 {
            let o = 144 + 24 * i;
            d[o..o + 16].copy_from_slice(&self.r_cp[i].to_le_bytes());
            d[o + 16..o + 24].copy_from_slice(&self.r_owed[i].to_le_bytes());
            i += 1;
        }
        d
    }
}
fn rd16(d: &[u8; POS_LEN], o: usize) -> u128 {
    let mut b = [0u8; 16];
    let mut i = 0;
    while i < 16 {
        b[i] = d[o + i];
        i += 1;
    }
    u128::from_le_bytes(b)
}
fn rd8(d: &[u8; POS_LEN], o: usize) -> u64 {
    let mut b = [0u8; 8];
    let mut i = 0;
    while i < 8 {
        b[i] = d[o + i];
        i += 1;
    }
    u64::from_le_bytes(b)
}
/// byte-exact comparison of account bytes with the expected field values (no memcmp loop)
fn bytes_are(d: &[u8; POS_LEN], f: &PosFields) -> bool {
    let mut ok = rd8(d, 0) == u64::from_le_bytes(Position::DISCRIMINATOR.try_into().unwrap());
    ok = ok && rd16(d, 8) == rd16_32(&f.whirlpool, 0) && rd16(d, 24) == rd16_32(&f.whirlpool, 16);
    ok = ok && rd16(d, 40) == rd16_32(&f.mint, 0) && rd16(d, 56) == rd16_32(&f.mint, 16);
    ok = ok && rd16(d, 72) == f.liquidity;
    ok = ok && (rd8(d, 88) as u32) as i32 == f.lo && ((rd8(d, 88) >> 32) as u32) as i32 == f.hi;
    ok = ok && rd16(d, 96) == f.cp_a && rd8(d, 112) == f.owed_a;
    ok = ok && rd16(d, 120) == f.cp_b && rd8(d, 136) == f.owed_b;
    let mut i = 0;
    while i < 3 {
        let o = 144 + 24 * i;
        ok = ok && rd16(d, o) == f.r_cp[i] && rd8(d, o + 16) == f.r_owed[i];
        i += 1;
    }
    ok
}
fn rd16_32(d: &[u8; 32], o: usize) -> u128 {
    let mut b = [0u8; 16];
    let mut i = 0;
    while i < 16 {
        b[i] = d[o + i];
        i += 1;
    }
    u128::from_le_bytes(b)
}
fn same_as_fields(p: &Position, f: &PosFields) -> bool {
    p.whirlpool.to_bytes() == f.whirlpool
        && p.position_mint.to_bytes() == f.mint
        && p.liquidity == f.liquidity
        && p.tick_lower_index == f.lo
        && p.tick_upper_index == f.hi
        && p.fee_growth_checkpoint_a == f.cp_a
        && p.fee_owed_a == f.owed_a
        && p.fee_growth_checkpoint_b == f.cp_b
        && p.fee_owed_b == f.owed_b
        && p.reward_infos[0].growth_inside_checkpoint == f.r_cp[0]
        && p.reward_infos[1].growth_inside_checkpoint == f.r_cp[1]
        && p.reward_infos[2].growth_inside_checkpoint == f.r_cp[2]
        && p.reward_infos[0].amount_owed == f.r_owed[0]
        && p.reward_infos[1].amount_owed == f.r_owed[1]
        && p.reward_infos[2].amount_owed == f.r_owed[2]
}

/// Both `validate_tick_range_for_whirlpool` are private: the Anchor one is reached through
/// `Position::open_position` (which does nothing else before it), the Pinocchio one through
/// `MemoryMappedPosition::reset_position_range` on an empty position holding a different range.
fn anchor_validate(wp_data: &mut [u8; WP_LEN], wp_key: &Pubkey, lo: i32, hi: i32) -> (Result<(), u32>, Position) {
    let program_id = ::whirlpool::ID;
    let mut lamports = 1u64;
    let ai = AccountInfo::new(wp_key, false, false, &mut lamports, &mut wp_data[..], &program_id, false, 0);
    let wp: Account<Whirlpool> = Account::try_from(&ai).unwrap();
    let mut pos = Position::default();
    let mint = Pubkey::new_from_array([7u8; 32]);
    let r = pos.open_position(&wp, mint, lo, hi);
    let out = match &r {
        Ok(()) => Ok(()),
        Err(e) => Err(acode(e)),
    };
    core::mem::forget(r);
    core::mem::forget(wp);
    (out, pos)
}
fn pino_validate(wp_data: &[u8; WP_LEN], old: (i32, i32), lo: i32, hi: i32) -> Result<(), u32> {
    let mut f = PosFields {
        whirlpool: [0; 32], mint: [0; 32], liquidity: 0, lo: old.0, hi: old.1, cp_a: 0, owed_a: 0,
        cp_b: 0, owed_b: 0, r_cp: [0; 3], r_owed: [0; 3],
    };
    f.lo = old.0;
    let mut pb = f.bytes();
    let r = mpos(&mut pb).reset_position_range(mwp(wp_data), lo, hi, true);
    let out = match &r {
        Ok(()) => Ok(()),
        Err(e) => Err(ucode(e)),
    };
    core::mem::forget(r);
    out
}

/// spacing drawn from {1, 8, 64, 128, 32896}: smallest, two deployed ones, the largest ordinary one used by
/// the splash-pool tier boundary, and a full-range-only one
fn any_spacing_from_set() -> u16 {
    let which: u8 = kani::any();
    match which {
        0 => 1,
        1 => 8,
        2 => 64,
        3 => 128,
        _ => 32896,
    }
}

fn check_validate(s: u16, abstract_usable: bool) {
    let lo: i32 = kani::any();
    let hi: i32 = kani::any();
    let old_lo: i32 = kani::any();
    let old_hi: i32 = kani::any();
    let key: [u8; 32] = kani::any();
    kani::assume(s >= 1); // documented validity predicate: every pool has tick_spacing >= 1
    kani::assume(old_lo != lo || old_hi != hi);
    let mut wd = wp_bytes(s);
    let wp_key = Pubkey::new_from_array(key);
    let p = pino_validate(&wd, (old_lo, old_hi), lo, hi);
    let (a, pos) = anchor_validate(&mut wd, &wp_key, lo, hi);
    let (u_lo, u_hi) = if abstract_usable {
        (usable_memo::stub_check_is_usable_tick(lo, s), usable_memo::stub_check_is_usable_tick(hi, s))
    } else {
        (spec_usable(lo, s), spec_usable(hi, s))
    };
    let valid = spec_valid_from(u_lo, u_hi, lo, hi, s);
    kani::cover!(a.is_ok() && s < FULL_RANGE_ONLY, "ordinary range accepted");
    kani::cover!(a.is_ok() && s >= FULL_RANGE_ONLY, "full range accepted on a full-range-only pool");
    kani::cover!(a == Err(ecode(ErrorCode::FullRangeOnlyPool)), "partial range refused on a full-range-only pool");
    assert!(a.is_ok() == valid, "anchor: Ok <=> valid range");
    assert!(p.is_ok() == valid, "pinocchio: Ok <=> valid range");
    assert!(a == p, "both runtimes agree, including the error code");
    if let Err(c) = a {
        assert!(c == spec_error_from(u_lo, u_hi, lo, hi));
    } else {
        // open_position on the zeroed (init) account: range set, identity set, nothing else
        assert!(pos.tick_lower_index == lo && pos.tick_upper_index == hi);
        assert!(pos.whirlpool == wp_key);
    }
}

/// validate_tick_range_for_whirlpool (Anchor via open_position, Pinocchio via reset_position_range): Ok <=> usable ∧ lower<upper ∧ (full-range-only ⇒ full range); same error codes. Symbolic lower/upper, spacing ∈ {1, 8, 64, 128, 32896}
// @verif prop=C18 tier=quick timeout=300
#[kani::proof]
#[kani::unwind(34)]
#[kani::stub(alloc::fmt::format, stub_format)]
#[kani::stub(<anchor_lang::error::Error as core::convert::From<::whirlpool::errors::ErrorCode>>::from, stub_err_from_code)]
#[kani::stub(<anchor_lang::error::Error as core::convert::From<anchor_lang::error::ErrorCode>>::from, stub_err_from_anchor_code)]
#[kani::stub(<::whirlpool::pinocchio::errors::UnifiedError as core::convert::From<::whirlpool::errors::ErrorCode>>::from, stub_unified_from_code)]
fn c18_validate_tick_range_spacing_set() {
    let s = any_spacing_from_set();
    check_validate(s, false);
}

/// the same for EVERY u16 spacing >= 1, with `Tick::check_is_usable_tick` abstracted to an uninterpreted predicate U(t, s) (false outside the tick bounds): Ok ⇔ U(lower) ∧ U(upper) ∧ lower<upper ∧ (spacing >= 2^15 ⇒ lower/upper are the smallest/largest multiples of the spacing inside the bounds); both runtimes agree incl. error codes
// @verif prop=C18 tier=quick timeout=300
#[kani::proof]
#[kani::unwind(34)]
#[kani::stub(alloc::fmt::format, stub_format)]
#[kani::stub(<anchor_lang::error::Error as core::convert::From<::whirlpool::errors::ErrorCode>>::from, stub_err_from_code)]
#[kani::stub(<anchor_lang::error::Error as core::convert::From<anchor_lang::error::ErrorCode>>::from, stub_err_from_anchor_code)]
#[kani::stub(<::whirlpool::pinocchio::errors::UnifiedError as core::convert::From<::whirlpool::errors::ErrorCode>>::from, stub_unified_from_code)]
#[kani::stub(::whirlpool::state::Tick::check_is_usable_tick, usable_memo::stub_check_is_usable_tick)]
fn c18_validate_tick_range_any_spacing() {
    let s: u16 = kani::any();
    check_validate(s, true);
}

/// definition of U: Tick::check_is_usable_tick(t, s) ⇔ MIN_TICK_INDEX <= t <= MAX_TICK_INDEX ∧ t % s == 0, all i32 t and all u16 s >= 1 (SMT back end: the two remainders are one term)
// @verif prop=C18 tier=quick timeout=300
#[kani::proof]
#[kani::solver(z3)]
fn c18_usable_tick_definition() {
    let s: u16 = kani::any();
    let t: i32 = kani::any();
    kani::assume(s >= 1);
    let u = ::whirlpool::state::Tick::check_is_usable_tick(t, s);
    kani::cover!(u, "usable");
    assert!(u == (t >= MIN_TICK_INDEX && t <= MAX_TICK_INDEX && t % (s as i32) == 0));
}

/// Position::is_position_empty <=> liquidity == 0 ∧ fee_owed_a == fee_owed_b == 0 ∧ all three reward amount_owed == 0 (all Position fields symbolic)
// @verif prop=C18 tier=quick timeout=300
#[kani::proof]
#[kani::unwind(5)]
fn c18_is_position_empty() {
    let f = any_pos_fields();
    let p = f.anchor();
    let e = Position::is_position_empty(&p);
    kani::cover!(e, "empty");
    kani::cover!(!e && f.liquidity == 0 && f.owed_a == 0 && f.owed_b == 0, "rewards alone make it non-empty");
    assert!(e == f.empty());
}

/// reset_position_range, Anchor and Pinocchio on the same position bytes: Ok ⇒ (was empty ∧ new range ≠ old ∧ new range valid) and afterwards range = new, all five growth checkpoints 0, liquidity/owed/identity untouched; Ok ⇐ those three; refusals carry the documented codes; both runtimes agree on outcome and resulting state. Symbolic position and range; spacing ∈ {1, 8, 64, 128, 32896} (range validation for every spacing is c18_validate_tick_range_any_spacing).
// @verif prop=C18 tier=quick timeout=300
#[kani::proof]
#[kani::unwind(34)]
#[kani::stub(alloc::fmt::format, stub_format)]
#[kani::stub(<anchor_lang::error::Error as core::convert::From<::whirlpool::errors::ErrorCode>>::from, stub_err_from_code)]
#[kani::stub(<anchor_lang::error::Error as core::convert::From<anchor_lang::error::ErrorCode>>::from, stub_err_from_anchor_code)]
#[kani::stub(<::whirlpool::pinocchio::errors::UnifiedError as core::convert::From<::whirlpool::errors::ErrorCode>>::from, stub_unified_from_code)]
fn c18_reset_position_range() {
    let f = any_pos_fields();
    let s = any_spacing_from_set();
    let lo: i32 = kani::any();
    let hi: i32 = kani::any();
    let key: [u8; 32] = kani::any();
    kani::assume(s >= 1); // documented validity predicate
    let mut wd = wp_bytes(s);
    let wp_key = Pubkey::new_from_array(key);

    // Pinocchio (keep_owed = false is the Anchor-equivalent mode)
    let mut pb = f.bytes();
    let pr = mpos(&mut pb).reset_position_range(mwp(&wd), lo, hi, false);
    let p = match &pr { Ok(()) => Ok(()), Err(e) => Err(ucode(e)) };
    core::mem::forget(pr);

    // Anchor
    let program_id = ::whirlpool::ID;
    let mut lamports = 1u64;
    let ai = AccountInfo::new(&wp_key, false, false, &mut lamports, &mut wd[..], &program_id, false, 0);
    let wp: Account<Whirlpool> = Account::try_from(&ai).unwrap();
    let mut pos = f.anchor();
    let ar = pos.reset_position_range(&wp, lo, hi);
    let a = match &ar { Ok(()) => Ok(()), Err(e) => Err(acode(e)) };
    core::mem::forget(ar);
    core::mem::forget(wp);

    let same = lo == f.lo && hi == f.hi;
    let valid = spec_valid_range(lo, hi, s);
    kani::cover!(a.is_ok(), "reset accepted");
    kani::cover!(a == Err(ecode(ErrorCode::SameTickRangeNotAllowed)), "same range refused");
    kani::cover!(a == Err(ecode(ErrorCode::ClosePositionNotEmpty)) && f.liquidity == 0, "owed amounts alone refuse");
    assert!(a == p, "both runtimes agree, including the error code");
    assert!(a.is_ok() == (f.empty() && !same && valid));
    let mut expect = f;
    if a.is_ok() {
        expect.lo = lo;
        expect.hi = hi;
        expect.cp_a = 0;
        expect.cp_b = 0;
        expect.r_cp = [0; 3];
    } else {
        let c = a.unwrap_err();
        if !f.empty() {
            assert!(c == ecode(ErrorCode::ClosePositionNotEmpty));
        } else if same {
            assert!(c == ecode(ErrorCode::SameTickRangeNotAllowed));
        } else {
            assert!(c == spec_range_error(lo, hi, s));
        }
    }
    assert!(same_as_fields(&pos, &expect), "anchor post-state");
    assert!(bytes_are(&pb, &expect), "pinocchio post-state");
}

/// Pinocchio reset_position_range with keep_owed = true (reposition): Ok ⇒ liquidity == 0 ∧ different ∧ valid range; checkpoints reset; owed amounts kept. Symbolic position and range; spacing ∈ {1, 8, 64, 128, 32896}.
// @verif prop=C18 tier=quick timeout=300
#[kani::proof]
#[kani::unwind(34)]
#[kani::stub(alloc::fmt::format, stub_format)]
#[kani::stub(<::whirlpool::pinocchio::errors::UnifiedError as core::convert::From<::whirlpool::errors::ErrorCode>>::from, stub_unified_from_code)]
fn c18_pino_reset_keep_owed() {
    let f = any_pos_fields();
    let s = any_spacing_from_set();
    let lo: i32 = kani::any();
    let hi: i32 = kani::any();
    kani::assume(s >= 1);
    let wd = wp_bytes(s);
    let mut pb = f.bytes();
    let pr = mpos(&mut pb).reset_position_range(mwp(&wd), lo, hi, true);
    let ok = pr.is_ok();
    core::mem::forget(pr);
    kani::cover!(ok && f.owed_a != 0, "accepted while fees are owed");
    let mut expect = f;
    if ok {
        assert!(f.liquidity == 0);
        assert!(!(lo == f.lo && hi == f.hi));
        assert!(spec_valid_range(lo, hi, s));
        expect.lo = lo;
        expect.hi = hi;
        expect.cp_a = 0;
        expect.cp_b = 0;
        expect.r_cp = [0; 3];
    }
    assert!(bytes_are(&pb, &expect));
}

// ------------------------------------------------------------------------------------------------
// PositionBundle bitmap

fn popcount_diff(a: &[u8; 32], b: &[u8; 32]) -> u32 {
    let mut n = 0;
    let mut i = 0;
    while i < 32 {
        n += (a[i] ^ b[i]).count_ones();
        i += 1;
    }
    n
}
fn bit(bm: &[u8; 32], i: u16) -> bool {
    // reference numbering: bundle index i is the i-th bit of the little-endian 256-bit bitmap
    let mut k = 0u16;
    let mut j = 0usize;
    while j < 32 {
        let mut b = 0u8;
        while b < 8 {
            if k == i {
                return (bm[j] >> b) & 1 == 1;
            }
            k += 1;
            b += 1;
        }
        j += 1;
    }
    false
}

/// open_bundled_position(i) / close_bundled_position(i) on a symbolic 32-byte bitmap and symbolic u16 index: Ok ⇔ i < 256 ∧ bit i was clear (open) / set (close); Ok flips exactly bit i; Err leaves the bitmap untouched and carries the documented code
// @verif prop=C18 tier=quick timeout=300
#[kani::proof]
#[kani::unwind(34)]
#[kani::stub(alloc::fmt::format, stub_format)]
#[kani::stub(<anchor_lang::error::Error as core::convert::From<::whirlpool::errors::ErrorCode>>::from, stub_err_from_code)]
fn c18_bundle_bitmap_flip() {
    let bm: [u8; 32] = kani::any();
    let mint: [u8; 32] = kani::any();
    let i: u16 = kani::any();
    let open: bool = kani::any();
    let mut b = PositionBundle { position_bundle_mint: Pubkey::new_from_array(mint), position_bitmap: bm };
    let r = if open { b.open_bundled_position(i) } else { b.close_bundled_position(i) };
    let out = match &r { Ok(()) => Ok(()), Err(e) => Err(acode(e)) };
    core::mem::forget(r);
    kani::cover!(out.is_ok() && open, "open ok");
    kani::cover!(out.is_ok() && !open, "close ok");
    kani::cover!(out == Err(ecode(ErrorCode::BundledPositionAlreadyOpened)), "double open");
    kani::cover!(out == Err(ecode(ErrorCode::BundledPositionAlreadyClosed)), "double close");
    assert!(b.position_bundle_mint.to_bytes() == mint);
    if i >= 256 {
        assert!(out == Err(ecode(ErrorCode::InvalidBundleIndex)));
        assert!(b.position_bitmap == bm);
        return;
    }
    let was = bit(&bm, i);
    if open == was {
        let code = if open { ErrorCode::BundledPositionAlreadyOpened } else { ErrorCode::BundledPositionAlreadyClosed };
        assert!(out == Err(ecode(code)));
        assert!(b.position_bitmap == bm);
    } else {
        assert!(out.is_ok());
        assert!(bit(&b.position_bitmap, i) == open, "bit i now reflects the operation");
        assert!(popcount_diff(&b.position_bitmap, &bm) == 1, "exactly one bit changed");
    }
}

/// PositionBundle::is_deletable ⇔ all 256 bits are zero (symbolic bitmap)
// @verif prop=C18 tier=quick timeout=300
#[kani::proof]
#[kani::unwind(34)]
fn c18_bundle_is_deletable() {
    let bm: [u8; 32] = kani::any();
    let b = PositionBundle { position_bundle_mint: Pubkey::default(), position_bitmap: bm };
    let d = b.is_deletable();
    let j: u16 = kani::any();
    kani::assume(j < 256);
    kani::cover!(d, "deletable");
    kani::cover!(!d, "not deletable");
    // ⇒ : no open position whatever the index; ⇐ : if not deletable some byte is non-zero
    if d {
        assert!(!bit(&bm, j));
    } else {
        assert!(bm != [0u8; 32]);
    }
}

/// vacuity twin: must FAIL (an accepted reset exists)
// @verif prop=C18 tier=quick timeout=300 twin
#[kani::proof]
#[kani::unwind(34)]
#[kani::stub(alloc::fmt::format, stub_format)]
#[kani::stub(<::whirlpool::pinocchio::errors::UnifiedError as core::convert::From<::whirlpool::errors::ErrorCode>>::from, stub_unified_from_code)]
fn c18_twin_must_fail() {
    let f = any_pos_fields();
    let s = any_spacing_from_set();
    let lo: i32 = kani::any();
    let hi: i32 = kani::any();
    kani::assume(s >= 1);
    let wd = wp_bytes(s);
    let mut pb = f.bytes();
    let pr = mpos(&mut pb).reset_position_range(mwp(&wd), lo, hi, false);
    let ok = pr.is_ok();
    core::mem::forget(pr);
    assert!(!ok, "twin: reachable Ok must be reported");
}

// ------------------------------------------------------------------------------------------------
// one-sided positions: a sentinel bound is derived from the current price

fn check_resolve(lo: i32, hi: i32, s: u16, price: u128) {
    use crate::common::memo::price_of;
    let r = ::whirlpool::util::resolve_one_sided_position_ticks(lo, hi, s, price);
    let out = match &r {
        Ok(v) => Ok(*v),
        Err(e) => Err(acode(e)),
    };
    core::mem::forget(r);
    let lo_s = lo == i32::MIN;
    let hi_s = hi == i32::MAX;
    let si = s as i32;
    kani::cover!(out.is_ok() && lo_s && s < FULL_RANGE_ONLY, "lower bound derived");
    kani::cover!(out.is_ok() && hi_s && s < FULL_RANGE_ONLY, "upper bound derived");
    kani::cover!(out.is_err() && lo_s && !hi_s, "no usable tick above the price");
    match out {
        Ok((l, u)) => {
            if s >= FULL_RANGE_ONLY || (!lo_s && !hi_s) {
                // nothing is derived (on full-range-only pools the sentinel is then refused by range validation)
                assert!(l == lo && u == hi);
            } else {
                assert!(!(lo_s && hi_s));
                if lo_s {
                    assert!(u == hi, "the given bound is kept");
                    assert!(spec_usable(l, s), "derived lower bound is a usable tick");
                    assert!(price_of(l) >= price, "position entirely above the current price");
                    if l - si >= MIN_TICK_INDEX {
                        assert!(price_of(l - si) < price, "nearest: the next usable tick below is under the price");
                    }
                } else {
                    assert!(l == lo, "the given bound is kept");
                    assert!(spec_usable(u, s), "derived upper bound is a usable tick");
                    assert!(price_of(u) <= price, "position entirely below the current price");
                    if u + si <= MAX_TICK_INDEX {
                        assert!(price_of(u + si) > price, "nearest: the next usable tick above is over the price");
                    }
                }
            }
        }
        Err(c) => {
            assert!(c == ecode(ErrorCode::InvalidTickIndex));
            assert!(s < FULL_RANGE_ONLY && (lo_s || hi_s));
            if lo_s && hi_s {
                // both bounds left open: refused
            } else if lo_s {
                // refused only if no usable tick at or above the price exists
                assert!(price_of(MAX_TICK_INDEX / si * si) < price);
            } else {
                assert!(price_of(MIN_TICK_INDEX / si * si) > price);
            }
        }
    }
}

/// resolve_one_sided_position_ticks with tick math replaced by the monotone price contract (T1/T2): a sentinel bound becomes a usable tick with the whole position on one side of the current price and no usable tick closer to it; the other bound is kept; Err only for two sentinels or when no such tick exists. Symbolic bounds and sqrt price; spacing ∈ {1, 8, 64, 128, 32896}
// @verif prop=C18 tier=quick timeout=300 contract
#[kani::proof]
#[kani::unwind(10)]
#[kani::stub(alloc::fmt::format, stub_format)]
#[kani::stub(<anchor_lang::error::Error as core::convert::From<::whirlpool::errors::ErrorCode>>::from, stub_err_from_code)]
#[kani::stub(::whirlpool::math::tick_math::sqrt_price_from_tick_index, crate::common::memo::stub_sqrt_price_from_tick_index)]
#[kani::stub(::whirlpool::math::tick_math::tick_index_from_sqrt_price, crate::common::memo::stub_tick_index_from_sqrt_price)]
fn c18_resolve_one_sided_ticks() {
    let which: u8 = kani::any();
    let lo: i32 = kani::any();
    let hi: i32 = kani::any();
    let price: u128 = kani::any();
    // documented validity predicate: a pool's sqrt_price is inside the price bounds
    kani::assume(price >= ::whirlpool::math::MIN_SQRT_PRICE_X64 && price <= ::whirlpool::math::MAX_SQRT_PRICE_X64);
    match which {
        0 => check_resolve(lo, hi, 1, price),
        1 => check_resolve(lo, hi, 8, price),
        2 => check_resolve(lo, hi, 64, price),
        3 => check_resolve(lo, hi, 128, price),
        _ => check_resolve(lo, hi, 32896, price),
    }
}

// ------------------------------------------------------------------------------------------------
// CPI recording (position token minting)

/// `solana_program::program::invoke_signed` (which `invoke` forwards to) replaced by a recorder: the callee program is outside
/// the claim; what is checked is which instructions the whirlpool program asks for, in which order.
/// Each recorded CPI succeeds or fails according to a flag drawn by the harness up front.
mod cpi_log {
    use anchor_lang::prelude::AccountInfo;
    use anchor_lang::solana_program::entrypoint::ProgramResult;
    use anchor_lang::solana_program::instruction::Instruction;
    use anchor_lang::solana_program::program_error::ProgramError;
    pub const MAXLOG: usize = 4;
    #[derive(Clone, Copy)]
    pub struct Rec {
        pub program: [u8; 32],
        pub len: usize,
        pub d0: u8,
        pub d1: u8,
        pub d2: u8,
        pub amount: u64,
        pub n_accounts: usize,
        pub acc0: [u8; 32],
        pub acc1: [u8; 32],
        pub n_signer_sets: usize,
    }
    const EMPTY: Rec = Rec { program: [0; 32], len: 0, d0: 0, d1: 0, d2: 0, amount: 0, n_accounts: 0, acc0: [0; 32], acc1: [0; 32], n_signer_sets: 0 };
    pub static mut LOG: [Rec; MAXLOG] = [EMPTY; MAXLOG];
    pub static mut N: usize = 0;
    pub static mut FAIL: [bool; MAXLOG] = [false; MAXLOG];

    pub fn stub_invoke_signed(ix: &Instruction, _infos: &[AccountInfo], seeds: &[&[&[u8]]]) -> ProgramResult {
        unsafe {
            assert!(N < MAXLOG, "CPI log bound");
            let mut r = EMPTY;
            r.program = ix.program_id.to_bytes();
            r.len = ix.data.len();
            if r.len > 0 { r.d0 = ix.data[0]; }
            if r.len > 1 { r.d1 = ix.data[1]; }
            if r.len > 2 { r.d2 = ix.data[2]; }
            if r.len >= 9 {
                let mut b = [0u8; 8];
                let mut i = 0;
                while i < 8 {
                    b[i] = ix.data[1 + i];
                    i += 1;
                }
                r.amount = u64::from_le_bytes(b);
            }
            r.n_accounts = ix.accounts.len();
            if r.n_accounts > 0 { r.acc0 = ix.accounts[0].pubkey.to_bytes(); }
            if r.n_accounts > 1 { r.acc1 = ix.accounts[1].pubkey.to_bytes(); }
            r.n_signer_sets = seeds.len();
            LOG[N] = r;
            let fail = FAIL[N];
            N += 1;
            if fail { Err(ProgramError::Custom(0xdead)) } else { Ok(()) }
        }
    }
    pub fn stub_invoke(ix: &Instruction, infos: &[AccountInfo]) -> ProgramResult {
        stub_invoke_signed(ix, infos, &[])
    }
}

const TOKEN_IX_SET_AUTHORITY: u8 = 6;
const TOKEN_IX_MINT_TO: u8 = 7;

fn mint_bytes(authority: Option<[u8; 32]>, supply: u64, decimals: u8) -> [u8; 82] {
    let mut d = [0u8; 82];
    if let Some(a) = authority {
        d[0] = 1;
        d[4..36].copy_from_slice(&a);
    }
    d[36..44].copy_from_slice(&supply.to_le_bytes());
    d[44] = decimals;
    d[45] = 1; // initialized
    d
}
fn token_account_bytes(mint: [u8; 32], owner: [u8; 32], amount: u64, state: u8) -> [u8; 165] {
    let mut d = [0u8; 165];
    d[0..32].copy_from_slice(&mint);
    d[32..64].copy_from_slice(&owner);
    d[64..72].copy_from_slice(&amount.to_le_bytes());
    d[108] = state;
    d
}

/// mint_position_token_and_remove_authority (SPL Token positions) with `invoke_signed` recorded: the CPIs requested are exactly [mint_to(amount = 1) into the position token account, set_authority(MintTokens, None) on the position mint], in that order, both signed by the whirlpool PDA; Ok ⇔ both CPIs succeed; a failed mint_to stops before set_authority. Symbolic whirlpool / mint / token account keys and CPI outcomes.
// @verif prop=C18 tier=quick timeout=300
#[kani::proof]
#[kani::unwind(40)]
#[kani::stub(alloc::fmt::format, stub_format)]
#[kani::stub(<anchor_lang::error::Error as core::convert::From<::whirlpool::errors::ErrorCode>>::from, stub_err_from_code)]
#[kani::stub(<anchor_lang::error::Error as core::convert::From<anchor_lang::error::ErrorCode>>::from, stub_err_from_anchor_code)]
#[kani::stub(solana_program::program::invoke_signed, cpi_log::stub_invoke_signed)]
fn c18_mint_position_token_cpi_log() {
    use anchor_spl::token::{Mint, Token, TokenAccount};
    let fail0: bool = kani::any();
    let fail1: bool = kani::any();
    let wp_key = Pubkey::new_from_array(kani::any());
    let mint_key = Pubkey::new_from_array(kani::any());
    let ta_key = Pubkey::new_from_array(kani::any());
    // not observed by the function (only forwarded as signer seeds / never read): concrete
    let (cfg, mint_a, mint_b, seed, bump) = ([3u8; 32], [4u8; 32], [5u8; 32], [64u8, 0u8], 254u8);
    let (supply, decimals, ta_owner) = (0u64, 0u8, [6u8; 32]);
    unsafe {
        cpi_log::FAIL[0] = fail0;
        cpi_log::FAIL[1] = fail1;
    }
    let program_id = ::whirlpool::ID;
    let token_pid = anchor_spl::token::ID;
    let bpf = Pubkey::new_from_array([2u8; 32]);

    let mut wd = wp_bytes(64);
    wd[8..40].copy_from_slice(&cfg);
    wd[40] = bump;
    wd[43..45].copy_from_slice(&seed);
    wd[101..133].copy_from_slice(&mint_a);
    wd[181..213].copy_from_slice(&mint_b);
    let mut wl = 1u64;
    let wp_ai = AccountInfo::new(&wp_key, false, true, &mut wl, &mut wd[..], &program_id, false, 0);
    // the freshly initialised position mint: authority = whirlpool
    let mut md = mint_bytes(Some(wp_key.to_bytes()), supply, decimals);
    let mut ml = 1u64;
    let mint_ai = AccountInfo::new(&mint_key, false, true, &mut ml, &mut md[..], &token_pid, false, 0);
    let mut td = token_account_bytes(mint_key.to_bytes(), ta_owner, 0, 1);
    let mut tl = 1u64;
    let ta_ai = AccountInfo::new(&ta_key, false, true, &mut tl, &mut td[..], &token_pid, false, 0);
    let mut pl = 1u64;
    let mut pd = [0u8; 0];
    let tp_ai = AccountInfo::new(&token_pid, false, false, &mut pl, &mut pd[..], &bpf, true, 0);

    let wp: Account<Whirlpool> = Account::try_from(&wp_ai).unwrap();
    let mint: Account<Mint> = Account::try_from(&mint_ai).unwrap();
    let ta: Account<TokenAccount> = Account::try_from(&ta_ai).unwrap();
    let tp: anchor_lang::prelude::Program<Token> = anchor_lang::prelude::Program::try_from(&tp_ai).unwrap();

    let r = ::whirlpool::util::mint_position_token_and_remove_authority(&wp, &mint, &ta, &tp);
    let ok = r.is_ok();
    core::mem::forget(r);
    let n = unsafe { cpi_log::N };
    let log = unsafe { cpi_log::LOG };
    kani::cover!(ok, "both CPIs issued and succeeded");
    kani::cover!(!ok && n == 1, "mint_to failed");
    assert!(ok == (!fail0 && !fail1));
    assert!(n == if fail0 { 1 } else { 2 });
    // 1st: mint exactly one token of the position mint into the position token account
    assert!(log[0].program == token_pid.to_bytes());
    assert!(log[0].d0 == TOKEN_IX_MINT_TO && log[0].len == 9 && log[0].amount == 1);
    assert!(log[0].acc0 == mint_key.to_bytes() && log[0].acc1 == ta_key.to_bytes());
    assert!(log[0].n_signer_sets == 1);
    if n == 2 {
        // 2nd: remove the mint authority for good
        assert!(log[1].program == token_pid.to_bytes());
        assert!(log[1].d0 == TOKEN_IX_SET_AUTHORITY && log[1].len == 3);
        assert!(log[1].d1 == 0, "AuthorityType::MintTokens");
        assert!(log[1].d2 == 0, "new authority = None");
        assert!(log[1].acc0 == mint_key.to_bytes());
        assert!(log[1].n_signer_sets == 1);
    }
    core::mem::forget(wp);
    core::mem::forget(mint);
    core::mem::forget(ta);
}

// ------------------------------------------------------------------------------------------------
// Pinocchio handler prefixes: lock (= frozen position token account) enforcement.
// Own copy of the raw-account scaffolding (same layout as pinocchio::account_info::Account).

mod pino {
    use super::*;
    use pinocchio::account_info::AccountInfo as PAccountInfo;
    use pinocchio::program_error::ProgramError as PProgramError;
    use pinocchio::sysvars::clock::Clock;

    #[repr(C)]
    #[derive(Clone, Copy)]
    pub struct Raw<const N: usize> {
        pub borrow_state: u8,
        pub is_signer: u8,
        pub is_writable: u8,
        pub executable: u8,
        pub resize_delta: i32,
        pub key: [u8; 32],
        pub owner: [u8; 32],
        pub lamports: u64,
        pub data_len: u64,
        pub data: [u8; N],
    }
    pub fn raw<const N: usize>() -> Raw<N> {
        Raw {
            borrow_state: 0xff, // not borrowed
            is_signer: kani::any::<bool>() as u8,
            is_writable: kani::any::<bool>() as u8,
            executable: 0,
            resize_delta: 0,
            key: kani::any(),
            owner: kani::any(),
            lamports: 1,
            data_len: N as u64,
            data: kani::any(),
        }
    }
    pub unsafe fn ai<const N: usize>(r: *mut Raw<N>) -> PAccountInfo {
        let mut slot = core::mem::MaybeUninit::<PAccountInfo>::uninit();
        (slot.as_mut_ptr() as *mut *mut Raw<N>).write(r);
        slot.assume_init()
    }

    pub static mut REACHED: bool = false;
    /// sysvar syscall: marks "every check before the core logic passed" and stops the handler
    pub fn stub_clock_get() -> Result<Clock, PProgramError> {
        unsafe {
            REACHED = true;
        }
        Err(PProgramError::UnsupportedSysvar)
    }

    /// the 11 accounts of increase_liquidity / decrease_liquidity (v1). Accounts whose data is not read
    /// before the Clock call carry no data (token owner accounts, vaults, tick arrays: only key/flags).
    #[derive(Clone, Copy)]
    pub struct V1 {
        pub whirlpool: Raw<WP_LEN>,
        pub token_program: Raw<0>,
        pub authority: Raw<0>,
        pub position: Raw<POS_LEN>,
        pub pos_token: Raw<165>,
        pub owner_a: Raw<0>,
        pub owner_b: Raw<0>,
        pub vault_a: Raw<0>,
        pub vault_b: Raw<0>,
        pub ta_lower: Raw<0>,
        pub ta_upper: Raw<0>,
    }
    pub fn any_v1() -> V1 {
        V1 {
            whirlpool: raw(), token_program: raw(), authority: raw(), position: raw(), pos_token: raw(),
            owner_a: raw(), owner_b: raw(), vault_a: raw(), vault_b: raw(), ta_lower: raw(), ta_upper: raw(),
        }
    }
    pub fn run_v1(a: &mut V1, data: &[u8; 40], decrease: bool) -> bool {
        let accounts = unsafe {
            [
                ai(&mut a.whirlpool), ai(&mut a.token_program), ai(&mut a.authority), ai(&mut a.position),
                ai(&mut a.pos_token), ai(&mut a.owner_a), ai(&mut a.owner_b), ai(&mut a.vault_a),
                ai(&mut a.vault_b), ai(&mut a.ta_lower), ai(&mut a.ta_upper),
            ]
        };
        unsafe {
            REACHED = false;
        }
        let r = if decrease {
            ::whirlpool::pinocchio::instructions::decrease_liquidity::handler(&accounts, data)
        } else {
            ::whirlpool::pinocchio::instructions::increase_liquidity::handler(&accounts, data)
        };
        core::mem::forget(r);
        unsafe { REACHED }
    }
}
const TOKEN_ACCOUNT_STATE: usize = 108;
const FROZEN: u8 = 2;

/// Pinocchio decrease_liquidity prefix: if the position token account is frozen (locked position) the handler never gets past its checks (the Clock sysvar call that starts the core logic is not reached). All 11 accounts' keys/owners/flags and the whirlpool, position and token account bytes symbolic.
// @verif prop=C18 tier=quick timeout=300
#[kani::proof]
#[kani::unwind(40)]
#[kani::stub(alloc::fmt::format, stub_format)]
#[kani::stub(<pinocchio::sysvars::clock::Clock as pinocchio::sysvars::Sysvar>::get, pino::stub_clock_get)]
#[kani::stub(<::whirlpool::pinocchio::errors::UnifiedError as core::convert::From<::whirlpool::errors::ErrorCode>>::from, stub_unified_from_code)]
#[kani::stub(<::whirlpool::pinocchio::errors::UnifiedError as core::convert::From<anchor_lang::error::ErrorCode>>::from, stub_unified_from_anchor_code)]
fn c18_pino_decrease_refuses_locked() {
    let mut a = pino::any_v1();
    let data: [u8; 40] = kani::any();
    let state = a.pos_token.data[TOKEN_ACCOUNT_STATE];
    let reached = pino::run_v1(&mut a, &data, true);
    kani::cover!(reached, "an unlocked position passes the checks");
    if reached {
        assert!(state != FROZEN, "locked position: liquidity cannot be removed");
    }
}

/// Pinocchio increase_liquidity prefix: locking does not matter — on identical accounts the checks pass with a frozen position token account iff they pass with an unfrozen one (and they can pass). Same symbolic inputs as above.
// @verif prop=C18 tier=quick timeout=300
#[kani::proof]
#[kani::unwind(40)]
#[kani::stub(alloc::fmt::format, stub_format)]
#[kani::stub(<pinocchio::sysvars::clock::Clock as pinocchio::sysvars::Sysvar>::get, pino::stub_clock_get)]
#[kani::stub(<::whirlpool::pinocchio::errors::UnifiedError as core::convert::From<::whirlpool::errors::ErrorCode>>::from, stub_unified_from_code)]
#[kani::stub(<::whirlpool::pinocchio::errors::UnifiedError as core::convert::From<anchor_lang::error::ErrorCode>>::from, stub_unified_from_anchor_code)]
fn c18_pino_increase_allows_locked() {
    let mut a = pino::any_v1();
    let data: [u8; 40] = kani::any();
    let mut b = a;
    a.pos_token.data[TOKEN_ACCOUNT_STATE] = 1; // initialized
    b.pos_token.data[TOKEN_ACCOUNT_STATE] = FROZEN;
    let reached_unlocked = pino::run_v1(&mut a, &data, false);
    let reached_locked = pino::run_v1(&mut b, &data, false);
    kani::cover!(reached_locked, "a locked position can still add liquidity");
    assert!(reached_locked == reached_unlocked);
}
