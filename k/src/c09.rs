//! C09 — tick index ↔ sqrt-price conversions (Engine K part).
//!
//! The forward direction (strict monotonicity on ALL ticks, endpoints) is decided by Engine M (`props/c09.py`).
//! Here, on the REAL functions (no stubs), bit-precisely:
//!   §1 inverse on blocks of consecutive ticks: tick(p(t)) = t, tick(p(t) − 1) = t − 1, tick(p(t) + 1) = t
//!   §2 per-step ratio p(t+1)/p(t) vs √1.0001 to within 2^-32, on blocks
//!   §3 endpoints (concrete)
//!   §4 twin
//! The runner parses `// @verif` + `#[kani::proof]` + `fn name` textually, so the per-block harnesses are written
//! out as one-line functions over the generic bodies `inverse_block` / `ratio_block` (a macro would hide them).
use ::whirlpool::math::tick_math::{
    sqrt_price_from_tick_index, tick_index_from_sqrt_price, MAX_SQRT_PRICE_X64, MIN_SQRT_PRICE_X64,
};
use ::whirlpool::math::u256_math::{mul_u256, U256Muldiv};
use ::whirlpool::state::{MAX_TICK_INDEX, MIN_TICK_INDEX};

/// unwind bound: `tick_index_from_sqrt_price` iterates BIT_PRECISION = 14 times; shift_right(96) word loop once
const _UNWIND_NOTE: u32 = 16;

// ---------------------------------------------------------------------------------------------
// §1 inverse on blocks

/// for t symbolic in [base, base + len) ∩ [MIN_TICK_INDEX, MAX_TICK_INDEX], p = sqrt_price_from_tick_index(t) and a
/// symbolic selector `which` ∈ {0, 1, 2} (one inverse call per execution keeps the circuit a third of the size;
/// the solver still decides all three cases for every tick of the block):
///   which = 1:                        tick_index_from_sqrt_price(p)     == t
///   which = 0 (t > MIN_TICK_INDEX):   tick_index_from_sqrt_price(p − 1) == t − 1
///   which = 2 (t < MAX_TICK_INDEX):   tick_index_from_sqrt_price(p + 1) == t     (p + 1 stays within the bounds)
/// plus MIN_SQRT_PRICE_X64 ≤ p ≤ MAX_SQRT_PRICE_X64 and the absence of arithmetic-overflow / unwrap panics in both
/// functions (Kani's built-in checks).
fn inverse_block(base: i32, len: i32) {
    let t: i32 = kani::any();
    let which: u8 = kani::any();
    kani::assume(t >= base && t < base + len);
    kani::assume(t >= MIN_TICK_INDEX && t <= MAX_TICK_INDEX);
    kani::assume(which < 3);
    kani::assume(which != 0 || t > MIN_TICK_INDEX);
    kani::assume(which != 2 || t < MAX_TICK_INDEX);
    let p = sqrt_price_from_tick_index(t);
    assert!(p >= MIN_SQRT_PRICE_X64 && p <= MAX_SQRT_PRICE_X64, "price within the published bounds");
    let price = p - 1 + which as u128;
    let want = if which == 0 { t - 1 } else { t };
    let got = tick_index_from_sqrt_price(&price);
    assert!(got == want, "tick(p(t)) == t, tick(p(t) - 1) == t - 1, tick(p(t) + 1) == t");
    kani::cover!((t == base || t == MIN_TICK_INDEX) && which == 1, "first tick of the block, at the tick price");
    kani::cover!((t == base + len - 1 || t == MAX_TICK_INDEX) && which == 0, "last tick of the block, one unit below");
    kani::cover!(which == 2, "one unit above a tick price");
}

/// inverse on the 16 ticks [MIN_TICK_INDEX, MIN_TICK_INDEX + 16)
// @verif prop=C09 tier=quick timeout=300
#[kani::proof]
#[kani::unwind(16)]
fn c09_inv_q_min() {
    inverse_block(MIN_TICK_INDEX, 16)
}

/// inverse on the 16 ticks [-8, 8) (both exponentiation routines, seam at 0)
// @verif prop=C09 tier=quick timeout=300
#[kani::proof]
#[kani::unwind(16)]
fn c09_inv_q_zero() {
    inverse_block(-8, 16)
}

/// inverse on the 16 ticks [MAX_TICK_INDEX − 15, MAX_TICK_INDEX]
// @verif prop=C09 tier=quick timeout=300
#[kani::proof]
#[kani::unwind(16)]
fn c09_inv_q_max() {
    inverse_block(MAX_TICK_INDEX - 15, 16)
}

/// inverse on the 64 ticks [MIN_TICK_INDEX, MIN_TICK_INDEX + 64)
// @verif prop=C09 tier=thorough timeout=900
#[kani::proof]
#[kani::unwind(16)]
fn c09_inv_t_min() {
    inverse_block(MIN_TICK_INDEX, 64)
}

/// inverse on the 64 ticks [-32, 32)
// @verif prop=C09 tier=thorough timeout=900
#[kani::proof]
#[kani::unwind(16)]
fn c09_inv_t_zero() {
    inverse_block(-32, 64)
}

/// inverse on the 64 ticks [MAX_TICK_INDEX − 63, MAX_TICK_INDEX]
// @verif prop=C09 tier=thorough timeout=900
#[kani::proof]
#[kani::unwind(16)]
fn c09_inv_t_max() {
    inverse_block(MAX_TICK_INDEX - 63, 64)
}

/// inverse on the 64 ticks [2^4 − 32, 2^4 + 32) (carry into bit 4 of the tick)
// @verif prop=C09 tier=thorough timeout=900
#[kani::proof]
#[kani::unwind(16)]
fn c09_inv_t_p2_4() {
    inverse_block(-16, 64)
}

/// inverse on the 64 ticks [−2^4 − 32, −2^4 + 32)
// @verif prop=C09 tier=thorough timeout=900
#[kani::proof]
#[kani::unwind(16)]
fn c09_inv_t_m2_4() {
    inverse_block(-48, 64)
}

/// inverse on the 64 ticks [2^8 − 32, 2^8 + 32) (carry into bit 8 of the tick)
// @verif prop=C09 tier=thorough timeout=900
#[kani::proof]
#[kani::unwind(16)]
fn c09_inv_t_p2_8() {
    inverse_block(224, 64)
}

/// inverse on the 64 ticks [−2^8 − 32, −2^8 + 32)
// @verif prop=C09 tier=thorough timeout=900
#[kani::proof]
#[kani::unwind(16)]
fn c09_inv_t_m2_8() {
    inverse_block(-288, 64)
}

/// inverse on the 64 ticks [2^12 − 32, 2^12 + 32) (carry into bit 12 of the tick)
// @verif prop=C09 tier=thorough timeout=900
#[kani::proof]
#[kani::unwind(16)]
fn c09_inv_t_p2_12() {
    inverse_block(4064, 64)
}

/// inverse on the 64 ticks [−2^12 − 32, −2^12 + 32)
// @verif prop=C09 tier=thorough timeout=900
#[kani::proof]
#[kani::unwind(16)]
fn c09_inv_t_m2_12() {
    inverse_block(-4128, 64)
}

/// inverse on the 64 ticks [2^16 − 32, 2^16 + 32) (carry into bit 16 of the tick)
// @verif prop=C09 tier=thorough timeout=900
#[kani::proof]
#[kani::unwind(16)]
fn c09_inv_t_p2_16() {
    inverse_block(65504, 64)
}

/// inverse on the 64 ticks [−2^16 − 32, −2^16 + 32)
// @verif prop=C09 tier=thorough timeout=900
#[kani::proof]
#[kani::unwind(16)]
fn c09_inv_t_m2_16() {
    inverse_block(-65568, 64)
}

/// inverse on the 64 ticks [2^18 − 32, 2^18 + 32) (carry into bit 18 of the tick)
// @verif prop=C09 tier=thorough timeout=900
#[kani::proof]
#[kani::unwind(16)]
fn c09_inv_t_p2_18() {
    inverse_block(262112, 64)
}

/// inverse on the 64 ticks [−2^18 − 32, −2^18 + 32)
// @verif prop=C09 tier=thorough timeout=900
#[kani::proof]
#[kani::unwind(16)]
fn c09_inv_t_m2_18() {
    inverse_block(-262176, 64)
}

// ---------------------------------------------------------------------------------------------
// §2 per-step ratio

/// √1.0001 in Q96 (= round(√1.0001 · 2^96)), the first constant of get_sqrt_price_positive_tick
const SQRT_10001_X96: u128 = 79232123823359799118286999567;

/// for t symbolic in [base, base + len) ∩ [MIN_TICK_INDEX, MAX_TICK_INDEX), p0 = p(t), p1 = p(t + 1):
///   | p1·2^96 − p0·K | ≤ p0·2^64      i.e.  | p1/p0 − K/2^96 | ≤ 2^-32,   K = SQRT_10001_X96
/// exact 256-bit integer arithmetic with the crate's mul_u256 / shift_left / sub / lte (contracts C02 K1–K9)
fn ratio_block(base: i32, len: i32) {
    let t: i32 = kani::any();
    kani::assume(t >= base && t < base + len);
    kani::assume(t >= MIN_TICK_INDEX && t < MAX_TICK_INDEX);
    let p0 = sqrt_price_from_tick_index(t);
    let p1 = sqrt_price_from_tick_index(t + 1);
    let lhs = U256Muldiv::new(0, p1).shift_left(96); // p1 < 2^96: no bits lost
    let rhs = mul_u256(p0, SQRT_10001_X96);
    let diff = if lhs.gte(rhs) { lhs.sub(rhs) } else { rhs.sub(lhs) };
    let bound = U256Muldiv::new(0, p0).shift_left(64);
    assert!(p1 >> 96 == 0);
    assert!(diff.lte(bound), "|p(t+1)/p(t) - sqrt(1.0001)| <= 2^-32");
    kani::cover!(t == base, "first tick of the block");
    kani::cover!(lhs.lt(rhs), "ratio below sqrt(1.0001)");
}

/// per-step ratio on the 32 steps starting at [MIN_TICK_INDEX, MIN_TICK_INDEX + 32) (smallest prices: largest relative rounding;
/// these are the ticks with price below 1.001 * 2^32 that the all-ticks Engine-M ratio obligations of props/c09.py exclude)
// @verif prop=C09 tier=quick timeout=300
#[kani::proof]
#[kani::unwind(16)]
fn c09_ratio_q_min() {
    ratio_block(MIN_TICK_INDEX, 32)
}

/// per-step ratio on the 16 steps starting at [-8, 8)
// @verif prop=C09 tier=quick timeout=300
#[kani::proof]
#[kani::unwind(16)]
fn c09_ratio_q_zero() {
    ratio_block(-8, 16)
}

/// per-step ratio on the 16 steps starting at [MAX_TICK_INDEX − 16, MAX_TICK_INDEX)
// @verif prop=C09 tier=quick timeout=300
#[kani::proof]
#[kani::unwind(16)]
fn c09_ratio_q_max() {
    ratio_block(MAX_TICK_INDEX - 16, 16)
}

/// per-step ratio on the 64 steps starting at [MIN_TICK_INDEX, MIN_TICK_INDEX + 64)
// @verif prop=C09 tier=thorough timeout=900
#[kani::proof]
#[kani::unwind(16)]
fn c09_ratio_t_min() {
    ratio_block(MIN_TICK_INDEX, 64)
}

/// per-step ratio on the 64 steps starting at [-32, 32)
// @verif prop=C09 tier=thorough timeout=900
#[kani::proof]
#[kani::unwind(16)]
fn c09_ratio_t_zero() {
    ratio_block(-32, 64)
}

/// per-step ratio on the 64 steps starting at [MAX_TICK_INDEX − 64, MAX_TICK_INDEX)
// @verif prop=C09 tier=thorough timeout=900
#[kani::proof]
#[kani::unwind(16)]
fn c09_ratio_t_max() {
    ratio_block(MAX_TICK_INDEX - 64, 64)
}

/// per-step ratio on the 64 steps starting at [2^16 − 32, 2^16 + 32)
// @verif prop=C09 tier=thorough timeout=900
#[kani::proof]
#[kani::unwind(16)]
fn c09_ratio_t_p2_16() {
    ratio_block(65536 - 32, 64)
}

/// per-step ratio on the 64 steps starting at [−2^16 − 32, −2^16 + 32)
// @verif prop=C09 tier=thorough timeout=900
#[kani::proof]
#[kani::unwind(16)]
fn c09_ratio_t_m2_16() {
    ratio_block(-65536 - 32, 64)
}

/// per-step ratio on the 64 steps starting at [2^18 − 32, 2^18 + 32)
// @verif prop=C09 tier=thorough timeout=900
#[kani::proof]
#[kani::unwind(16)]
fn c09_ratio_t_p2_18() {
    ratio_block(262144 - 32, 64)
}

/// per-step ratio on the 64 steps starting at [−2^18 − 32, −2^18 + 32)
// @verif prop=C09 tier=thorough timeout=900
#[kani::proof]
#[kani::unwind(16)]
fn c09_ratio_t_m2_18() {
    ratio_block(-262144 - 32, 64)
}

// ---------------------------------------------------------------------------------------------
// §3 endpoints

/// p(MIN_TICK_INDEX) = MIN_SQRT_PRICE_X64, p(MAX_TICK_INDEX) = MAX_SQRT_PRICE_X64 and the inverse at both published
/// bounds (concrete inputs; the only symbolic input selects the endpoint)
// @verif prop=C09 tier=quick timeout=300
#[kani::proof]
#[kani::unwind(16)]
fn c09_endpoints() {
    let upper: bool = kani::any();
    if upper {
        assert!(sqrt_price_from_tick_index(MAX_TICK_INDEX) == MAX_SQRT_PRICE_X64);
        assert!(tick_index_from_sqrt_price(&MAX_SQRT_PRICE_X64) == MAX_TICK_INDEX);
    } else {
        assert!(sqrt_price_from_tick_index(MIN_TICK_INDEX) == MIN_SQRT_PRICE_X64);
        assert!(tick_index_from_sqrt_price(&MIN_SQRT_PRICE_X64) == MIN_TICK_INDEX);
    }
    kani::cover!(upper, "upper endpoint");
    kani::cover!(!upper, "lower endpoint");
}

// ---------------------------------------------------------------------------------------------
// §4 twin

/// vacuity twin: must FAIL (one unit below a tick's price belongs to the previous tick)
// @verif prop=C09 tier=quick timeout=300 twin
#[kani::proof]
#[kani::unwind(16)]
fn c09_twin_must_fail() {
    let t: i32 = kani::any();
    kani::assume(t >= 1 && t <= 4);
    let p = sqrt_price_from_tick_index(t);
    let below = tick_index_from_sqrt_price(&(p - 1));
    assert!(below == t, "twin: tick(p(t) - 1) is t - 1, not t");
}

