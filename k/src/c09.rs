//! C09 harnesses (Engine K)
