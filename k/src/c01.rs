//! C01 harnesses (Engine K)
