//! C11 — rewards accrue at the set rate, pro rata to in-range liquidity (Engine K part).
//!
//! (1) the per-tick `reward_growths_outside` bookkeeping obeys the same lemmas as the fee bookkeeping of C07
//!     (L1 growth at fixed current tick, convention for uninitialised bounds, L2 crossing, L3 (re)initialisation, L4 credit
//!     structure), for the three rewards, Anchor functions and Pinocchio ports on the same bytes;
//! (2) `calculate_collect_reward` (v1 and v2) == (min(owed, vault), owed - min(owed, vault));
//! (3) `next_whirlpool_reward_infos`: timestamp check, no-op cases, growth' = growth + mul_div(dt, emissions, liquidity)
//!     (wrapping), a mul_div overflow is dropped; `checked_mul_div` is an uninterpreted function here (its arithmetic is
//!     Engine M's part of C11); the Pinocchio port computes the same growths.
//! Composition over unbounded histories / position sets is a written argument (DESIGN §4).
use crate::c07::*;
use crate::common::*;
use ::whirlpool::errors::ErrorCode;
use ::whirlpool::instructions::collect_reward::verif_calculate_collect_reward;
use ::whirlpool::instructions::v2::collect_reward::verif_calculate_collect_reward_v2;
use ::whirlpool::manager::whirlpool_manager::next_whirlpool_reward_infos;
use ::whirlpool::pinocchio::ported::manager_liquidity_manager::verif_pino_next_whirlpool_reward_growth_global;
use ::whirlpool::state::*;

/// closed form of reward `inside` for reward i (hint only, see c07::closed); 0 for an uninitialised reward
fn closed_r(i: usize, cur: i32, lo: &TB, tl: i32, up: &TB, tu: i32, rw: &Rw) -> u128 {
    if !rw.initialized(i) {
        0
    } else {
        closed(cur < tl, cur < tu, t_init(lo), t_out_r(lo, i), t_init(up), t_out_r(up, i), rw.growth(i))
    }
}
/// reward `inside`[i]; unless `plain`, the closed form is attached as a proved hint.
/// The reward index is a constant of each harness: three separate goals (or one goal muxed over a symbolic index)
/// in a single SAT instance cost CaDiCaL far more than three instances (measured 127 s -> 478 s for the mux).
fn reward_inside_h<E: Eng>(i: usize, plain: bool, cur: i32, lo: &TB, tl: i32, up: &TB, tu: i32, rw: &Rw) -> u128 {
    let a = E::reward_inside(cur, lo, tl, up, tu, rw)[i];
    if !plain {
        hint(a == closed_r(i, cur, lo, tl, up, tu, rw));
    }
    a
}

/// L1 (reward i), both bounds initialised: growth_global[i] += x at fixed current tick changes reward `inside`[i] by
/// x iff the reward is initialised and lower <= cur < upper; otherwise not at all (an uninitialised reward reads 0).
fn r_l1<E: Eng>(i: usize, place: u8) {
    let lo = any_tick();
    let up = any_tick();
    let tl: i32 = kani::any();
    let tu: i32 = kani::any();
    let cur: i32 = kani::any();
    let rw = Rw::any();
    let x: u128 = kani::any();
    kani::assume(tl < tu);
    kani::assume(t_init(&lo) && t_init(&up));
    assume_place(place, cur, tl, tu);
    let mut g = rw.growths();
    g[i] = g[i].wrapping_add(x);
    let rw1 = rw.with_growths(&g);

    let i0 = reward_inside_h::<E>(i, place == INSIDE, cur, &lo, tl, &up, tu, &rw);
    let i1 = reward_inside_h::<E>(i, place == INSIDE, cur, &lo, tl, &up, tu, &rw1);
    let in_range = tl <= cur && cur < tu;
    assert!(i1.wrapping_sub(i0) == if in_range && rw.initialized(i) { x } else { 0 });
    kani::cover!(rw.initialized(i) && x != 0 && rw.growth(i).checked_add(x).is_none(), "initialised reward, accumulator wraps");
    kani::cover!(!rw.initialized(i) && x != 0, "uninitialised reward");
}

/// convention for uninitialised bounds (reward i): see c07::conv
fn r_conv<E: Eng>(i: usize, place: u8) {
    let lo = any_tick();
    let up = any_tick();
    let tl: i32 = kani::any();
    let tu: i32 = kani::any();
    let cur: i32 = kani::any();
    let ga: u128 = kani::any();
    let gb: u128 = kani::any();
    let rw = Rw::any();
    let dl: i128 = kani::any();
    let du: i128 = kani::any();
    kani::assume(tl < tu);
    kani::assume(dl > 0 && du > 0);
    kani::assume(!t_init(&lo) || !t_init(&up));
    assume_tick_inv(&lo);
    assume_tick_inv(&up);
    assume_place(place, cur, tl, tu);

    let elo = effective::<E>(&lo, tl, cur, ga, gb, &rw, dl, false);
    let eup = effective::<E>(&up, tu, cur, ga, gb, &rw, du, true);
    let i0 = reward_inside_h::<E>(i, false, cur, &lo, tl, &up, tu, &rw);
    let ie = reward_inside_h::<E>(i, false, cur, &elo, tl, &eup, tu, &rw);
    assert!(i0 == ie, "uninitialised-bound convention == freshly initialised tick");

    kani::cover!(!t_init(&lo) && !t_init(&up) && rw.initialized(i), "both fresh");
    kani::cover!(t_init(&lo) && !t_init(&up) && rw.initialized(i), "upper fresh");
    kani::cover!(!t_init(&lo) && t_init(&up) && rw.initialized(i), "lower fresh");
}

/// L2 (reward i): crossing tick t (`next_tick_cross_update` flips outside[i] := growth_global[i] - outside[i] for an
/// initialised reward, keeps it otherwise) with the loop's new current tick leaves reward `inside`[i] of every range
/// unchanged.
fn r_l2<E: Eng>(idx: Option<usize>, which: u8, a_to_b: bool) {
    let lo = any_tick();
    let up = any_tick();
    let tl: i32 = kani::any();
    let tu: i32 = kani::any();
    let t: i32 = kani::any();
    let cur0: i32 = kani::any();
    let ga: u128 = kani::any();
    let gb: u128 = kani::any();
    let rw = Rw::any();
    let i = match idx {
        Some(i) => i,
        None => {
            let i: usize = kani::any();
            kani::assume(i < 3);
            i
        }
    };
    kani::assume(tl < tu);
    let (cur1, nlo, nup) = crossing(which, &lo, tl, &up, tu, t, cur0, a_to_b, ga, gb, &rw);
    if which != OTHER {
        // the flip itself
        let (o, n) = if which == LOWER { (&lo, &nlo) } else { (&up, &nup) };
        hint(t_out_r(n, i) == if rw.initialized(i) { rw.growth(i).wrapping_sub(t_out_r(o, i)) } else { t_out_r(o, i) });
    } else {
        same_side_hints(&lo, tl, &up, tu, cur0, cur1);
    }

    let i0 = reward_inside_h::<E>(i, which == OTHER, cur0, &lo, tl, &up, tu, &rw);
    let i1 = reward_inside_h::<E>(i, which == OTHER, cur1, &nlo, tl, &nup, tu, &rw);
    assert!(i0 == i1, "crossing leaves reward inside unchanged");

    let both = t_init(&lo) && t_init(&up);
    kani::cover!(both && rw.initialized(i), "initialised reward, both bounds initialised");
    kani::cover!(!rw.initialized(i), "an uninitialised reward");
    kani::cover!(if which == OTHER { tl < t && t < tu && both } else { !both }, "OTHER: crossed tick strictly inside / bound: other bound uninitialised");
}

/// L3 (rewards): first liquidity on an empty tick sets reward outside[i] := growth_global[i] (all three) if
/// tick_index <= cur else 0; a tick that stays in use keeps them (so reward `inside` of other ranges sharing the
/// bound is unchanged).
fn r_l3<E: Eng>() {
    let t = any_tick();
    let idx: i32 = kani::any();
    let cur: i32 = kani::any();
    let ga: u128 = kani::any();
    let gb: u128 = kani::any();
    let rw = Rw::any();
    let delta: i128 = kani::any();
    let upper: bool = kani::any();
    assume_tick_inv(&t);
    kani::assume(delta != 0);

    let r = E::modify(&t, idx, cur, ga, gb, &rw, delta, upper);
    kani::cover!(r.is_ok() && !t_init(&t) && idx == cur, "fresh initialisation, tick_index == current");
    kani::cover!(r.is_ok() && t_init(&t) && delta < 0, "decrease of a tick in use");
    if let Ok(n) = r {
        if t_gross(&t) == 0 {
            for i in 0..3 {
                assert!(t_out_r(&n, i) == if idx <= cur { rw.growth(i) } else { 0 });
            }
        } else if t_gross(&n) != 0 {
            // `initialized` stays set (c07 L3) and the reward values that `next_reward_growths_inside` reads are untouched
            for i in 0..3 {
                assert!(t_out_r(&n, i) == t_out_r(&t, i));
            }
        }
    }
}

/// frame: reward `inside` reads nothing of a tick but `initialized` and `reward_growths_outside` — two ticks that agree
/// on these give the same result whatever their liquidity / fee fields (so "outside untouched" => `inside` of every
/// range sharing the bound is untouched).
fn r_frame<E: Eng>() {
    let lo = any_tick();
    let up = any_tick();
    let lo2 = any_tick();
    let up2 = any_tick();
    let tl: i32 = kani::any();
    let tu: i32 = kani::any();
    let cur: i32 = kani::any();
    let rw = Rw::any();
    kani::assume(tl < tu);
    kani::assume(t_init(&lo) == t_init(&lo2) && t_init(&up) == t_init(&up2));
    for i in 0..3 {
        kani::assume(t_out_r(&lo, i) == t_out_r(&lo2, i) && t_out_r(&up, i) == t_out_r(&up2, i));
    }
    let a = E::reward_inside(cur, &lo, tl, &up, tu, &rw);
    let b = E::reward_inside(cur, &lo2, tl, &up2, tu, &rw);
    assert!(a[0] == b[0] && a[1] == b[1] && a[2] == b[2]);
    kani::cover!(t_gross(&lo) != t_gross(&lo2) && t_out_a(&up) != t_out_a(&up2) && rw.initialized(0), "other fields differ");
}

/// L4 (rewards, structure): amount_owed[i]' == amount_owed[i] + (F(L, inside[i] - checkpoint[i] mod 2^128) or 0 if F
/// overflows) (wrapping u64), checkpoint[i]' == inside[i]; F = `checked_mul_shift_right` uninterpreted (c07::stub_mul_shift).
fn r_l4<E: Eng>() {
    let (p, delta, ia, ib, ri, credit, failed) = l4_setup();
    let l = rd128(&p, 72);

    let r = E::pos_update(&p, delta, ia, ib, &ri);

    assert!(!mul_shift_bad(), "F is only applied to (L, inside_x - checkpoint_x)");
    kani::cover!(r.is_ok() && failed[3], "overflowing credit dropped");
    kani::cover!(r.is_ok() && credit[4] != 0, "non-zero credit");
    if let Ok(u) = &r {
        for i in 0..3 {
            let owed = rd64(&p, 160 + 24 * i);
            assert!(u.reward_infos[i].growth_inside_checkpoint == ri[i]);
            assert!(u.reward_infos[i].amount_owed == owed.wrapping_add(credit[2 + i]), "reward credit = F(L, inside - checkpoint), 0 on overflow");
            if l == 0 {
                assert!(u.reward_infos[i].amount_owed == owed);
            }
        }
    }
}

// ------------------------------------------------------------------------------------------------
// collect

fn collect_spec(owed: u64, vault: u64) -> (u64, u64) {
    let pay = if owed < vault { owed } else { vault };
    (pay, owed - pay)
}

// ------------------------------------------------------------------------------------------------
// global accumulator

// `checked_mul_div` as an uninterpreted function F, Ackermann style: within one run it can only be asked about
// (dt, emissions[i], liquidity), so the three outcomes are drawn up front and constrained to be functionally
// consistent (equal arguments => equal outcome); exact where that is free (d == 0 => DivideByZero, zero factor => 0).
// Any call with other arguments sets NW_BAD, which the harness asserts to be false ("which arguments are passed").
// (common::memo::stub_checked_mul_div is the same idea with a dynamic table; its symbolic table length made this
// harness 263 s, this form 10x less.)
static mut NW_DT: u128 = 0;
static mut NW_L: u128 = 0;
static mut NW_E: [u128; 3] = [0; 3];
static mut NW_OK: [bool; 3] = [true; 3];
static mut NW_V: [u128; 3] = [0; 3];
static mut NW_BAD: bool = false;
static mut NW_CALLS: u8 = 0;

pub(crate) fn stub_mul_div(n0: u128, n1: u128, d: u128) -> Result<u128, ErrorCode> {
    unsafe {
        NW_CALLS += 1;
        if d == 0 {
            return Err(ErrorCode::DivideByZero);
        }
        if n0 != NW_DT || d != NW_L {
            NW_BAD = true;
            return Ok(0);
        }
        let mut k = 0;
        while k < 3 {
            if NW_E[k] == n1 {
                return if NW_OK[k] { Ok(NW_V[k]) } else { Err(ErrorCode::MulDivOverflow) };
            }
            k += 1;
        }
        NW_BAD = true;
        Ok(0)
    }
}

fn same_info(a: &WhirlpoolRewardInfo, b: &WhirlpoolRewardInfo) -> bool {
    key_eq(&a.mint.to_bytes(), &b.mint.to_bytes())
        && key_eq(&a.vault.to_bytes(), &b.vault.to_bytes())
        && key_eq(&a.extension, &b.extension)
        && a.emissions_per_second_x64 == b.emissions_per_second_x64
        && a.growth_global_x64 == b.growth_global_x64
}

/// `next_whirlpool_reward_infos` on every whirlpool account and timestamp, F = uninterpreted `checked_mul_div`:
/// next < last => Err(InvalidTimestamp); liquidity == 0 or next == last => unchanged; per reward: uninitialised =>
/// unchanged, else growth' = growth + (F(next - last, emissions, liquidity) or 0 if F fails) wrapping, nothing else
/// changes. `pino_next_whirlpool_reward_growth_global` on the same bytes returns the same three growths / the same error
/// (it skips on emissions == 0 instead of on the mint: equal under the reachable-state invariant
/// "uninitialised reward => emissions == 0", assumed).
fn nwri() {
    let b: WB = any_whirlpool();
    let next: u64 = kani::any();
    let ok: [bool; 3] = kani::any();
    let v: [u128; 3] = kani::any();
    let w = wp_of(&b);
    let rw = w_rw(&b);
    let last = rd64(&b, W_REWARD_TS);
    let liq = rd128(&b, W_LIQUIDITY);
    let dt = (next as u128).wrapping_sub(last as u128);
    for i in 0..3 {
        // set_reward_emissions needs reward_infos[i].vault to be a token account, impossible for the default key
        kani::assume(rw.initialized(i) || rw.emissions(i) == 0);
        // F is a function, and F(_, 0, _) == F(0, _, _) == Ok(0)
        if rw.emissions(i) == 0 || dt == 0 {
            kani::assume(ok[i] && v[i] == 0);
        }
        for j in 0..i {
            if rw.emissions(i) == rw.emissions(j) {
                kani::assume(ok[i] == ok[j] && v[i] == v[j]);
            }
        }
    }
    unsafe {
        NW_DT = dt;
        NW_L = liq;
        NW_E = [rw.emissions(0), rw.emissions(1), rw.emissions(2)];
        NW_OK = ok;
        NW_V = v;
    }

    let a = next_whirlpool_reward_infos(&w, next);
    let p = verif_pino_next_whirlpool_reward_growth_global(mwp(&b), next);

    assert!(unsafe { !NW_BAD }, "checked_mul_div is only applied to (next - last, emissions[i], liquidity)");
    kani::cover!(a.is_err(), "invalid timestamp");
    kani::cover!(a.is_ok() && liq == 0 && next > last, "no liquidity");
    kani::cover!(a.is_ok() && liq != 0 && next == last, "no time passed");
    match (&a, &p) {
        (Err(e), Err(pe)) => {
            assert!(next < last);
            assert!(ecode(*e) == ecode(ErrorCode::InvalidTimestamp) && ucode(pe) == ecode(ErrorCode::InvalidTimestamp));
            assert!(unsafe { NW_CALLS } == 0);
        }
        (Ok(n), Ok(pg)) => {
            assert!(next >= last);
            let active = liq != 0 && next != last;
            if !active {
                assert!(unsafe { NW_CALLS } == 0);
            }
            for i in 0..3 {
                let mut e = w.reward_infos[i];
                if active && rw.initialized(i) {
                    e.growth_global_x64 = rw.growth(i).wrapping_add(if ok[i] { v[i] } else { 0 });
                }
                assert!(same_info(&n[i], &e), "Anchor: growth' = growth + F(dt, emissions, liquidity), overflow dropped, rest unchanged");
                assert!(pg[i] == e.growth_global_x64, "Pinocchio port: same growth");
            }
            kani::cover!(active && rw.initialized(0) && !ok[0], "overflowing interval dropped");
            kani::cover!(active && rw.initialized(1) && ok[1] && v[1] != 0, "growth");
            kani::cover!(active && !rw.initialized(2) && rw.initialized(0), "uninitialised reward skipped");
        }
        _ => assert!(false, "Anchor and Pinocchio disagree on the outcome kind"),
    }
    core::mem::forget(p);
}

// ------------------------------------------------------------------------------------------------
// harnesses. L1 / convention / L2-on-a-bound: one per (reward index, case) on the Anchor functions; the Pinocchio port
// `pino_next_reward_growths_inside` is proved equal to `next_reward_growths_inside` on all inputs
// (c11_pino_equiv_reward_inside), so these lemmas hold for it by substitution; L3 / frame / L4 are decided for both.

/// L1 reward 0, `next_reward_growths_inside`: growth_global[0] += x at fixed current tick, cur < lower: unchanged; both bounds initialised, all u128 values
// @verif prop=C11 tier=quick timeout=300
#[kani::proof]
#[kani::unwind(34)]
#[kani::stub(alloc::fmt::format, stub_format)]
#[kani::stub(<anchor_lang::error::Error as core::convert::From<::whirlpool::errors::ErrorCode>>::from, stub_err_from_code)]
#[kani::stub(<::whirlpool::pinocchio::errors::UnifiedError as core::convert::From<::whirlpool::errors::ErrorCode>>::from, stub_unified_from_code)]
fn c11_l1_r0_below() {
    r_l1::<Anchor>(0, BELOW);
}

/// L1 reward 0, `next_reward_growths_inside`: growth_global[0] += x at fixed current tick, lower <= cur < upper: grows by exactly x if the reward is initialised; both bounds initialised, all u128 values
// @verif prop=C11 tier=quick timeout=300
#[kani::proof]
#[kani::unwind(34)]
#[kani::stub(alloc::fmt::format, stub_format)]
#[kani::stub(<anchor_lang::error::Error as core::convert::From<::whirlpool::errors::ErrorCode>>::from, stub_err_from_code)]
#[kani::stub(<::whirlpool::pinocchio::errors::UnifiedError as core::convert::From<::whirlpool::errors::ErrorCode>>::from, stub_unified_from_code)]
fn c11_l1_r0_inside() {
    r_l1::<Anchor>(0, INSIDE);
}

/// L1 reward 0, `next_reward_growths_inside`: growth_global[0] += x at fixed current tick, cur >= upper: unchanged; both bounds initialised, all u128 values
// @verif prop=C11 tier=quick timeout=300
#[kani::proof]
#[kani::unwind(34)]
#[kani::stub(alloc::fmt::format, stub_format)]
#[kani::stub(<anchor_lang::error::Error as core::convert::From<::whirlpool::errors::ErrorCode>>::from, stub_err_from_code)]
#[kani::stub(<::whirlpool::pinocchio::errors::UnifiedError as core::convert::From<::whirlpool::errors::ErrorCode>>::from, stub_unified_from_code)]
fn c11_l1_r0_above() {
    r_l1::<Anchor>(0, ABOVE);
}

/// L1 reward 1, `next_reward_growths_inside`: growth_global[1] += x at fixed current tick, cur < lower: unchanged; both bounds initialised, all u128 values
// @verif prop=C11 tier=quick timeout=300
#[kani::proof]
#[kani::unwind(34)]
#[kani::stub(alloc::fmt::format, stub_format)]
#[kani::stub(<anchor_lang::error::Error as core::convert::From<::whirlpool::errors::ErrorCode>>::from, stub_err_from_code)]
#[kani::stub(<::whirlpool::pinocchio::errors::UnifiedError as core::convert::From<::whirlpool::errors::ErrorCode>>::from, stub_unified_from_code)]
fn c11_l1_r1_below() {
    r_l1::<Anchor>(1, BELOW);
}

/// L1 reward 1, `next_reward_growths_inside`: growth_global[1] += x at fixed current tick, lower <= cur < upper: grows by exactly x if the reward is initialised; both bounds initialised, all u128 values
// @verif prop=C11 tier=quick timeout=300
#[kani::proof]
#[kani::unwind(34)]
#[kani::stub(alloc::fmt::format, stub_format)]
#[kani::stub(<anchor_lang::error::Error as core::convert::From<::whirlpool::errors::ErrorCode>>::from, stub_err_from_code)]
#[kani::stub(<::whirlpool::pinocchio::errors::UnifiedError as core::convert::From<::whirlpool::errors::ErrorCode>>::from, stub_unified_from_code)]
fn c11_l1_r1_inside() {
    r_l1::<Anchor>(1, INSIDE);
}

/// L1 reward 1, `next_reward_growths_inside`: growth_global[1] += x at fixed current tick, cur >= upper: unchanged; both bounds initialised, all u128 values
// @verif prop=C11 tier=quick timeout=300
#[kani::proof]
#[kani::unwind(34)]
#[kani::stub(alloc::fmt::format, stub_format)]
#[kani::stub(<anchor_lang::error::Error as core::convert::From<::whirlpool::errors::ErrorCode>>::from, stub_err_from_code)]
#[kani::stub(<::whirlpool::pinocchio::errors::UnifiedError as core::convert::From<::whirlpool::errors::ErrorCode>>::from, stub_unified_from_code)]
fn c11_l1_r1_above() {
    r_l1::<Anchor>(1, ABOVE);
}

/// L1 reward 2, `next_reward_growths_inside`: growth_global[2] += x at fixed current tick, cur < lower: unchanged; both bounds initialised, all u128 values
// @verif prop=C11 tier=quick timeout=300
#[kani::proof]
#[kani::unwind(34)]
#[kani::stub(alloc::fmt::format, stub_format)]
#[kani::stub(<anchor_lang::error::Error as core::convert::From<::whirlpool::errors::ErrorCode>>::from, stub_err_from_code)]
#[kani::stub(<::whirlpool::pinocchio::errors::UnifiedError as core::convert::From<::whirlpool::errors::ErrorCode>>::from, stub_unified_from_code)]
fn c11_l1_r2_below() {
    r_l1::<Anchor>(2, BELOW);
}

/// L1 reward 2, `next_reward_growths_inside`: growth_global[2] += x at fixed current tick, lower <= cur < upper: grows by exactly x if the reward is initialised; both bounds initialised, all u128 values
// @verif prop=C11 tier=quick timeout=300
#[kani::proof]
#[kani::unwind(34)]
#[kani::stub(alloc::fmt::format, stub_format)]
#[kani::stub(<anchor_lang::error::Error as core::convert::From<::whirlpool::errors::ErrorCode>>::from, stub_err_from_code)]
#[kani::stub(<::whirlpool::pinocchio::errors::UnifiedError as core::convert::From<::whirlpool::errors::ErrorCode>>::from, stub_unified_from_code)]
fn c11_l1_r2_inside() {
    r_l1::<Anchor>(2, INSIDE);
}

/// L1 reward 2, `next_reward_growths_inside`: growth_global[2] += x at fixed current tick, cur >= upper: unchanged; both bounds initialised, all u128 values
// @verif prop=C11 tier=quick timeout=300
#[kani::proof]
#[kani::unwind(34)]
#[kani::stub(alloc::fmt::format, stub_format)]
#[kani::stub(<anchor_lang::error::Error as core::convert::From<::whirlpool::errors::ErrorCode>>::from, stub_err_from_code)]
#[kani::stub(<::whirlpool::pinocchio::errors::UnifiedError as core::convert::From<::whirlpool::errors::ErrorCode>>::from, stub_unified_from_code)]
fn c11_l1_r2_above() {
    r_l1::<Anchor>(2, ABOVE);
}

/// L1/L3 reward 0 `next_reward_growths_inside` + `next_tick_modify_liquidity_update`: an uninitialised bound counts exactly like the tick the first deposit creates (3 combinations with an uninitialised bound), current tick below
// @verif prop=C11 tier=quick timeout=300
#[kani::proof]
#[kani::unwind(34)]
#[kani::stub(alloc::fmt::format, stub_format)]
#[kani::stub(<anchor_lang::error::Error as core::convert::From<::whirlpool::errors::ErrorCode>>::from, stub_err_from_code)]
#[kani::stub(<::whirlpool::pinocchio::errors::UnifiedError as core::convert::From<::whirlpool::errors::ErrorCode>>::from, stub_unified_from_code)]
fn c11_conv_r0_below() {
    r_conv::<Anchor>(0, BELOW);
}

/// L1/L3 reward 0 `next_reward_growths_inside` + `next_tick_modify_liquidity_update`: an uninitialised bound counts exactly like the tick the first deposit creates (3 combinations with an uninitialised bound), current tick inside
// @verif prop=C11 tier=quick timeout=300
#[kani::proof]
#[kani::unwind(34)]
#[kani::stub(alloc::fmt::format, stub_format)]
#[kani::stub(<anchor_lang::error::Error as core::convert::From<::whirlpool::errors::ErrorCode>>::from, stub_err_from_code)]
#[kani::stub(<::whirlpool::pinocchio::errors::UnifiedError as core::convert::From<::whirlpool::errors::ErrorCode>>::from, stub_unified_from_code)]
fn c11_conv_r0_inside() {
    r_conv::<Anchor>(0, INSIDE);
}

/// L1/L3 reward 0 `next_reward_growths_inside` + `next_tick_modify_liquidity_update`: an uninitialised bound counts exactly like the tick the first deposit creates (3 combinations with an uninitialised bound), current tick above
// @verif prop=C11 tier=quick timeout=300
#[kani::proof]
#[kani::unwind(34)]
#[kani::stub(alloc::fmt::format, stub_format)]
#[kani::stub(<anchor_lang::error::Error as core::convert::From<::whirlpool::errors::ErrorCode>>::from, stub_err_from_code)]
#[kani::stub(<::whirlpool::pinocchio::errors::UnifiedError as core::convert::From<::whirlpool::errors::ErrorCode>>::from, stub_unified_from_code)]
fn c11_conv_r0_above() {
    r_conv::<Anchor>(0, ABOVE);
}

/// L1/L3 reward 1 `next_reward_growths_inside` + `next_tick_modify_liquidity_update`: an uninitialised bound counts exactly like the tick the first deposit creates (3 combinations with an uninitialised bound), current tick below
// @verif prop=C11 tier=quick timeout=300
#[kani::proof]
#[kani::unwind(34)]
#[kani::stub(alloc::fmt::format, stub_format)]
#[kani::stub(<anchor_lang::error::Error as core::convert::From<::whirlpool::errors::ErrorCode>>::from, stub_err_from_code)]
#[kani::stub(<::whirlpool::pinocchio::errors::UnifiedError as core::convert::From<::whirlpool::errors::ErrorCode>>::from, stub_unified_from_code)]
fn c11_conv_r1_below() {
    r_conv::<Anchor>(1, BELOW);
}

/// L1/L3 reward 1 `next_reward_growths_inside` + `next_tick_modify_liquidity_update`: an uninitialised bound counts exactly like the tick the first deposit creates (3 combinations with an uninitialised bound), current tick inside
// @verif prop=C11 tier=quick timeout=300
#[kani::proof]
#[kani::unwind(34)]
#[kani::stub(alloc::fmt::format, stub_format)]
#[kani::stub(<anchor_lang::error::Error as core::convert::From<::whirlpool::errors::ErrorCode>>::from, stub_err_from_code)]
#[kani::stub(<::whirlpool::pinocchio::errors::UnifiedError as core::convert::From<::whirlpool::errors::ErrorCode>>::from, stub_unified_from_code)]
fn c11_conv_r1_inside() {
    r_conv::<Anchor>(1, INSIDE);
}

/// L1/L3 reward 1 `next_reward_growths_inside` + `next_tick_modify_liquidity_update`: an uninitialised bound counts exactly like the tick the first deposit creates (3 combinations with an uninitialised bound), current tick above
// @verif prop=C11 tier=quick timeout=300
#[kani::proof]
#[kani::unwind(34)]
#[kani::stub(alloc::fmt::format, stub_format)]
#[kani::stub(<anchor_lang::error::Error as core::convert::From<::whirlpool::errors::ErrorCode>>::from, stub_err_from_code)]
#[kani::stub(<::whirlpool::pinocchio::errors::UnifiedError as core::convert::From<::whirlpool::errors::ErrorCode>>::from, stub_unified_from_code)]
fn c11_conv_r1_above() {
    r_conv::<Anchor>(1, ABOVE);
}

/// L1/L3 reward 2 `next_reward_growths_inside` + `next_tick_modify_liquidity_update`: an uninitialised bound counts exactly like the tick the first deposit creates (3 combinations with an uninitialised bound), current tick below
// @verif prop=C11 tier=quick timeout=300
#[kani::proof]
#[kani::unwind(34)]
#[kani::stub(alloc::fmt::format, stub_format)]
#[kani::stub(<anchor_lang::error::Error as core::convert::From<::whirlpool::errors::ErrorCode>>::from, stub_err_from_code)]
#[kani::stub(<::whirlpool::pinocchio::errors::UnifiedError as core::convert::From<::whirlpool::errors::ErrorCode>>::from, stub_unified_from_code)]
fn c11_conv_r2_below() {
    r_conv::<Anchor>(2, BELOW);
}

/// L1/L3 reward 2 `next_reward_growths_inside` + `next_tick_modify_liquidity_update`: an uninitialised bound counts exactly like the tick the first deposit creates (3 combinations with an uninitialised bound), current tick inside
// @verif prop=C11 tier=quick timeout=300
#[kani::proof]
#[kani::unwind(34)]
#[kani::stub(alloc::fmt::format, stub_format)]
#[kani::stub(<anchor_lang::error::Error as core::convert::From<::whirlpool::errors::ErrorCode>>::from, stub_err_from_code)]
#[kani::stub(<::whirlpool::pinocchio::errors::UnifiedError as core::convert::From<::whirlpool::errors::ErrorCode>>::from, stub_unified_from_code)]
fn c11_conv_r2_inside() {
    r_conv::<Anchor>(2, INSIDE);
}

/// L1/L3 reward 2 `next_reward_growths_inside` + `next_tick_modify_liquidity_update`: an uninitialised bound counts exactly like the tick the first deposit creates (3 combinations with an uninitialised bound), current tick above
// @verif prop=C11 tier=quick timeout=300
#[kani::proof]
#[kani::unwind(34)]
#[kani::stub(alloc::fmt::format, stub_format)]
#[kani::stub(<anchor_lang::error::Error as core::convert::From<::whirlpool::errors::ErrorCode>>::from, stub_err_from_code)]
#[kani::stub(<::whirlpool::pinocchio::errors::UnifiedError as core::convert::From<::whirlpool::errors::ErrorCode>>::from, stub_unified_from_code)]
fn c11_conv_r2_above() {
    r_conv::<Anchor>(2, ABOVE);
}

/// L2 reward 0: `next_tick_cross_update` flips reward outside of an initialised reward; crossing leaves reward `inside` of range [lower, upper) unchanged; t == lower, a_to_b
// @verif prop=C11 tier=quick timeout=300
#[kani::proof]
#[kani::unwind(34)]
#[kani::stub(alloc::fmt::format, stub_format)]
#[kani::stub(<anchor_lang::error::Error as core::convert::From<::whirlpool::errors::ErrorCode>>::from, stub_err_from_code)]
#[kani::stub(<::whirlpool::pinocchio::errors::UnifiedError as core::convert::From<::whirlpool::errors::ErrorCode>>::from, stub_unified_from_code)]
fn c11_l2_r0_lower_down() {
    r_l2::<Anchor>(Some(0), LOWER, true);
}

/// L2 reward 0: `next_tick_cross_update` flips reward outside of an initialised reward; crossing leaves reward `inside` of range [lower, upper) unchanged; t == lower, b_to_a
// @verif prop=C11 tier=quick timeout=300
#[kani::proof]
#[kani::unwind(34)]
#[kani::stub(alloc::fmt::format, stub_format)]
#[kani::stub(<anchor_lang::error::Error as core::convert::From<::whirlpool::errors::ErrorCode>>::from, stub_err_from_code)]
#[kani::stub(<::whirlpool::pinocchio::errors::UnifiedError as core::convert::From<::whirlpool::errors::ErrorCode>>::from, stub_unified_from_code)]
fn c11_l2_r0_lower_up() {
    r_l2::<Anchor>(Some(0), LOWER, false);
}

/// L2 reward 0: `next_tick_cross_update` flips reward outside of an initialised reward; crossing leaves reward `inside` of range [lower, upper) unchanged; t == upper, a_to_b
// @verif prop=C11 tier=quick timeout=300
#[kani::proof]
#[kani::unwind(34)]
#[kani::stub(alloc::fmt::format, stub_format)]
#[kani::stub(<anchor_lang::error::Error as core::convert::From<::whirlpool::errors::ErrorCode>>::from, stub_err_from_code)]
#[kani::stub(<::whirlpool::pinocchio::errors::UnifiedError as core::convert::From<::whirlpool::errors::ErrorCode>>::from, stub_unified_from_code)]
fn c11_l2_r0_upper_down() {
    r_l2::<Anchor>(Some(0), UPPER, true);
}

/// L2 reward 0: `next_tick_cross_update` flips reward outside of an initialised reward; crossing leaves reward `inside` of range [lower, upper) unchanged; t == upper, b_to_a
// @verif prop=C11 tier=quick timeout=300
#[kani::proof]
#[kani::unwind(34)]
#[kani::stub(alloc::fmt::format, stub_format)]
#[kani::stub(<anchor_lang::error::Error as core::convert::From<::whirlpool::errors::ErrorCode>>::from, stub_err_from_code)]
#[kani::stub(<::whirlpool::pinocchio::errors::UnifiedError as core::convert::From<::whirlpool::errors::ErrorCode>>::from, stub_unified_from_code)]
fn c11_l2_r0_upper_up() {
    r_l2::<Anchor>(Some(0), UPPER, false);
}

/// L2 reward 1: `next_tick_cross_update` flips reward outside of an initialised reward; crossing leaves reward `inside` of range [lower, upper) unchanged; t == lower, a_to_b
// @verif prop=C11 tier=quick timeout=300
#[kani::proof]
#[kani::unwind(34)]
#[kani::stub(alloc::fmt::format, stub_format)]
#[kani::stub(<anchor_lang::error::Error as core::convert::From<::whirlpool::errors::ErrorCode>>::from, stub_err_from_code)]
#[kani::stub(<::whirlpool::pinocchio::errors::UnifiedError as core::convert::From<::whirlpool::errors::ErrorCode>>::from, stub_unified_from_code)]
fn c11_l2_r1_lower_down() {
    r_l2::<Anchor>(Some(1), LOWER, true);
}

/// L2 reward 1: `next_tick_cross_update` flips reward outside of an initialised reward; crossing leaves reward `inside` of range [lower, upper) unchanged; t == lower, b_to_a
// @verif prop=C11 tier=quick timeout=300
#[kani::proof]
#[kani::unwind(34)]
#[kani::stub(alloc::fmt::format, stub_format)]
#[kani::stub(<anchor_lang::error::Error as core::convert::From<::whirlpool::errors::ErrorCode>>::from, stub_err_from_code)]
#[kani::stub(<::whirlpool::pinocchio::errors::UnifiedError as core::convert::From<::whirlpool::errors::ErrorCode>>::from, stub_unified_from_code)]
fn c11_l2_r1_lower_up() {
    r_l2::<Anchor>(Some(1), LOWER, false);
}

/// L2 reward 1: `next_tick_cross_update` flips reward outside of an initialised reward; crossing leaves reward `inside` of range [lower, upper) unchanged; t == upper, a_to_b
// @verif prop=C11 tier=quick timeout=300
#[kani::proof]
#[kani::unwind(34)]
#[kani::stub(alloc::fmt::format, stub_format)]
#[kani::stub(<anchor_lang::error::Error as core::convert::From<::whirlpool::errors::ErrorCode>>::from, stub_err_from_code)]
#[kani::stub(<::whirlpool::pinocchio::errors::UnifiedError as core::convert::From<::whirlpool::errors::ErrorCode>>::from, stub_unified_from_code)]
fn c11_l2_r1_upper_down() {
    r_l2::<Anchor>(Some(1), UPPER, true);
}

/// L2 reward 1: `next_tick_cross_update` flips reward outside of an initialised reward; crossing leaves reward `inside` of range [lower, upper) unchanged; t == upper, b_to_a
// @verif prop=C11 tier=quick timeout=300
#[kani::proof]
#[kani::unwind(34)]
#[kani::stub(alloc::fmt::format, stub_format)]
#[kani::stub(<anchor_lang::error::Error as core::convert::From<::whirlpool::errors::ErrorCode>>::from, stub_err_from_code)]
#[kani::stub(<::whirlpool::pinocchio::errors::UnifiedError as core::convert::From<::whirlpool::errors::ErrorCode>>::from, stub_unified_from_code)]
fn c11_l2_r1_upper_up() {
    r_l2::<Anchor>(Some(1), UPPER, false);
}

/// L2 reward 2: `next_tick_cross_update` flips reward outside of an initialised reward; crossing leaves reward `inside` of range [lower, upper) unchanged; t == lower, a_to_b
// @verif prop=C11 tier=quick timeout=300
#[kani::proof]
#[kani::unwind(34)]
#[kani::stub(alloc::fmt::format, stub_format)]
#[kani::stub(<anchor_lang::error::Error as core::convert::From<::whirlpool::errors::ErrorCode>>::from, stub_err_from_code)]
#[kani::stub(<::whirlpool::pinocchio::errors::UnifiedError as core::convert::From<::whirlpool::errors::ErrorCode>>::from, stub_unified_from_code)]
fn c11_l2_r2_lower_down() {
    r_l2::<Anchor>(Some(2), LOWER, true);
}

/// L2 reward 2: `next_tick_cross_update` flips reward outside of an initialised reward; crossing leaves reward `inside` of range [lower, upper) unchanged; t == lower, b_to_a
// @verif prop=C11 tier=quick timeout=300
#[kani::proof]
#[kani::unwind(34)]
#[kani::stub(alloc::fmt::format, stub_format)]
#[kani::stub(<anchor_lang::error::Error as core::convert::From<::whirlpool::errors::ErrorCode>>::from, stub_err_from_code)]
#[kani::stub(<::whirlpool::pinocchio::errors::UnifiedError as core::convert::From<::whirlpool::errors::ErrorCode>>::from, stub_unified_from_code)]
fn c11_l2_r2_lower_up() {
    r_l2::<Anchor>(Some(2), LOWER, false);
}

/// L2 reward 2: `next_tick_cross_update` flips reward outside of an initialised reward; crossing leaves reward `inside` of range [lower, upper) unchanged; t == upper, a_to_b
// @verif prop=C11 tier=quick timeout=300
#[kani::proof]
#[kani::unwind(34)]
#[kani::stub(alloc::fmt::format, stub_format)]
#[kani::stub(<anchor_lang::error::Error as core::convert::From<::whirlpool::errors::ErrorCode>>::from, stub_err_from_code)]
#[kani::stub(<::whirlpool::pinocchio::errors::UnifiedError as core::convert::From<::whirlpool::errors::ErrorCode>>::from, stub_unified_from_code)]
fn c11_l2_r2_upper_down() {
    r_l2::<Anchor>(Some(2), UPPER, true);
}

/// L2 reward 2: `next_tick_cross_update` flips reward outside of an initialised reward; crossing leaves reward `inside` of range [lower, upper) unchanged; t == upper, b_to_a
// @verif prop=C11 tier=quick timeout=300
#[kani::proof]
#[kani::unwind(34)]
#[kani::stub(alloc::fmt::format, stub_format)]
#[kani::stub(<anchor_lang::error::Error as core::convert::From<::whirlpool::errors::ErrorCode>>::from, stub_err_from_code)]
#[kani::stub(<::whirlpool::pinocchio::errors::UnifiedError as core::convert::From<::whirlpool::errors::ErrorCode>>::from, stub_unified_from_code)]
fn c11_l2_r2_upper_up() {
    r_l2::<Anchor>(Some(2), UPPER, false);
}

/// L2 reward 0: crossing a tick that is neither bound (below / above / strictly inside the range) leaves reward `inside` unchanged; a_to_b
// @verif prop=C11 tier=quick timeout=300
#[kani::proof]
#[kani::unwind(34)]
#[kani::stub(alloc::fmt::format, stub_format)]
#[kani::stub(<anchor_lang::error::Error as core::convert::From<::whirlpool::errors::ErrorCode>>::from, stub_err_from_code)]
#[kani::stub(<::whirlpool::pinocchio::errors::UnifiedError as core::convert::From<::whirlpool::errors::ErrorCode>>::from, stub_unified_from_code)]
fn c11_l2_r0_other_down() {
    r_l2::<Anchor>(Some(0), OTHER, true);
}

/// L2 reward 0: crossing a tick that is neither bound (below / above / strictly inside the range) leaves reward `inside` unchanged; b_to_a
// @verif prop=C11 tier=quick timeout=300
#[kani::proof]
#[kani::unwind(34)]
#[kani::stub(alloc::fmt::format, stub_format)]
#[kani::stub(<anchor_lang::error::Error as core::convert::From<::whirlpool::errors::ErrorCode>>::from, stub_err_from_code)]
#[kani::stub(<::whirlpool::pinocchio::errors::UnifiedError as core::convert::From<::whirlpool::errors::ErrorCode>>::from, stub_unified_from_code)]
fn c11_l2_r0_other_up() {
    r_l2::<Anchor>(Some(0), OTHER, false);
}

/// L2 reward 1: crossing a tick that is neither bound (below / above / strictly inside the range) leaves reward `inside` unchanged; a_to_b
// @verif prop=C11 tier=quick timeout=300
#[kani::proof]
#[kani::unwind(34)]
#[kani::stub(alloc::fmt::format, stub_format)]
#[kani::stub(<anchor_lang::error::Error as core::convert::From<::whirlpool::errors::ErrorCode>>::from, stub_err_from_code)]
#[kani::stub(<::whirlpool::pinocchio::errors::UnifiedError as core::convert::From<::whirlpool::errors::ErrorCode>>::from, stub_unified_from_code)]
fn c11_l2_r1_other_down() {
    r_l2::<Anchor>(Some(1), OTHER, true);
}

/// L2 reward 1: crossing a tick that is neither bound (below / above / strictly inside the range) leaves reward `inside` unchanged; b_to_a
// @verif prop=C11 tier=quick timeout=300
#[kani::proof]
#[kani::unwind(34)]
#[kani::stub(alloc::fmt::format, stub_format)]
#[kani::stub(<anchor_lang::error::Error as core::convert::From<::whirlpool::errors::ErrorCode>>::from, stub_err_from_code)]
#[kani::stub(<::whirlpool::pinocchio::errors::UnifiedError as core::convert::From<::whirlpool::errors::ErrorCode>>::from, stub_unified_from_code)]
fn c11_l2_r1_other_up() {
    r_l2::<Anchor>(Some(1), OTHER, false);
}

/// L2 reward 2: crossing a tick that is neither bound (below / above / strictly inside the range) leaves reward `inside` unchanged; a_to_b
// @verif prop=C11 tier=quick timeout=300
#[kani::proof]
#[kani::unwind(34)]
#[kani::stub(alloc::fmt::format, stub_format)]
#[kani::stub(<anchor_lang::error::Error as core::convert::From<::whirlpool::errors::ErrorCode>>::from, stub_err_from_code)]
#[kani::stub(<::whirlpool::pinocchio::errors::UnifiedError as core::convert::From<::whirlpool::errors::ErrorCode>>::from, stub_unified_from_code)]
fn c11_l2_r2_other_down() {
    r_l2::<Anchor>(Some(2), OTHER, true);
}

/// L2 reward 2: crossing a tick that is neither bound (below / above / strictly inside the range) leaves reward `inside` unchanged; b_to_a
// @verif prop=C11 tier=quick timeout=300
#[kani::proof]
#[kani::unwind(34)]
#[kani::stub(alloc::fmt::format, stub_format)]
#[kani::stub(<anchor_lang::error::Error as core::convert::From<::whirlpool::errors::ErrorCode>>::from, stub_err_from_code)]
#[kani::stub(<::whirlpool::pinocchio::errors::UnifiedError as core::convert::From<::whirlpool::errors::ErrorCode>>::from, stub_unified_from_code)]
fn c11_l2_r2_other_up() {
    r_l2::<Anchor>(Some(2), OTHER, false);
}

/// L3 `next_tick_modify_liquidity_update`: reward outside := growth_global (all 3) iff tick_index <= cur on first liquidity; untouched while gross != 0
// @verif prop=C11 tier=quick timeout=300
#[kani::proof]
#[kani::unwind(34)]
#[kani::stub(alloc::fmt::format, stub_format)]
#[kani::stub(<anchor_lang::error::Error as core::convert::From<::whirlpool::errors::ErrorCode>>::from, stub_err_from_code)]
#[kani::stub(<::whirlpool::pinocchio::errors::UnifiedError as core::convert::From<::whirlpool::errors::ErrorCode>>::from, stub_unified_from_code)]
fn c11_l3_modify_anchor() {
    r_l3::<Anchor>();
}

/// frame `next_reward_growths_inside`: depends on a bound tick only through `initialized` and `reward_growths_outside`
// @verif prop=C11 tier=quick timeout=300
#[kani::proof]
#[kani::unwind(34)]
#[kani::stub(alloc::fmt::format, stub_format)]
#[kani::stub(<anchor_lang::error::Error as core::convert::From<::whirlpool::errors::ErrorCode>>::from, stub_err_from_code)]
#[kani::stub(<::whirlpool::pinocchio::errors::UnifiedError as core::convert::From<::whirlpool::errors::ErrorCode>>::from, stub_unified_from_code)]
fn c11_frame_inside_anchor() {
    r_frame::<Anchor>();
}

/// L4 `next_position_modify_liquidity_update` (3 rewards): amount_owed += F(L, inside - checkpoint mod 2^128), +0 when F overflows (dropped, never inflated); checkpoint := inside; F = uninterpreted `checked_mul_shift_right`
// @verif prop=C11 tier=quick timeout=300
#[kani::proof]
#[kani::unwind(34)]
#[kani::stub(alloc::fmt::format, stub_format)]
#[kani::stub(<anchor_lang::error::Error as core::convert::From<::whirlpool::errors::ErrorCode>>::from, stub_err_from_code)]
#[kani::stub(<::whirlpool::pinocchio::errors::UnifiedError as core::convert::From<::whirlpool::errors::ErrorCode>>::from, stub_unified_from_code)]
#[kani::stub(::whirlpool::math::bit_math::checked_mul_shift_right, stub_mul_shift)]
fn c11_l4_credit_anchor() {
    r_l4::<Anchor>();
}

/// L3 `pino_next_tick_modify_liquidity_update`: reward outside := growth_global (all 3) iff tick_index <= cur on first liquidity; untouched while gross != 0
// @verif prop=C11 tier=quick timeout=300
#[kani::proof]
#[kani::unwind(34)]
#[kani::stub(alloc::fmt::format, stub_format)]
#[kani::stub(<anchor_lang::error::Error as core::convert::From<::whirlpool::errors::ErrorCode>>::from, stub_err_from_code)]
#[kani::stub(<::whirlpool::pinocchio::errors::UnifiedError as core::convert::From<::whirlpool::errors::ErrorCode>>::from, stub_unified_from_code)]
fn c11_l3_modify_pino() {
    r_l3::<Pino>();
}

/// frame `pino_next_reward_growths_inside`: depends on a bound tick only through `initialized` and `reward_growths_outside`
// @verif prop=C11 tier=quick timeout=300
#[kani::proof]
#[kani::unwind(34)]
#[kani::stub(alloc::fmt::format, stub_format)]
#[kani::stub(<anchor_lang::error::Error as core::convert::From<::whirlpool::errors::ErrorCode>>::from, stub_err_from_code)]
#[kani::stub(<::whirlpool::pinocchio::errors::UnifiedError as core::convert::From<::whirlpool::errors::ErrorCode>>::from, stub_unified_from_code)]
fn c11_frame_inside_pino() {
    r_frame::<Pino>();
}

/// L4 `pino_next_position_modify_liquidity_update` (3 rewards): amount_owed += F(L, inside - checkpoint mod 2^128), +0 when F overflows (dropped, never inflated); checkpoint := inside; F = uninterpreted `checked_mul_shift_right`
// @verif prop=C11 tier=quick timeout=300
#[kani::proof]
#[kani::unwind(34)]
#[kani::stub(alloc::fmt::format, stub_format)]
#[kani::stub(<anchor_lang::error::Error as core::convert::From<::whirlpool::errors::ErrorCode>>::from, stub_err_from_code)]
#[kani::stub(<::whirlpool::pinocchio::errors::UnifiedError as core::convert::From<::whirlpool::errors::ErrorCode>>::from, stub_unified_from_code)]
#[kani::stub(::whirlpool::math::bit_math::checked_mul_shift_right, stub_mul_shift)]
fn c11_l4_credit_pino() {
    r_l4::<Pino>();
}

/// `pino_next_reward_growths_inside` == `next_reward_growths_inside` on every pair of stored ticks, indices, current tick and reward infos (same bytes)
// @verif prop=C11 tier=quick timeout=300
#[kani::proof]
#[kani::unwind(34)]
#[kani::stub(alloc::fmt::format, stub_format)]
#[kani::stub(<anchor_lang::error::Error as core::convert::From<::whirlpool::errors::ErrorCode>>::from, stub_err_from_code)]
#[kani::stub(<::whirlpool::pinocchio::errors::UnifiedError as core::convert::From<::whirlpool::errors::ErrorCode>>::from, stub_unified_from_code)]
fn c11_pino_equiv_reward_inside() {
    let lo = any_tick();
    let up = any_tick();
    let tl: i32 = kani::any();
    let tu: i32 = kani::any();
    let cur: i32 = kani::any();
    let rw = Rw::any();
    let a = Anchor::reward_inside(cur, &lo, tl, &up, tu, &rw);
    let p = Pino::reward_inside(cur, &lo, tl, &up, tu, &rw);
    assert!(a[0] == p[0] && a[1] == p[1] && a[2] == p[2]);
    kani::cover!(a[0] != 0 && a[1] != a[2] && t_init(&lo) && !t_init(&up), "non-trivial values");
}

/// `calculate_collect_reward` of collect_reward and of v2/collect_reward == (min(owed, vault), owed - min(owed, vault)) for all u64 pairs
// @verif prop=C11 tier=quick timeout=300
#[kani::proof]
#[kani::unwind(34)]
#[kani::stub(alloc::fmt::format, stub_format)]
#[kani::stub(<anchor_lang::error::Error as core::convert::From<::whirlpool::errors::ErrorCode>>::from, stub_err_from_code)]
#[kani::stub(<::whirlpool::pinocchio::errors::UnifiedError as core::convert::From<::whirlpool::errors::ErrorCode>>::from, stub_unified_from_code)]
fn c11_collect_reward_min() {
    let owed: u64 = kani::any();
    let vault: u64 = kani::any();
    let ck: u128 = kani::any();
    let pr = PositionRewardInfo { growth_inside_checkpoint: ck, amount_owed: owed };
    let v1 = verif_calculate_collect_reward(pr, vault);
    let v2 = verif_calculate_collect_reward_v2(pr, vault);
    assert!(v1 == collect_spec(owed, vault));
    assert!(v2 == collect_spec(owed, vault));
    assert!(v1.0 <= vault && v1.0 as u128 + v1.1 as u128 == owed as u128);
    kani::cover!(owed > vault && vault > 0, "vault short");
    kani::cover!(owed <= vault && owed > 0, "paid in full");
}

/// `next_whirlpool_reward_infos` structure (timestamp check, no-op cases, growth += F(dt, emissions, liquidity) wrapping, overflow dropped) with `checked_mul_div` uninterpreted, and `pino_next_whirlpool_reward_growth_global` agrees on the same 653 account bytes
// @verif prop=C11 tier=quick timeout=300
#[kani::proof]
#[kani::unwind(34)]
#[kani::stub(alloc::fmt::format, stub_format)]
#[kani::stub(<anchor_lang::error::Error as core::convert::From<::whirlpool::errors::ErrorCode>>::from, stub_err_from_code)]
#[kani::stub(<::whirlpool::pinocchio::errors::UnifiedError as core::convert::From<::whirlpool::errors::ErrorCode>>::from, stub_unified_from_code)]
#[kani::stub(::whirlpool::math::bit_math::checked_mul_div, stub_mul_div)]
fn c11_next_reward_infos() {
    nwri();
}

/// vacuity twin: reward growth while in range DOES change `inside` — must FAIL
// @verif prop=C11 tier=quick timeout=300 twin
#[kani::proof]
#[kani::unwind(34)]
#[kani::stub(alloc::fmt::format, stub_format)]
#[kani::stub(<anchor_lang::error::Error as core::convert::From<::whirlpool::errors::ErrorCode>>::from, stub_err_from_code)]
#[kani::stub(<::whirlpool::pinocchio::errors::UnifiedError as core::convert::From<::whirlpool::errors::ErrorCode>>::from, stub_unified_from_code)]
fn c11_twin_must_fail() {
    let lo = any_tick();
    let up = any_tick();
    let tl: i32 = kani::any();
    let tu: i32 = kani::any();
    let cur: i32 = kani::any();
    let rw = Rw::any();
    let x: u128 = kani::any();
    kani::assume(tl <= cur && cur < tu && t_init(&lo) && t_init(&up));
    let g = rw.growths();
    let rw1 = rw.with_growths(&[g[0].wrapping_add(x), g[1], g[2]]);
    let i0 = Anchor::reward_inside(cur, &lo, tl, &up, tu, &rw);
    let i1 = Anchor::reward_inside(cur, &lo, tl, &up, tu, &rw1);
    assert!(i0[0] == i1[0], "twin: in-range reward growth must change inside");
}
