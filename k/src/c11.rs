//! C11 harnesses (Engine K)
