//! C06 harnesses (Engine K)
