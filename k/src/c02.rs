//! C02 harnesses (Engine K)
