//! C02 — kernel contracts of the 256-bit arithmetic in `math/u256_math.rs` (Engine K).
//!
//! The other engine (M, `props/c02.py`) treats these kernels as primitives with integer contracts
//! (K1–K12 in its ASSUMPTIONS). This file proves K1–K11 at full width against a reference that is written
//! with two native `u128` halves (`R = (h, l)`, value = h·2^128 + l) resp. four `u64` limbs with `u128`
//! carries, and smoke-checks K12 (`U256Muldiv::div`) on sub-domains only.
//!
//! Layout
//!   §0 reference model
//!   §1 K2–K10: new / add / sub / word shifts / bit shifts / compare / is_zero / try_into_u128 / From / add-inverse
//!   §2 K1 `mul_u256`, K11 `U256Muldiv::mul`
//!   §3 K12 smoke checks of `U256Muldiv::div` (an *assumed* kernel of Engine M)
//!   §4 twin
use crate::common::*;
use ::whirlpool::math::u256_math::{mul_u256, U256Muldiv};

// ---------------------------------------------------------------------------------------------
// §0 reference model: a 256-bit value is (h, l) = h·2^128 + l; limbs w0..w3 little endian

#[derive(Copy, Clone, PartialEq, Eq)]
struct R {
    h: u128,
    l: u128,
}

fn any_r() -> R {
    R { h: kani::any(), l: kani::any() }
}
fn mk(r: R) -> U256Muldiv {
    U256Muldiv::new(r.h, r.l)
}
/// value of a U256Muldiv read through its public word getter
fn val(u: &U256Muldiv) -> R {
    R {
        l: (u.get_word(0) as u128) | ((u.get_word(1) as u128) << 64),
        h: (u.get_word(2) as u128) | ((u.get_word(3) as u128) << 64),
    }
}
fn r_add(a: R, b: R) -> R {
    let (l, c) = a.l.overflowing_add(b.l);
    R { h: a.h.wrapping_add(b.h).wrapping_add(c as u128), l }
}
fn r_sub(a: R, b: R) -> R {
    let (l, c) = a.l.overflowing_sub(b.l);
    R { h: a.h.wrapping_sub(b.h).wrapping_sub(c as u128), l }
}
fn r_lt(a: R, b: R) -> bool {
    a.h < b.h || (a.h == b.h && a.l < b.l)
}
/// a·2^n mod 2^256 for n < 256
fn r_shl(a: R, n: u32) -> R {
    if n == 0 {
        a
    } else if n < 128 {
        R { h: (a.h << n) | (a.l >> (128 - n)), l: a.l << n }
    } else if n == 128 {
        R { h: a.l, l: 0 }
    } else {
        R { h: a.l << (n - 128), l: 0 }
    }
}
/// floor(a / 2^n) for n < 256
fn r_shr(a: R, n: u32) -> R {
    if n == 0 {
        a
    } else if n < 128 {
        R { h: a.h >> n, l: (a.l >> n) | (a.h << (128 - n)) }
    } else if n == 128 {
        R { h: 0, l: a.h }
    } else {
        R { h: 0, l: a.h >> (n - 128) }
    }
}
/// schoolbook product of two u128 from four u64×u64→u128 partial products, column-wise with explicit carries.
/// `CHECKED` only selects how the four u64·u64 products (always < 2^128) are written: with `*` on `x & M` / `x >> 64`
/// (term for term what `mul_u256` multiplies, so that a word-level solver sees the same `bvmul` terms on both sides
/// and only has to check the carry logic) or with `wrapping_mul` (the plain 128-bit product of `U256Muldiv::mul`).
/// Same value either way. Measured: with the SAT back end the full-width comparison is chaotic (134 s … > 900 s
/// depending on the crate hash), with cvc5 it takes 50–70 s.
fn r_mul128<const CHECKED: bool>(v: u128, n: u128) -> R {
    const M: u128 = u64::MAX as u128;
    let (p00, p01, p10, p11) = if CHECKED {
        ((v & M) * (n & M), (v & M) * (n >> 64), (v >> 64) * (n & M), (v >> 64) * (n >> 64))
    } else {
        let (v0, v1) = (v as u64 as u128, (v >> 64) as u64 as u128);
        let (n0, n1) = (n as u64 as u128, (n >> 64) as u64 as u128);
        (v0.wrapping_mul(n0), v0.wrapping_mul(n1), v1.wrapping_mul(n0), v1.wrapping_mul(n1))
    };
    let w0 = p00 & M;
    let col1 = (p00 >> 64) + (p01 & M) + (p10 & M); // < 3·2^64
    let w1 = col1 & M;
    let col2 = (col1 >> 64) + (p01 >> 64) + (p10 >> 64) + (p11 & M); // < 4·2^64
    let w2 = col2 & M;
    let w3 = (col2 >> 64) + (p11 >> 64); // < 2^64: the product is < 2^256
    R { h: w2 | (w3 << 64), l: w0 | (w1 << 64) }
}

// ---------------------------------------------------------------------------------------------
// §1 K2–K10

/// K2: `U256Muldiv::new(h, l)` has value h·2^128 + l — `get_word(i)`/`get_word_u128(i)` are the four 64-bit limbs;
/// all (h, l)
// @verif prop=C02 tier=quick timeout=300
#[kani::proof]
#[kani::unwind(5)]
fn c02_k2_new_words() {
    let h: u128 = kani::any();
    let l: u128 = kani::any();
    let u = U256Muldiv::new(h, l);
    assert!(u.get_word(0) == l as u64);
    assert!(u.get_word(1) == (l >> 64) as u64);
    assert!(u.get_word(2) == h as u64);
    assert!(u.get_word(3) == (h >> 64) as u64);
    let i: usize = kani::any();
    kani::assume(i < 4);
    assert!(u.get_word_u128(i) == u.get_word(i) as u128);
    assert!(u.items[i] == u.get_word(i));
    let v = val(&u);
    assert!(v.h == h && v.l == l);
    kani::cover!(u.get_word(3) != 0 && u.get_word(0) != 0, "top and bottom limb set");
}

/// K3: `add` = (a + b) mod 2^256 for all 256-bit a, b (reference: two u128 halves with carry)
// @verif prop=C02 tier=quick timeout=300
#[kani::proof]
#[kani::unwind(5)]
fn c02_k3_add() {
    let a = any_r();
    let b = any_r();
    let s = mk(a).add(mk(b));
    assert!(val(&s) == r_add(a, b));
    kani::cover!(r_lt(r_add(a, b), a), "sum wraps past 2^256");
    kani::cover!(a.l.checked_add(b.l).is_none() && !r_lt(r_add(a, b), a), "carry out of the low half, no wrap");
}

/// K4: `sub` = (a − b) mod 2^256 (two's complement) for all 256-bit a, b
// @verif prop=C02 tier=quick timeout=300
#[kani::proof]
#[kani::unwind(5)]
fn c02_k4_sub() {
    let a = any_r();
    let b = any_r();
    let d = mk(a).sub(mk(b));
    assert!(val(&d) == r_sub(a, b));
    // and it inverts add
    assert!(val(&d.add(mk(b))) == a);
    kani::cover!(r_lt(a, b), "difference wraps below 0");
    kani::cover!(!r_lt(a, b) && a.l < b.l, "borrow from the high half, no wrap");
}

/// K5/K6/K7: `shift_word_left` = a·2^64 mod 2^256; `checked_shift_word_left` = None iff the top limb ≠ 0, else
/// a·2^64; `shift_word_right` = floor(a / 2^64); all 256-bit a
// @verif prop=C02 tier=quick timeout=300
#[kani::proof]
#[kani::unwind(5)]
fn c02_k5_word_shifts() {
    let a = any_r();
    let u = mk(a);
    let want_l = R { h: (a.h << 64) | (a.l >> 64), l: a.l << 64 };
    let want_r = R { h: a.h >> 64, l: (a.l >> 64) | (a.h << 64) };
    assert!(val(&u.shift_word_left()) == want_l);
    assert!(val(&u.shift_word_right()) == want_r);
    match u.checked_shift_word_left() {
        None => {
            assert!((a.h >> 64) != 0);
        }
        Some(x) => {
            assert!((a.h >> 64) == 0);
            assert!(val(&x) == want_l);
            // no bits lost: shifting back restores a
            assert!(val(&x.shift_word_right()) == a);
        }
    }
    kani::cover!(u.checked_shift_word_left().is_none(), "overflowing word shift");
    kani::cover!(u.checked_shift_word_left().is_some() && a.h != 0, "non-overflowing word shift of a 3-word value");
}

/// K8: `shift_left(n)` = a·2^n mod 2^256 and `shift_right(n)` = floor(a / 2^n) for all 256-bit a and ALL u32 n
/// (n ≥ 256 gives 0); symbolic n (the word loop runs ≤ 3 times)
// @verif prop=C02 tier=quick timeout=300
#[kani::proof]
#[kani::unwind(5)]
fn c02_k8_bit_shifts() {
    let a = any_r();
    let n: u32 = kani::any();
    let u = mk(a);
    let sl = val(&u.shift_left(n));
    let sr = val(&u.shift_right(n));
    if n >= 256 {
        assert!(sl == R { h: 0, l: 0 });
        assert!(sr == R { h: 0, l: 0 });
    } else {
        assert!(sl == r_shl(a, n));
        assert!(sr == r_shr(a, n));
    }
    kani::cover!(n > 128 && n < 192 && n % 64 != 0 && sl.h != 0, "multi-word + sub-word left shift");
    kani::cover!(n > 64 && n < 128 && n % 64 != 0 && sr.l != 0 && sr.h != 0, "multi-word + sub-word right shift");
    kani::cover!(n >= 256, "shift past the width");
}

/// K9: `lt/lte/gt/gte/eq` = lexicographic comparison of (h, l), i.e. comparison of the 256-bit values; `is_zero`;
/// all 256-bit a, b
// @verif prop=C02 tier=quick timeout=300
#[kani::proof]
#[kani::unwind(5)]
fn c02_k9_compare() {
    let a = any_r();
    let b = any_r();
    let (ua, ub) = (mk(a), mk(b));
    let lt = r_lt(a, b);
    let eq = a == b;
    assert!(ua.lt(ub) == lt);
    assert!(ua.lte(ub) == (lt || eq));
    assert!(ua.gt(ub) == (!lt && !eq));
    assert!(ua.gte(ub) == !lt);
    assert!(ua.eq(ub) == eq);
    assert!(ua.is_zero() == (a.h == 0 && a.l == 0));
    kani::cover!(ua.lt(ub) && a.l > b.l, "decided by the high half against the low half");
    kani::cover!(eq && a.h != 0, "equal");
    kani::cover!(ua.gt(ub) && a.h == b.h, "decided by the low half");
}

/// K10: `try_into_u128` = Err(NumberDownCastError) iff the high 128 bits ≠ 0, else Ok(low 128 bits);
/// `From<u128>`/`From<u64>` embed the value; `get_add_inverse` = (2^256 − a) mod 2^256; all 256-bit a
// @verif prop=C02 tier=quick timeout=300
#[kani::proof]
#[kani::unwind(5)]
fn c02_k10_convert_inverse() {
    let a = any_r();
    let x: u128 = kani::any();
    let y: u64 = kani::any();
    let u = mk(a);
    match u.try_into_u128() {
        Ok(v) => {
            assert!(a.h == 0 && v == a.l);
        }
        Err(e) => {
            assert!(a.h != 0 && e as u32 == ::whirlpool::errors::ErrorCode::NumberDownCastError as u32);
        }
    }
    assert!(val(&U256Muldiv::from(x)) == R { h: 0, l: x });
    assert!(val(&U256Muldiv::from(y)) == R { h: 0, l: y as u128 });
    let inv = u.get_add_inverse();
    let want = r_sub(R { h: 0, l: 0 }, a);
    assert!(val(&inv) == want);
    assert!(u.add(inv).is_zero());
    kani::cover!(u.try_into_u128().is_ok() && a.l > u64::MAX as u128, "fits u128, two words");
    kani::cover!(u.try_into_u128().is_err(), "does not fit");
    kani::cover!(a.l == 0 && a.h != 0, "inverse of a multiple of 2^128");
}

// ---------------------------------------------------------------------------------------------
// §2 K1 mul_u256, K11 U256Muldiv::mul

/// K1 (full width): `mul_u256(v, n)` = v·n exactly (256-bit) for ALL u128 v, n — reference: column-wise schoolbook
/// over four u64×u64→u128 partial products with explicit carries; also no arithmetic-overflow panic inside
/// `mul_u256`. SMT back end (cvc5): the four products are the same terms on both sides, the carry logic is decided.
// @verif prop=C02 tier=quick timeout=300
#[kani::proof]
#[kani::solver(cvc5)]
#[kani::unwind(5)]
fn c02_k1_mul_u256_full() {
    let v: u128 = kani::any();
    let n: u128 = kani::any();
    let r = mul_u256(v, n);
    assert!(val(&r) == r_mul128::<true>(v, n));
    kani::cover!(r.get_word(3) == u64::MAX, "top limb saturated");
}

/// K1 (sub-domain v < 2^64 and n < 2^64, SAT back end as an independent cross-check of the cvc5 result):
/// `mul_u256(v, n)` = the single limb product, high half 0
// @verif prop=C02 tier=quick timeout=300
#[kani::proof]
#[kani::solver(kissat)]
#[kani::unwind(5)]
fn c02_k1_mul_u256_64x64() {
    let v: u64 = kani::any();
    let n: u64 = kani::any();
    let r = mul_u256(v as u128, n as u128);
    assert!(val(&r) == r_mul128::<false>(v as u128, n as u128));
    kani::cover!(r.get_word(1) > (1 << 63), "two-word product");
}

/// K11 (sub-domain a, b < 2^64): `U256Muldiv::mul` = a·b (no reduction happens below 2^128)
// @verif prop=C02 tier=quick timeout=300
#[kani::proof]
#[kani::solver(kissat)]
#[kani::unwind(5)]
fn c02_k11_mul_64x64() {
    let a: u64 = kani::any();
    let b: u64 = kani::any();
    let r = U256Muldiv::from(a).mul(U256Muldiv::from(b));
    assert!(val(&r) == r_mul128::<false>(a as u128, b as u128));
    kani::cover!(r.get_word(1) > (1 << 63), "two-word product");
    kani::cover!(a == 0 && b != 0, "zero factor (num_words = 0)");
}

// K11 at a, b < 2^128 (four limb products against the reference) did not finish in 600–900 s with CaDiCaL, Kissat
// or cvc5 (also not with the word counts scripted): left out. `mul`'s reduction mod 2^256 is therefore only
// exercised indirectly (K12 harnesses compute q·d with it).

// ---------------------------------------------------------------------------------------------
// §3 K12 smoke checks. `U256Muldiv::div` is an ASSUMED kernel of Engine M (floor quotient and remainder);
// the harnesses below decide q·d + r == n ∧ r < d only on the stated sub-domains, using the crate's own
// mul/add/lt/eq (contracts K3, K9, K11).

/// limb with `BITS` symbolic bits at bit position `pos` (all other bits 0)
fn limb<const BITS: u32>(pos: u32) -> u64 {
    let b: u8 = kani::any();
    kani::assume((b as u32) < (1u32 << BITS));
    (b as u64) << pos
}
fn limb3(pos: u32) -> u64 {
    limb::<3>(pos)
}
fn hi_lo(h: u64, l: u64) -> u128 {
    ((h as u128) << 64) | l as u128
}

static mut NW_SCRIPT: [usize; 2] = [0; 2];
static mut NW_POS: usize = 0;
/// Self-checking case-split hint replacing the private `U256Muldiv::num_words`: the first two calls (dividend,
/// then divisor, at the top of `div`) return the constant the harness announced in `NW_SCRIPT` after ASSERTING
/// that it is the real word count; all later calls compute the real count. It does not change any value; it
/// only lets symbolic execution see the word counts as constants, so that the paths of `div` that the harness
/// domain excludes (and their 128-bit divider circuits) are not encoded at all (3-by-2: > 600 s → 170 s).
fn scripted_num_words(u: &U256Muldiv) -> usize {
    let real = if u.items[3] != 0 {
        4
    } else if u.items[2] != 0 {
        3
    } else if u.items[1] != 0 {
        2
    } else if u.items[0] != 0 {
        1
    } else {
        0
    };
    unsafe {
        if NW_POS < 2 {
            let k = NW_SCRIPT[NW_POS];
            NW_POS += 1;
            assert!(real == k, "num_words script matches the real word count");
            k
        } else {
            real
        }
    }
}

/// q·d + r == n ∧ r < d for (q, r) = n.div(d, true), with the crate's own mul/add/eq/lt (contracts K3, K9, K11)
fn div_ok(n: U256Muldiv, d: U256Muldiv, words_n: usize, words_d: usize) -> (U256Muldiv, U256Muldiv) {
    unsafe {
        NW_SCRIPT = [words_n, words_d];
    }
    let (q, r) = n.div(d, true);
    let back = q.mul(d).add(r);
    assert!(back.eq(n), "q*d + r == n");
    assert!(r.lt(d), "r < d");
    (q, r)
}

/// K12a smoke (native-u128 path of `div`, 2-word ÷ 2-word): q·d + r == n ∧ r < d; NB symbolic bits per limb
// @verif prop=C02 tier=quick timeout=300
#[kani::proof]
#[kani::unwind(6)]
#[kani::stub(::whirlpool::math::u256_math::U256Muldiv::num_words, scripted_num_words)]
fn c02_k12_div_native_2by2() {
    let n = U256Muldiv { items: [limb::<6>(0), limb::<6>(58), 0, 0] };
    let d = U256Muldiv { items: [limb::<3>(0), limb::<3>(30), 0, 0] };
    kani::assume(n.items[1] != 0 && d.items[1] != 0);
    let (q, r) = div_ok(n, d, 2, 2);
    kani::cover!(q.get_word(0) > 1 && !r.is_zero(), "inexact quotient > 1");
}

/// K12 early returns, FULL-width limbs: a dividend with `wn` 64-bit words and a divisor with `wd > wn` words (word counts concrete per harness,
/// announced through the self-checking `scripted_num_words` case split; every limb below the word count a full symbolic u64, top limb non-zero)
/// gives quotient 0 and remainder == dividend with `return_remainder`, (0, 0) without it; a zero dividend gives (0, 0).
/// These are the cases in which the rounding-up decision of the amount functions rests on the remainder alone.
fn small_dividend_case(wn: usize, wd: usize) {
    let mut n = U256Muldiv { items: [0; 4] };
    let mut d = U256Muldiv { items: [0; 4] };
    let mut i = 0;
    while i < 4 {
        if i < wn { n.items[i] = kani::any(); }
        if i < wd { d.items[i] = kani::any(); }
        i += 1;
    }
    kani::assume(wn == 0 || n.items[wn - 1] != 0);
    kani::assume(d.items[wd - 1] != 0);
    unsafe { NW_SCRIPT = [wn, wd]; }
    let want_rem: bool = kani::any();
    let (q, r) = n.div(d, want_rem);
    assert!(q.is_zero(), "dividend < divisor: quotient 0");
    if want_rem {
        assert!(r.eq(n), "dividend < divisor: remainder == dividend");
    } else {
        assert!(r.is_zero());
    }
    kani::cover!(want_rem, "remainder requested");
}

/// zero dividend, 4-word divisor
// @verif prop=C02 tier=quick timeout=300
#[kani::proof]
#[kani::unwind(6)]
#[kani::stub(::whirlpool::math::u256_math::U256Muldiv::num_words, scripted_num_words)]
fn c02_k12_div_small_dividend_0by4() {
    small_dividend_case(0, 4)
}

/// 1-word dividend, 2-word divisor
// @verif prop=C02 tier=quick timeout=300
#[kani::proof]
#[kani::unwind(6)]
#[kani::stub(::whirlpool::math::u256_math::U256Muldiv::num_words, scripted_num_words)]
fn c02_k12_div_small_dividend_1by2() {
    small_dividend_case(1, 2)
}

/// 2-word dividend, 3-word divisor (the shape of L*dp*2^64 / (p0*p1) for prices around 1.0 and small L*dp)
// @verif prop=C02 tier=quick timeout=300
#[kani::proof]
#[kani::unwind(6)]
#[kani::stub(::whirlpool::math::u256_math::U256Muldiv::num_words, scripted_num_words)]
fn c02_k12_div_small_dividend_2by3() {
    small_dividend_case(2, 3)
}

/// 3-word dividend, 4-word divisor
// @verif prop=C02 tier=quick timeout=300
#[kani::proof]
#[kani::unwind(6)]
#[kani::stub(::whirlpool::math::u256_math::U256Muldiv::num_words, scripted_num_words)]
fn c02_k12_div_small_dividend_3by4() {
    small_dividend_case(3, 4)
}

/// K12a smoke (native-u128 path of `div`, 2-word ÷ 1-word)
// @verif prop=C02 tier=quick timeout=300
#[kani::proof]
#[kani::unwind(6)]
#[kani::stub(::whirlpool::math::u256_math::U256Muldiv::num_words, scripted_num_words)]
fn c02_k12_div_native_2by1() {
    let n = U256Muldiv { items: [limb::<3>(0), limb::<3>(61), 0, 0] };
    let d = U256Muldiv { items: [limb::<3>(0) | limb::<3>(30), 0, 0, 0] };
    kani::assume(n.items[1] != 0 && d.items[0] != 0);
    let (q, r) = div_ok(n, d, 2, 1);
    kani::cover!(q.get_word(1) != 0 && !r.is_zero(), "two-word quotient, non-zero remainder");
}

/// K12b smoke, Knuth path, 4-word ÷ 2-word: every limb has 3 symbolic bits (low limbs at bit 0 resp. 31, the top
/// limb of the dividend at bit 61 and of the divisor at bit 30, so both operands are normalised by a symbolic
/// shift of 31..=33 bits and the dividend spills into the carry word)
// @verif prop=C02 tier=thorough timeout=900
#[kani::proof]
#[kani::unwind(6)]
#[kani::stub(::whirlpool::math::u256_math::U256Muldiv::num_words, scripted_num_words)]
fn c02_k12_div_knuth_4by2() {
    let n = U256Muldiv { items: [limb3(0), limb3(31), limb3(0), limb3(61)] };
    let d = U256Muldiv { items: [limb3(0), limb3(30), 0, 0] };
    kani::assume(n.items[3] != 0 && d.items[1] != 0);
    let (q, r) = div_ok(n, d, 4, 2);
    kani::cover!(q.get_word(2) != 0 && !r.is_zero(), "3-word quotient, non-zero remainder");
}

/// K12b smoke, Knuth path, 3-word ÷ 2-word (same limb pattern; two div_loop iterations, no carry word)
// @verif prop=C02 tier=thorough timeout=900
#[kani::proof]
#[kani::unwind(6)]
#[kani::stub(::whirlpool::math::u256_math::U256Muldiv::num_words, scripted_num_words)]
fn c02_k12_div_knuth_3by2() {
    let n = U256Muldiv { items: [limb3(0), limb3(31), limb3(61), 0] };
    let d = U256Muldiv { items: [limb3(0), limb3(30), 0, 0] };
    kani::assume(n.items[2] != 0 && d.items[1] != 0);
    let (q, r) = div_ok(n, d, 3, 2);
    kani::cover!(q.get_word(1) != 0 && !r.is_zero(), "2-word quotient, non-zero remainder");
}

static mut OOB_READ: bool = false;
/// recording replacement of `U256Muldiv::get_word_u128`: identical for index < 4; for index ≥ 4 (where the real
/// function panics with index-out-of-bounds) it sets `OOB_READ` and returns 0 so that the path can be observed.
fn spy_get_word_u128(u: &U256Muldiv, index: usize) -> u128 {
    if index >= 4 {
        unsafe {
            OOB_READ = true;
        }
        return 0;
    }
    u.items[index] as u128
}

/// K12b smoke, Knuth path, 4-word ÷ 3-word (same limb pattern): q·d + r == n ∧ r < d on every execution in which
/// `div` does not panic. OBSERVATION (code defect, recorded in DESIGN; no property constrains it because only
/// successful computations are constrained): in `div_loop`'s add-back branch (`k > d_head`) the statement
/// `let new_carry = dividend.get_word_u128(index + num_divisor_words)…` (u256_math.rs:576) is evaluated also when
/// `use_carry` (index + num_divisor_words == 4), i.e. it reads `items[4]` and PANICS. The first cover below is
/// satisfied: the panic is reachable in this domain, e.g. n.items = [5, 6<<31, 0, 3<<61], d.items = [6, 0, 2<<30, 0];
/// through the public API (natively confirmed, debug and release):
///   try_get_amount_delta_a(33339991686239204854474 /*p(150000)*/, 33341658644150610826172 /*p(150001)*/,
///                          276488252483076937113912584913284308804 /*liquidity*/, _) panics,
///   get_amount_delta_a(406113483393643373014939, 406133788560196581447978, 185938681709293775685229341057142750755, true) panics.
/// The harness also proves that on every such path the true quotient is ≥ 2^64 (n ≥ d·2^64): add-back in the carry
/// iteration needs a non-zero leading quotient digit, so a non-panicking `div` could only have produced a result
/// that callers reject (TokenMaxExceeded / ExceedsMax); amounts that fit u64 never reach it. It needs a 3- or
/// 4-word divisor (for ≤ 2-word divisors Knuth's qhat test is exact and add-back never happens), i.e. only
/// `try_get_amount_delta_a` with p_lower·p_upper ≥ 2^128.
// @verif prop=C02 tier=thorough timeout=900
#[kani::proof]
#[kani::unwind(6)]
#[kani::stub(::whirlpool::math::u256_math::U256Muldiv::num_words, scripted_num_words)]
#[kani::stub(::whirlpool::math::u256_math::U256Muldiv::get_word_u128, spy_get_word_u128)]
fn c02_k12_div_knuth_4by3() {
    let n = U256Muldiv { items: [limb3(0), limb3(31), limb3(0), limb3(61)] };
    let d = U256Muldiv { items: [limb3(0), limb3(0), limb3(30), 0] };
    kani::assume(n.items[3] != 0 && d.items[2] != 0);
    unsafe {
        NW_SCRIPT = [4, 3];
    }
    let (q, r) = n.div(d, true);
    let oob = unsafe { OOB_READ };
    if oob {
        // the real code has panicked here; (q, r) are meaningless
        assert!(n.gte(d.shift_word_left()), "panic only when the true quotient is >= 2^64");
    } else {
        let back = q.mul(d).add(r);
        assert!(back.eq(n), "q*d + r == n");
        assert!(r.lt(d), "r < d");
    }
    kani::cover!(oob, "add-back in the carry iteration reads items[4]: index-out-of-bounds panic in the real code");
    kani::cover!(!oob && q.get_word(1) != 0 && !r.is_zero(), "no panic: 2-word quotient, non-zero remainder");
}

static mut ADD_BACK: bool = false;
/// replacement of `u128::wrapping_add` that also records the call. Inside `div`/`div_loop` the only calls are
/// in the add-back branch (`k > d_head`), so the flag read right after `div` means "add-back was executed".
fn spy_wrapping_add(a: u128, b: u128) -> u128 {
    unsafe {
        ADD_BACK = true;
    }
    a.overflowing_add(b).0
}

/// K12b smoke, add-back branch of `div_loop` (`k > d_head`): 3-word ÷ 3-word with low limbs at bit 0 and top limbs
/// at bit 61 (contains Hacker's Delight's add-back case (2^191 + 3) / (2^189 + 1)); the cover proves the branch is
/// executed inside the domain (observed through a recording replacement of `u128::wrapping_add`, which `div`
/// only calls there)
// @verif prop=C02 tier=quick timeout=300
#[kani::proof]
#[kani::unwind(6)]
#[kani::stub(::whirlpool::math::u256_math::U256Muldiv::num_words, scripted_num_words)]
#[kani::stub(u128::wrapping_add, spy_wrapping_add)]
fn c02_k12_div_knuth_addback() {
    let n = U256Muldiv { items: [limb3(0), limb3(0), limb3(61), 0] };
    let d = U256Muldiv { items: [limb3(0), limb3(0), limb3(61), 0] };
    kani::assume(n.items[2] != 0 && d.items[2] != 0);
    unsafe {
        NW_SCRIPT = [3, 3];
    }
    let (q, r) = n.div(d, true);
    let add_back = unsafe { ADD_BACK };
    let back = d.mul(q).add(r);
    assert!(back.eq(n), "q*d + r == n");
    assert!(r.lt(d), "r < d");
    kani::cover!(add_back, "add-back branch of div_loop executed");
    kani::cover!(!add_back && q.get_word(0) > 1, "no add-back, quotient > 1");
}

// ---------------------------------------------------------------------------------------------
// §4 twin

/// vacuity twin: must FAIL (a sum that wraps past 2^256 is reachable)
// @verif prop=C02 tier=quick timeout=300 twin
#[kani::proof]
#[kani::unwind(5)]
fn c02_twin_must_fail() {
    let a = any_r();
    let b = any_r();
    let s = mk(a).add(mk(b));
    assert!(!s.lt(mk(a)), "twin: a wrapping 256-bit sum must be reported");
}
