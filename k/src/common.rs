//! Shared stubs and helpers. Every stub listed here is part of the claim (DESIGN §2).
use anchor_lang::error::Error as AErr;
use ::whirlpool::errors::ErrorCode;
use ::whirlpool::pinocchio::errors::UnifiedError;

/// `alloc::fmt::format` replacement: messages are never observed.
pub fn stub_format(_a: core::fmt::Arguments<'_>) -> alloc::string::String {
    alloc::string::String::new()
}

/// code-preserving replacement of `From<ErrorCode> for anchor_lang::error::Error`
pub fn stub_err_from_code(e: ErrorCode) -> AErr {
    AErr::ProgramError(Box::new(anchor_lang::error::ProgramErrorWithOrigin {
        program_error: anchor_lang::solana_program::program_error::ProgramError::Custom(
            e as u32 + anchor_lang::error::ERROR_CODE_OFFSET,
        ),
        error_origin: None,
        compared_values: None,
    }))
}

/// code-preserving replacement of `From<anchor ErrorCode> for anchor Error`
pub fn stub_err_from_anchor_code(e: anchor_lang::error::ErrorCode) -> AErr {
    AErr::ProgramError(Box::new(anchor_lang::error::ProgramErrorWithOrigin {
        program_error: anchor_lang::solana_program::program_error::ProgramError::Custom(e as u32),
        error_origin: None,
        compared_values: None,
    }))
}

pub fn stub_unified_from_code(e: ErrorCode) -> UnifiedError {
    UnifiedError::Pinocchio(pinocchio::program_error::ProgramError::Custom(
        e as u32 + anchor_lang::error::ERROR_CODE_OFFSET,
    ))
}

pub fn stub_unified_from_anchor_code(e: anchor_lang::error::ErrorCode) -> UnifiedError {
    UnifiedError::Pinocchio(pinocchio::program_error::ProgramError::Custom(e as u32))
}

/// numeric code of an anchor error, for both the real and the stubbed construction
pub fn acode(e: &AErr) -> u32 {
    match e {
        AErr::AnchorError(a) => a.error_code_number,
        AErr::ProgramError(p) => match &p.program_error {
            anchor_lang::solana_program::program_error::ProgramError::Custom(c) => *c,
            _ => u32::MAX,
        },
    }
}

pub fn ucode(e: &UnifiedError) -> u32 {
    match e {
        UnifiedError::Anchor(a) => acode(a),
        UnifiedError::Pinocchio(p) => match p {
            pinocchio::program_error::ProgramError::Custom(c) => *c,
            _ => u32::MAX,
        },
    }
}

pub fn ecode(e: ErrorCode) -> u32 {
    e as u32 + anchor_lang::error::ERROR_CODE_OFFSET
}

// ---------------------------------------------------------------------------------------------
// Uninterpreted / contract stubs for the arithmetic that bit-blasting cannot decide (DESIGN §2).
// A memo table makes each stub a *function*: equal arguments give equal results, so a differential
// harness compares the two implementations on provably equal calls. Table bounds are asserted.
#[cfg(kani)]
pub mod memo {
    use ::whirlpool::errors::ErrorCode;
    use ::whirlpool::math::{MAX_SQRT_PRICE_X64, MIN_SQRT_PRICE_X64};
    use ::whirlpool::state::{MAX_TICK_INDEX, MIN_TICK_INDEX};

    const N: usize = 12;
    static mut MD_K: [(u128, u128, u128); N] = [(0, 0, 0); N];
    static mut MD_V: [(u8, u128); N] = [(0, 0); N];
    static mut MD_N: usize = 0;

    /// uninterpreted `checked_mul_div(n0, n1, d)`: Err(DivideByZero) iff d == 0 (that much is cheap and
    /// exact), otherwise an arbitrary but fixed outcome per argument triple.
    pub fn stub_checked_mul_div(n0: u128, n1: u128, d: u128) -> Result<u128, ErrorCode> {
        if d == 0 {
            return Err(ErrorCode::DivideByZero);
        }
        unsafe {
            let mut i = 0;
            while i < MD_N {
                if MD_K[i] == (n0, n1, d) {
                    return if MD_V[i].0 == 0 { Ok(MD_V[i].1) } else { Err(ErrorCode::MulDivOverflow) };
                }
                i += 1;
            }
            assert!(MD_N < N, "memo table bound (checked_mul_div)");
            let ok: bool = kani::any();
            let v: u128 = kani::any();
            MD_K[MD_N] = (n0, n1, d);
            MD_V[MD_N] = (if ok { 0 } else { 1 }, v);
            MD_N += 1;
            if ok { Ok(v) } else { Err(ErrorCode::MulDivOverflow) }
        }
    }

    static mut MS_K: [(u128, u128); N] = [(0, 0); N];
    static mut MS_V: [(u8, u64); N] = [(0, 0); N];
    static mut MS_N: usize = 0;

    /// uninterpreted `checked_mul_shift_right(n0, n1)`; exact for a zero factor (returns 0)
    pub fn stub_checked_mul_shift_right(n0: u128, n1: u128) -> Result<u64, ErrorCode> {
        if n0 == 0 || n1 == 0 {
            return Ok(0);
        }
        unsafe {
            let mut i = 0;
            while i < MS_N {
                if MS_K[i] == (n0, n1) {
                    return if MS_V[i].0 == 0 { Ok(MS_V[i].1) } else { Err(ErrorCode::MultiplicationShiftRightOverflow) };
                }
                i += 1;
            }
            assert!(MS_N < N, "memo table bound (checked_mul_shift_right)");
            let ok: bool = kani::any();
            let v: u64 = kani::any();
            MS_K[MS_N] = (n0, n1);
            MS_V[MS_N] = (if ok { 0 } else { 1 }, v);
            MS_N += 1;
            if ok { Ok(v) } else { Err(ErrorCode::MultiplicationShiftRightOverflow) }
        }
    }

    // strictly monotone abstract tick -> sqrt-price function (contract T1)
    const NP: usize = 8;
    static mut TK: [i32; NP] = [0; NP];
    static mut PR: [u128; NP] = [0; NP];
    static mut CNT: usize = 0;

    pub fn price_of(t: i32) -> u128 {
        unsafe {
            let mut i = 0;
            while i < CNT {
                if TK[i] == t { return PR[i]; }
                i += 1;
            }
            let p: u128 = kani::any();
            kani::assume(p >= MIN_SQRT_PRICE_X64 && p <= MAX_SQRT_PRICE_X64);
            if t <= MIN_TICK_INDEX { kani::assume(p == MIN_SQRT_PRICE_X64); }
            if t >= MAX_TICK_INDEX { kani::assume(p == MAX_SQRT_PRICE_X64); }
            let mut j = 0;
            while j < CNT {
                if TK[j] < t { kani::assume(PR[j] < p); } else { kani::assume(PR[j] > p); }
                j += 1;
            }
            assert!(CNT < NP, "memo table bound (sqrt_price_from_tick_index)");
            TK[CNT] = t;
            PR[CNT] = p;
            CNT += 1;
            p
        }
    }
    pub fn stub_sqrt_price_from_tick_index(t: i32) -> u128 { price_of(t) }
    /// contract T2: p(t) <= price < p(t+1)
    pub fn stub_tick_index_from_sqrt_price(p: &u128) -> i32 {
        let t: i32 = kani::any();
        kani::assume(t >= MIN_TICK_INDEX && t <= MAX_TICK_INDEX);
        kani::assume(price_of(t) <= *p);
        if t < MAX_TICK_INDEX { kani::assume(*p < price_of(t + 1)); }
        t
    }
}

/// `<Pubkey as Display>::fmt` replacement (base-58 rendering of a *symbolic* key never terminates in CBMC; it is reached
/// through `Error::with_account_name(*owner)` in anchor's `CheckOwner::check_owner`, i.e. every `InterfaceAccount`).
/// Messages are never observed. Use as
/// `#[kani::stub(<anchor_lang::prelude::Pubkey as core::fmt::Display>::fmt, stub_pubkey_display)]`.
pub fn stub_pubkey_display(_k: &anchor_lang::prelude::Pubkey, _f: &mut core::fmt::Formatter<'_>) -> core::fmt::Result {
    Ok(())
}

/// `anchor_lang::error::Error::with_account_name(name)` replacement (identity): the origin annotation of an error is never
/// observed (only its code); the real one allocates a `String` per failing constraint (measured: symex 336 s -> 110 s and
/// SAT variables 3.8 M -> 2.4 M on an 11-account `try_accounts`). Use as
/// `#[kani::stub(anchor_lang::error::Error::with_account_name, stub_with_account_name)]`.
pub fn stub_with_account_name<T: alloc::string::ToString>(e: AErr, _name: T) -> AErr {
    e
}

// ---------------------------------------------------------------------------------------------
// Ideal-hash model of `Pubkey::find_program_address` (sha256 + curve check cannot run symbolically).
// A memo table makes the stub a *function* of (seeds, program id): equal inputs give the equal (address, bump),
// a new input gives an arbitrary address / bump (collisions are allowed, i.e. the model over-approximates the
// real hash; the real function additionally only returns off-curve addresses, which no harness relies on).
// Bounds (asserted): at most 6 seeds of at most 32 bytes each, at most 4 distinct derivations per harness.
#[cfg(kani)]
pub mod pda {
    use anchor_lang::prelude::Pubkey;
    pub const MAX_SEEDS: usize = 6;
    const N: usize = 4;
    static mut K_SEEDS: [[[u8; 32]; MAX_SEEDS]; N] = [[[0; 32]; MAX_SEEDS]; N];
    static mut K_LENS: [[usize; MAX_SEEDS]; N] = [[0; MAX_SEEDS]; N];
    static mut K_N: [usize; N] = [0; N];
    static mut K_PID: [[u8; 32]; N] = [[0; 32]; N];
    static mut V: [([u8; 32], u8); N] = [([0; 32], 0); N];
    static mut CNT: usize = 0;

    pub fn derive(seeds: &[&[u8]], program_id: &Pubkey) -> (Pubkey, u8) {
        assert!(seeds.len() <= MAX_SEEDS, "pda model bound: number of seeds");
        let mut s = [[0u8; 32]; MAX_SEEDS];
        let mut l = [0usize; MAX_SEEDS];
        let mut i = 0;
        while i < seeds.len() {
            let x = seeds[i];
            assert!(x.len() <= 32, "pda model bound: seed length");
            let mut j = 0;
            while j < x.len() {
                s[i][j] = x[j];
                j += 1;
            }
            l[i] = x.len();
            i += 1;
        }
        let pid = program_id.to_bytes();
        unsafe {
            let mut e = 0;
            while e < CNT {
                // branch-free comparison (a slice `==` would be one memcmp over 192 bytes)
                let mut same = K_N[e] == seeds.len();
                let mut a = 0;
                while a < MAX_SEEDS {
                    same &= K_LENS[e][a] == l[a];
                    let mut b = 0;
                    while b < 32 {
                        same &= K_SEEDS[e][a][b] == s[a][b];
                        b += 1;
                    }
                    a += 1;
                }
                let mut b = 0;
                while b < 32 {
                    same &= K_PID[e][b] == pid[b];
                    b += 1;
                }
                if same {
                    return (Pubkey::new_from_array(V[e].0), V[e].1);
                }
                e += 1;
            }
            assert!(CNT < N, "memo table bound (find_program_address)");
            let k: [u8; 32] = kani::any();
            let b: u8 = kani::any();
            K_N[CNT] = seeds.len();
            K_LENS[CNT] = l;
            K_SEEDS[CNT] = s;
            K_PID[CNT] = pid;
            V[CNT] = (k, b);
            CNT += 1;
            (Pubkey::new_from_array(k), b)
        }
    }
}
/// replacement of `Pubkey::find_program_address` (see `pda`)
#[cfg(kani)]
pub fn stub_find_program_address(seeds: &[&[u8]], program_id: &anchor_lang::prelude::Pubkey) -> (anchor_lang::prelude::Pubkey, u8) {
    pda::derive(seeds, program_id)
}

/// replacement of `From<std::io::Error> for anchor_lang::error::Error` (the `?` on a Borsh (de)serialisation result, e.g.
/// `DynamicTick::deserialize` in the dynamic tick array): the real one decodes the bit-packed `io::Error`, renders it to a
/// `String` and drops it (measured: ~1 M symex steps per call site even when the error is infeasible). The stub keeps the
/// outcome kind (`ProgramError::BorshIoError`), leaks the `io::Error` and drops the message. Use as
/// `#[kani::stub(<anchor_lang::error::Error as core::convert::From<std::io::Error>>::from, stub_err_from_io)]`.
pub fn stub_err_from_io(e: std::io::Error) -> AErr {
    core::mem::forget(e);
    AErr::ProgramError(Box::new(anchor_lang::error::ProgramErrorWithOrigin {
        program_error: anchor_lang::solana_program::program_error::ProgramError::BorshIoError(alloc::string::String::new()),
        error_origin: None,
        compared_values: None,
    }))
}
