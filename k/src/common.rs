//! Shared stubs and helpers. Every stub listed here is part of the claim (DESIGN §2).
use anchor_lang::error::Error as AErr;
use ::whirlpool::errors::ErrorCode;
use ::whirlpool::pinocchio::errors::UnifiedError;

/// `alloc::fmt::format` replacement: messages are never observed.
pub fn stub_format(_a: core::fmt::Arguments<'_>) -> alloc::string::String {
    alloc::string::String::new()
}

/// code-preserving replacement of `From<ErrorCode> for anchor_lang::error::Error`
pub fn stub_err_from_code(e: ErrorCode) -> AErr {
    AErr::ProgramError(Box::new(anchor_lang::error::ProgramErrorWithOrigin {
        program_error: anchor_lang::solana_program::program_error::ProgramError::Custom(
            e as u32 + anchor_lang::error::ERROR_CODE_OFFSET,
        ),
        error_origin: None,
        compared_values: None,
    }))
}

/// code-preserving replacement of `From<anchor ErrorCode> for anchor Error`
pub fn stub_err_from_anchor_code(e: anchor_lang::error::ErrorCode) -> AErr {
    AErr::ProgramError(Box::new(anchor_lang::error::ProgramErrorWithOrigin {
        program_error: anchor_lang::solana_program::program_error::ProgramError::Custom(e as u32),
        error_origin: None,
        compared_values: None,
    }))
}

pub fn stub_unified_from_code(e: ErrorCode) -> UnifiedError {
    UnifiedError::Pinocchio(pinocchio::program_error::ProgramError::Custom(
        e as u32 + anchor_lang::error::ERROR_CODE_OFFSET,
    ))
}

pub fn stub_unified_from_anchor_code(e: anchor_lang::error::ErrorCode) -> UnifiedError {
    UnifiedError::Pinocchio(pinocchio::program_error::ProgramError::Custom(e as u32))
}

/// numeric code of an anchor error, for both the real and the stubbed construction
pub fn acode(e: &AErr) -> u32 {
    match e {
        AErr::AnchorError(a) => a.error_code_number,
        AErr::ProgramError(p) => match &p.program_error {
            anchor_lang::solana_program::program_error::ProgramError::Custom(c) => *c,
            _ => u32::MAX,
        },
    }
}

pub fn ucode(e: &UnifiedError) -> u32 {
    match e {
        UnifiedError::Anchor(a) => acode(a),
        UnifiedError::Pinocchio(p) => match p {
            pinocchio::program_error::ProgramError::Custom(c) => *c,
            _ => u32::MAX,
        },
    }
}

pub fn ecode(e: ErrorCode) -> u32 {
    e as u32 + anchor_lang::error::ERROR_CODE_OFFSET
}
