//! Native replay driver for Engine M counterexamples: calls the *real* function on concrete
//! inputs and prints its outputs (one line, space separated). Python re-evaluates the property.
use std::panic;
use whirlpool::math::*;

fn u(s: &str) -> u128 { s.parse::<u128>().expect("u128 arg") }
fn b(s: &str) -> bool { s == "1" || s == "true" }

fn delta(r: Result<AmountDeltaU64, whirlpool::errors::ErrorCode>) -> String {
    match r {
        Ok(AmountDeltaU64::Valid(v)) => format!("Ok:Valid {}", v),
        Ok(AmountDeltaU64::ExceedsMax(e)) => format!("Ok:ExceedsMax:{:?}", e),
        Err(e) => format!("Err:{:?}", e),
    }
}
fn res<T: std::fmt::Display>(r: Result<T, whirlpool::errors::ErrorCode>) -> String {
    match r { Ok(v) => format!("Ok {}", v), Err(e) => format!("Err:{:?}", e) }
}

fn main() {
    let a: Vec<String> = std::env::args().skip(1).collect();
    let f = a[0].clone();
    let x: Vec<&str> = a[1..].iter().map(|s| s.as_str()).collect();
    panic::set_hook(Box::new(|_| {}));
    let out = panic::catch_unwind(|| match f.as_str() {
        "compute_swap" => match compute_swap(u(x[0]) as u64, u(x[1]) as u32, u(x[2]), u(x[3]), u(x[4]), b(x[5]), b(x[6])) {
            Ok(s) => format!("Ok {} {} {} {}", s.amount_in, s.amount_out, s.next_price, s.fee_amount),
            Err(e) => format!("Err:{:?}", e),
        },
        "try_get_amount_delta_a" => delta(try_get_amount_delta_a(u(x[0]), u(x[1]), u(x[2]), b(x[3]))),
        "try_get_amount_delta_b" => delta(try_get_amount_delta_b(u(x[0]), u(x[1]), u(x[2]), b(x[3]))),
        "get_amount_delta_a" => res(get_amount_delta_a(u(x[0]), u(x[1]), u(x[2]), b(x[3]))),
        "get_amount_delta_b" => res(get_amount_delta_b(u(x[0]), u(x[1]), u(x[2]), b(x[3]))),
        "get_next_sqrt_price_from_a_round_up" => res(get_next_sqrt_price_from_a_round_up(u(x[0]), u(x[1]), u(x[2]) as u64, b(x[3]))),
        "get_next_sqrt_price_from_b_round_down" => res(get_next_sqrt_price_from_b_round_down(u(x[0]), u(x[1]), u(x[2]) as u64, b(x[3]))),
        "checked_mul_div_round_up_if" => res(checked_mul_div_round_up_if(u(x[0]), u(x[1]), u(x[2]), b(x[3]))),
        "checked_mul_shift_right_round_up_if" => res(checked_mul_shift_right_round_up_if(u(x[0]), u(x[1]), b(x[2]))),
        "div_round_up_if" => res(div_round_up_if(u(x[0]), u(x[1]), b(x[2]))),
        "calculate_fees" => {
            let (pf, g) = whirlpool::manager::swap_manager::verif_calculate_fees(u(x[0]) as u64, u(x[1]) as u16, u(x[2]), u(x[3]) as u64, u(x[4]));
            format!("Ok {} {}", pf, g)
        }
        "calculate_protocol_fee" => format!("Ok {}", whirlpool::manager::swap_manager::verif_calculate_protocol_fee(u(x[0]) as u64, u(x[1]) as u16)),
        "sqrt_price_from_tick_index" => format!("Ok {}", sqrt_price_from_tick_index(x[0].parse::<i32>().unwrap())),
        "tick_index_from_sqrt_price" => format!("Ok {}", tick_index_from_sqrt_price(&u(x[0]))),
        "liquidity_deltas" => {
            // cur_tick sqrt_price lower upper |delta| positive(0/1) pino(0/1)
            let cur = x[0].parse::<i32>().unwrap();
            let lower = x[2].parse::<i32>().unwrap();
            let upper = x[3].parse::<i32>().unwrap();
            let mag = u(x[4]);
            let delta: i128 = if b(x[5]) { mag as i128 } else { (mag as i128).wrapping_neg() };
            if b(x[6]) {
                let mut bytes = [0u8; 216];
                bytes[88..92].copy_from_slice(&lower.to_le_bytes());
                bytes[92..96].copy_from_slice(&upper.to_le_bytes());
                let pos = unsafe { &*(bytes.as_ptr() as *const whirlpool::pinocchio::state::whirlpool::MemoryMappedPosition) };
                match whirlpool::pinocchio::ported::manager_liquidity_manager::pino_calculate_liquidity_token_deltas(cur, u(x[1]), pos, delta) {
                    Ok((a, b_)) => format!("Ok {} {}", a, b_),
                    Err(_) => "Err".to_string(),
                }
            } else {
                let mut pos = whirlpool::state::Position::default();
                pos.tick_lower_index = lower;
                pos.tick_upper_index = upper;
                match whirlpool::manager::liquidity_manager::calculate_liquidity_token_deltas(cur, u(x[1]), &pos, delta) {
                    Ok((a, b_)) => format!("Ok {} {}", a, b_),
                    Err(_) => "Err".to_string(),
                }
            }
        }
        "swap" => native_swap(&x),
        "estimate_max_liquidity" => res(estimate_max_liquidity_from_token_amounts(u(x[0]), x[1].parse::<i32>().unwrap(), x[2].parse::<i32>().unwrap(), u(x[3]) as u64, u(x[4]) as u64)),
        _ => "UnknownFunction".to_string(),
    });
    match out { Ok(s) => println!("{}", s), Err(_) => println!("Panic") }
}


/// swap <sqrt_price> <tick_current> <liquidity> <tick_spacing> <fee_rate> <protocol_fee_rate> <fgg_a> <fgg_b>
///      <amount> <limit> <exact_in> <a_to_b> <timestamp> [tick:net ...]
/// Builds three FixedTickArrays in trade direction (first = array holding the, possibly shifted, current tick), initialises the
/// listed ticks (liquidity_net = net, gross = |net|) and runs the REAL swap_manager::swap with the static fee manager.
fn native_swap(x: &[&str]) -> String {
    use std::cell::RefCell;
    use ::whirlpool::state::*;
    let i = |s: &str| s.parse::<i128>().expect("int arg");
    let mut wp = Whirlpool::default();
    wp.sqrt_price = u(x[0]);
    wp.tick_current_index = i(x[1]) as i32;
    wp.liquidity = u(x[2]);
    wp.tick_spacing = u(x[3]) as u16;
    wp.fee_rate = u(x[4]) as u16;
    wp.protocol_fee_rate = u(x[5]) as u16;
    wp.fee_growth_global_a = u(x[6]);
    wp.fee_growth_global_b = u(x[7]);
    let amount = u(x[8]) as u64;
    let limit = u(x[9]);
    let exact_in = b(x[10]);
    let a_to_b = b(x[11]);
    let ts = u(x[12]) as u64;
    let span = TICK_ARRAY_SIZE * wp.tick_spacing as i32;
    let fl = |t: i32| -> i32 { let q = t.div_euclid(span); q * span };
    let mut first = fl(wp.tick_current_index);
    if !a_to_b {
        // b_to_a search is exclusive: if the current tick is the last slot of its array the sequence starts with the next array
        let shifted = wp.tick_current_index + wp.tick_spacing as i32;
        first = fl(shifted);
    }
    let starts: Vec<i32> = (0..3).map(|k| if a_to_b { first - k * span } else { first + k * span }).collect();
    let cells: Vec<RefCell<FixedTickArray>> = starts.iter().map(|s| { let mut a = FixedTickArray::default(); a.start_tick_index = *s; RefCell::new(a) }).collect();
    for spec in &x[13..] {
        let mut it = spec.split(':');
        let t = it.next().unwrap().parse::<i32>().unwrap();
        let net = it.next().unwrap().parse::<i128>().unwrap();
        for (k, s) in starts.iter().enumerate() {
            if t >= *s && t < *s + span {
                let upd = TickUpdate { initialized: true, liquidity_net: net, liquidity_gross: net.unsigned_abs().max(1),
                    fee_growth_outside_a: 0, fee_growth_outside_b: 0, reward_growths_outside: [0, 0, 0] };
                let _ = cells[k].borrow_mut().update_tick(t, wp.tick_spacing, &upd);
            }
        }
    }
    let valid: Vec<bool> = starts.iter().map(|s| Tick::check_is_valid_start_tick(*s, wp.tick_spacing)).collect();
    if !valid[0] { return "Unrealizable".to_string(); }
    let mk = |k: usize| -> LoadedTickArrayMut { std::cell::RefMut::map(cells[k].borrow_mut(), |t| t as &mut dyn TickArrayType) };
    let ta0 = mk(0);
    let ta1 = if valid[1] { Some(mk(1)) } else { None };
    let ta2 = if valid[1] && valid[2] { Some(mk(2)) } else { None };
    let mut seq = ::whirlpool::util::SwapTickSequence::new(ta0, ta1, ta2);
    let r = ::whirlpool::manager::swap_manager::swap(&wp, &mut seq, amount, limit, exact_in, a_to_b, ts, &None);
    match r {
        Ok(p) => format!("Ok {} {} {} {} {} {} {} {}", p.amount_a, p.amount_b, p.lp_fee, p.next_liquidity, p.next_tick_index, p.next_sqrt_price,
                         p.next_fee_growth_global, p.next_protocol_fee),
        Err(e) => { let s = format!("{:?}", e); let c = s.find("error_name: \"").map(|i| { let r = &s[i + 13..]; r[..r.find('"').unwrap_or(0)].to_string() }).unwrap_or_else(|| "Other".to_string()); format!("Err:{}", c) }
    }
}
