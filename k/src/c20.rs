//! C20 harnesses (Engine K)
