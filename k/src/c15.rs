//! C15 (+ the fund-moving / position part of C04) — Anchor-dispatched fund-moving and position instructions.
//!
//! One harness per accounts struct (names `*_accounts`, or the instruction name when the handler is included): the
//! *generated* `try_accounts` runs on accounts built with
//! `AccountInfo::new`; keys, owners, signer/writable/executable flags, lamports and the data bytes are
//! symbolic (program-owned accounts: every byte; SPL token accounts / mints: every field, see `any_token`).
//! Every `address=` / `has_one` / `constraint` / `owner` / `seeds` clause of the struct is asserted as a
//! consequence of `Ok`. Where the handler performs further checks before its first CPI, the real handler is
//! run on the validated accounts with the CPI helper stubbed (the stub records its arguments and returns
//! `Ok`/sets a flag), so the harness decides "the first token movement is reached => ...".
//!
//! Stubs (all part of the claim): `alloc::fmt::format`, `<Pubkey as Display>::fmt` (error messages are never observed),
//! `Error::with_account_name` (identity: the origin annotation of an error is never observed), code-preserving error conversions,
//! `Pubkey::find_program_address` (ideal-hash model: arbitrary but fixed output per seed list; the harness
//! asserts which seeds were hashed), `Clock::get` (arbitrary clock) / `Rent::get` (fails after setting a flag), CPI helpers
//! (`transfer_from_vault_to_owner_v2`, `burn_and_close_*`, `collect_rent_for_ticks_in_position`: never executed),
//! `calculate_fee_and_reward_growths` (end marker of the update_fees_and_rewards prefix).
//!
//! Measured limits (CBMC 6.11, 22-30 GB): struct + handler fits for <= 6-account v1 structs and for the v2 collect
//! structs; for collect_fees / collect_reward / collect_protocol_fees (v1), collect_reward_v2, transfer_locked_position the
//! struct alone is decided; TwoHopSwap(V2) (20/24 accounts), LockPosition and the `init` part of OpenBundledPosition did
//! not fit at all (see the final report).
use crate::common::*;
use anchor_lang::prelude::*;
use anchor_lang::Discriminator;
use std::collections::BTreeSet;
use ::whirlpool::state::{LockConfig, Position, PositionBundle, Whirlpool, WhirlpoolsConfig};

type AErr = anchor_lang::error::Error;

// ------------------------------------------------------------------------------------------------
// account construction

/// backing store of one account; `ai()` borrows it as an `AccountInfo`
pub struct Acc<const N: usize> {
    pub key: Pubkey,
    pub owner: Pubkey,
    pub lamports: u64,
    pub data: [u8; N],
    pub signer: bool,
    pub writable: bool,
    pub exec: bool,
}
impl<const N: usize> Acc<N> {
    /// everything symbolic except the data, which the caller supplies
    pub fn any_with(data: [u8; N]) -> Self {
        Acc {
            key: Pubkey::new_from_array(kani::any()),
            owner: Pubkey::new_from_array(kani::any()),
            lamports: kani::any(),
            data,
            signer: kani::any(),
            writable: kani::any(),
            exec: kani::any(),
        }
    }
    pub fn ai<'a>(&'a mut self) -> AccountInfo<'a> {
        AccountInfo::new(&self.key, self.signer, self.writable, &mut self.lamports, &mut self.data[..], &self.owner, self.exec, 0)
    }
}
/// data-less account (authority, receiver, program): key, owner, flags symbolic
pub fn any_plain() -> Acc<0> {
    Acc::any_with([0u8; 0])
}
/// account with N fully symbolic data bytes (program-owned state: discriminator included)
pub fn any_data<const N: usize>() -> Acc<N> {
    Acc::any_with(kani::any())
}

/// SPL token account image (165 bytes). Symbolic: mint, owner, amount, delegate (tag + key), state,
/// delegated_amount. Concrete zero: is_native, close_authority (no constraint of the program reads them;
/// zero = `COption::None`, a valid encoding).
#[derive(Clone, Copy)]
pub struct Tok {
    pub d: [u8; 165],
    pub mint: [u8; 32],
    pub owner: [u8; 32],
    pub amount: u64,
    pub delegate_tag: [u8; 4],
    pub delegate: [u8; 32],
    pub state: u8,
    pub delegated_amount: u64,
}
pub fn any_token() -> Tok {
    let mut d = [0u8; 165];
    let mint: [u8; 32] = kani::any();
    let owner: [u8; 32] = kani::any();
    let amount: u64 = kani::any();
    let delegate_tag: [u8; 4] = kani::any();
    let delegate: [u8; 32] = kani::any();
    let state: u8 = kani::any();
    let delegated_amount: u64 = kani::any();
    d[0..32].copy_from_slice(&mint);
    d[32..64].copy_from_slice(&owner);
    d[64..72].copy_from_slice(&amount.to_le_bytes());
    d[72..76].copy_from_slice(&delegate_tag);
    d[76..108].copy_from_slice(&delegate);
    d[108] = state;
    d[121..129].copy_from_slice(&delegated_amount.to_le_bytes());
    Tok { d, mint, owner, amount, delegate_tag, delegate, state, delegated_amount }
}
/// cheaper token account image for slots where the program only reads `mint` (vaults, owner accounts):
/// symbolic mint, owner, amount, state; no delegate.
pub fn any_token_lite() -> Tok {
    let mut d = [0u8; 165];
    let mint: [u8; 32] = kani::any();
    let owner: [u8; 32] = kani::any();
    let amount: u64 = kani::any();
    let state: u8 = kani::any();
    d[0..32].copy_from_slice(&mint);
    d[32..64].copy_from_slice(&owner);
    d[64..72].copy_from_slice(&amount.to_le_bytes());
    d[108] = state;
    Tok { d, mint, owner, amount, delegate_tag: [0; 4], delegate: [0; 32], state, delegated_amount: 0 }
}
/// SPL mint image (82 bytes): mint_authority tag+key, supply, decimals, is_initialized, freeze tag+key symbolic
pub fn any_mint() -> [u8; 82] {
    kani::any()
}

impl Tok {
    /// the authority rule of `verify_position_authority(_interface)` as found in the code:
    /// if the authority key equals `delegate = Some(..)` the delegated amount must be 1, otherwise the key
    /// must be the token-account owner (`amount` is *not* read there; the structs constrain `amount == 1`).
    pub fn authority_rule(&self, key: &Pubkey) -> bool {
        let is_delegate = self.delegate_tag == [1, 0, 0, 0] && self.delegate == key.to_bytes();
        if is_delegate { self.delegated_amount == 1 } else { self.owner == key.to_bytes() }
    }
    /// what C04 states: holder of the token, or its one-token delegate
    pub fn holder_or_one_token_delegate(&self, key: &Pubkey) -> bool {
        let is_delegate = self.delegate_tag == [1, 0, 0, 0] && self.delegate == key.to_bytes();
        self.owner == key.to_bytes() || (is_delegate && self.delegated_amount == 1)
    }
}

pub fn token_id() -> Pubkey { anchor_spl::token::ID }
pub fn token22_id() -> Pubkey { anchor_spl::token_2022::ID }
pub fn memo_id() -> Pubkey { anchor_spl::memo::ID }
pub fn is_token_program(k: &Pubkey) -> bool { *k == token_id() || *k == token22_id() }

// whirlpool account byte offsets (programs/whirlpool/src/pinocchio/state/whirlpool/whirlpool.rs)
pub const WP_CONFIG: usize = 8;
pub const WP_MINT_A: usize = 101;
pub const WP_VAULT_A: usize = 133;
pub const WP_MINT_B: usize = 181;
pub const WP_VAULT_B: usize = 213;
pub const WP_REWARDS: usize = 269; // + i*128: mint, +32: vault
// position: whirlpool 8..40, position_mint 40..72
pub fn f32b(d: &[u8], off: usize) -> [u8; 32] {
    let mut o = [0u8; 32];
    o.copy_from_slice(&d[off..off + 32]);
    o
}

// ------------------------------------------------------------------------------------------------
// stubs local to this family

pub fn stub_err() -> AErr {
    AErr::ProgramError(Box::new(anchor_lang::error::ProgramErrorWithOrigin {
        program_error: anchor_lang::solana_program::program_error::ProgramError::Custom(0xdead),
        error_origin: None,
        compared_values: None,
    }))
}

/// Ideal-hash model of `Pubkey::find_program_address`: an arbitrary (address, bump) per distinct seed list
/// (same seeds => same answer); the seed lists are recorded so that the harness can assert *what* was hashed.
pub mod pda {
    use anchor_lang::prelude::Pubkey;
    pub const MAXC: usize = 3;
    pub const MAXS: usize = 3;
    #[derive(Clone, Copy)]
    pub struct Seeds {
        pub n: usize,
        pub len: [usize; MAXS],
        pub b: [[u8; 32]; MAXS],
        pub program: [u8; 32],
    }
    impl Seeds {
        /// field-wise equality with every byte comparison <= 32 bytes long (harness unwind bound 34)
        pub fn same(&self, o: &Seeds) -> bool {
            self.n == o.n
                && self.len[0] == o.len[0] && self.len[1] == o.len[1] && self.len[2] == o.len[2]
                && self.b[0] == o.b[0] && self.b[1] == o.b[1] && self.b[2] == o.b[2]
                && self.program == o.program
        }
    }
    pub const EMPTY: Seeds = Seeds { n: 0, len: [0; MAXS], b: [[0; 32]; MAXS], program: [0; 32] };
    pub static mut CALLS: usize = 0;
    pub static mut IN: [Seeds; MAXC] = [EMPTY; MAXC];
    pub static mut OUT: [([u8; 32], u8); MAXC] = [([0; 32], 0); MAXC];

    pub fn stub_find_program_address(seeds: &[&[u8]], program_id: &Pubkey) -> (Pubkey, u8) {
        let mut s = EMPTY;
        assert!(seeds.len() <= MAXS, "pda model: seed count bound");
        s.n = seeds.len();
        let mut i = 0;
        while i < seeds.len() {
            assert!(seeds[i].len() <= 32, "pda model: seed length bound");
            s.len[i] = seeds[i].len();
            let mut j = 0;
            while j < seeds[i].len() {
                s.b[i][j] = seeds[i][j];
                j += 1;
            }
            i += 1;
        }
        s.program = program_id.to_bytes();
        unsafe {
            let mut c = 0;
            while c < CALLS {
                if IN[c].same(&s) {
                    return (Pubkey::new_from_array(OUT[c].0), OUT[c].1);
                }
                c += 1;
            }
            assert!(CALLS < MAXC, "pda model: call bound");
            let k: [u8; 32] = kani::any();
            let b: u8 = kani::any();
            IN[CALLS] = s;
            OUT[CALLS] = (k, b);
            CALLS += 1;
            (Pubkey::new_from_array(k), b)
        }
    }
    /// was `hash(seed0 || seed1 [|| seed2], program)` computed and is `key` its result?
    pub fn derived(key: &Pubkey, s0: &[u8], s1: &[u8], s2: Option<&[u8]>, program: &Pubkey) -> bool {
        let mut want = EMPTY;
        want.n = if s2.is_some() { 3 } else { 2 };
        want.len[0] = s0.len();
        want.b[0][..s0.len()].copy_from_slice(s0);
        want.len[1] = s1.len();
        want.b[1][..s1.len()].copy_from_slice(s1);
        if let Some(x) = s2 {
            want.len[2] = x.len();
            want.b[2][..x.len()].copy_from_slice(x);
        }
        want.program = program.to_bytes();
        unsafe {
            let mut c = 0;
            while c < CALLS {
                if IN[c].same(&want) && OUT[c].0 == key.to_bytes() {
                    return true;
                }
                c += 1;
            }
        }
        false
    }
}

// ------------------------------------------------------------------------------------------------
// (i) the authority helpers

/// `validate_owner(expected, info)`: Ok <=> info.key == expected /\ info.is_signer, for all keys and flags
// @verif prop=C04,C15 tier=quick timeout=300
#[kani::proof]
#[kani::unwind(34)]
#[kani::stub(alloc::fmt::format, stub_format)]
#[kani::stub(anchor_lang::error::Error::with_account_name, stub_with_account_name)]
#[kani::stub(<anchor_lang::prelude::Pubkey as core::fmt::Display>::fmt, stub_pubkey_display)]
#[kani::stub(<anchor_lang::error::Error as core::convert::From<::whirlpool::errors::ErrorCode>>::from, stub_err_from_code)]
fn c15_validate_owner() {
    let expected = Pubkey::new_from_array(kani::any());
    let mut a = any_plain();
    let (key, signer) = (a.key, a.signer);
    let info = a.ai();
    let r = ::whirlpool::util::validate_owner(&expected, &info);
    kani::cover!(r.is_ok(), "ok");
    kani::cover!(r.is_err(), "err");
    assert!(r.is_ok() == (key == expected && signer));
    if let Err(e) = &r {
        assert!(acode(e) == ecode(::whirlpool::errors::ErrorCode::MissingOrInvalidDelegate));
    }
    core::mem::forget(r);
}

/// `verify_position_authority` (SPL-token account type) on every deserializable 165-byte token account,
/// authority key and signer flag: `Signer::try_from` Ok /\ verify Ok <=> signed /\ (key is delegate ? delegated_amount == 1 : key == owner);
/// hence Ok => signed /\ (key == owner \/ (delegate == Some(key) /\ delegated_amount == 1)).
// @verif prop=C04 tier=quick timeout=300
#[kani::proof]
#[kani::unwind(34)]
#[kani::stub(alloc::fmt::format, stub_format)]
#[kani::stub(anchor_lang::error::Error::with_account_name, stub_with_account_name)]
#[kani::stub(<anchor_lang::prelude::Pubkey as core::fmt::Display>::fmt, stub_pubkey_display)]
#[kani::stub(<anchor_lang::error::Error as core::convert::From<::whirlpool::errors::ErrorCode>>::from, stub_err_from_code)]
#[kani::stub(<anchor_lang::error::Error as core::convert::From<anchor_lang::error::ErrorCode>>::from, stub_err_from_anchor_code)]
fn c15_verify_position_authority() {
    let t = any_token();
    let mut a = any_plain();
    let (key, signer) = (a.key, a.signer);
    let info = a.ai();
    let ta = <anchor_spl::token::TokenAccount as anchor_lang::AccountDeserialize>::try_deserialize(&mut &t.d[..]);
    let sg = Signer::try_from(&info);
    let ok = match (&ta, &sg) {
        (Ok(ta), Ok(sg)) => {
            let r = ::whirlpool::util::verify_position_authority(ta, sg);
            let ok = r.is_ok();
            // same rule for the bundle flavour
            let r2 = ::whirlpool::util::verify_position_bundle_authority(ta, sg);
            assert!(r2.is_ok() == ok);
            core::mem::forget(r);
            core::mem::forget(r2);
            Some(ok)
        }
        (Ok(_), Err(_)) => Some(false),
        _ => None, // not a token account: nothing to decide
    };
    kani::cover!(ok == Some(true) && t.owner == key.to_bytes(), "ok as owner");
    kani::cover!(ok == Some(true) && t.owner != key.to_bytes(), "ok as delegate");
    kani::cover!(ok == Some(false) && signer, "rejected although signed");
    if let Some(ok) = ok {
        assert!(ok == (signer && t.authority_rule(&key)));
        if ok {
            assert!(signer && t.holder_or_one_token_delegate(&key));
        }
        // the only accepted-by-C04-wording case that the code rejects: owner == delegate == key with delegated_amount != 1
        if !ok && signer && t.holder_or_one_token_delegate(&key) {
            assert!(t.owner == key.to_bytes() && t.delegate == key.to_bytes() && t.delegated_amount != 1);
        }
    }
    core::mem::forget(ta);
    core::mem::forget(sg);
}

/// `verify_position_authority_interface` (Token / Token-2022 account type): same rule, same inputs
// @verif prop=C04 tier=quick timeout=300
#[kani::proof]
#[kani::unwind(34)]
#[kani::stub(alloc::fmt::format, stub_format)]
#[kani::stub(anchor_lang::error::Error::with_account_name, stub_with_account_name)]
#[kani::stub(<anchor_lang::prelude::Pubkey as core::fmt::Display>::fmt, stub_pubkey_display)]
#[kani::stub(<anchor_lang::error::Error as core::convert::From<::whirlpool::errors::ErrorCode>>::from, stub_err_from_code)]
#[kani::stub(<anchor_lang::error::Error as core::convert::From<anchor_lang::error::ErrorCode>>::from, stub_err_from_anchor_code)]
fn c15_verify_position_authority_interface() {
    let t = any_token();
    let mut a = any_plain();
    let (key, signer) = (a.key, a.signer);
    let mut ta_acc = Acc::any_with(t.d);
    let ta_owner = ta_acc.owner;
    let info = a.ai();
    let ta_info = ta_acc.ai();
    let ta = InterfaceAccount::<anchor_spl::token_interface::TokenAccount>::try_from(&ta_info);
    let sg = Signer::try_from(&info);
    let ok = match (&ta, &sg) {
        (Ok(ta), Ok(sg)) => {
            let r = ::whirlpool::util::verify_position_authority_interface(ta, sg);
            let ok = r.is_ok();
            core::mem::forget(r);
            Some(ok)
        }
        (Ok(_), Err(_)) => Some(false),
        _ => None,
    };
    kani::cover!(ok == Some(true) && t.owner == key.to_bytes(), "ok as owner");
    kani::cover!(ok == Some(true) && t.owner != key.to_bytes(), "ok as delegate");
    kani::cover!(ok == Some(false) && signer, "rejected although signed");
    if let Some(ok) = ok {
        assert!(is_token_program(&ta_owner)); // InterfaceAccount: owned by Token or Token-2022
        assert!(ok == (signer && t.authority_rule(&key)));
        if ok {
            assert!(signer && t.holder_or_one_token_delegate(&key));
        }
    }
    core::mem::forget(ta);
    core::mem::forget(sg);
}

// ------------------------------------------------------------------------------------------------
// (iii) accounts structs (+ handler up to the first CPI)

/// collect_fees, accounts struct: `CollectFees::try_accounts` Ok => every clause of the struct (see the assertions). The
/// handler's only check before its first CPI is `verify_position_authority_interface(position_token_account,
/// position_authority)`, decided on all inputs by `c15_verify_position_authority_interface`; running the real handler on top
/// of the 9 symbolic accounts exceeded 30 GB in CBMC (the v2 twin `c15_collect_fees_v2` does include the handler).
/// Symbolic: all keys/owners/flags/lamports, all 653+216 bytes of whirlpool and position, token account fields (see `any_token*`).
// @verif prop=C04,C15 tier=thorough timeout=1800 large
#[kani::proof]
#[kani::unwind(34)]
#[kani::stub(alloc::fmt::format, stub_format)]
#[kani::stub(anchor_lang::error::Error::with_account_name, stub_with_account_name)]
#[kani::stub(<anchor_lang::prelude::Pubkey as core::fmt::Display>::fmt, stub_pubkey_display)]
#[kani::stub(<anchor_lang::error::Error as core::convert::From<::whirlpool::errors::ErrorCode>>::from, stub_err_from_code)]
#[kani::stub(<anchor_lang::error::Error as core::convert::From<anchor_lang::error::ErrorCode>>::from, stub_err_from_anchor_code)]
fn c15_collect_fees_accounts() {
    let program_id = ::whirlpool::ID;
    let mut wp = any_data::<653>();
    let mut auth = any_plain();
    let mut pos = any_data::<216>();
    let pt = any_token();
    let mut pta = Acc::any_with(pt.d);
    let (oa, va, ob, vb) = (any_token_lite(), any_token_lite(), any_token_lite(), any_token_lite());
    let mut oa_a = Acc::any_with(oa.d);
    let mut va_a = Acc::any_with(va.d);
    let mut ob_a = Acc::any_with(ob.d);
    let mut vb_a = Acc::any_with(vb.d);
    let mut tp = any_plain();
    // copies for the assertions
    let (wp_key, wp_owner, wp_d) = (wp.key, wp.owner, wp.data);
    let (auth_key, auth_signer) = (auth.key, auth.signer);
    let (pos_owner, pos_d, pos_w) = (pos.owner, pos.data, pos.writable);
    let pta_owner = pta.owner;
    let (oa_owner, va_key, va_owner) = (oa_a.owner, va_a.key, va_a.owner);
    let (ob_owner, vb_key, vb_owner) = (ob_a.owner, vb_a.key, vb_a.owner);
    let (tp_key, tp_exec) = (tp.key, tp.exec);

    let accounts = [wp.ai(), auth.ai(), pos.ai(), pta.ai(), oa_a.ai(), va_a.ai(), ob_a.ai(), vb_a.ai(), tp.ai()];
    let mut slice: &[AccountInfo] = &accounts;
    let mut bumps = <::whirlpool::instructions::CollectFees as anchor_lang::Bumps>::Bumps::default();
    let mut reallocs = BTreeSet::new();
    let r = <::whirlpool::instructions::CollectFees as anchor_lang::Accounts<_>>::try_accounts(&program_id, &mut slice, &[], &mut bumps, &mut reallocs);
    let struct_ok = r.is_ok();
    kani::cover!(struct_ok, "ok");
    if struct_ok {
        assert!(wp_owner == program_id && pos_owner == program_id);
        assert!(wp_d[..8] == *Whirlpool::DISCRIMINATOR && pos_d[..8] == *Position::DISCRIMINATOR);
        assert!(auth_signer);
        assert!(pos_w);
        assert!(f32b(&pos_d, 8) == wp_key.to_bytes()); // has_one = whirlpool
        assert!(is_token_program(&pta_owner));
        assert!(pt.mint == f32b(&pos_d, 40) && pt.amount == 1);
        assert!(oa_owner == token_id() && va_owner == token_id() && ob_owner == token_id() && vb_owner == token_id());
        assert!(oa.mint == f32b(&wp_d, WP_MINT_A) && ob.mint == f32b(&wp_d, WP_MINT_B));
        assert!(va_key.to_bytes() == f32b(&wp_d, WP_VAULT_A) && vb_key.to_bytes() == f32b(&wp_d, WP_VAULT_B));
        assert!(tp_key == token_id() && tp_exec);
    }
    core::mem::forget(r);
}

macro_rules! run_try_accounts {
    ($T:ty, $pid:expr, $accounts:expr, $ix:expr) => {{
        let mut slice: &[AccountInfo] = &$accounts;
        let mut bumps = <$T as anchor_lang::Bumps>::Bumps::default();
        let mut reallocs = BTreeSet::new();
        let r = <$T as anchor_lang::Accounts<_>>::try_accounts($pid, &mut slice, $ix, &mut bumps, &mut reallocs);
        (r, bumps)
    }};
}
/// run `$handler(ctx, args..)` on validated accounts; evaluates to `handler_ok`
macro_rules! run_handler {
    ($r:expr, $bumps:expr, $pid:expr, |$ctx:ident| $call:expr) => {{
        let mut handler_ok = false;
        match $r {
            Ok(mut accs) => {
                let $ctx = Context::new($pid, &mut accs, &[], $bumps);
                let h = $call;
                handler_ok = h.is_ok();
                core::mem::forget(h);
                core::mem::forget(accs);
            }
            Err(e) => core::mem::forget(e),
        }
        handler_ok
    }};
}

/// collect_protocol_fees, accounts struct (the handler performs no check of its own: it transfers and resets the owed
/// amounts; struct + handler ran out of memory at 22 GB, the v2 twin `c15_collect_protocol_fees_v2` includes the handler).
/// Ok => whirlpool.whirlpools_config == config key,
/// authority signed and == config.collect_protocol_fees_authority, vaults == pool vaults, destination mints == pool mints,
/// token program id, all accounts owned by the right program.
// @verif prop=C04,C15 tier=thorough timeout=1800 large
#[kani::proof]
#[kani::unwind(34)]
#[kani::stub(alloc::fmt::format, stub_format)]
#[kani::stub(anchor_lang::error::Error::with_account_name, stub_with_account_name)]
#[kani::stub(<anchor_lang::prelude::Pubkey as core::fmt::Display>::fmt, stub_pubkey_display)]
#[kani::stub(<anchor_lang::error::Error as core::convert::From<::whirlpool::errors::ErrorCode>>::from, stub_err_from_code)]
#[kani::stub(<anchor_lang::error::Error as core::convert::From<anchor_lang::error::ErrorCode>>::from, stub_err_from_anchor_code)]
fn c15_collect_protocol_fees_accounts() {
    let program_id = ::whirlpool::ID;
    let mut cfg = any_data::<108>();
    let mut wp = any_data::<653>();
    let mut auth = any_plain();
    let (va, vb, da, db) = (any_token_lite(), any_token_lite(), any_token_lite(), any_token_lite());
    let mut va_a = Acc::any_with(va.d);
    let mut vb_a = Acc::any_with(vb.d);
    let mut da_a = Acc::any_with(da.d);
    let mut db_a = Acc::any_with(db.d);
    let mut tp = any_plain();
    let (cfg_key, cfg_owner, cfg_d) = (cfg.key, cfg.owner, cfg.data);
    let (wp_owner, wp_d, wp_w) = (wp.owner, wp.data, wp.writable);
    let (auth_key, auth_signer) = (auth.key, auth.signer);
    let (va_key, va_owner, vb_key, vb_owner) = (va_a.key, va_a.owner, vb_a.key, vb_a.owner);
    let (da_key, da_owner, db_key, db_owner) = (da_a.key, da_a.owner, db_a.key, db_a.owner);
    let (tp_key, tp_exec) = (tp.key, tp.exec);
    let accounts = [cfg.ai(), wp.ai(), auth.ai(), va_a.ai(), vb_a.ai(), da_a.ai(), db_a.ai(), tp.ai()];
    let (r, _bumps) = run_try_accounts!(::whirlpool::instructions::CollectProtocolFees, &program_id, accounts, &[]);
    let struct_ok = r.is_ok();
    kani::cover!(struct_ok, "ok");
    if struct_ok {
        assert!(cfg_owner == program_id && wp_owner == program_id && wp_w);
        assert!(cfg_d[..8] == *WhirlpoolsConfig::DISCRIMINATOR && wp_d[..8] == *Whirlpool::DISCRIMINATOR);
        assert!(f32b(&wp_d, WP_CONFIG) == cfg_key.to_bytes()); // has_one = whirlpools_config
        assert!(auth_signer && auth_key.to_bytes() == f32b(&cfg_d, 40)); // collect_protocol_fees_authority
        assert!(va_owner == token_id() && vb_owner == token_id() && da_owner == token_id() && db_owner == token_id());
        assert!(va_key.to_bytes() == f32b(&wp_d, WP_VAULT_A) && vb_key.to_bytes() == f32b(&wp_d, WP_VAULT_B));
        assert!(da.mint == f32b(&wp_d, WP_MINT_A) && db.mint == f32b(&wp_d, WP_MINT_B));
        assert!(tp_key == token_id() && tp_exec);
    }
    core::mem::forget(r);
}

/// collect_reward, accounts struct (handler not included, see `c15_collect_fees_accounts`), `reward_index` symbolic in 0..3 (an index >= 3 panics on the
/// array bound in the generated constraint code = transaction aborted; not modelled). Ok => position.whirlpool == pool,
/// position token (mint, amount 1), authority signed, reward_owner_account.mint == reward_infos[i].mint,
/// reward_vault.key == reward_infos[i].vault, token program id, ownership by the right programs.
// @verif prop=C04,C15 tier=thorough timeout=1800 large
#[kani::proof]
#[kani::unwind(34)]
#[kani::stub(alloc::fmt::format, stub_format)]
#[kani::stub(anchor_lang::error::Error::with_account_name, stub_with_account_name)]
#[kani::stub(<anchor_lang::prelude::Pubkey as core::fmt::Display>::fmt, stub_pubkey_display)]
#[kani::stub(<anchor_lang::error::Error as core::convert::From<::whirlpool::errors::ErrorCode>>::from, stub_err_from_code)]
#[kani::stub(<anchor_lang::error::Error as core::convert::From<anchor_lang::error::ErrorCode>>::from, stub_err_from_anchor_code)]
fn c15_collect_reward_accounts() {
    let program_id = ::whirlpool::ID;
    let reward_index: u8 = kani::any();
    kani::assume(reward_index < 3);
    let mut wp = any_data::<653>();
    let mut auth = any_plain();
    let mut pos = any_data::<216>();
    let pt = any_token();
    let mut pta = Acc::any_with(pt.d);
    let (ro, rv) = (any_token_lite(), any_token_lite());
    let mut ro_a = Acc::any_with(ro.d);
    let mut rv_a = Acc::any_with(rv.d);
    let mut tp = any_plain();
    let (wp_key, wp_owner, wp_d) = (wp.key, wp.owner, wp.data);
    let (auth_key, auth_signer) = (auth.key, auth.signer);
    let (pos_owner, pos_d, pos_w) = (pos.owner, pos.data, pos.writable);
    let pta_owner = pta.owner;
    let (ro_key, ro_owner, rv_key, rv_owner) = (ro_a.key, ro_a.owner, rv_a.key, rv_a.owner);
    let (tp_key, tp_exec) = (tp.key, tp.exec);
    let accounts = [wp.ai(), auth.ai(), pos.ai(), pta.ai(), ro_a.ai(), rv_a.ai(), tp.ai()];
    let ix = [reward_index];
    let (r, _bumps) = run_try_accounts!(::whirlpool::instructions::CollectReward, &program_id, accounts, &ix);
    let struct_ok = r.is_ok();
    kani::cover!(struct_ok, "ok");
    let ri = WP_REWARDS + 128 * reward_index as usize;
    if struct_ok {
        assert!(wp_owner == program_id && pos_owner == program_id && pos_w);
        assert!(wp_d[..8] == *Whirlpool::DISCRIMINATOR && pos_d[..8] == *Position::DISCRIMINATOR);
        assert!(auth_signer);
        assert!(f32b(&pos_d, 8) == wp_key.to_bytes());
        assert!(is_token_program(&pta_owner));
        assert!(pt.mint == f32b(&pos_d, 40) && pt.amount == 1);
        assert!(ro_owner == token_id() && rv_owner == token_id());
        assert!(ro.mint == f32b(&wp_d, ri));
        assert!(rv_key.to_bytes() == f32b(&wp_d, ri + 32));
        assert!(tp_key == token_id() && tp_exec);
    }
    core::mem::forget(r);
}

/// update_fees_and_rewards (unprivileged): struct only. Ok => whirlpool and position are program-owned accounts of the right
/// type, both writable, position.whirlpool == pool key. The two tick arrays are `UncheckedAccount`s: nothing is enforced on
/// them by the struct (they are validated by `load_tick_array` in the handler, see `c15_update_fees_and_rewards_handler`).
// @verif prop=C15 tier=quick timeout=600
#[kani::proof]
#[kani::unwind(34)]
#[kani::stub(alloc::fmt::format, stub_format)]
#[kani::stub(anchor_lang::error::Error::with_account_name, stub_with_account_name)]
#[kani::stub(<anchor_lang::prelude::Pubkey as core::fmt::Display>::fmt, stub_pubkey_display)]
#[kani::stub(<anchor_lang::error::Error as core::convert::From<::whirlpool::errors::ErrorCode>>::from, stub_err_from_code)]
#[kani::stub(<anchor_lang::error::Error as core::convert::From<anchor_lang::error::ErrorCode>>::from, stub_err_from_anchor_code)]
fn c15_update_fees_and_rewards_accounts() {
    let program_id = ::whirlpool::ID;
    let mut wp = any_data::<653>();
    let mut pos = any_data::<216>();
    let mut tl = any_plain();
    let mut tu = any_plain();
    let (wp_key, wp_owner, wp_d, wp_w) = (wp.key, wp.owner, wp.data, wp.writable);
    let (pos_owner, pos_d, pos_w) = (pos.owner, pos.data, pos.writable);
    let accounts = [wp.ai(), pos.ai(), tl.ai(), tu.ai()];
    let (r, _bumps) = run_try_accounts!(::whirlpool::instructions::UpdateFeesAndRewards, &program_id, accounts, &[]);
    kani::cover!(r.is_ok(), "ok");
    if r.is_ok() {
        assert!(wp_owner == program_id && pos_owner == program_id && wp_w && pos_w);
        assert!(wp_d[..8] == *Whirlpool::DISCRIMINATOR && pos_d[..8] == *Position::DISCRIMINATOR);
        assert!(f32b(&pos_d, 8) == wp_key.to_bytes());
    }
    core::mem::forget(r);
}

static mut REACHED: bool = false;
fn stub_burn_and_close_user_position_token<'info>(
    _a: &Signer<'info>,
    _r: &UncheckedAccount<'info>,
    _m: &Account<'info, anchor_spl::token::Mint>,
    _t: &Account<'info, anchor_spl::token::TokenAccount>,
    _p: &Program<'info, anchor_spl::token::Token>,
) -> Result<()> {
    unsafe { REACHED = true; }
    Ok(())
}
fn stub_burn_and_close_user_position_token_2022<'info>(
    _a: &Signer<'info>,
    _r: &UncheckedAccount<'info>,
    _m: &InterfaceAccount<'info, anchor_spl::token_interface::Mint>,
    _t: &InterfaceAccount<'info, anchor_spl::token_interface::TokenAccount>,
    _p: &Program<'info, anchor_spl::token_2022::Token2022>,
    _pos: &Account<'info, Position>,
    _seeds: &[&[u8]],
) -> Result<()> {
    unsafe { REACHED = true; }
    Ok(())
}
fn stub_token_2022_position_cpi<'info>(
    _m: &InterfaceAccount<'info, anchor_spl::token_interface::Mint>,
    _t: &InterfaceAccount<'info, anchor_spl::token_interface::TokenAccount>,
    _p: &Program<'info, anchor_spl::token_2022::Token2022>,
    _pos: &Account<'info, Position>,
    _seeds: &[&[u8]],
) -> Result<()> {
    unsafe { REACHED = true; }
    Err(stub_err())
}

/// close_position: struct + real handler (burn/close CPI stubbed). burn reached => authority signed and satisfies the rule,
/// position is the PDA of ["position", position_mint.key] under the program id (ideal-hash model), position_mint.key ==
/// position.position_mint, token account mint == position.position_mint and amount == 1, token accounts owned by the Token
/// program, token program id, position != receiver (close constraint), position is empty.
// @verif prop=C04,C15 tier=thorough timeout=1800 large
#[kani::proof]
#[kani::unwind(34)]
#[kani::stub(alloc::fmt::format, stub_format)]
#[kani::stub(anchor_lang::error::Error::with_account_name, stub_with_account_name)]
#[kani::stub(<anchor_lang::prelude::Pubkey as core::fmt::Display>::fmt, stub_pubkey_display)]
#[kani::stub(<anchor_lang::error::Error as core::convert::From<::whirlpool::errors::ErrorCode>>::from, stub_err_from_code)]
#[kani::stub(<anchor_lang::error::Error as core::convert::From<anchor_lang::error::ErrorCode>>::from, stub_err_from_anchor_code)]
#[kani::stub(anchor_lang::prelude::Pubkey::find_program_address, pda::stub_find_program_address)]
#[kani::stub(::whirlpool::util::burn_and_close_user_position_token, stub_burn_and_close_user_position_token)]
fn c15_close_position() {
    let program_id = ::whirlpool::ID;
    let mut auth = any_plain();
    let mut recv = any_plain();
    let mut pos = any_data::<216>();
    let mut mint = Acc::any_with(any_mint());
    let pt = any_token();
    let mut pta = Acc::any_with(pt.d);
    let mut tp = any_plain();
    let (auth_key, auth_signer) = (auth.key, auth.signer);
    let (recv_key, recv_w) = (recv.key, recv.writable);
    let (pos_key, pos_owner, pos_d, pos_w) = (pos.key, pos.owner, pos.data, pos.writable);
    let (mint_key, mint_owner) = (mint.key, mint.owner);
    let pta_owner = pta.owner;
    let (tp_key, tp_exec) = (tp.key, tp.exec);
    let accounts = [auth.ai(), recv.ai(), pos.ai(), mint.ai(), pta.ai(), tp.ai()];
    let (r, bumps) = run_try_accounts!(::whirlpool::instructions::ClosePosition, &program_id, accounts, &[]);
    let struct_ok = r.is_ok();
    let handler_ok = run_handler!(r, bumps, &program_id, |ctx| ::whirlpool::instructions::close_position::handler(ctx));
    let reached = unsafe { REACHED };
    kani::cover!(reached, "burn reached");
    kani::cover!(struct_ok && !reached, "struct ok, handler rejects");
    assert!(reached == handler_ok);
    if struct_ok {
        assert!(auth_signer && recv_w && pos_w);
        assert!(pos_owner == program_id && pos_d[..8] == *Position::DISCRIMINATOR);
        assert!(pda::derived(&pos_key, b"position", &mint_key.to_bytes(), None, &program_id));
        assert!(pos_key != recv_key);
        assert!(mint_owner == token_id() && mint_key.to_bytes() == f32b(&pos_d, 40));
        assert!(pta_owner == token_id() && pt.mint == f32b(&pos_d, 40) && pt.amount == 1);
        assert!(tp_key == token_id() && tp_exec);
    }
    if reached {
        assert!(struct_ok);
        assert!(pt.authority_rule(&auth_key) && pt.holder_or_one_token_delegate(&auth_key));
        // liquidity, fee_owed_a/b, reward amount_owed all zero
        assert!(pos_d[72..88] == [0u8; 16] && pos_d[112..120] == [0u8; 8] && pos_d[136..144] == [0u8; 8]);
        assert!(pos_d[160..168] == [0u8; 8] && pos_d[184..192] == [0u8; 8] && pos_d[208..216] == [0u8; 8]);
    }
}

/// close_position_with_token_extensions: as `c15_close_position` with Token-2022: position_mint owned by the account given
/// as token_2022_program, which must be the Token-2022 id; token account not frozen (locked positions cannot be closed).
// @verif prop=C04,C15 tier=thorough timeout=1800 large
#[kani::proof]
#[kani::unwind(34)]
#[kani::stub(alloc::fmt::format, stub_format)]
#[kani::stub(anchor_lang::error::Error::with_account_name, stub_with_account_name)]
#[kani::stub(<anchor_lang::prelude::Pubkey as core::fmt::Display>::fmt, stub_pubkey_display)]
#[kani::stub(<anchor_lang::error::Error as core::convert::From<::whirlpool::errors::ErrorCode>>::from, stub_err_from_code)]
#[kani::stub(<anchor_lang::error::Error as core::convert::From<anchor_lang::error::ErrorCode>>::from, stub_err_from_anchor_code)]
#[kani::stub(anchor_lang::prelude::Pubkey::find_program_address, pda::stub_find_program_address)]
#[kani::stub(::whirlpool::util::burn_and_close_user_position_token_2022, stub_burn_and_close_user_position_token_2022)]
fn c15_close_position_with_token_extensions() {
    let program_id = ::whirlpool::ID;
    let mut auth = any_plain();
    let mut recv = any_plain();
    let mut pos = any_data::<216>();
    let mut mint = Acc::any_with(any_mint());
    let pt = any_token();
    let mut pta = Acc::any_with(pt.d);
    let mut tp = any_plain();
    let (auth_key, auth_signer) = (auth.key, auth.signer);
    let (recv_key, recv_w) = (recv.key, recv.writable);
    let (pos_key, pos_owner, pos_d, pos_w) = (pos.key, pos.owner, pos.data, pos.writable);
    let (mint_key, mint_owner) = (mint.key, mint.owner);
    let pta_owner = pta.owner;
    let (tp_key, tp_exec) = (tp.key, tp.exec);
    let accounts = [auth.ai(), recv.ai(), pos.ai(), mint.ai(), pta.ai(), tp.ai()];
    let (r, bumps) = run_try_accounts!(::whirlpool::instructions::ClosePositionWithTokenExtensions, &program_id, accounts, &[]);
    let struct_ok = r.is_ok();
    let handler_ok = run_handler!(r, bumps, &program_id, |ctx| ::whirlpool::instructions::close_position_with_token_extensions::handler(ctx));
    let reached = unsafe { REACHED };
    kani::cover!(reached, "burn reached");
    kani::cover!(struct_ok && !reached, "struct ok, handler rejects");
    assert!(reached == handler_ok);
    if struct_ok {
        assert!(auth_signer && recv_w && pos_w);
        assert!(pos_owner == program_id && pos_d[..8] == *Position::DISCRIMINATOR);
        assert!(pda::derived(&pos_key, b"position", &mint_key.to_bytes(), None, &program_id));
        assert!(pos_key != recv_key);
        assert!(tp_key == token22_id() && tp_exec);
        assert!(mint_owner == token22_id() && mint_key.to_bytes() == f32b(&pos_d, 40));
        assert!(is_token_program(&pta_owner) && pt.mint == f32b(&pos_d, 40) && pt.amount == 1);
    }
    if reached {
        assert!(struct_ok);
        assert!(pt.authority_rule(&auth_key) && pt.holder_or_one_token_delegate(&auth_key));
        assert!(pt.state == 1); // initialized, not frozen
        assert!(pos_d[72..88] == [0u8; 16] && pos_d[112..120] == [0u8; 8] && pos_d[136..144] == [0u8; 8]);
        assert!(pos_d[160..168] == [0u8; 8] && pos_d[184..192] == [0u8; 8] && pos_d[208..216] == [0u8; 8]);
    }
}

/// decimal rendering of a u16 (the third PDA seed of a bundled position is `bundle_index.to_string()`)
fn dec_u16(v: u16) -> ([u8; 5], usize) {
    let mut tmp = [0u8; 5];
    let mut n = 0;
    let mut x = v;
    loop {
        tmp[n] = b'0' + (x % 10) as u8;
        n += 1;
        x /= 10;
        if x == 0 { break; }
    }
    let mut out = [0u8; 5];
    let mut i = 0;
    while i < n {
        out[i] = tmp[n - 1 - i];
        i += 1;
    }
    (out, n)
}

/// close_bundled_position: struct + the whole real handler (no CPI). `bundle_index` symbolic (u16).
/// handler Ok => authority signed and satisfies the rule on the bundle token account; token account mint ==
/// position_bundle.position_bundle_mint == bundled_position.position_mint, amount == 1; bundled_position is the PDA of
/// ["bundled_position", position_bundle.position_bundle_mint, decimal(bundle_index)]; bundle_index < 256; position empty.
// @verif prop=C04,C15 tier=thorough timeout=1800
#[kani::proof]
#[kani::unwind(34)]
#[kani::stub(alloc::fmt::format, stub_format)]
#[kani::stub(anchor_lang::error::Error::with_account_name, stub_with_account_name)]
#[kani::stub(<anchor_lang::prelude::Pubkey as core::fmt::Display>::fmt, stub_pubkey_display)]
#[kani::stub(<anchor_lang::error::Error as core::convert::From<::whirlpool::errors::ErrorCode>>::from, stub_err_from_code)]
#[kani::stub(<anchor_lang::error::Error as core::convert::From<anchor_lang::error::ErrorCode>>::from, stub_err_from_anchor_code)]
#[kani::stub(anchor_lang::prelude::Pubkey::find_program_address, pda::stub_find_program_address)]
fn c15_close_bundled_position() {
    let program_id = ::whirlpool::ID;
    let bundle_index: u16 = kani::any();
    let mut pos = any_data::<216>();
    let mut bundle = any_data::<136>();
    let bt = any_token();
    let mut bta = Acc::any_with(bt.d);
    let mut auth = any_plain();
    let mut recv = any_plain();
    let (pos_key, pos_owner, pos_d, pos_w) = (pos.key, pos.owner, pos.data, pos.writable);
    let (bundle_owner, bundle_d, bundle_w) = (bundle.owner, bundle.data, bundle.writable);
    let bta_owner = bta.owner;
    let (auth_key, auth_signer) = (auth.key, auth.signer);
    let (recv_key, recv_w) = (recv.key, recv.writable);
    let accounts = [pos.ai(), bundle.ai(), bta.ai(), auth.ai(), recv.ai()];
    let ix = bundle_index.to_le_bytes();
    let (r, bumps) = run_try_accounts!(::whirlpool::instructions::CloseBundledPosition, &program_id, accounts, &ix);
    let struct_ok = r.is_ok();
    let handler_ok = run_handler!(r, bumps, &program_id, |ctx| ::whirlpool::instructions::close_bundled_position::handler(ctx, bundle_index));
    kani::cover!(handler_ok, "handler ok");
    kani::cover!(struct_ok && !handler_ok, "struct ok, handler rejects");
    if struct_ok {
        assert!(auth_signer && recv_w && pos_w && bundle_w);
        assert!(pos_owner == program_id && pos_d[..8] == *Position::DISCRIMINATOR);
        assert!(bundle_owner == program_id && bundle_d[..8] == *PositionBundle::DISCRIMINATOR);
        let (dec, n) = dec_u16(bundle_index);
        assert!(pda::derived(&pos_key, b"bundled_position", &bundle_d[8..40], Some(&dec[..n]), &program_id));
        assert!(pos_key != recv_key);
        assert!(bta_owner == token_id());
        assert!(bt.mint == f32b(&pos_d, 40) && bt.mint == f32b(&bundle_d, 8) && bt.amount == 1);
    }
    if handler_ok {
        assert!(struct_ok);
        assert!(bt.authority_rule(&auth_key) && bt.holder_or_one_token_delegate(&auth_key));
        assert!(bundle_index < 256);
        assert!(pos_d[72..88] == [0u8; 16] && pos_d[112..120] == [0u8; 8] && pos_d[136..144] == [0u8; 8]);
        assert!(pos_d[160..168] == [0u8; 8] && pos_d[184..192] == [0u8; 8] && pos_d[208..216] == [0u8; 8]);
    }
}

/// delete_position_bundle: struct + real handler (burn CPI stubbed). burn reached => owner signed, bundle token account
/// owner == signer key (no delegation here), mint == position_bundle.position_bundle_mint, amount == 1, mint account key ==
/// position_bundle.position_bundle_mint, token program id, bundle != receiver, bitmap all zero.
// @verif prop=C04,C15 tier=thorough timeout=1800 large
#[kani::proof]
#[kani::unwind(34)]
#[kani::stub(alloc::fmt::format, stub_format)]
#[kani::stub(anchor_lang::error::Error::with_account_name, stub_with_account_name)]
#[kani::stub(<anchor_lang::prelude::Pubkey as core::fmt::Display>::fmt, stub_pubkey_display)]
#[kani::stub(<anchor_lang::error::Error as core::convert::From<::whirlpool::errors::ErrorCode>>::from, stub_err_from_code)]
#[kani::stub(<anchor_lang::error::Error as core::convert::From<anchor_lang::error::ErrorCode>>::from, stub_err_from_anchor_code)]
#[kani::stub(::whirlpool::util::burn_and_close_position_bundle_token, stub_burn_and_close_user_position_token)]
fn c15_delete_position_bundle() {
    let program_id = ::whirlpool::ID;
    let mut bundle = any_data::<136>();
    let mut mint = Acc::any_with(any_mint());
    let bt = any_token();
    let mut bta = Acc::any_with(bt.d);
    let mut auth = any_plain();
    let mut recv = any_plain();
    let mut tp = any_plain();
    let (bundle_key, bundle_owner, bundle_d, bundle_w) = (bundle.key, bundle.owner, bundle.data, bundle.writable);
    let (mint_key, mint_owner) = (mint.key, mint.owner);
    let bta_owner = bta.owner;
    let (auth_key, auth_signer) = (auth.key, auth.signer);
    let (recv_key, recv_w) = (recv.key, recv.writable);
    let (tp_key, tp_exec) = (tp.key, tp.exec);
    let accounts = [bundle.ai(), mint.ai(), bta.ai(), auth.ai(), recv.ai(), tp.ai()];
    let (r, bumps) = run_try_accounts!(::whirlpool::instructions::DeletePositionBundle, &program_id, accounts, &[]);
    let struct_ok = r.is_ok();
    let handler_ok = run_handler!(r, bumps, &program_id, |ctx| ::whirlpool::instructions::delete_position_bundle::handler(ctx));
    let reached = unsafe { REACHED };
    kani::cover!(reached, "burn reached");
    kani::cover!(struct_ok && !reached, "struct ok, bundle not empty");
    assert!(reached == handler_ok);
    if struct_ok {
        assert!(auth_signer && recv_w && bundle_w);
        assert!(bundle_owner == program_id && bundle_d[..8] == *PositionBundle::DISCRIMINATOR);
        assert!(bundle_key != recv_key);
        assert!(mint_owner == token_id() && mint_key.to_bytes() == f32b(&bundle_d, 8));
        assert!(bta_owner == token_id() && bt.mint == f32b(&bundle_d, 8) && bt.amount == 1);
        assert!(bt.owner == auth_key.to_bytes());
        assert!(tp_key == token_id() && tp_exec);
    }
    if reached {
        assert!(struct_ok);
        assert!(bundle_d[40..72] == [0u8; 32]);
    }
}

static mut RENT_REACHED: bool = false;
fn stub_rent_get_err() -> core::result::Result<Rent, anchor_lang::solana_program::program_error::ProgramError> {
    unsafe { RENT_REACHED = true; }
    Err(anchor_lang::solana_program::program_error::ProgramError::UnsupportedSysvar)
}

/// reset_position_range: struct + real handler up to its first sysvar call (`Rent::get`, stubbed to fail after setting a flag).
/// Rent::get reached => funder and authority signed, authority satisfies the rule, position.whirlpool == pool key, position
/// token (mint, amount 1, owned by a token program), system program id.
// @verif prop=C04,C15 tier=thorough timeout=1800
#[kani::proof]
#[kani::unwind(34)]
#[kani::stub(alloc::fmt::format, stub_format)]
#[kani::stub(anchor_lang::error::Error::with_account_name, stub_with_account_name)]
#[kani::stub(<anchor_lang::prelude::Pubkey as core::fmt::Display>::fmt, stub_pubkey_display)]
#[kani::stub(<anchor_lang::error::Error as core::convert::From<::whirlpool::errors::ErrorCode>>::from, stub_err_from_code)]
#[kani::stub(<anchor_lang::error::Error as core::convert::From<anchor_lang::error::ErrorCode>>::from, stub_err_from_anchor_code)]
#[kani::stub(<anchor_lang::prelude::Rent as anchor_lang::solana_program::sysvar::Sysvar>::get, stub_rent_get_err)]
fn c15_reset_position_range() {
    let program_id = ::whirlpool::ID;
    let lo: i32 = kani::any();
    let hi: i32 = kani::any();
    let mut funder = any_plain();
    let mut auth = any_plain();
    let mut wp = any_data::<653>();
    let mut pos = any_data::<216>();
    let pt = any_token();
    let mut pta = Acc::any_with(pt.d);
    let mut sys = any_plain();
    let (funder_signer, funder_w) = (funder.signer, funder.writable);
    let (auth_key, auth_signer) = (auth.key, auth.signer);
    let (wp_key, wp_owner, wp_d) = (wp.key, wp.owner, wp.data);
    let (pos_owner, pos_d, pos_w) = (pos.owner, pos.data, pos.writable);
    let pta_owner = pta.owner;
    let (sys_key, sys_exec) = (sys.key, sys.exec);
    let accounts = [funder.ai(), auth.ai(), wp.ai(), pos.ai(), pta.ai(), sys.ai()];
    let (r, bumps) = run_try_accounts!(::whirlpool::instructions::ResetPositionRange, &program_id, accounts, &[]);
    let struct_ok = r.is_ok();
    let handler_ok = run_handler!(r, bumps, &program_id, |ctx| ::whirlpool::instructions::reset_position_range::handler(ctx, lo, hi));
    let reached = unsafe { RENT_REACHED };
    kani::cover!(reached, "Rent::get reached");
    kani::cover!(struct_ok && !reached, "struct ok, authority rejected");
    assert!(!handler_ok);
    if struct_ok {
        assert!(funder_signer && funder_w && auth_signer && pos_w);
        assert!(wp_owner == program_id && wp_d[..8] == *Whirlpool::DISCRIMINATOR);
        assert!(pos_owner == program_id && pos_d[..8] == *Position::DISCRIMINATOR);
        assert!(f32b(&pos_d, 8) == wp_key.to_bytes());
        assert!(is_token_program(&pta_owner) && pt.mint == f32b(&pos_d, 40) && pt.amount == 1);
        assert!(sys_key == anchor_lang::system_program::ID && sys_exec);
    }
    if reached {
        assert!(struct_ok);
        assert!(pt.authority_rule(&auth_key) && pt.holder_or_one_token_delegate(&auth_key));
    }
}

/// transfer_locked_position, accounts struct (struct + handler exceeded 22 GB / 25 min; the handler's only check before its
/// first CPI is `validate_owner(position_token_account.owner, position_authority)`, decided by `c15_validate_owner`:
/// owner only, delegates are not accepted). Ok => authority signed, position is the PDA of
/// ["position", position_mint.key], position_mint.key == position.position_mint, source and destination token accounts have
/// mint == position.position_mint, source amount == 1, destination != source, lock_config.position == position key,
/// Token-2022 program id.
// @verif prop=C04,C15 tier=thorough timeout=1800 large
#[kani::proof]
#[kani::unwind(34)]
#[kani::stub(alloc::fmt::format, stub_format)]
#[kani::stub(anchor_lang::error::Error::with_account_name, stub_with_account_name)]
#[kani::stub(<anchor_lang::prelude::Pubkey as core::fmt::Display>::fmt, stub_pubkey_display)]
#[kani::stub(<anchor_lang::error::Error as core::convert::From<::whirlpool::errors::ErrorCode>>::from, stub_err_from_code)]
#[kani::stub(<anchor_lang::error::Error as core::convert::From<anchor_lang::error::ErrorCode>>::from, stub_err_from_anchor_code)]
#[kani::stub(anchor_lang::prelude::Pubkey::find_program_address, pda::stub_find_program_address)]
fn c15_transfer_locked_position_accounts() {
    let program_id = ::whirlpool::ID;
    let mut auth = any_plain();
    let mut recv = any_plain();
    let mut pos = any_data::<216>();
    let mut mint = Acc::any_with(any_mint());
    let pt = any_token();
    let mut pta = Acc::any_with(pt.d);
    let dt = any_token_lite();
    let mut dta = Acc::any_with(dt.d);
    let mut lock = any_data::<241>();
    let mut tp = any_plain();
    let (auth_key, auth_signer) = (auth.key, auth.signer);
    let recv_w = recv.writable;
    let (pos_key, pos_owner, pos_d) = (pos.key, pos.owner, pos.data);
    let (mint_key, mint_owner) = (mint.key, mint.owner);
    let (pta_key, pta_owner, pta_w) = (pta.key, pta.owner, pta.writable);
    let (dta_key, dta_owner, dta_w) = (dta.key, dta.owner, dta.writable);
    let (lock_owner, lock_d, lock_w) = (lock.owner, lock.data, lock.writable);
    let (tp_key, tp_exec) = (tp.key, tp.exec);
    let accounts = [auth.ai(), recv.ai(), pos.ai(), mint.ai(), pta.ai(), dta.ai(), lock.ai(), tp.ai()];
    let (r, _bumps) = run_try_accounts!(::whirlpool::instructions::TransferLockedPosition, &program_id, accounts, &[]);
    let struct_ok = r.is_ok();
    kani::cover!(struct_ok, "ok");
    if struct_ok {
        assert!(auth_signer && recv_w && pta_w && dta_w && lock_w);
        assert!(pos_owner == program_id && pos_d[..8] == *Position::DISCRIMINATOR);
        assert!(pda::derived(&pos_key, b"position", &mint_key.to_bytes(), None, &program_id));
        assert!(is_token_program(&mint_owner) && mint_key.to_bytes() == f32b(&pos_d, 40));
        assert!(is_token_program(&pta_owner) && pt.mint == f32b(&pos_d, 40) && pt.amount == 1);
        assert!(is_token_program(&dta_owner) && dt.mint == f32b(&pos_d, 40) && dta_key != pta_key);
        assert!(lock_owner == program_id && lock_d[..8] == *LockConfig::DISCRIMINATOR);
        assert!(f32b(&lock_d, 8) == pos_key.to_bytes());
        assert!(tp_key == token22_id() && tp_exec);
    }
    core::mem::forget(r);
}

/// swap (v1): struct only (the handler starts with `Clock::get`; tick arrays and the oracle *content* are validated there by
/// `SparseSwapTickSequenceBuilder::try_build` / `OracleAccessor::new`). Ok => token program id, authority signed, whirlpool
/// program-owned and writable, owner-account mints == pool mints, vault keys == pool vaults, all four owned by the Token
/// program, the three tick arrays writable, oracle key == PDA of ["oracle", whirlpool.key] under the program id.
// @verif prop=C04,C15 tier=thorough timeout=1800 large
#[kani::proof]
#[kani::unwind(34)]
#[kani::stub(alloc::fmt::format, stub_format)]
#[kani::stub(anchor_lang::error::Error::with_account_name, stub_with_account_name)]
#[kani::stub(<anchor_lang::prelude::Pubkey as core::fmt::Display>::fmt, stub_pubkey_display)]
#[kani::stub(<anchor_lang::error::Error as core::convert::From<::whirlpool::errors::ErrorCode>>::from, stub_err_from_code)]
#[kani::stub(<anchor_lang::error::Error as core::convert::From<anchor_lang::error::ErrorCode>>::from, stub_err_from_anchor_code)]
#[kani::stub(anchor_lang::prelude::Pubkey::find_program_address, pda::stub_find_program_address)]
fn c15_swap_accounts() {
    let program_id = ::whirlpool::ID;
    let mut tp = any_plain();
    let mut auth = any_plain();
    let mut wp = any_data::<653>();
    let (oa, va, ob, vb) = (any_token_lite(), any_token_lite(), any_token_lite(), any_token_lite());
    let mut oa_a = Acc::any_with(oa.d);
    let mut va_a = Acc::any_with(va.d);
    let mut ob_a = Acc::any_with(ob.d);
    let mut vb_a = Acc::any_with(vb.d);
    let (mut t0, mut t1, mut t2, mut orc) = (any_plain(), any_plain(), any_plain(), any_plain());
    let (tp_key, tp_exec) = (tp.key, tp.exec);
    let auth_signer = auth.signer;
    let (wp_key, wp_owner, wp_d, wp_w) = (wp.key, wp.owner, wp.data, wp.writable);
    let (oa_owner, va_key, va_owner) = (oa_a.owner, va_a.key, va_a.owner);
    let (ob_owner, vb_key, vb_owner) = (ob_a.owner, vb_a.key, vb_a.owner);
    let (t0_w, t1_w, t2_w, orc_key) = (t0.writable, t1.writable, t2.writable, orc.key);
    let accounts = [tp.ai(), auth.ai(), wp.ai(), oa_a.ai(), va_a.ai(), ob_a.ai(), vb_a.ai(), t0.ai(), t1.ai(), t2.ai(), orc.ai()];
    let (r, _bumps) = run_try_accounts!(::whirlpool::instructions::Swap, &program_id, accounts, &[]);
    kani::cover!(r.is_ok(), "ok");
    if r.is_ok() {
        assert!(tp_key == token_id() && tp_exec && auth_signer);
        assert!(wp_owner == program_id && wp_w && wp_d[..8] == *Whirlpool::DISCRIMINATOR);
        assert!(oa_owner == token_id() && va_owner == token_id() && ob_owner == token_id() && vb_owner == token_id());
        assert!(oa.mint == f32b(&wp_d, WP_MINT_A) && ob.mint == f32b(&wp_d, WP_MINT_B));
        assert!(va_key.to_bytes() == f32b(&wp_d, WP_VAULT_A) && vb_key.to_bytes() == f32b(&wp_d, WP_VAULT_B));
        assert!(t0_w && t1_w && t2_w);
        assert!(pda::derived(&orc_key, b"oracle", &wp_key.to_bytes(), None, &program_id));
    }
    core::mem::forget(r);
}

/// swap_v2: struct only. Ok => as `c15_swap_accounts` with Token / Token-2022: mint account keys == pool mints, mints owned by
/// a token program, token_program_a/b.key == owner of mint a/b (and executable), memo program id, oracle PDA and writable.
// @verif prop=C04,C15 tier=thorough timeout=1800 large
#[kani::proof]
#[kani::unwind(34)]
#[kani::stub(alloc::fmt::format, stub_format)]
#[kani::stub(anchor_lang::error::Error::with_account_name, stub_with_account_name)]
#[kani::stub(<anchor_lang::prelude::Pubkey as core::fmt::Display>::fmt, stub_pubkey_display)]
#[kani::stub(<anchor_lang::error::Error as core::convert::From<::whirlpool::errors::ErrorCode>>::from, stub_err_from_code)]
#[kani::stub(<anchor_lang::error::Error as core::convert::From<anchor_lang::error::ErrorCode>>::from, stub_err_from_anchor_code)]
#[kani::stub(anchor_lang::prelude::Pubkey::find_program_address, pda::stub_find_program_address)]
fn c15_swap_v2_accounts() {
    let program_id = ::whirlpool::ID;
    let (mut tpa, mut tpb, mut memo, mut auth) = (any_plain(), any_plain(), any_plain(), any_plain());
    let mut wp = any_data::<653>();
    let mut ma = Acc::any_with(any_mint());
    let mut mb = Acc::any_with(any_mint());
    let (oa, va, ob, vb) = (any_token_lite(), any_token_lite(), any_token_lite(), any_token_lite());
    let mut oa_a = Acc::any_with(oa.d);
    let mut va_a = Acc::any_with(va.d);
    let mut ob_a = Acc::any_with(ob.d);
    let mut vb_a = Acc::any_with(vb.d);
    let (mut t0, mut t1, mut t2, mut orc) = (any_plain(), any_plain(), any_plain(), any_plain());
    let (tpa_key, tpa_exec, tpb_key, tpb_exec) = (tpa.key, tpa.exec, tpb.key, tpb.exec);
    let (memo_key, memo_exec, auth_signer) = (memo.key, memo.exec, auth.signer);
    let (wp_key, wp_owner, wp_d, wp_w) = (wp.key, wp.owner, wp.data, wp.writable);
    let (ma_key, ma_owner, mb_key, mb_owner) = (ma.key, ma.owner, mb.key, mb.owner);
    let (oa_owner, va_key, va_owner) = (oa_a.owner, va_a.key, va_a.owner);
    let (ob_owner, vb_key, vb_owner) = (ob_a.owner, vb_a.key, vb_a.owner);
    let (t0_w, t1_w, t2_w, orc_key, orc_w) = (t0.writable, t1.writable, t2.writable, orc.key, orc.writable);
    let accounts = [tpa.ai(), tpb.ai(), memo.ai(), auth.ai(), wp.ai(), ma.ai(), mb.ai(), oa_a.ai(), va_a.ai(), ob_a.ai(), vb_a.ai(),
        t0.ai(), t1.ai(), t2.ai(), orc.ai()];
    let (r, _bumps) = run_try_accounts!(::whirlpool::instructions::v2::SwapV2, &program_id, accounts, &[]);
    kani::cover!(r.is_ok(), "ok");
    if r.is_ok() {
        assert!(auth_signer);
        assert!(wp_owner == program_id && wp_w && wp_d[..8] == *Whirlpool::DISCRIMINATOR);
        assert!(ma_key.to_bytes() == f32b(&wp_d, WP_MINT_A) && mb_key.to_bytes() == f32b(&wp_d, WP_MINT_B));
        assert!(is_token_program(&ma_owner) && is_token_program(&mb_owner));
        assert!(tpa_key == ma_owner && tpb_key == mb_owner && tpa_exec && tpb_exec);
        assert!(memo_key == memo_id() && memo_exec);
        assert!(is_token_program(&oa_owner) && is_token_program(&va_owner) && is_token_program(&ob_owner) && is_token_program(&vb_owner));
        assert!(oa.mint == f32b(&wp_d, WP_MINT_A) && ob.mint == f32b(&wp_d, WP_MINT_B));
        assert!(va_key.to_bytes() == f32b(&wp_d, WP_VAULT_A) && vb_key.to_bytes() == f32b(&wp_d, WP_VAULT_B));
        assert!(t0_w && t1_w && t2_w && orc_w);
        assert!(pda::derived(&orc_key, b"oracle", &wp_key.to_bytes(), None, &program_id));
    }
    core::mem::forget(r);
}

/// recorded arguments of the stubbed v2 vault->owner transfers: (mint, vault, destination, token program) keys
type Rec4 = ([u8; 32], [u8; 32], [u8; 32], [u8; 32]);
static mut XFER2_N: usize = 0;
static mut XFER2_0: Rec4 = ([0; 32], [0; 32], [0; 32], [0; 32]);
static mut XFER2_1: Rec4 = ([0; 32], [0; 32], [0; 32], [0; 32]);
fn stub_transfer_from_vault_to_owner_v2<'info>(
    _whirlpool: &Account<'info, Whirlpool>,
    token_mint: &InterfaceAccount<'info, anchor_spl::token_interface::Mint>,
    token_vault: &InterfaceAccount<'info, anchor_spl::token_interface::TokenAccount>,
    token_owner_account: &InterfaceAccount<'info, anchor_spl::token_interface::TokenAccount>,
    token_program: &Interface<'info, anchor_spl::token_interface::TokenInterface>,
    _memo_program: &Program<'info, anchor_spl::memo::Memo>,
    _transfer_hook_accounts: &Option<Vec<AccountInfo<'info>>>,
    _amount: u64,
    _memo: &[u8],
) -> Result<()> {
    let rec = (token_mint.key().to_bytes(), token_vault.key().to_bytes(), token_owner_account.key().to_bytes(), token_program.key().to_bytes());
    unsafe {
        if XFER2_N == 0 {
            XFER2_0 = rec;
        } else if XFER2_N == 1 {
            XFER2_1 = rec;
        }
        XFER2_N += 1;
    }
    Ok(())
}

/// collect_reward_v2, accounts struct (struct + handler ran out of memory at 22 GB), `reward_index` symbolic in 0..3
/// (>= 3: array-bound panic = abort). Ok => clauses of `c15_collect_reward_accounts` in Token/Token-2022 form plus
/// reward_mint.key == reward_infos[i].mint, reward_token_program.key == owner of reward_mint, memo program id.
// @verif prop=C04,C15 tier=thorough timeout=2400 large
#[kani::proof]
#[kani::unwind(34)]
#[kani::stub(alloc::fmt::format, stub_format)]
#[kani::stub(anchor_lang::error::Error::with_account_name, stub_with_account_name)]
#[kani::stub(<anchor_lang::prelude::Pubkey as core::fmt::Display>::fmt, stub_pubkey_display)]
#[kani::stub(<anchor_lang::error::Error as core::convert::From<::whirlpool::errors::ErrorCode>>::from, stub_err_from_code)]
#[kani::stub(<anchor_lang::error::Error as core::convert::From<anchor_lang::error::ErrorCode>>::from, stub_err_from_anchor_code)]
fn c15_collect_reward_v2_accounts() {
    let program_id = ::whirlpool::ID;
    let reward_index: u8 = kani::any();
    kani::assume(reward_index < 3);
    let mut wp = any_data::<653>();
    let mut auth = any_plain();
    let mut pos = any_data::<216>();
    let pt = any_token();
    let mut pta = Acc::any_with(pt.d);
    let (ro, rv) = (any_token_lite(), any_token_lite());
    let mut ro_a = Acc::any_with(ro.d);
    let mut rm = Acc::any_with(any_mint());
    let mut rv_a = Acc::any_with(rv.d);
    let (mut tp, mut memo) = (any_plain(), any_plain());
    let (wp_key, wp_owner, wp_d) = (wp.key, wp.owner, wp.data);
    let (auth_key, auth_signer) = (auth.key, auth.signer);
    let (pos_owner, pos_d, pos_w) = (pos.owner, pos.data, pos.writable);
    let pta_owner = pta.owner;
    let (ro_key, ro_owner, rm_key, rm_owner, rv_key, rv_owner) = (ro_a.key, ro_a.owner, rm.key, rm.owner, rv_a.key, rv_a.owner);
    let (tp_key, tp_exec, memo_key, memo_exec) = (tp.key, tp.exec, memo.key, memo.exec);
    let accounts = [wp.ai(), auth.ai(), pos.ai(), pta.ai(), ro_a.ai(), rm.ai(), rv_a.ai(), tp.ai(), memo.ai()];
    let ix = [reward_index];
    let (r, _bumps) = run_try_accounts!(::whirlpool::instructions::v2::CollectRewardV2, &program_id, accounts, &ix);
    let struct_ok = r.is_ok();
    kani::cover!(struct_ok, "ok");
    let ri = WP_REWARDS + 128 * reward_index as usize;
    if struct_ok {
        assert!(wp_owner == program_id && pos_owner == program_id && pos_w && auth_signer);
        assert!(wp_d[..8] == *Whirlpool::DISCRIMINATOR && pos_d[..8] == *Position::DISCRIMINATOR);
        assert!(f32b(&pos_d, 8) == wp_key.to_bytes());
        assert!(is_token_program(&pta_owner) && pt.mint == f32b(&pos_d, 40) && pt.amount == 1);
        assert!(is_token_program(&ro_owner) && is_token_program(&rv_owner) && is_token_program(&rm_owner));
        assert!(ro.mint == f32b(&wp_d, ri) && rm_key.to_bytes() == f32b(&wp_d, ri));
        assert!(rv_key.to_bytes() == f32b(&wp_d, ri + 32));
        assert!(tp_key == rm_owner && tp_exec);
        assert!(memo_key == memo_id() && memo_exec);
    }
    core::mem::forget(r);
}

/// collect_protocol_fees_v2: struct + real handler with no remaining accounts (token CPI stubbed). handler Ok <=> struct Ok =>
/// clauses of `c15_collect_protocol_fees` in Token/Token-2022 form plus mint keys == pool mints, token_program_a/b.key ==
/// owner of mint a/b, memo program id; transfers pair (mint, vault, destination, program) per side.
// @verif prop=C04,C15 tier=thorough timeout=2400 large
#[kani::proof]
#[kani::unwind(34)]
#[kani::stub(alloc::fmt::format, stub_format)]
#[kani::stub(anchor_lang::error::Error::with_account_name, stub_with_account_name)]
#[kani::stub(<anchor_lang::prelude::Pubkey as core::fmt::Display>::fmt, stub_pubkey_display)]
#[kani::stub(<anchor_lang::error::Error as core::convert::From<::whirlpool::errors::ErrorCode>>::from, stub_err_from_code)]
#[kani::stub(<anchor_lang::error::Error as core::convert::From<anchor_lang::error::ErrorCode>>::from, stub_err_from_anchor_code)]
#[kani::stub(::whirlpool::util::transfer_from_vault_to_owner_v2, stub_transfer_from_vault_to_owner_v2)]
fn c15_collect_protocol_fees_v2() {
    let program_id = ::whirlpool::ID;
    let mut cfg = any_data::<108>();
    let mut wp = any_data::<653>();
    let mut auth = any_plain();
    let mut ma = Acc::any_with(any_mint());
    let mut mb = Acc::any_with(any_mint());
    let (va, vb, da, db) = (any_token_lite(), any_token_lite(), any_token_lite(), any_token_lite());
    let mut va_a = Acc::any_with(va.d);
    let mut vb_a = Acc::any_with(vb.d);
    let mut da_a = Acc::any_with(da.d);
    let mut db_a = Acc::any_with(db.d);
    let (mut tpa, mut tpb, mut memo) = (any_plain(), any_plain(), any_plain());
    let (cfg_key, cfg_owner, cfg_d) = (cfg.key, cfg.owner, cfg.data);
    let (wp_owner, wp_d, wp_w) = (wp.owner, wp.data, wp.writable);
    let (auth_key, auth_signer) = (auth.key, auth.signer);
    let (ma_key, ma_owner, mb_key, mb_owner) = (ma.key, ma.owner, mb.key, mb.owner);
    let (va_key, va_owner, vb_key, vb_owner) = (va_a.key, va_a.owner, vb_a.key, vb_a.owner);
    let (da_key, da_owner, db_key, db_owner) = (da_a.key, da_a.owner, db_a.key, db_a.owner);
    let (tpa_key, tpa_exec, tpb_key, tpb_exec, memo_key, memo_exec) = (tpa.key, tpa.exec, tpb.key, tpb.exec, memo.key, memo.exec);
    let accounts = [cfg.ai(), wp.ai(), auth.ai(), ma.ai(), mb.ai(), va_a.ai(), vb_a.ai(), da_a.ai(), db_a.ai(), tpa.ai(), tpb.ai(), memo.ai()];
    let (r, bumps) = run_try_accounts!(::whirlpool::instructions::v2::CollectProtocolFeesV2, &program_id, accounts, &[]);
    let struct_ok = r.is_ok();
    let handler_ok = run_handler!(r, bumps, &program_id, |ctx| ::whirlpool::instructions::v2::collect_protocol_fees::handler(ctx, None));
    kani::cover!(handler_ok, "handler reaches both transfers");
    assert!(handler_ok == struct_ok);
    if struct_ok {
        assert!(cfg_owner == program_id && wp_owner == program_id && wp_w);
        assert!(cfg_d[..8] == *WhirlpoolsConfig::DISCRIMINATOR && wp_d[..8] == *Whirlpool::DISCRIMINATOR);
        assert!(f32b(&wp_d, WP_CONFIG) == cfg_key.to_bytes());
        assert!(auth_signer && auth_key.to_bytes() == f32b(&cfg_d, 40));
        assert!(ma_key.to_bytes() == f32b(&wp_d, WP_MINT_A) && mb_key.to_bytes() == f32b(&wp_d, WP_MINT_B));
        assert!(is_token_program(&ma_owner) && is_token_program(&mb_owner));
        assert!(tpa_key == ma_owner && tpb_key == mb_owner && tpa_exec && tpb_exec);
        assert!(memo_key == memo_id() && memo_exec);
        assert!(is_token_program(&va_owner) && is_token_program(&vb_owner) && is_token_program(&da_owner) && is_token_program(&db_owner));
        assert!(va_key.to_bytes() == f32b(&wp_d, WP_VAULT_A) && vb_key.to_bytes() == f32b(&wp_d, WP_VAULT_B));
        assert!(da.mint == f32b(&wp_d, WP_MINT_A) && db.mint == f32b(&wp_d, WP_MINT_B));
        unsafe {
            assert!(XFER2_N == 2);
            assert!(XFER2_0 == (ma_key.to_bytes(), va_key.to_bytes(), da_key.to_bytes(), tpa_key.to_bytes()));
            assert!(XFER2_1 == (mb_key.to_bytes(), vb_key.to_bytes(), db_key.to_bytes(), tpb_key.to_bytes()));
        }
    }
}

fn stub_collect_rent_for_ticks_in_position<'info>(
    _funder: &Signer<'info>,
    _position: &Account<'info, Position>,
    _system_program: &Program<'info, System>,
) -> Result<()> {
    unsafe { REACHED = true; }
    Err(stub_err())
}

/// open_bundled_position, handler prefix on typed accounts: the accounts struct is built field by field with the `try_from`
/// conversions of the generated code; the struct's own constraints, including the `init` of bundled_position, are NOT
/// exercised (running `OpenBundledPosition::try_accounts` with the System-program CPIs stubbed produced spurious
/// allocator-model failures in CBMC and was dropped); the bundled position is stood in for by an arbitrary Position account. Symbolic: bundle token account, authority,
/// whirlpool, position bundle, arguments. rent-transfer CPI (stubbed) reached => bundle authority signed /\ authority rule on
/// the bundle token account (owner or one-token delegate).
// @verif prop=C04 tier=thorough timeout=1800 large
#[kani::proof]
#[kani::unwind(34)]
#[kani::stub(alloc::fmt::format, stub_format)]
#[kani::stub(anchor_lang::error::Error::with_account_name, stub_with_account_name)]
#[kani::stub(<anchor_lang::prelude::Pubkey as core::fmt::Display>::fmt, stub_pubkey_display)]
#[kani::stub(<anchor_lang::error::Error as core::convert::From<::whirlpool::errors::ErrorCode>>::from, stub_err_from_code)]
#[kani::stub(<anchor_lang::error::Error as core::convert::From<anchor_lang::error::ErrorCode>>::from, stub_err_from_anchor_code)]
#[kani::stub(::whirlpool::manager::tick_array_manager::collect_rent_for_ticks_in_position, stub_collect_rent_for_ticks_in_position)]
fn c15_open_bundled_position_handler() {
    use ::whirlpool::instructions::OpenBundledPosition;
    let program_id = ::whirlpool::ID;
    let bundle_index: u16 = kani::any();
    let lo: i32 = kani::any();
    let hi: i32 = kani::any();
    let mut pos = any_data::<216>();
    let mut bundle = any_data::<136>();
    let bt = any_token();
    let mut bta = Acc::any_with(bt.d);
    let mut auth = any_plain();
    let mut wp = any_data::<653>();
    let mut funder = any_plain();
    let mut sys = any_plain();
    let mut rent = Acc::any_with([0u8; 17]);
    let (auth_key, auth_signer) = (auth.key, auth.signer);
    let a = [pos.ai(), bundle.ai(), bta.ai(), auth.ai(), wp.ai(), funder.ai(), sys.ai(), rent.ai()];
    let built = (|| -> Result<OpenBundledPosition> {
        Ok(OpenBundledPosition {
            bundled_position: Box::new(Account::try_from(&a[0])?),
            position_bundle: Box::new(Account::try_from(&a[1])?),
            position_bundle_token_account: Box::new(Account::try_from(&a[2])?),
            position_bundle_authority: Signer::try_from(&a[3])?,
            whirlpool: Box::new(Account::try_from(&a[4])?),
            funder: Signer::try_from(&a[5])?,
            system_program: Program::try_from(&a[6])?,
            rent: Sysvar::from_account_info(&a[7])?,
        })
    })();
    let built_ok = built.is_ok();
    let bumps = <OpenBundledPosition as anchor_lang::Bumps>::Bumps::default();
    let handler_ok = run_handler!(built, bumps, &program_id, |ctx| ::whirlpool::instructions::open_bundled_position::handler(ctx, bundle_index, lo, hi));
    let reached = unsafe { REACHED };
    kani::cover!(reached, "rent transfer reached");
    kani::cover!(built_ok && !reached, "typed accounts, handler rejects");
    assert!(!handler_ok);
    if reached {
        assert!(built_ok && auth_signer);
        assert!(bt.authority_rule(&auth_key) && bt.holder_or_one_token_delegate(&auth_key));
    }
}

static mut GROWTHS_REACHED: bool = false;
fn stub_calculate_fee_and_reward_growths(
    _whirlpool: &Whirlpool,
    _position: &Position,
    _lower: &dyn ::whirlpool::state::TickArrayType,
    _upper: &dyn ::whirlpool::state::TickArrayType,
    _timestamp: u64,
) -> Result<(::whirlpool::state::PositionUpdate, [::whirlpool::state::WhirlpoolRewardInfo; 3])> {
    unsafe { GROWTHS_REACHED = true; }
    Err(stub_err())
}
fn stub_clock_get_ok() -> core::result::Result<Clock, anchor_lang::solana_program::program_error::ProgramError> {
    let mut c = Clock::default();
    c.unix_timestamp = kani::any();
    Ok(c)
}

/// update_fees_and_rewards, handler part: struct + real handler with `Clock::get` returning an arbitrary clock, up to the
/// growth computation (stubbed). tick_array_lower is a 9988-byte buffer (the only size `bytemuck::from_bytes` accepts for a
/// fixed array; a wrong size panics = abort) whose discriminator is any value except the dynamic one; tick_array_upper is a
/// 10012-byte buffer whose discriminator is any value except the fixed one (`DynamicTickArrayLoader::load` casts the data to
/// a `[u8; MAX_LEN]` reference without a size check; CBMC flags the cast on a shorter buffer, which is not what this harness
/// is about). Key, owner, discriminator and the whirlpool back-reference (fixed: bytes 9956..9988, dynamic: bytes 12..44)
/// are symbolic, all other tick bytes concrete zero (not read before the stub). computation reached => both tick arrays are
/// program-owned, lower carries the fixed and upper the dynamic discriminator, and their whirlpool field == the pool key;
/// position.whirlpool == pool key.
// @verif prop=C15 tier=thorough timeout=1200
#[kani::proof]
#[kani::unwind(34)]
#[kani::stub(alloc::fmt::format, stub_format)]
#[kani::stub(anchor_lang::error::Error::with_account_name, stub_with_account_name)]
#[kani::stub(<anchor_lang::prelude::Pubkey as core::fmt::Display>::fmt, stub_pubkey_display)]
#[kani::stub(<anchor_lang::error::Error as core::convert::From<::whirlpool::errors::ErrorCode>>::from, stub_err_from_code)]
#[kani::stub(<anchor_lang::error::Error as core::convert::From<anchor_lang::error::ErrorCode>>::from, stub_err_from_anchor_code)]
#[kani::stub(<anchor_lang::prelude::Clock as anchor_lang::solana_program::sysvar::Sysvar>::get, stub_clock_get_ok)]
#[kani::stub(::whirlpool::manager::liquidity_manager::calculate_fee_and_reward_growths, stub_calculate_fee_and_reward_growths)]
fn c15_update_fees_and_rewards_handler() {
    use ::whirlpool::state::{DynamicTickArray, FixedTickArray};
    let program_id = ::whirlpool::ID;
    let mut wp = any_data::<653>();
    let mut pos = any_data::<216>();
    let mut ld = [0u8; 9988];
    let l_disc: [u8; 8] = kani::any();
    let l_wp: [u8; 32] = kani::any();
    kani::assume(l_disc != *DynamicTickArray::DISCRIMINATOR);
    ld[..8].copy_from_slice(&l_disc);
    ld[9956..9988].copy_from_slice(&l_wp);
    let mut ud = [0u8; 10012];
    let u_disc: [u8; 8] = kani::any();
    let u_wp: [u8; 32] = kani::any();
    kani::assume(u_disc != *FixedTickArray::DISCRIMINATOR);
    ud[..8].copy_from_slice(&u_disc);
    ud[12..44].copy_from_slice(&u_wp);
    let mut tl = Acc::any_with(ld);
    let mut tu = Acc::any_with(ud);
    let (wp_key, pos_d) = (wp.key, pos.data);
    let (tl_owner, tu_owner) = (tl.owner, tu.owner);
    let accounts = [wp.ai(), pos.ai(), tl.ai(), tu.ai()];
    let (r, bumps) = run_try_accounts!(::whirlpool::instructions::UpdateFeesAndRewards, &program_id, accounts, &[]);
    let handler_ok = run_handler!(r, bumps, &program_id, |ctx| ::whirlpool::instructions::update_fees_and_rewards::handler(ctx));
    let reached = unsafe { GROWTHS_REACHED };
    kani::cover!(reached, "growth computation reached");
    assert!(!handler_ok);
    if reached {
        assert!(f32b(&pos_d, 8) == wp_key.to_bytes());
        assert!(tl_owner == program_id && tu_owner == program_id);
        assert!(l_disc == *FixedTickArray::DISCRIMINATOR && u_disc == *DynamicTickArray::DISCRIMINATOR);
        assert!(l_wp == wp_key.to_bytes() && u_wp == wp_key.to_bytes());
    }
}

/// collect_fees_v2: struct + real handler with no remaining accounts (token CPI stubbed). handler Ok => every clause of
/// `c15_collect_fees` in its Token/Token-2022 form, plus mint account keys == pool mints, token_program_a/b.key == owner of
/// mint a/b, memo program id; transfers are (mint_a, vault_a -> owner_a, program_a), (mint_b, vault_b -> owner_b, program_b).
// @verif prop=C04,C15 tier=thorough timeout=3000 large
#[kani::proof]
#[kani::unwind(34)]
#[kani::stub(alloc::fmt::format, stub_format)]
#[kani::stub(anchor_lang::error::Error::with_account_name, stub_with_account_name)]
#[kani::stub(<anchor_lang::prelude::Pubkey as core::fmt::Display>::fmt, stub_pubkey_display)]
#[kani::stub(<anchor_lang::error::Error as core::convert::From<::whirlpool::errors::ErrorCode>>::from, stub_err_from_code)]
#[kani::stub(<anchor_lang::error::Error as core::convert::From<anchor_lang::error::ErrorCode>>::from, stub_err_from_anchor_code)]
#[kani::stub(::whirlpool::util::transfer_from_vault_to_owner_v2, stub_transfer_from_vault_to_owner_v2)]
fn c15_collect_fees_v2() {
    let program_id = ::whirlpool::ID;
    let mut wp = any_data::<653>();
    let mut auth = any_plain();
    let mut pos = any_data::<216>();
    let pt = any_token();
    let mut pta = Acc::any_with(pt.d);
    let mut ma = Acc::any_with(any_mint());
    let mut mb = Acc::any_with(any_mint());
    let (oa, va, ob, vb) = (any_token_lite(), any_token_lite(), any_token_lite(), any_token_lite());
    let mut oa_a = Acc::any_with(oa.d);
    let mut va_a = Acc::any_with(va.d);
    let mut ob_a = Acc::any_with(ob.d);
    let mut vb_a = Acc::any_with(vb.d);
    let (mut tpa, mut tpb, mut memo) = (any_plain(), any_plain(), any_plain());
    let (wp_key, wp_owner, wp_d) = (wp.key, wp.owner, wp.data);
    let (auth_key, auth_signer) = (auth.key, auth.signer);
    let (pos_owner, pos_d, pos_w) = (pos.owner, pos.data, pos.writable);
    let pta_owner = pta.owner;
    let (ma_key, ma_owner, mb_key, mb_owner) = (ma.key, ma.owner, mb.key, mb.owner);
    let (oa_key, oa_owner, va_key, va_owner) = (oa_a.key, oa_a.owner, va_a.key, va_a.owner);
    let (ob_key, ob_owner, vb_key, vb_owner) = (ob_a.key, ob_a.owner, vb_a.key, vb_a.owner);
    let (tpa_key, tpa_exec, tpb_key, tpb_exec, memo_key, memo_exec) = (tpa.key, tpa.exec, tpb.key, tpb.exec, memo.key, memo.exec);
    let accounts = [wp.ai(), auth.ai(), pos.ai(), pta.ai(), ma.ai(), mb.ai(), oa_a.ai(), va_a.ai(), ob_a.ai(), vb_a.ai(), tpa.ai(), tpb.ai(), memo.ai()];
    let (r, bumps) = run_try_accounts!(::whirlpool::instructions::v2::CollectFeesV2, &program_id, accounts, &[]);
    let struct_ok = r.is_ok();
    let handler_ok = run_handler!(r, bumps, &program_id, |ctx| ::whirlpool::instructions::v2::collect_fees::handler(ctx, None));
    kani::cover!(handler_ok, "handler reaches both transfers");
    kani::cover!(struct_ok && !handler_ok, "struct ok, authority rejected");
    if struct_ok {
        assert!(wp_owner == program_id && pos_owner == program_id && pos_w && auth_signer);
        assert!(wp_d[..8] == *Whirlpool::DISCRIMINATOR && pos_d[..8] == *Position::DISCRIMINATOR);
        assert!(f32b(&pos_d, 8) == wp_key.to_bytes());
        assert!(is_token_program(&pta_owner) && pt.mint == f32b(&pos_d, 40) && pt.amount == 1);
        assert!(ma_key.to_bytes() == f32b(&wp_d, WP_MINT_A) && mb_key.to_bytes() == f32b(&wp_d, WP_MINT_B));
        assert!(is_token_program(&ma_owner) && is_token_program(&mb_owner));
        assert!(tpa_key == ma_owner && tpb_key == mb_owner && tpa_exec && tpb_exec);
        assert!(memo_key == memo_id() && memo_exec);
        assert!(is_token_program(&oa_owner) && is_token_program(&va_owner) && is_token_program(&ob_owner) && is_token_program(&vb_owner));
        assert!(oa.mint == f32b(&wp_d, WP_MINT_A) && ob.mint == f32b(&wp_d, WP_MINT_B));
        assert!(va_key.to_bytes() == f32b(&wp_d, WP_VAULT_A) && vb_key.to_bytes() == f32b(&wp_d, WP_VAULT_B));
    }
    if handler_ok {
        assert!(struct_ok);
        assert!(pt.authority_rule(&auth_key) && pt.holder_or_one_token_delegate(&auth_key));
        unsafe {
            assert!(XFER2_N == 2);
            assert!(XFER2_0 == (ma_key.to_bytes(), va_key.to_bytes(), oa_key.to_bytes(), tpa_key.to_bytes()));
            assert!(XFER2_1 == (mb_key.to_bytes(), vb_key.to_bytes(), ob_key.to_bytes(), tpb_key.to_bytes()));
        }
    }
}

/// vacuity twin: must FAIL — a pool with one of its positions is accepted by update_fees_and_rewards, so "never Ok" is refuted
// @verif prop=C15 tier=quick timeout=600 twin
#[kani::proof]
#[kani::unwind(34)]
#[kani::stub(alloc::fmt::format, stub_format)]
#[kani::stub(anchor_lang::error::Error::with_account_name, stub_with_account_name)]
#[kani::stub(<anchor_lang::prelude::Pubkey as core::fmt::Display>::fmt, stub_pubkey_display)]
#[kani::stub(<anchor_lang::error::Error as core::convert::From<::whirlpool::errors::ErrorCode>>::from, stub_err_from_code)]
#[kani::stub(<anchor_lang::error::Error as core::convert::From<anchor_lang::error::ErrorCode>>::from, stub_err_from_anchor_code)]
fn c15_twin_must_fail() {
    let program_id = ::whirlpool::ID;
    let mut wp = any_data::<653>();
    let mut pos = any_data::<216>();
    let mut tl = any_plain();
    let mut tu = any_plain();
    let accounts = [wp.ai(), pos.ai(), tl.ai(), tu.ai()];
    let (r, _bumps) = run_try_accounts!(::whirlpool::instructions::UpdateFeesAndRewards, &program_id, accounts, &[]);
    let ok = r.is_ok();
    core::mem::forget(r);
    assert!(!ok, "twin: a position of this pool with its pool must be accepted");
}
