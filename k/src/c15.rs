//! C15 harnesses (Engine K)
